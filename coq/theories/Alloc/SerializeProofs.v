(* C06 - the hibernation file: what Serialize writes, Deserialize reads back; every strict prefix of
   the file is rejected; Hibernate + Serialize + Deserialize + Boot restores the arena. *)
From Coq Require Import List NArith ZArith Bool Lia Sorted.
From Herc Require Import Alloc.Varint Alloc.Model Alloc.Serialize Alloc.Proofs Alloc.Hibernate.
Import ListNotations.

Definition len_ok (d : option (list N)) : Prop := (N.of_nat (length (buf_bytes d)) < 2 ^ 63)%N.

Lemma read_buf_ok : forall d rest, read_buf (N.of_nat (length d)) (d ++ rest) = RBok d rest.
Proof.
  intros d rest. unfold read_buf. destruct d as [|a d'].
  - reflexivity.
  - assert (E : (N.of_nat (length (a :: d')) =? 0)%N = false) by (apply N.eqb_neq; cbn [length]; lia).
    rewrite E. cbn [app].
    assert (E2 : (N.of_nat (length (a :: (d' ++ rest))) <? N.of_nat (length (a :: d')))%N = false).
    { apply N.ltb_ge. cbn [length]. rewrite app_length. lia. }
    rewrite E2. rewrite Nat2N.id.
    change (a :: d' ++ rest) with ((a :: d') ++ rest).
    rewrite firstn_app, Nat.sub_diag, firstn_all, skipn_app, Nat.sub_diag, skipn_all. cbn [firstn skipn app].
    rewrite app_nil_r. reflexivity.
Qed.

Lemma read_buf_trunc : forall d k, (k < length d)%nat ->
  exists e b, read_buf (N.of_nat (length d)) (firstn k d) = RBerr e b.
Proof.
  intros d k Hk. unfold read_buf.
  assert (E : (N.of_nat (length d) =? 0)%N = false) by (apply N.eqb_neq; lia). rewrite E.
  destruct (firstn k d) as [|x r] eqn:Ef; [eauto|].
  assert (Hl : length (x :: r) = k) by (rewrite <- Ef; apply firstn_length_le; lia).
  assert (E2 : (N.of_nat (length (x :: r)) <? N.of_nat (length d))%N = true) by (apply N.ltb_lt; lia).
  rewrite E2. eauto.
Qed.

Lemma firstn_app_l : forall (A : Type) k (l1 l2 : list A), (k <= length l1)%nat -> firstn k (l1 ++ l2) = firstn k l1.
Proof.
  intros A k l1 l2 H. rewrite firstn_app. replace (k - length l1)%nat with 0%nat by lia.
  cbn [firstn]. apply app_nil_r.
Qed.

Lemma firstn_app_r : forall (A : Type) k (l1 l2 : list A), (length l1 <= k)%nat ->
  firstn k (l1 ++ l2) = l1 ++ firstn (k - length l1) l2.
Proof. intros A k l1 l2 H. rewrite firstn_app, firstn_all2 by exact H. reflexivity. Qed.

Lemma section_ok : forall k d rest, len_ok d ->
  read_sections (S k) (wsection d ++ rest) =
  (let (bs, e) := read_sections k rest in (buf_bytes d :: bs, e)).
Proof.
  intros k d rest Hd. cbn [read_sections]. unfold wsection. rewrite <- app_assoc.
  rewrite varint_roundtrip by exact Hd. rewrite read_buf_ok. reflexivity.
Qed.

Lemma sections_ok : forall hd rest, Forall len_ok hd ->
  read_sections (length hd) (flat_map wsection hd ++ rest) = (map buf_bytes hd, None).
Proof.
  induction hd as [|d hd IH]; intros rest Hall; [reflexivity|].
  inversion Hall as [|? ? Hd Hall']; subst. cbn [length flat_map map]. rewrite <- app_assoc.
  rewrite section_ok by exact Hd. rewrite IH by exact Hall'. reflexivity.
Qed.

Lemma section_trunc : forall k d j, len_ok d -> (j < length (wsection d))%nat ->
  snd (read_sections (S k) (firstn j (wsection d))) <> None.
Proof.
  intros k d j Hd Hj. cbn [read_sections]. unfold wsection in *. rewrite app_length in Hj.
  set (wv := write_varint (N.of_nat (length (buf_bytes d)))) in *.
  destruct (Nat.lt_ge_cases j (length wv)) as [Hlt|Hge].
  - rewrite firstn_app_l by lia. unfold wv. rewrite varint_truncated by exact Hlt. cbn. discriminate.
  - rewrite firstn_app_r by exact Hge. unfold wv at 1. rewrite varint_roundtrip by exact Hd.
    destruct (read_buf_trunc (buf_bytes d) (j - length wv)) as (e & b & Hr); [lia|].
    rewrite Hr. cbn. discriminate.
Qed.

Lemma sections_trunc : forall hd j, Forall len_ok hd -> (j < length (flat_map wsection hd))%nat ->
  snd (read_sections (length hd) (firstn j (flat_map wsection hd))) <> None.
Proof.
  induction hd as [|d hd IH]; intros j Hall Hj; [cbn in Hj; lia|].
  inversion Hall as [|? ? Hd Hall']; subst. cbn [length flat_map] in *. rewrite app_length in Hj.
  destruct (Nat.lt_ge_cases j (length (wsection d))) as [Hlt|Hge].
  - rewrite firstn_app_l by lia. apply section_trunc; assumption.
  - rewrite firstn_app_r by exact Hge. rewrite section_ok by exact Hd.
    specialize (IH (j - length (wsection d))%nat Hall' ltac:(lia)).
    destruct (read_sections (length hd) (firstn (j - length (wsection d)) (flat_map wsection hd))) as [bs e].
    cbn [snd] in *. exact IH.
Qed.

Definition in_range (z : Z) : Prop := (0 <= z < 2 ^ 63)%Z.

Lemma in_range_N : forall z, in_range z -> (Z.to_N z < 2 ^ 63)%N.
Proof. intros z [H0 H1]. change (2 ^ 63)%N with (Z.to_N (2 ^ 63)). apply Z2N.inj_lt; lia. Qed.

Theorem parse_file_roundtrip : forall sl gl hd rest,
  in_range sl -> in_range gl -> length hd = 7%nat -> Forall len_ok hd ->
  parse_file (file_bytes sl gl hd ++ rest) =
  mkparsed (Some (Z.to_N sl)) (Some (Z.to_N gl)) (map buf_bytes hd) None.
Proof.
  intros sl gl hd rest Hs Hg Hlen Hall. unfold parse_file, file_bytes.
  rewrite <- !app_assoc. rewrite varint_roundtrip by (apply in_range_N; exact Hs).
  rewrite varint_roundtrip by (apply in_range_N; exact Hg).
  rewrite <- Hlen. rewrite sections_ok by exact Hall. reflexivity.
Qed.

Theorem parse_file_truncated : forall sl gl hd k,
  in_range sl -> in_range gl -> length hd = 7%nat -> Forall len_ok hd ->
  (k < length (file_bytes sl gl hd))%nat ->
  p_err (parse_file (firstn k (file_bytes sl gl hd))) <> None.
Proof.
  intros sl gl hd k Hs Hg Hlen Hall Hk. unfold parse_file, file_bytes in *.
  set (v1 := write_varint (Z.to_N sl)) in *. set (v2 := write_varint (Z.to_N gl)) in *.
  rewrite !app_length in Hk.
  destruct (Nat.lt_ge_cases k (length v1)) as [H1|H1].
  - rewrite firstn_app_l by lia. unfold v1. rewrite varint_truncated by exact H1. cbn. discriminate.
  - rewrite firstn_app_r by exact H1. unfold v1 at 1. rewrite varint_roundtrip by (apply in_range_N; exact Hs).
    destruct (Nat.lt_ge_cases (k - length v1) (length v2)) as [H2|H2].
    + rewrite firstn_app_l by lia. unfold v2. rewrite varint_truncated by exact H2. cbn. discriminate.
    + rewrite firstn_app_r by exact H2. unfold v2 at 1. rewrite varint_roundtrip by (apply in_range_N; exact Hg).
      pose proof (sections_trunc hd (k - length v1 - length v2)%nat Hall ltac:(lia)) as Ht.
      rewrite Hlen in Ht.
      destruct (read_sections 7 (firstn (k - length v1 - length v2) (flat_map wsection hd))) as [bs e].
      cbn [snd p_err] in *. exact Ht.
Qed.

(* ---------------------------------------------------------------------------------------------
   allocator level *)

Definition file_ok (a : alloc) : Prop :=
  in_range (hslen a) /\ in_range (hglen a) /\ length (hdata a) = 7%nat /\ Forall len_ok (hdata a).

(* what Deserialize leaves in the buffers: nil slices come back as empty ones *)
Definition reread (hd : list (option (list N))) : list (option (list N)) := map (fun d => Some (buf_bytes d)) hd.

Theorem file_roundtrip : forall a, storage a = None -> file_ok a ->
  exists a1 bytes, serialize a = Ok (a1, bytes) /\
    storage a1 = None /\ hdata a1 = repeat None 7 /\ hslen a1 = hslen a /\ hglen a1 = hglen a /\ thr a1 = thr a /\
    forall ax rest, storage ax = None -> length (hdata ax) = 7%nat ->
      deserialize ax (Some (bytes ++ rest)) =
      Ok (mkalloc (thr ax) None (gaps ax) (reread (hdata a)) (hslen a) (hglen a), None).
Proof.
  intros a Hs (Hsl & Hgl & Hlen & Hall). unfold serialize. rewrite Hs. eexists. eexists. split; [reflexivity|].
  cbn [storage hdata hslen hglen thr].
  split; [reflexivity|]. split.
  { destruct (hdata a) as [|d0 [|d1 [|d2 [|d3 [|d4 [|d5 [|d6 [|d7 r]]]]]]]]; cbn in Hlen; try lia. reflexivity. }
  split; [reflexivity|]. split; [reflexivity|]. split; [reflexivity|].
  intros ax rest Hax Hlx. unfold deserialize. rewrite Hax.
  rewrite parse_file_roundtrip by assumption. cbn [p_bufs p_slen p_glen p_err].
  rewrite map_length, Hlen, <- Hlx, skipn_all, app_nil_r.
  destruct Hsl as [Hsl0 _]. destruct Hgl as [Hgl0 _]. rewrite !Z2N.id by assumption.
  unfold reread. rewrite map_map. reflexivity.
Qed.

Theorem file_truncated : forall a, storage a = None -> file_ok a ->
  forall a1 bytes, serialize a = Ok (a1, bytes) ->
  forall k ax, (k < length bytes)%nat -> storage ax = None ->
    exists ax' e, deserialize ax (Some (firstn k bytes)) = Ok (ax', Some e).
Proof.
  intros a Hs (Hsl & Hgl & Hlen & Hall) a1 bytes Hser k ax Hk Hax.
  unfold serialize in Hser. rewrite Hs in Hser. inversion Hser. subst a1 bytes. clear Hser.
  unfold deserialize. rewrite Hax.
  pose proof (parse_file_truncated (hslen a) (hglen a) (hdata a) k Hsl Hgl Hlen Hall Hk) as He.
  destruct (p_err (parse_file (firstn k (file_bytes (hslen a) (hglen a) (hdata a))))) as [e|] eqn:E; [|congruence].
  eexists. exists e. reflexivity.
Qed.

(* a missing or unreadable file: an error, nothing changes *)
Lemma deserialize_nofile : forall a, storage a = None -> deserialize a None = Ok (a, Some EOpen).
Proof. intros a H. unfold deserialize. rewrite H. reflexivity. Qed.

Lemma serialize_awake : forall a s, storage a = Some s -> serialize a = Panic PSerAwake /\ serialize_fail a = Panic PSerAwake.
Proof. intros a s H. unfold serialize, serialize_fail. rewrite H. split; reflexivity. Qed.

Lemma deserialize_awake : forall a s f, storage a = Some s -> deserialize a f = Panic PDeserAwake.
Proof. intros a s f H. unfold deserialize. rewrite H. reflexivity. Qed.

(* ---------------------------------------------------------------------------------------------
   Hibernate, Serialize, Deserialize, Boot *)
Section Disk.
  Variable compress : list N -> list N.
  Variable decompress : list N -> nat -> list N.
  Hypothesis lz4_ok : forall l, l <> [] -> compress l <> [] /\ decompress (compress l) (length l) = l.
  (* a compressed block is a Go slice: its length fits an int64 *)
  Hypothesis lz4_small : forall l, (N.of_nat (length (compress l)) < 2 ^ 63)%N.

  (* the seventh buffer is only rewritten when there are gaps; what is left there from earlier rounds
     is a compressed block too (or nothing), in every reachable state, asleep or awake *)
  Lemma len_ok_small : forall d, len_ok d <-> buf_small d.
  Proof. intros d. unfold len_ok, buf_small, buf_bytes. reflexivity. Qed.

  Lemma malloc_hdata : forall ch a a' id, malloc ch a = Ok (a', id) -> hdata a' = hdata a.
  Proof.
    intros ch a a' id H. unfold malloc in H. destruct (storage a); [|discriminate].
    destruct (gaps a) as [[|g0 g']|];
      try (inversion H; reflexivity);
      (destruct (_ =? _)%N; [discriminate|]; destruct (negb _); [discriminate|]; inversion H; reflexivity).
  Qed.

  Lemma free_hdata : forall n a a', free n a = Ok a' -> hdata a' = hdata a.
  Proof.
    intros n a a' H. unfold free in H. destruct (storage a); [|discriminate].
    destruct (n =? 0)%N; [discriminate|]. destruct (gaps a).
    - destruct (memb n l0); [discriminate|]. destruct (_ <=? _)%N; [discriminate|]. inversion H. reflexivity.
    - destruct (_ <=? _)%N; discriminate.
  Qed.

  Lemma write_hdata : forall n c a a', write_cell n c a = Ok a' -> hdata a' = hdata a.
  Proof.
    intros n c a a' H. unfold write_cell in H. destruct (storage a); [|discriminate].
    destruct (_ <=? _)%N; [discriminate|]. inversion H. reflexivity.
  Qed.

  Lemma hibernate_small6 : forall a a', small6 a -> hibernate compress a = Ok a' -> small6 a'.
  Proof.
    intros a a' H6 H. unfold hibernate in H. destruct (0 <? hslen a)%Z; [discriminate|].
    destruct (Z.of_nat (length (slist a)) <? thr a)%Z; [inversion H; subst; exact H6|].
    destruct (slist a) as [|c s'].
    - inversion H. exact H6.
    - unfold small6, buf_small. destruct (gaps a) as [[|g0 g']|]; inversion H; unfold deinterleave; cbn [hdata map app nth];
        try exact H6; apply lz4_small.
  Qed.

  Lemma boot_small6 : forall a a', small6 a -> boot decompress a = Ok a' -> small6 a'.
  Proof.
    intros a a' H6 H. unfold boot in H.
    destruct (hslen a =? 0)%Z; [inversion H; subst; exact H6|].
    destruct (nth 0 (hdata a) None); [|discriminate].
    destruct (hslen a <? 0)%Z; [discriminate|].
    destruct (all_some (map nonempty_buf (firstn 6 (hdata a)))); [|discriminate].
    destruct (0 <? hglen a)%Z.
    - destruct (nonempty_buf (nth 6 (hdata a) None)); [|discriminate]. inversion H.
      unfold small6, buf_small. cbn. lia.
    - inversion H. unfold small6. cbn [hdata repeat app nth]. exact H6.
  Qed.

  Lemma reachable_small6 : forall w, reachable compress decompress w -> small6 (wa w).
  Proof.
    intros w H. induction H as [|w x _ IH|w c _ IH Hc|w a' _ IH _ _ _ _ _ H6].
    - unfold small6, buf_small. cbn. lia.
    - destruct x as [o ch|o id|o id c|t| |]; cbn [step].
      + destruct (malloc ch (wa w)) as [[a' id]| |] eqn:E; try exact IH. cbn [wa]. unfold small6.
        rewrite (malloc_hdata _ _ _ _ E). exact IH.
      + destruct (owns w o id); [|exact IH]. destruct (free id (wa w)) as [a'| |] eqn:E; try exact IH.
        cbn [wa]. unfold small6. rewrite (free_hdata _ _ _ E). exact IH.
      + destruct (owns w o id); [|exact IH]. destruct (write_cell id c (wa w)) as [a'| |] eqn:E; try exact IH.
        cbn [wa]. unfold small6. rewrite (write_hdata _ _ _ _ E). exact IH.
      + exact IH.
      + destruct (hibernate compress (wa w)) as [a'| |] eqn:E; try exact IH. cbn [wa].
        eapply hibernate_small6; eassumption.
      + destruct (boot decompress (wa w)) as [a'| |] eqn:E; try exact IH. cbn [wa].
        eapply boot_small6; eassumption.
    - unfold clone in Hc. destruct (storage (wa w)); [|discriminate]. inversion Hc.
      unfold small6, buf_small. cbn. lia.
    - assumption.
  Qed.

  Theorem disk_roundtrip : forall w, reachable compress decompress w -> storage (wa w) <> None ->
    (thr (wa w) <= size (wa w))%Z -> (0 < size (wa w))%Z ->
    exists h h1 bytes,
      hibernate compress (wa w) = Ok h /\ storage h = None /\
      serialize h = Ok (h1, bytes) /\
      boot decompress h1 = Panic PBootSerialized /\
      (forall k ax, (k < length bytes)%nat -> storage ax = None ->
         exists ax' e, deserialize ax (Some (firstn k bytes)) = Ok (ax', Some e)) /\
      (forall ax, storage ax = None -> length (hdata ax) = 7%nat ->
         exists h2 a', deserialize ax (Some bytes) = Ok (h2, None) /\
           boot decompress h2 = Ok a' /\
           storage a' = storage (wa w) /\ gaps a' = gaps (wa w) /\ thr a' = thr ax /\
           hslen a' = 0%Z /\ hglen a' = 0%Z /\
           reachable compress decompress (mkworld a' (owned w))).
  Proof.
    intros w Hr Hawake Ht Hpos.
    destruct (reachable_Inv compress decompress lz4_ok w Hr) as [Haw|(Hnone & _)]; [|congruence].
    destruct Haw as (s & g & Hs & Hg & Hhs & Hhg & HA).
    unfold size, slist in Ht, Hpos. rewrite Hs in Ht, Hpos.
    assert (Hne : s <> []) by (destruct s; [cbn in Hpos; lia|discriminate]).
    set (h := hib_state compress (wa w) s g).
    assert (Hh : hibernate compress (wa w) = Ok h) by (apply hibernate_real; try assumption; lia).
    assert (Hlen_s : (N.of_nat (length s) <= max_u32 - 1)%N) by exact (ai_max _ _ _ HA).
    assert (Hlen_g : (length g <= length s)%nat).
    { assert (length s <> 0%nat) by (destruct s; [congruence|cbn; lia]). pose proof (ai_count _ _ _ HA H). lia. }
    assert (Hfile : file_ok h).
    { unfold file_ok, h, hib_state. cbn [hslen hglen hdata]. unfold max_u32 in Hlen_s. split; [|split; [|split]].
      - unfold in_range. lia.
      - unfold in_range. destruct g; [rewrite Hhg; lia|]. lia.
      - rewrite app_length, map_length. reflexivity.
      - apply Forall_app. split.
        + apply Forall_forall. intros d Hd. apply in_map_iff in Hd. destruct Hd as (b & <- & _).
          unfold len_ok. cbn [buf_bytes]. apply lz4_small.
        + constructor; [|constructor]. unfold len_ok. destruct g.
          * apply len_ok_small. exact (reachable_small6 w Hr).
          * cbn [buf_bytes]. apply lz4_small. }
    destruct (file_roundtrip h eq_refl Hfile) as (h1 & bytes & Hser & Hs1 & Hd1 & Hsl1 & Hgl1 & _ & Hdes).
    exists h, h1, bytes. split; [exact Hh|]. split; [reflexivity|]. split; [exact Hser|]. split; [|split].
    - apply refused_boot.
      + rewrite Hsl1. unfold h, hib_state. cbn [hslen]. destruct s; [congruence|cbn [length]; lia].
      + rewrite Hd1. reflexivity.
    - intros k ax Hk Hax. exact (file_truncated h eq_refl Hfile h1 bytes Hser k ax Hk Hax).
    - intros ax Hax Hlx. specialize (Hdes ax [] Hax Hlx). rewrite app_nil_r in Hdes.
      eexists.
      assert (Hre : reread (hdata h) = map (fun b => Some (compress b)) (deinterleave s) ++
                    [Some (buf_bytes (match g with [] => nth 6 (hdata (wa w)) None | _ :: _ => Some (compress g) end))]).
      { unfold reread, h, hib_state. cbn [hdata]. rewrite map_app, map_map. reflexivity. }
      rewrite Hre in Hdes.
      destruct (boot_gen compress decompress lz4_ok (thr ax) (gaps ax) s g
                  (Some (buf_bytes (match g with [] => nth 6 (hdata (wa w)) None | _ :: _ => Some (compress g) end)))
                  (hglen h) Hne (ai_sorted _ _ _ HA)) as (hd & Hb).
      { unfold h, hib_state. cbn [hglen]. destruct g; [exact Hhg|split; reflexivity]. }
      assert (Hb' : boot decompress (mkalloc (thr ax) None (gaps ax)
                       (map (fun b => Some (compress b)) (deinterleave s) ++
                        [Some (buf_bytes (match g with [] => nth 6 (hdata (wa w)) None | _ :: _ => Some (compress g) end))])
                       (hslen h) (hglen h)) = Ok (mkalloc (thr ax) (Some s) (Some g) hd 0 0)).
      { unfold h at 1, hib_state at 1. cbn [hslen]. exact Hb. }
      eexists. split; [exact Hdes|]. split; [exact Hb'|].
      cbn [storage gaps thr hslen hglen]. rewrite Hs, Hg. repeat (split; [reflexivity|]).
      apply r_same; cbn [wa storage gaps hslen hglen]; try assumption; try congruence.
      eapply boot_small6; [|exact Hb'].
      unfold small6. cbn [hdata]. unfold deinterleave. cbn [map app nth]. apply len_ok_small.
      destruct Hfile as (_ & _ & _ & Hall). unfold h, hib_state in Hall. cbn [hdata] in Hall.
      apply Forall_app in Hall. destruct Hall as [_ Hlast]. inversion Hlast as [|? ? Hl _]; subst.
      unfold len_ok in *. cbn [buf_bytes] in *. exact Hl.
  Qed.
End Disk.
