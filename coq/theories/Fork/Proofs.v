(* C08: the frame lemmas of the branch machinery of Fork/Model.v, for every item at once. *)
From Coq Require Import ZArith List Bool Lia Arith.
From Herc Require Import Fork.Model.
Import ListNotations.
Local Open Scope nat_scope.

Section GenericProofs.
  Variables (Pv Sh Op Rs : Type).
  Variable step : Op -> Pv -> Sh -> Pv * Sh * Rs.

  Notation bstate := (bstate Pv Sh).
  Notation step_on := (step_on Pv Sh Op Rs step).
  Notation fork := (fork Pv Sh).
  Notation do_act := (do_act Pv Sh Op Rs step).
  Notation run := (run Pv Sh Op Rs step).
  Notation solo := (solo Pv Sh Op Rs step).
  Notation upd := (upd Pv).

  Lemma upd_length : forall i x l, length (upd i x l) = length l.
  Proof.
    intros i x l; revert i; induction l as [|h t IH]; intros [|i]; cbn; try reflexivity.
    now rewrite IH.
  Qed.

  Lemma upd_other : forall i j x l, i <> j -> nth_error (upd i x l) j = nth_error l j.
  Proof.
    intros i j x l; revert i j; induction l as [|h t IH]; intros [|i] [|j] Hij; cbn; try reflexivity;
      [congruence|].
    apply IH; congruence.
  Qed.

  Lemma upd_same : forall i x l p, nth_error l i = Some p -> nth_error (upd i x l) i = Some x.
  Proof.
    intros i x l; revert i; induction l as [|h t IH]; intros [|i] p H; cbn in *; try discriminate;
      [reflexivity|].
    eapply IH; eassumption.
  Qed.

  (* ---- one step ---- *)
  Lemma step_on_frame : forall i j o bs, i <> j ->
    nth_error (privs (fst (step_on i o bs))) j = nth_error (privs bs) j.
  Proof.
    intros i j o bs Hij. unfold Model.step_on.
    destruct (nth_error (privs bs) i) as [p|]; [|reflexivity].
    destruct (step o p (shd bs)) as [[p' s'] r]. cbn [fst privs]. now apply upd_other.
  Qed.

  Lemma step_on_length : forall i o bs, length (privs (fst (step_on i o bs))) = length (privs bs).
  Proof.
    intros i o bs. unfold Model.step_on.
    destruct (nth_error (privs bs) i) as [p|]; [|reflexivity].
    destruct (step o p (shd bs)) as [[p' s'] r]. cbn [fst privs]. apply upd_length.
  Qed.

  (* what a step on copy i does: exactly [step] on its own private state and the shared state *)
  Lemma step_on_self : forall i o bs p, nth_error (privs bs) i = Some p ->
    nth_error (privs (fst (step_on i o bs))) i = Some (fst (fst (step o p (shd bs)))) /\
    shd (fst (step_on i o bs)) = snd (fst (step o p (shd bs))) /\
    snd (step_on i o bs) = Some (snd (step o p (shd bs))).
  Proof.
    intros i o bs p H. unfold Model.step_on. rewrite H.
    destruct (step o p (shd bs)) as [[p' s'] r]. cbn [fst snd privs shd].
    split; [eapply upd_same; eassumption|split; reflexivity].
  Qed.

  Lemma step_on_missing : forall i o bs, nth_error (privs bs) i = None -> step_on i o bs = (bs, None).
  Proof. intros i o bs H. unfold Model.step_on. now rewrite H. Qed.

  (* ---- fork ---- *)
  Lemma fork_spec : forall i n bs p, nth_error (privs bs) i = Some p ->
    shd (fork i n bs) = shd bs /\
    length (privs (fork i n bs)) = length (privs bs) + n /\
    (forall j, j < length (privs bs) -> nth_error (privs (fork i n bs)) j = nth_error (privs bs) j) /\
    (forall k, k < n -> nth_error (privs (fork i n bs)) (length (privs bs) + k) = Some p).
  Proof.
    intros i n bs p H. unfold Model.fork. rewrite H. cbn [shd privs].
    split; [reflexivity|]. split; [now rewrite app_length, repeat_length|]. split.
    - intros j Hj. now rewrite nth_error_app1.
    - intros k Hk. rewrite nth_error_app2 by lia.
      replace (length (privs bs) + k - length (privs bs)) with k by lia.
      revert k Hk. induction n as [|n IH]; intros k Hk; [lia|].
      destruct k; cbn [repeat nth_error]; [reflexivity|]. apply IH. lia.
  Qed.

  Lemma fork_frame : forall i n bs j p, nth_error (privs bs) j = Some p ->
    nth_error (privs (fork i n bs)) j = Some p.
  Proof.
    intros i n bs j p H. unfold Model.fork.
    destruct (nth_error (privs bs) i) as [q|]; [|assumption].
    cbn [privs]. rewrite nth_error_app1; [assumption|].
    apply nth_error_Some. congruence.
  Qed.

  Lemma fork_shd : forall i n bs, shd (fork i n bs) = shd bs.
  Proof. intros i n bs. unfold Model.fork. destruct (nth_error (privs bs) i); reflexivity. Qed.

  (* ---- any action / any run that does not consume on copy j ---- *)
  Lemma do_act_frame : forall a bs j p, nth_error (privs bs) j = Some p -> steps_on Op j a = false ->
    nth_error (privs (fst (do_act a bs))) j = Some p.
  Proof.
    intros [i o|i n] bs j p H Hs; cbn [Model.do_act fst].
    - cbn [steps_on] in Hs. apply Nat.eqb_neq in Hs. now rewrite step_on_frame.
    - now apply fork_frame.
  Qed.

  Lemma run_cons : forall a r bs,
    run (a :: r) bs = (fst (run r (fst (do_act a bs))), snd (do_act a bs) :: snd (run r (fst (do_act a bs)))).
  Proof.
    intros a r bs. cbn [Model.run]. destruct (do_act a bs) as [bs1 o1]. cbn [fst snd].
    destruct (run r bs1) as [bs2 os]. reflexivity.
  Qed.

  Theorem run_frame : forall acts bs j p,
    nth_error (privs bs) j = Some p ->
    forallb (fun a => negb (steps_on Op j a)) acts = true ->
    nth_error (privs (fst (run acts bs))) j = Some p.
  Proof.
    induction acts as [|a r IH]; intros bs j p H Hall; [exact H|].
    cbn [forallb] in Hall. apply andb_true_iff in Hall as [Ha Hr]. apply negb_true_iff in Ha.
    rewrite run_cons. cbn [fst]. apply IH; [|exact Hr]. now apply do_act_frame.
  Qed.

  (* the report of copy j = any function of its private state and the shared state *)
  Definition report_of {A} (obs : Pv -> Sh -> A) (j : nat) (bs : bstate) : option A :=
    option_map (fun p => obs p (shd bs)) (nth_error (privs bs) j).

  Theorem shared_only_explicit : forall A (obs : Pv -> Sh -> A) acts bs j p,
    nth_error (privs bs) j = Some p ->
    forallb (fun a => negb (steps_on Op j a)) acts = true ->
    report_of obs j (fst (run acts bs)) = Some (obs p (shd (fst (run acts bs)))).
  Proof.
    intros A obs acts bs j p H Hall. unfold report_of. now rewrite (run_frame acts bs j p H Hall).
  Qed.

  Theorem shared_only : forall A (obs : Pv -> Sh -> A) acts1 acts2 bs j p,
    nth_error (privs bs) j = Some p ->
    forallb (fun a => negb (steps_on Op j a)) acts1 = true ->
    forallb (fun a => negb (steps_on Op j a)) acts2 = true ->
    shd (fst (run acts1 bs)) = shd (fst (run acts2 bs)) ->
    report_of obs j (fst (run acts1 bs)) = report_of obs j (fst (run acts2 bs)).
  Proof.
    intros A obs acts1 acts2 bs j p H H1 H2 Hs.
    rewrite (shared_only_explicit A obs acts1 bs j p H H1), (shared_only_explicit A obs acts2 bs j p H H2).
    now rewrite Hs.
  Qed.

  (* ---- the private-twin theorem: if what a step does to the private state and what it outputs
     depends on the shared state only through a view that the operations in use leave alone, then
     every copy behaves exactly like a private, never forked instance fed with its own operations. *)
  Section Twin.
    Variable V : Type.
    Variable view : Sh -> V.
    Variable okop : Op -> bool.
    Hypothesis det : forall o p s1 s2, view s1 = view s2 ->
      fst (fst (step o p s1)) = fst (fst (step o p s2)) /\ snd (step o p s1) = snd (step o p s2).
    Hypothesis stab : forall o p s, okop o = true -> view (snd (fst (step o p s))) = view s.

    Definition act_ok (a : act Op) : bool := match a with AStep _ o => okop o | AFork _ _ => true end.

    Lemma solo_cons : forall o r p s,
      solo (o :: r) p s =
      (fst (fst (solo r (fst (fst (step o p s))) (snd (fst (step o p s))))),
       snd (fst (solo r (fst (fst (step o p s))) (snd (fst (step o p s))))),
       snd (step o p s) :: snd (solo r (fst (fst (step o p s))) (snd (fst (step o p s))))).
    Proof.
      intros o r p s. cbn [Model.solo]. destruct (step o p s) as [[p1 s1] x]. cbn [fst snd].
      destruct (solo r p1 s1) as [[p2 s2] xs]. reflexivity.
    Qed.

    Theorem twin : forall acts bs j p s0,
      nth_error (privs bs) j = Some p ->
      view s0 = view (shd bs) ->
      forallb act_ok acts = true ->
      outs_of Op Rs j acts (snd (run acts bs)) = snd (solo (ops_of Op j acts) p s0) /\
      nth_error (privs (fst (run acts bs))) j = Some (fst (fst (solo (ops_of Op j acts) p s0))).
    Proof.
      induction acts as [|a r IH]; intros bs j p s0 H Hv Hok.
      - cbn. split; [reflexivity|exact H].
      - cbn [forallb] in Hok. apply andb_true_iff in Hok as [Ha Hr].
        rewrite run_cons. cbn [fst snd].
        destruct a as [i o|i n].
        + cbn [Model.do_act act_ok] in *. cbn [ops_of outs_of].
          destruct (Nat.eqb i j) eqn:E.
          * apply Nat.eqb_eq in E. subst i.
            destruct (step_on_self j o bs p H) as (Hp & Hs & Ho).
            rewrite Ho. rewrite solo_cons. cbn [fst snd].
            destruct (det o p s0 (shd bs) Hv) as [Dp Do].
            specialize (IH (fst (step_on j o bs)) j (fst (fst (step o p s0))) (snd (fst (step o p s0)))).
            rewrite Dp in IH at 1. specialize (IH Hp).
            assert (Hv' : view (snd (fst (step o p s0))) = view (shd (fst (step_on j o bs)))).
            { rewrite Hs. rewrite (stab o p s0 Ha), (stab o p (shd bs) Ha). exact Hv. }
            destruct (IH Hv' Hr) as [I1 I2]. split.
            -- rewrite I1. now rewrite Do.
            -- exact I2.
          * apply Nat.eqb_neq in E.
            assert (Hp : nth_error (privs (fst (step_on i o bs))) j = Some p) by now rewrite step_on_frame.
            assert (Hv' : view s0 = view (shd (fst (step_on i o bs)))).
            { destruct (nth_error (privs bs) i) as [q|] eqn:Hi.
              - destruct (step_on_self i o bs q Hi) as (_ & Hs & _). rewrite Hs, (stab o q (shd bs) Ha). exact Hv.
              - rewrite (step_on_missing i o bs Hi). exact Hv. }
            destruct (IH (fst (step_on i o bs)) j p s0 Hp Hv' Hr) as [I1 I2].
            split; [|exact I2].
            destruct (snd (step_on i o bs)); exact I1.
        + cbn [Model.do_act fst snd ops_of outs_of].
          apply IH; [now apply fork_frame|now rewrite fork_shd|exact Hr].
    Qed.
  End Twin.
End GenericProofs.
