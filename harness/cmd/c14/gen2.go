// Generators for the input attributes of the synthetic pipelines that the first streams never varied
// (added after the seeded change C14-s3 - declared outputs cached per item NAME - was missed):
//
//	kind same : 2-3 items of one pipeline share their Name() while their Provides()/Requires() are equal, different,
//	            overlapping or nested; a probe leaf requires every entity, so that an output that does not reach the
//	            state is observed by a consumer
//	kind attr : items that provide 0..4 entities, require nothing / everything, re-providers with consumers before and
//	            after them (TreeDiff -> RenameAnalysis shape), undeclared extra keys that collide with commit, index,
//	            is_merge, with an entity of another item or with one of the item's own inputs, no undeclared key at
//	            all, nil result maps, errors at the first / last commit index, at the first / last item and during the
//	            replay of a merge commit, PrintActions on, hibernateable and plain items mixed, pipelines of 1..12 items
package main

import (
	"sort"

	. "verifharness/lib"
	"verifharness/synth"
)

func provided(its []itemSpec) []int {
	seen := map[int]bool{}
	var r []int
	for _, s := range its {
		for _, e := range s.Provides {
			if !seen[e] {
				seen[e] = true
				r = append(r, e)
			}
		}
	}
	sort.Ints(r)
	return r
}

func freshName(its []itemSpec) int {
	n := 0
	for _, s := range its {
		if s.Name >= n {
			n = s.Name + 1
		}
	}
	return n
}

// withProbe appends a leaf that requires every entity some item provides.
func withProbe(c *Config, its []itemSpec) []itemSpec {
	req := provided(its)
	c.Rng.Shuffle(len(req), func(a, b int) { req[a], req[b] = req[b], req[a] })
	return append(its, itemSpec{Name: freshName(its), Requires: req, Leaf: true, Copy: c.Rng.Intn(2) == 0, Hib: c.Rng.Intn(4) == 0})
}

// samePipeline: the fixed shapes of pipelines with same-named items
func samePipeline(c *Config, k int) []itemSpec {
	var its []itemSpec
	switch k {
	case 0: // pair: the second consumes the output of the first
		its = []itemSpec{
			{Name: 0, Provides: []int{3}},
			{Name: 1, Alias: 1, Requires: []int{3}, Provides: []int{4}},
			{Name: 2, Alias: 1, Requires: []int{4}, Provides: []int{5}}}
	case 1: // refiner: the second re-provides the entity of the first and provides one more
		its = []itemSpec{
			{Name: 0, Provides: []int{3}},
			{Name: 1, Alias: 1, Requires: []int{3}, Provides: []int{4}},
			{Name: 2, Alias: 1, Requires: []int{4}, Provides: []int{4, 5}}}
	case 2: // equal Provides, the second refines the first
		its = []itemSpec{
			{Name: 0, Provides: []int{3}},
			{Name: 1, Alias: 1, Requires: []int{3}, Provides: []int{4}},
			{Name: 2, Alias: 1, Requires: []int{3, 4}, Provides: []int{4}}}
	case 3: // disjoint outputs, one of the name provides nothing
		its = []itemSpec{
			{Name: 0, Alias: 1, Provides: []int{3}},
			{Name: 1, Alias: 1, Provides: []int{4, 5}},
			{Name: 2, Alias: 1, Requires: []int{3}}}
	case 4: // the first of the name declares more than the second
		its = []itemSpec{
			{Name: 0, Provides: []int{3}},
			{Name: 1, Alias: 1, Requires: []int{3}, Provides: []int{4, 5}},
			{Name: 2, Alias: 1, Requires: []int{4}, Provides: []int{6}}}
	case 5: // three of one name, overlapping outputs
		its = []itemSpec{
			{Name: 0, Alias: 1, Provides: []int{3, 4}},
			{Name: 1, Alias: 1, Requires: []int{3, 4}, Provides: []int{4, 5}},
			{Name: 2, Alias: 1, Requires: []int{4, 5}, Provides: []int{6}}}
	case 6: // two names, interleaved
		its = []itemSpec{
			{Name: 0, Alias: 1, Provides: []int{3}},
			{Name: 1, Alias: 2, Requires: []int{3}, Provides: []int{4}},
			{Name: 2, Alias: 1, Requires: []int{4}, Provides: []int{5}},
			{Name: 3, Alias: 2, Requires: []int{5}, Provides: []int{6, 7}}}
	case 7: // same name, same Provides and Requires sets in different order, independent entities
		its = []itemSpec{
			{Name: 0, Provides: []int{3, 4}},
			{Name: 1, Alias: 1, Requires: []int{3, 4}, Provides: []int{5, 6}},
			{Name: 2, Alias: 1, Requires: []int{4, 3}, Provides: []int{7, 8}}}
	default: // the whole pipeline under one name
		its = []itemSpec{
			{Name: 0, Alias: 3, Provides: []int{3}},
			{Name: 1, Alias: 3, Requires: []int{3}, Provides: []int{4}},
			{Name: 2, Alias: 3, Requires: []int{4, 3}, Leaf: true}}
	}
	for i := range its {
		its[i].Copy = c.Rng.Intn(2) == 0
		its[i].Hib = c.Rng.Intn(3) == 0
		if c.Rng.Intn(4) == 0 {
			its[i].Leaf = true
		}
	}
	if k <= 7 && c.Rng.Intn(5) > 0 {
		its = withProbe(c, its)
	}
	return its
}

// richPipeline: a random dependency DAG of n items with the attributes listed at the top of the file
func richPipeline(c *Config, n int, alias bool) []itemSpec {
	r := c.Rng
	var its []itemSpec
	next := 3
	var avail []int
	reprov := map[int]bool{}
	for j := 0; j < n; j++ {
		s := itemSpec{Name: j, Copy: r.Intn(2) == 0, Hib: r.Intn(3) == 0, Leaf: r.Intn(3) == 0}
		switch r.Intn(6) {
		case 0: // requires nothing
		case 1: // requires everything there is
			s.Requires = append(s.Requires, avail...)
		default:
			for _, e := range avail {
				if r.Intn(3) == 0 {
					s.Requires = append(s.Requires, e)
				}
			}
		}
		r.Shuffle(len(s.Requires), func(a, b int) { s.Requires[a], s.Requires[b] = s.Requires[b], s.Requires[a] })
		np := []int{0, 1, 1, 2, 3, 4}[r.Intn(6)]
		var fresh []int
		for k := 0; k < np; k++ {
			s.Provides = append(s.Provides, next)
			fresh = append(fresh, next)
			next++
		}
		// a re-provider that requires what it refines (TreeDiff -> RenameAnalysis); one per pipeline: resolve() tolerates two
		// providers of an entity, not three, and has known defects (C10-K1, C10-K2) when no provider requires the entity or
		// when one item provides two doubly provided entities
		if len(avail) > 0 && len(reprov) == 0 && r.Intn(3) == 0 {
			e := avail[r.Intn(len(avail))]
			reprov[e] = true
			s.Provides = append(s.Provides, e)
			// besides e only outputs of items without requirements: an input derived from e would be a cycle
			// (every consumer of e is ordered after the re-provider)
			s.Requires = []int{e}
			for _, q := range its {
				if len(q.Requires) == 0 && r.Intn(2) == 0 {
					for _, x := range q.Provides {
						if x != e {
							s.Requires = append(s.Requires, x)
						}
					}
				}
			}
			r.Shuffle(len(s.Requires), func(a, b int) { s.Requires[a], s.Requires[b] = s.Requires[b], s.Requires[a] })
			r.Shuffle(len(s.Provides), func(a, b int) { s.Provides[a], s.Provides[b] = s.Provides[b], s.Provides[a] })
		}
		avail = append(avail, fresh...)
		its = append(its, s)
	}
	all := provided(its)
	for j := range its {
		if r.Intn(3) != 0 {
			continue
		}
		for k := 1 + r.Intn(2); k > 0; k-- {
			switch x := r.Intn(8); {
			case x < 3:
				its[j].Extras = append(its[j].Extras, x) // commit, index, is_merge
			case x < 5 && len(all) > 0:
				its[j].Extras = append(its[j].Extras, all[r.Intn(len(all))]) // an entity of some item
			case x < 6 && len(its[j].Requires) > 0:
				its[j].Extras = append(its[j].Extras, its[j].Requires[r.Intn(len(its[j].Requires))]) // echo of an input
			case x < 7:
				its[j].Extras = append(its[j].Extras, -2) // no undeclared key of its own
			default:
				its[j].Extras = append(its[j].Extras, next+r.Intn(3)) // an entity nobody declares
			}
		}
	}
	if alias && n >= 2 {
		groups := 1 + r.Intn(2)
		for g := 1; g <= groups; g++ {
			for k := 2 + r.Intn(2); k > 0; k-- {
				its[r.Intn(n)].Alias = g
			}
		}
	}
	if r.Intn(2) == 0 {
		its = withProbe(c, its)
	}
	return its
}

// richInjection: as pickInjection, plus nil result maps and errors during a merge replay; commit indices biased to
// the first and the last ones, items to the first and the last declared
func richInjection(c *Config, its []itemSpec, ncommits, dist int) injection {
	r := c.Rng
	it := its[r.Intn(len(its))]
	switch r.Intn(4) {
	case 0:
		it = its[0]
	case 1:
		it = its[len(its)-1]
	}
	k := r.Intn(ncommits + 2)
	switch r.Intn(4) {
	case 0:
		k = 0
	case 1:
		k = ncommits - 1
	}
	switch x := r.Intn(12); {
	case x < 4:
		return injection{Kind: "none"}
	case x < 6:
		return injection{Kind: "err", Item: it.Name, K: k}
	case x < 8:
		// prefer the LAST item of a name group (its declared outputs are the ones a per-name cache would get wrong) and its LAST output
		for _, cand := range its {
			if len(cand.Provides) > 0 && (r.Intn(2) == 0 || (cand.Alias > 0 && r.Intn(4) > 0)) {
				it = cand
			}
		}
		if len(it.Provides) == 0 {
			return injection{Kind: "nil", Item: it.Name, K: k}
		}
		e := it.Provides[len(it.Provides)-1]
		if r.Intn(2) == 0 {
			e = it.Provides[r.Intn(len(it.Provides))]
		}
		return injection{Kind: "miss", Item: it.Name, K: k, Ent: e}
	case x < 9:
		return injection{Kind: "nil", Item: it.Name, K: k}
	case x < 11:
		return injection{Kind: "errm", Item: it.Name, K: r.Intn(ncommits + 1)}
	default:
		if dist == 0 {
			return injection{Kind: "errm", Item: it.Name, K: 0}
		}
		for _, cand := range its {
			if cand.Hib {
				it = cand
			}
		}
		kind := "hib"
		if r.Intn(2) == 0 {
			kind = "boot"
		}
		return injection{Kind: kind, Item: it.Name, K: 1 + r.Intn(3)}
	}
}

func smallHistory(c *Config) []commitSpec {
	r := c.Rng
	switch r.Intn(8) {
	case 0: // one commit
		return []commitSpec{{ID: 0, Time: randomTimes(c, 1)[0]}}
	case 1: // linear
		n := 2 + r.Intn(6)
		ts := randomTimes(c, n)
		cs := make([]commitSpec, n)
		for j := range cs {
			cs[j] = commitSpec{ID: j, Time: ts[j]}
			if j > 0 {
				cs[j].Parents = []int{j - 1}
			}
		}
		return cs
	case 2: // octopus merges
		shape := synth.GenOctopusShape(r, synth.OctoOpts{Roots: 1 + r.Intn(2), Merges: 1, MinPar: 3, MaxPar: 5,
			MaxArm: 1 + r.Intn(2), MaxTail: 1 + r.Intn(2)})
		ts := randomTimes(c, len(shape))
		cs := make([]commitSpec, len(shape))
		for j, ps := range shape {
			cs[j] = commitSpec{ID: j, Time: ts[j], Parents: append([]int{}, ps...)}
		}
		return cs
	}
	return randomDag(c, 10)
}

func attrStreams(c *Config) {
	r := c.Rng
	// same-named items
	for i := c.Count(700, 16000); i > 0; i-- {
		var its []itemSpec
		if r.Intn(3) == 0 {
			its = richPipeline(c, 2+r.Intn(5), true)
		} else {
			its = samePipeline(c, r.Intn(9))
		}
		its = shuffled(c, its)
		cs := smallHistory(c)
		d := []int{0, 0, 1, 2, 3}[r.Intn(5)]
		emit(c, caseIn{Kind: "same", Dist: d, Items: its, Inj: richInjection(c, its, len(cs), d), Commits: cs, PA: r.Intn(5) == 0})
	}
	// the other attributes
	for i := c.Count(700, 16000); i > 0; i-- {
		n := []int{1, 1, 2, 2, 3, 4, 5, 6, 8, 10, 12}[r.Intn(11)]
		its := shuffled(c, richPipeline(c, n, r.Intn(4) == 0))
		cs := smallHistory(c)
		d := []int{0, 0, 1, 2, 3, 5}[r.Intn(6)]
		emit(c, caseIn{Kind: "attr", Dist: d, Items: its, Inj: richInjection(c, its, len(cs), d), Commits: cs, PA: r.Intn(4) == 0})
	}
	// an empty commit list with PrintActions, with one item, with same-named items
	emit(c, caseIn{Kind: "empty", Dist: 1, Items: samePipeline(c, 1), Inj: injection{Kind: "none"}, PA: true})
	emit(c, caseIn{Kind: "empty", Dist: 0, Items: fixedPipeline(4, c), Inj: injection{Kind: "none"}})
}
