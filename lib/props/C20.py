CONFIG = dict(
        level='proof',
        streams=[dict(harness='c20', driver='c20', shrink_field='ops')],
        rule='replays of TreeDiff.Consume + BlobCache.Consume (with Fork / Initialize) over synthetic in-memory repositories: all ordered pairs of 32 '
             'small trees (file / executable / symlink / submodule / file-vs-directory at the same name) under 2 (quick) or 4 (thorough) filter '
             'configurations; random linear histories; random DAGs with several roots replayed the way the planner schedules them (every commit after '
             'each parent on that parent\'s branch, forks at commits with several children, merge commits once per parent); the same with perturbed '
             'orders (commits consumed after non-parents, re-initialisation, dropped steps); damaged repositories (blobs missing from the store, strict '
             'submodule mode with complete / partial / unparsable / absent .gitmodules); histories with a name regexp that matches the empty string; '
             'histories whose language verdict flips (open finding). Scale streams (second round): scale-blob = blobs of 1023 .. 100000 bytes (thorough: up to '
             '5 000 000) at c-1, c, c+1 of 1024, 4096, 8000, 8192, 2^15, 2^16, text and binary, one NUL at offset 0 / 100 / 1023 / 1024 / 7999 / 8000 / 8001 / '
             'size-2 / size-1, every blob followed by a version that differs in ONE byte far behind (shared prefix) and by one that is one byte longer, added / '
             'modified / deleted / moved, loaded through the rotating cache and afresh on new branches, plus random histories over big files; contents over '
             '600 bytes are compared by length and two checksums, shorter ones byte by byte; scale-lang = 17 families of files whose language depends on how '
             'much of the contents enry sees (licence comment of 0 .. 8100 bytes, dense around 1024, followed by code of another language; .h .m .pl .cls .inc '
             '.sql .fs; vim / emacs modelines at the end; shebang lines) under language filters that allow the language of the 1024-byte head, of the whole '
             'file, both or neither, present in the first commit, modified behind the head, deleted, re-added in a later commit, moved, and listed by fresh '
             'branches that start in the middle; scale-tree = trees of 1025 and 4097 files (thorough: up to 100000) flat / sqrt(n) directories / a spine 64 '
             'levels deep / half under blacklisted prefixes, steps touching every k-th file for k = 2^j, 2^j+-1, range deletions, mass additions, mode '
             'changes, files turning into submodule entries, strict submodule mode with a complete .gitmodules; scale-chain = histories of 1025 commits '
             '(thorough 10000) linear and as a DAG with forks and merges; scale-forks = up to 1025 (thorough 4097) branches alive after one Fork, merge '
             'commits with 33 .. 65 (thorough 257) parents consumed on every parent\'s branch and refused elsewhere. Round 3: prefixes = blacklists of 2..6 '
             'path prefixes that are nested (P, P+Q, P+Q+R), overlapping, duplicated, empty, not terminated by a slash or whole file names, in configured / '
             'sorted / reverse order, over trees whose paths sort directly before, inside, between and behind every prefix (P+"a.go", P+"proto.go", '
             'P+"zz.go", stem+".go", stem+"0.go"), linear and forked histories, a third of them on an item that was configured with ANOTHER list first '
             '(Configure, Initialize, Configure, Initialize); strictsub = FailOnMissingSubmodules on, .gitmodules listing exactly the submodules of '
             'every commit, submodules registered / bumped / removed in successive commits at paths that sort before ".gitmodules" (.ci/tools, .build/x, '
             '+ext/y, -vendored, .gitmodule, .a) and behind it (.gitmodulesx, .hidden/s, libs/a, src/third, sub, zlib), under whitelist regexps and '
             'blacklists that drop the ".gitmodules" change while submodule entries pass, with Initialize in the middle of a replay; an error or panic of '
             'BlobCache.Consume is a violation whenever integral_b holds of the step (extracted; C20_cache_no_refusal_strict): every referenced object is '
             'in the store or is a submodule entry that is registered in the .gitmodules of THAT commit (or the mode is lenient); reuse = two or three '
             'unrelated histories replayed one after the other on the same items with Initialize in between (also on a fork, twice in a row, after a '
             'refused attempt without Initialize): the first commit of the next history must be accepted and listed as a first commit (finding F24, '
             'repaired). Non-trivial = at least one accepted '
             'step on a branch holding a previous tree that reports at least one change; distinct = distinct (configuration, commits, operation list).',
        exhaustive_note='all 1024 ordered pairs of the 32 trees over the slots {a.go: absent, 2 contents, executable, 2 submodule hashes, directory with 1 or 2 '
                        'files} x {c.py: absent, 2 contents, symlink}, replayed as first commit + diff step, under each of the pair configurations',
        assumptions=['go-git object.DiffTree (merkletrie) is not modelled: its output is an argument of the model and is judged on every replayed step by the '
                     'validator changes_ok (proved sound: C20_changes_apply); C20_consume_step_flip_free takes its verdict as a hypothesis',
                     'enry.IsVendor, the name regexp, enry.GetLanguage on the first KiB and the object store are opaque functions (fields of fcfg / benv), '
                     'universally quantified in the theorems; in the replay their values on every path / blob that occurs are recorded by the harness, which '
                     'calls enry and the compiled regexp directly (not through checkLanguage / filterDiffs)',
                     'enry.IsVendor("") = false (hypothesis f_vendor f [] = false of the filter theorems; recorded in every case)',
                     'trees list every path once and no path is empty (tree_wfb, a boolean domain predicate evaluated on every replayed tree); the mode '
                     '0100664 that go-git hashes like 0100644 is not generated',
                     'errors other than "object not found" from the object store, failing tree objects and failing blob readers are not modelled',
                     'enry.GetLanguage is assumed to be a function of (base name, head): its Bayesian classifier is not deterministic on some inputs (observed: '
                     '"x.v" with a comment-only head, Coq / Verilog); such contents are kept out of the generators',
                     'big inputs: contents over 600 bytes enter the model as the stand-in (length, checksum, checksum2), so "exact bytes" is equality of these three '
                     'numbers there; steps over trees with more than 600 entries are validated path by path (changes_ok is a conjunction over paths); a BlobCache '
                     'step with more than 12000 changes (thorough tier) is judged by the property oracle only and the model continues from the judged output'],
        trusted_base=['hand-written Gallina model coq/theories/TreeDiff/Model.v of internal/plumbing/tree_diff.go (Initialize, Consume, filterDiffs, checkLanguage, Fork) '
                      'and internal/plumbing/blob_cache.go (Initialize, Consume, getBlob, Fork) with internal/dummies.go, tied to the code by the replay of every harness case',
                      'go-git (tree walking, DiffTree, object storage, .gitmodules parsing), enry and Go regexp are third-party code outside the proof',
                      'read-only accessors /repo/internal/plumbing/verif_c20.go and the re-exports /repo/verifapi/c20/c20.go'],
        level_text='Partial. Proved in Coq for all inputs (hercules\'s own logic): the parent check refuses exactly the commits whose parents do not include the branch\'s previous commit, and over every '
                   'replay an accepted commit is diffed against the tree of one of its parents; the first commit lists exactly the passing files; filterDiffs applied to a '
                   'correct tree difference yields a correct difference of the restricted file sets whenever no language verdict flips across a modification; '
                   'BlobCache returns every referenced blob with its exact bytes and empty placeholders for absent objects, in every reachable state, and never refuses a '
                   'change list whose blobs are all available in the environment of the commit (both submodule modes: C20_cache_no_refusal_strict); a re-initialised '
                   'TreeDiff accepts any commit as a first commit (C20_initialize_never_refuses, finding F24 repaired by 3598ee8); branches are private. '
                   'The full statement about languages is refuted (C20_language_flip_refuted, open finding "language-flip"). go-git\'s DiffTree is validated per replayed '
                   'step by a validator proved sound, not verified.',
        level_note='partial: (1) object.DiffTree is third-party and only translation-validated on the replayed cases; (2) the language clause of the property is false of the '
                   'code as it is (filterDiffs judges the language on one side of a modification only) and is reported as a known finding; (3) aliasing between forked Go '
                   'items cannot be exhibited in Gallina and is carried by the per-branch state comparison of the replay; (4) the model is hand-written.',
        technique='Coq 8.16 proofs about an executable Gallina model + replay of Go harness traces through the extracted OCaml model (fine correspondence) and through '
                  'extracted, proved-sound validators applied to the implementation\'s own outputs (property oracle)',
    )
