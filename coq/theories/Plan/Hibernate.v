(* Line-by-line executable model of [insertHibernateBoot] (internal/core/forks.go).  Definitions only.

   Go                                         model
   lastUsed map[int]int                       association list branch -> index
   addons map[int][]hbAction                  ONE list of (index, branch, hibernate?) in the order of the appends; the list
                                              of one index is the sub-list with that index (appends to different keys
                                              commute, appends to one key keep their order)
   second loop                                [hb_build]: boots before the action, hibernates after it, both carrying
                                              the action's commit *)
From Coq Require Import List ZArith Bool Arith Lia.
From Herc Require Import Plan.Syntax Plan.GC.
Import ListNotations.
Open Scope Z_scope.

Notation addon := (nat * Z * bool)%type (only parsing).
Definition ad_idx (e : addon) : nat := fst (fst e).
Definition ad_branch (e : addon) : Z := snd (fst e).
Definition ad_hib (e : addon) : bool := snd e.

(* for _, item := range action.Items { ... } *)
Fixpoint hb_items (x : nat) (d : Z) (its : list Z) (lu : list (Z * nat)) (ad : list addon)
  : list (Z * nat) * list addon :=
  match its with
  | [] => (lu, ad)
  | it :: r =>
      let ad' :=
        match lm_get lu it with
        | Some i => if Z.of_nat x - Z.of_nat i - 1 >? d
                    then ad ++ [(x, it, false); (i, it, true)]
                    else ad
        | None => ad
        end in
      hb_items x d r (lm_set lu it x) ad'
  end.

(* for x, action := range plan { if delete: continue; ... } *)
Fixpoint hb_scan (p : plan) (x : nat) (d : Z) (lu : list (Z * nat)) (ad : list addon) : list addon :=
  match p with
  | [] => ad
  | a :: r =>
      if is_kind KDelete a then hb_scan r (S x) d lu ad
      else let (lu', ad') := hb_items x d (items a) lu ad in hb_scan r (S x) d lu' ad'
  end.

Fixpoint hb_build (p : plan) (x : nat) (ad : list addon) : plan :=
  match p with
  | [] => []
  | a :: r =>
      let mine := filter (fun e => (ad_idx e =? x)%nat) ad in
      let boots := map ad_branch (filter (fun e => negb (ad_hib e)) mine) in
      let hibs := map ad_branch (filter ad_hib mine) in
      (match boots with [] => [] | _ => [mkA KBoot (commit a) boots] end) ++
      a ::
      (match hibs with [] => [] | _ => [mkA KHibernate (commit a) hibs] end) ++
      hb_build r (S x) ad
  end.

Definition insert_hb (p : plan) (d : Z) : plan := hb_build p 0 (hb_scan p 0 d [] []).
