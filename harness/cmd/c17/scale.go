package main

// The "scale" family: a handful of LARGE result values whose sizes straddle the constants a plausible
// optimisation of the encoders introduces (8 / 16 / 64 workers or lanes, a 12-element insertion-sort
// threshold, 1000 / 1024 / 4096 row thresholds, 2^8 / 2^15 / 2^16 packings): every size axis of the three
// result types (rows, columns, files, developers, ticks, languages, row length of a sparse map row,
// ownership table) is taken to c-1, c, c+1 and to sizes that are NOT multiples of 8.  Rows are sparse so
// that the traces stay small; the LAST rows / columns / entries are never empty (a lost remainder shows).
// Kinds: sc-mx (bare matrices), sc-bd, sc-dv, sc-cp; the suffix -xl marks cases that are too large for the
// quadratic list model: the driver judges them by the property oracle only (decoded == normalise(input)).

import (
	"fmt"
	"sort"
	"time"

	. "verifharness/lib"
)

var scaleMid = []int{7, 8, 9, 11, 12, 13, 15, 16, 17, 31, 32, 33, 63, 64, 65, 127, 128, 129, 255, 256, 257,
	511, 512, 513, 999, 1000, 1001}
var scaleBig = []int{1023, 1024, 1025, 1029, 2048, 2051}
var scaleHuge = []int{4095, 4096, 4099, 8197, 10007, 16385}
var scaleXL = []int{32769, 65535, 65537, 100003}

// modelLimit: above this size the list model (quadratic slices and map insertions) is not run
const modelLimit = 4100

// value patterns: periodic with periods 2^k and 2^k +- 1, zero-heavy, with cells at the cast boundaries
type pattern struct {
	period int
	phase  int
	style  int
}

func (g *gen) pattern() pattern {
	r := g.c.Rng
	ps := []int{2, 3, 4, 5, 7, 8, 9, 15, 16, 17, 31, 32, 33, 63, 64, 65, 255, 256, 257, 1023, 1024, 1025}
	return pattern{ps[r.Intn(len(ps))], r.Intn(7), r.Intn(4)}
}

// in-domain history cell (0 <= v < 2^32 or a small negative that clamps to 0)
func (p pattern) cell(i int) int64 {
	k := (i + p.phase) % p.period
	switch {
	case k == 0:
		return []int64{1<<32 - 1, 1 << 31, 1<<31 - 1, 1 << 16}[p.style]
	case k == 1 && p.period > 2:
		return -int64(1 + i%3)
	case p.style < 2 && k*2 < p.period:
		return 0
	default:
		return int64(1 + (i*2654435761)%997)
	}
}

// int32-range counter
func (p pattern) count(i int) int64 {
	k := (i + p.phase) % p.period
	switch {
	case k == 0:
		return []int64{1<<31 - 1, 1<<31 - 2, -(1 << 31), 65536}[p.style]
	case p.style < 2 && k*2 < p.period:
		return 0
	default:
		return int64((i * 40503) % 100000)
	}
}

// any int64 (cells of the interaction / coupling matrices)
func (p pattern) wide(i int) int64 {
	k := (i + p.phase) % p.period
	switch {
	case k == 0:
		return []int64{1<<63 - 1, -(1 << 63), 1 << 32, 1<<31 + 1}[p.style]
	case k == 1 && p.period > 2:
		return -int64(1 + i%50)
	default:
		return int64(1 + (i*7919)%5000)
	}
}

func scaleName(prefix string, i int) string { return fmt.Sprintf("%s%06d", prefix[:1], i) }

// ---------------------------------------------------------------- bare matrices

// rows x cols, about `per` non-zero cells per row, the last row and the last column are never empty
func (g *gen) sparseDense(rows, cols, per int) mat {
	p := g.pattern()
	m := make(mat, rows)
	for i := range m {
		m[i] = make([]int64, cols)
		if cols == 0 {
			continue
		}
		if i%97 == 5 && i+16 < rows {
			continue // an all-zero row, not among the last ones
		}
		for k := 0; k < per; k++ {
			j := (i*31 + k*17 + p.phase) % cols
			v := p.cell(i*per + k)
			if v <= 0 {
				v = int64(1 + k)
			}
			m[i][j] = v
		}
		if i%5 != 3 || i+16 >= rows {
			m[i][cols-1] = int64(1 + i%9)
		}
	}
	return m
}

// lower-triangular-like burndown history: row i has i*cols/rows + 1 leading cells, the rest zeros
func (g *gen) triangular(rows, cols int) mat {
	p := g.pattern()
	m := make(mat, rows)
	for i := range m {
		m[i] = make([]int64, cols)
		w := (i+1)*cols/rows + 0
		if w < 1 {
			w = 1
		}
		if w > cols {
			w = cols
		}
		for j := 0; j < w; j++ {
			m[i][j] = p.cell(i*cols + j)
		}
		if m[i][w-1] <= 0 {
			m[i][w-1] = 1
		}
	}
	return m
}

// rows whose stored cells sum to exact multiples of 2^32 (from every position on): a counter kept in 32 bits
// takes the rest of the row for the empty tail
func wrapRows(n int) mat {
	rows := mat{
		{1 << 31, 1 << 31},
		{1<<32 - 1, 1},
		{1, 1 << 31, 1 << 31},
		{5, 1<<32 - 7, 7, 0},
		{1 << 30, 1 << 30, 1 << 30, 1 << 30},
		{3, 1 << 31, 0, 1 << 31, 0, 0},
		{1 << 31, 1 << 31, 1 << 31, 1 << 31},
	}
	// n cells of 2^32/n (n a power of two), and the same after a leading cell
	row := make([]int64, n)
	for i := range row {
		row[i] = (1 << 32) / int64(n)
	}
	rows = append(rows, row, append([]int64{9}, row...))
	w := 0
	for _, r := range rows {
		if len(r) > w {
			w = len(r)
		}
	}
	for i := range rows {
		for len(rows[i]) < w {
			rows[i] = append(rows[i], 0)
		}
	}
	return rows
}

// ---------------------------------------------------------------- burndown

func scaleBd(global mat) *bdRes {
	return &bdRes{global: global, pmNil: true, tick: int64(24 * time.Hour), samp: 30, gran: 30}
}

// n files, each with its own small history and ownership table
func (g *gen) bdFiles(n int) *bdRes {
	p := g.pattern()
	r := scaleBd(g.sparseDense(3, 4, 2))
	for i := 0; i < n; i++ {
		name := scaleName("dir/f", i)
		m := mat{{p.cell(i), int64(i % 7), 0, 0}, {int64(1 + i%5), p.cell(i + 1), int64(1 + i%3), 0}, {0, 0, 0, int64(1 + i%11)}}
		r.files = append(r.files, namedMat{name, m})
		tbl := []kv{{int64(i % 13), p.count(i)}}
		if i%3 == 0 {
			tbl = append([]kv{{-1, int64(i)}}, tbl...)
		}
		r.own = append(r.own, namedTable{name, tbl})
	}
	return r
}

// n developers: n people histories and an n x (n+2) interaction matrix with a few cells per row
func (g *gen) bdPeople(n int) *bdRes {
	p := g.pattern()
	r := scaleBd(mat{{5, 0}, {3, 4}})
	r.pmNil = false
	r.pm = make(mat, n)
	for i := 0; i < n; i++ {
		r.people = append(r.people, mat{{p.cell(i), 0}, {int64(1 + i%17), p.cell(i + 3)}})
		r.names = append(r.names, scaleName("dev", i))
		row := make([]int64, n+2)
		row[0] = p.wide(i)
		row[2+i] = int64(1 + i%100)
		row[2+(i*7+1)%n] = p.wide(i + 1)
		if i%4 != 1 || i+16 >= n {
			row[n+1] = -int64(1 + i%9)
		}
		r.pm[i] = row
	}
	return r
}

// one file with an ownership table of n developers
func (g *gen) bdOwnership(n int) *bdRes {
	p := g.pattern()
	r := scaleBd(mat{{7}})
	tbl := []kv{{-1, 3}}
	for i := 0; i < n-1; i++ {
		tbl = append(tbl, kv{int64(i), p.count(i)})
	}
	tbl[len(tbl)-1].v = 77
	r.files = []namedMat{{"f", mat{{7}}}}
	r.own = []namedTable{{"f", tbl}}
	return r
}

// ---------------------------------------------------------------- devs

func (g *gen) dvTicks(n int) *dvRes {
	p := g.pattern()
	stride := []int{1, 1, 3, 255, 257}[g.c.Rng.Intn(5)]
	r := &dvRes{names: []string{"a", "b", "c"}, tick: int64(24 * time.Hour)}
	for i := 0; i < n; i++ {
		td := tickDevs{tick: int64(i*stride - 40)}
		for d := 0; d < 1+i%2; d++ {
			dt := devTick{dev: int64((i + d*2) % 3), commits: p.count(i), s: stats{p.count(i + 1), int64(i % 50), int64(d)}}
			if i%6 == 0 || i+8 >= n {
				dt.langs = []langStat{{"Go", stats{int64(i % 9), p.count(i + 2), 1}}}
			}
			td.devs = append(td.devs, dt)
		}
		sort.Slice(td.devs, func(a, b int) bool { return td.devs[a].dev < td.devs[b].dev })
		r.ticks = append(r.ticks, td)
	}
	return r
}

func (g *gen) dvDevelopers(n int) *dvRes {
	p := g.pattern()
	r := &dvRes{tick: int64(time.Hour)}
	td := tickDevs{tick: 7}
	for i := 0; i < n; i++ {
		r.names = append(r.names, scaleName("dev", i))
		td.devs = append(td.devs, devTick{dev: int64(i), commits: int64(1 + i%40), s: stats{p.count(i), p.count(i + 1), int64(i % 3)}})
	}
	td.devs = append(td.devs, devTick{dev: 262142, commits: 2, s: stats{1, 2, 3}}) // the unmatched author, key AuthorMissing
	r.ticks = []tickDevs{td, {tick: 9, devs: []devTick{{dev: int64(n - 1), commits: 1, s: stats{1, 1, 1}}}}}
	return r
}

func (g *gen) dvLanguages(n int) *dvRes {
	p := g.pattern()
	dt := devTick{dev: 0, commits: 3, s: stats{1, 2, 3}}
	for i := 0; i < n; i++ {
		dt.langs = append(dt.langs, langStat{scaleName("lang", i), stats{p.count(i), int64(i % 77), p.count(i + 5)}})
	}
	dt.langs[n-1].s = stats{11, 12, 13}
	return &dvRes{names: []string{"a"}, tick: int64(24 * time.Hour), ticks: []tickDevs{{tick: 0, devs: []devTick{dt}}}}
}

// ---------------------------------------------------------------- couples

// a sparse map row of an n x n coupling matrix: the diagonal and a few other columns, sorted
func scaleKvRow(p pattern, i, n, per int) []kv {
	seen := map[int64]bool{}
	var l []kv
	add := func(k int64, v int64) {
		if !seen[k] {
			seen[k] = true
			l = append(l, kv{k, v})
		}
	}
	add(int64(i), int64(1+i%200))
	for k := 0; k < per; k++ {
		add(int64((i*37+k*101+p.phase)%n), p.wide(i*per+k))
	}
	if i%3 == 0 {
		add(int64(n-1-i%5), 0) // an explicit zero entry
	}
	sort.Slice(l, func(a, b int) bool { return l[a].k < l[b].k })
	return l
}

func (g *gen) scaleKvRows(n, per int) [][]kv {
	p := g.pattern()
	rows := make([][]kv, n)
	for i := range rows {
		if i%89 == 7 && i+16 < n {
			rows[i] = nil // an empty row, not among the last ones
			continue
		}
		rows[i] = scaleKvRow(p, i, n, per)
	}
	return rows
}

// nf files, np named developers (+ the row of the unmatched author); longRow > 0 adds one row with that many entries
func (g *gen) cpScale(nf, np, longRow int) *cpRes {
	p := g.pattern()
	r := &cpRes{}
	for i := 0; i < nf; i++ {
		r.files = append(r.files, scaleName("src/f", i))
		r.fl = append(r.fl, p.count(i))
	}
	if nf > 0 {
		r.fl[nf-1] = 4242
	}
	for i := 0; i < np; i++ {
		r.names = append(r.names, scaleName("dev", i))
	}
	if nf > 0 {
		r.fm = g.scaleKvRows(nf, 3)
		if longRow > 0 {
			row := make([]kv, 0, longRow)
			for k := 0; k < longRow && k < nf; k++ {
				row = append(row, kv{int64(k), p.wide(k)})
			}
			r.fm[nf/2] = row
		}
	}
	r.pm = g.scaleKvRows(np+1, 2)
	for i := 0; i < np+1; i++ {
		var fs []int64
		for k := 0; k < 3 && nf > 0; k++ {
			fs = append(fs, int64((i*11+k*5)%nf))
		}
		sort.Slice(fs, func(a, b int) bool { return fs[a] < fs[b] })
		r.pf = append(r.pf, fs)
	}
	return r
}

// ---------------------------------------------------------------- the family

func xl(kind string, n int) string {
	if n > modelLimit {
		return kind + "-xl"
	}
	return kind
}

func scaleFamily(c *Config, g *gen) {
	for _, m := range []mat{wrapRows(4), wrapRows(1024)} {
		emitMx(c, "sc-mx", m, true)
		emitBd(c, "sc-bd", scaleBd(m))
	}
	if c.Thorough() {
		emitMx(c, "sc-mx", wrapRows(65536), true)
	}
	// quick tier: every axis sees all the sizes 7 .. 65, one of c-1 / c / c+1 around 128, 256, 512 and 1000, the
	// size 1029 (above every threshold <= 1024, not a multiple of 8) and one of 1023 / 1024 / 1025 / 2048 / 2051;
	// the choice rotates with the axis and the seed.  The thorough tier gives every axis all of them and the
	// sizes up to 10^5
	axis := 0
	// limit: the largest size this axis is taken to in the thorough tier
	run := func(limit int, f func(n int)) {
		var sizes []int
		if c.Thorough() {
			sizes = append(sizes, scaleMid...)
			sizes = append(sizes, scaleBig...)
			sizes = append(sizes, scaleHuge...)
			sizes = append(sizes, scaleXL...)
		} else {
			rot := axis + int(c.Seed%15) + 15
			sizes = append(sizes, scaleMid[:15]...) // 7 .. 65: all of them
			for _, base := range []int{127, 255, 511, 999} {
				sizes = append(sizes, base+rot%3) // c-1, c or c+1
			}
			sizes = append(sizes, 1029, []int{1023, 1024, 1025, 2048, 2051}[rot%5])
		}
		axis++
		for _, n := range sizes {
			if n <= limit {
				f(n)
			}
		}
	}
	// bare matrices: many rows, many columns, a single long row
	run(32769, func(n int) { emitMx(c, "sc-mx", g.sparseDense(n, 5, 2), n%2 == 0) }) // (the shape oracle is quadratic in the rows)
	run(100003, func(n int) { emitMx(c, "sc-mx", g.sparseDense(2, n, 3), n%2 == 1) })
	run(100003, func(n int) { emitMx(c, "sc-mx", g.sparseDense(1, n, 1+n/3), true) })
	// burndown: samples, bands, files, ownership table (the model of the history codec is linear: no -xl)
	run(32769, func(n int) { emitBd(c, "sc-bd", scaleBd(g.sparseDense(n, 6, 2))) })
	run(100003, func(n int) { emitBd(c, "sc-bd", scaleBd(g.sparseDense(3, n, 4))) })
	run(2051, func(n int) { emitBd(c, "sc-bd", g.bdFiles(n)) })
	run(65537, func(n int) { emitBd(c, xl("sc-bd", n), g.bdOwnership(n)) })
	// devs: ticks, developers of one tick, languages of one developer
	run(100003, func(n int) { emitDv(c, xl("sc-dv", n), g.dvTicks(n)) })
	run(65537, func(n int) { emitDv(c, xl("sc-dv", n), g.dvDevelopers(n)) })
	run(16385, func(n int) { emitDv(c, xl("sc-dv", n), g.dvLanguages(n)) })
	// couples: files, developers (the people matrix has one row more), one long row, both, a loaded dictionary
	run(100003, func(n int) { emitCp(c, xl("sc-cp", n), g.cpScale(n, 3, 0)) })
	run(16385, func(n int) { emitCp(c, xl("sc-cp", n), g.cpScale(5, n-1, 0)) })
	run(65537, func(n int) { emitCp(c, xl("sc-cp", n), g.cpScale(n, 2, n)) })
	run(2051, func(n int) {
		if n >= 999 {
			emitCp(c, "sc-cp", g.cpScale(n+6, n, 0))
		}
	})
	run(2051, func(n int) {
		loaded := g.cpScale(17, n, 0) // dictionary read from a file: the pseudo-developer is named
		loaded.names = append(loaded.names, "<unmatched>")
		emitCp(c, "sc-cp", loaded)
	})
	// quadratic shapes: triangular histories and the developers x developers interaction matrix
	tri := []int{63, 64, 65, 255, 257}
	ppl := []int{8, 9, 63, 64, 65, 257, 1029}
	if c.Thorough() {
		tri = append(tri, 511, 513) // (a 1025 x 1025 triangle has 5*10^5 cells: the extracted list functions are not tail recursive)
		ppl = append(ppl, 255, 256, 511, 513, 1024, 1025)
	}
	for _, n := range tri {
		emitMx(c, "sc-mx", g.triangular(n, n), true)
		emitBd(c, "sc-bd", scaleBd(g.triangular(n, n+n/3)))
	}
	for _, n := range ppl {
		emitBd(c, "sc-bd", g.bdPeople(n))
	}
}
