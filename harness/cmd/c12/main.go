// Harness for C12: (1) runs the REAL pipeline (hercules.NewPipeline, DeployItem, Initialize, Run) with
// leaves.DevsAnalysis and leaves.CommitsAnalysis on synthetic repositories and records, with a recording
// pipeline item, everything every replay step was given by the upstream items; (2) drives
// LinesStatsCalculator.Consume directly with fabricated tree changes, blobs and diff scripts.
//
// Case line:
//
//	(case n (kind K) (nt b) (mode pipe|scale|direct) (cec b) (ren b) (hib d) (pr k) (items ...) (obs ...))
//
// pipe:   items = (c id (p parent-ids...) author tick (f name (bytes...))...)   declared commits
// scale:  items = (lin n) | (dia n v) | (comb n) | (octo n p)   segments of a LONG generated history, with
//
//	fields (au a) (tk t): a authors (0 = every commit its own), t commits per tick; see buildShape
//
// direct: items = (ins name n fin) | (del name n fin) | (mod name (e n)(i n)(d n)...)   with a field (merge b)
// hib = Pipeline.HibernationDistance, pr = 1: Pipeline.PrintActions, 2: Pipeline.DumpPlan, 3: both (absent = 0)
package main

import (
	"errors"
	"flag"
	"fmt"
	"io/ioutil"
	"log"
	"os"
	"reflect"
	"sort"
	"strings"
	"time"
	"unicode/utf8"

	"github.com/sergi/go-diff/diffmatchpatch"
	"gopkg.in/src-d/go-git.v4/plumbing"
	"gopkg.in/src-d/go-git.v4/plumbing/filemode"
	"gopkg.in/src-d/go-git.v4/plumbing/object"
	"gopkg.in/src-d/go-git.v4/utils/merkletrie"
	hercules "gopkg.in/src-d/hercules.v10"
	"gopkg.in/src-d/hercules.v10/leaves"
	"gopkg.in/src-d/hercules.v10/verifapi"
	api "gopkg.in/src-d/hercules.v10/verifapi/c12"

	. "verifharness/lib"
	"verifharness/synth"

	git "gopkg.in/src-d/go-git.v4"
)

// ---------------------------------------------------------------------------------------------
// declared input of a pipeline case

type fileIn struct {
	Name string
	Data []byte
	Exec bool // mode 0100755 instead of 0100644
	Link bool // mode 0120000: a symbolic link, the data are its target (round 4)
}

type commitIn struct {
	ID      int
	Parents []int
	Author  int
	Tick    int
	Files   []fileIn
	Nonce   int // != 0: part of the commit message (round 4: the harness searches commit hashes that share a prefix)
}

func (c commitIn) sx() Sx {
	items := []Sx{A("c"), I(c.ID), T("p", Ints(c.Parents).List...), I(c.Author), I(c.Tick)}
	for _, f := range c.Files {
		if f.Link {
			items = append(items, T("f", A(f.Name), Bytes(f.Data), A("l")))
		} else if f.Exec {
			items = append(items, T("f", A(f.Name), Bytes(f.Data), A("x")))
		} else {
			items = append(items, T("f", A(f.Name), Bytes(f.Data)))
		}
	}
	if c.Nonce != 0 {
		items = append(items, T("n", I(c.Nonce)))
	}
	return L(items...)
}

func parseCommit(s Sx) commitIn {
	c := commitIn{ID: s.List[1].Int(), Author: s.List[3].Int(), Tick: s.List[4].Int()}
	for _, p := range s.List[2].Args() {
		c.Parents = append(c.Parents, p.Int())
	}
	for _, f := range s.List[5:] {
		if f.Tag() == "n" {
			c.Nonce = f.List[1].Int()
			continue
		}
		var data []byte
		for _, b := range f.List[2].List {
			data = append(data, byte(b.Int()))
		}
		fi := fileIn{Name: f.List[1].Atom, Data: data}
		if len(f.List) > 3 {
			fi.Exec, fi.Link = f.List[3].Atom != "l", f.List[3].Atom == "l"
		}
		c.Files = append(c.Files, fi)
	}
	return c
}

// toSpecs resolves parent ids against the commits present before (a shrunk case may have lost some).
func toSpecs(cs []commitIn) []synth.CommitSpec {
	pos := map[int]int{}
	var specs []synth.CommitSpec
	for i, c := range cs {
		au := fmt.Sprintf("dev%d", c.Author)
		when := time.Unix(synth.BaseTime+int64(c.Tick)*86400+int64(i), 0)
		spec := synth.CommitSpec{AuthorName: au, AuthorEmail: au + "@x", AuthorWhen: when, Message: commitMessage(c.ID, c.Nonce)}
		seen := map[int]bool{}
		for _, p := range c.Parents {
			if q, ok := pos[p]; ok && !seen[q] {
				seen[q] = true
				spec.Parents = append(spec.Parents, q)
			}
		}
		for _, f := range c.Files {
			fs := synth.FileSpec{Path: f.Name, Data: f.Data}
			if f.Exec {
				fs.Mode = filemode.Executable
			}
			if f.Link {
				fs.Mode = filemode.Symlink
			}
			spec.Files = append(spec.Files, fs)
		}
		specs = append(specs, spec)
		if _, dup := pos[c.ID]; !dup {
			pos[c.ID] = i
		}
	}
	return specs
}

func commitMessage(id, nonce int) string {
	if nonce != 0 {
		return fmt.Sprintf("c%d n%d", id, nonce)
	}
	return fmt.Sprintf("c%d", id)
}

var extOf = map[string]string{"a": "a.go", "b": "b.py", "c": "c", "d": "d.md"}

func rename(n string) string {
	if r, ok := extOf[n]; ok {
		return r
	}
	return n
}

func fromHist(h *synth.Hist) []commitIn {
	var cs []commitIn
	for c := 0; c < h.N; c++ {
		ci := commitIn{ID: c, Parents: append([]int{}, h.Parents[c]...), Author: h.Author[c], Tick: h.Tick[c]}
		for _, p := range h.Paths {
			if txt, ok := h.Content(c, p); ok {
				ci.Files = append(ci.Files, fileIn{Name: rename(p), Data: []byte(txt)})
			}
		}
		cs = append(cs, ci)
	}
	return cs
}

func fromLinear(steps []synth.LinearStep, authors func() int) []commitIn {
	var cs []commitIn
	for c, s := range steps {
		ci := commitIn{ID: c, Author: authors(), Tick: s.Tick}
		if c > 0 {
			ci.Parents = []int{c - 1}
		}
		var names []string
		for k := range s.Files {
			names = append(names, k)
		}
		sort.Strings(names)
		for _, k := range names {
			ci.Files = append(ci.Files, fileIn{Name: rename(k), Data: s.Files[k]})
		}
		cs = append(cs, ci)
	}
	return cs
}

// ---------------------------------------------------------------------------------------------
// tables of names / languages of one case

type table struct {
	idx   map[string]int
	names []string
}

func newTable() *table { return &table{idx: map[string]int{}} }
func (t *table) id(s string) int {
	if i, ok := t.idx[s]; ok {
		return i
	}
	t.idx[s] = len(t.names)
	t.names = append(t.names, s)
	return t.idx[s]
}
func atomOf(s string) string {
	if s == "" {
		return "_"
	}
	r := strings.NewReplacer(" ", "_", "(", "_", ")", "_", "\n", "_", "\t", "_", "\r", "_")
	return r.Replace(s)
}
func (t *table) sx(tag string) Sx {
	xs := make([]Sx, len(t.names))
	for i, n := range t.names {
		xs[i] = A(atomOf(n))
	}
	return T(tag, xs...)
}

// ---------------------------------------------------------------------------------------------
// the recording pipeline item

type recChange struct {
	kind  string // ins | del | mod
	name  string // To.Name (ins, mod) or From.Name (del)
	from  string
	lang  string
	lines int // ins/del: CountLines, -1 = binary
	old   int // mod: OldLinesOfCode / NewLinesOfCode as FileDiff reported them
	new   int
	hasFD bool
	diffs [][2]int // op (0 eq, 1 ins, 2 del, 3 other), rune count
}

type recStat struct {
	side    int // 1 = To entry, 0 = From entry, -1 = unknown entry
	name    string
	lang    string
	a, r, c int
}

type recStep struct {
	inst     int           // identity of the recorder instance (= branch of the run)
	prev     plumbing.Hash // the commit this instance consumed before
	hasPrev  bool
	hash     plumbing.Hash
	nparents int
	isMerge  bool
	index    int
	author   int
	tick     int
	changes  []recChange
	stats    []recStat
}

// recShared is the log all instances of the recorder write to, in execution order.
type recShared struct {
	steps  []recStep
	next   int
	failAt int  // >= 0: Consume returns an error at the step with this number (error path of a run); set before Initialize
	failed bool // the error was injected
}

// recorder is forked by copy: every branch of the run has its own instance, which knows its identity and
// the commit it consumed last (= the commit the next one is replayed on).  The executed replay sequence
// is therefore observed from inside the run, not recomputed with a second planner call.
type recorder struct {
	hercules.NoopMerger
	sh     *recShared
	id     int
	last   plumbing.Hash
	hasOne bool
}

func (r *recorder) Name() string       { return "VerifC12Recorder" }
func (r *recorder) Provides() []string { return []string{} }
func (r *recorder) Requires() []string {
	return []string{api.DependencyAuthor, api.DependencyTreeChanges, api.DependencyTick, api.DependencyLanguages,
		api.DependencyLineStats, api.DependencyFileDiff, api.DependencyBlobCache}
}
func (r *recorder) ListConfigurationOptions() []hercules.ConfigurationOption { return nil }
func (r *recorder) Configure(facts map[string]interface{}) error             { return nil }
func (r *recorder) Initialize(*git.Repository) error {
	r.sh.steps, r.sh.next, r.id, r.hasOne, r.sh.failed = nil, 1, 0, false, false
	return nil
}
func (r *recorder) Fork(n int) []hercules.PipelineItem {
	res := make([]hercules.PipelineItem, n)
	for i := range res {
		res[i] = &recorder{sh: r.sh, id: r.sh.next, last: r.last, hasOne: r.hasOne}
		r.sh.next++
	}
	return res
}

func opCode(t diffmatchpatch.Operation) int {
	switch t {
	case diffmatchpatch.DiffEqual:
		return 0
	case diffmatchpatch.DiffInsert:
		return 1
	case diffmatchpatch.DiffDelete:
		return 2
	}
	return 3
}

func (r *recorder) Consume(deps map[string]interface{}) (map[string]interface{}, error) {
	commit := deps[api.DependencyCommit].(*object.Commit)
	st := recStep{inst: r.id, prev: r.last, hasPrev: r.hasOne, hash: commit.Hash, nparents: commit.NumParents(), isMerge: deps[api.DependencyIsMerge].(bool),
		index: deps[api.DependencyIndex].(int), author: deps[api.DependencyAuthor].(int), tick: deps[api.DependencyTick].(int)}
	changes := deps[api.DependencyTreeChanges].(object.Changes)
	cache := deps[api.DependencyBlobCache].(map[plumbing.Hash]*api.CachedBlob)
	fds := deps[api.DependencyFileDiff].(map[string]api.FileDiffData)
	langs := deps[api.DependencyLanguages].(map[plumbing.Hash]string)
	stats := deps[api.DependencyLineStats].(map[object.ChangeEntry]api.LineStats)
	count := func(h plumbing.Hash) int {
		b := cache[h]
		if b == nil {
			return -2
		}
		n, err := b.CountLines()
		if err != nil {
			return -1
		}
		return n
	}
	type ek struct {
		side int
		name string
	}
	entries := map[object.ChangeEntry]ek{}
	for _, ch := range changes {
		action, err := ch.Action()
		if err != nil {
			return nil, err
		}
		switch action {
		case merkletrie.Insert:
			st.changes = append(st.changes, recChange{kind: "ins", name: ch.To.Name, lang: langs[ch.To.TreeEntry.Hash], lines: count(ch.To.TreeEntry.Hash)})
			entries[ch.To] = ek{1, ch.To.Name}
		case merkletrie.Delete:
			st.changes = append(st.changes, recChange{kind: "del", name: ch.From.Name, lang: langs[ch.From.TreeEntry.Hash], lines: count(ch.From.TreeEntry.Hash)})
			entries[ch.From] = ek{0, ch.From.Name}
		case merkletrie.Modify:
			rc := recChange{kind: "mod", name: ch.To.Name, from: ch.From.Name, lang: langs[ch.To.TreeEntry.Hash]}
			if fd, ok := fds[ch.To.Name]; ok {
				rc.hasFD, rc.old, rc.new = true, fd.OldLinesOfCode, fd.NewLinesOfCode
				for _, d := range fd.Diffs {
					rc.diffs = append(rc.diffs, [2]int{opCode(d.Type), utf8.RuneCountInString(d.Text)})
				}
			}
			st.changes = append(st.changes, rc)
			entries[ch.To] = ek{1, ch.To.Name}
		}
	}
	for e, s := range stats {
		k, ok := entries[e]
		if !ok {
			k = ek{-1, e.Name}
		}
		st.stats = append(st.stats, recStat{k.side, k.name, langs[e.TreeEntry.Hash], s.Added, s.Removed, s.Changed})
	}
	sort.Slice(st.stats, func(i, j int) bool {
		if st.stats[i].name != st.stats[j].name {
			return st.stats[i].name < st.stats[j].name
		}
		return st.stats[i].side < st.stats[j].side
	})
	r.sh.steps = append(r.sh.steps, st)
	r.last, r.hasOne = commit.Hash, true
	if r.sh.failAt >= 0 && len(r.sh.steps)-1 == r.sh.failAt {
		r.sh.failed = true
		return nil, errors.New("verif: injected failure")
	}
	return map[string]interface{}{}, nil
}

// ---------------------------------------------------------------------------------------------
// ground truth from the declared contents

func splitLines(b []byte) []string {
	if len(b) == 0 {
		return nil
	}
	l := strings.SplitAfter(string(b), "\n")
	if l[len(l)-1] == "" {
		l = l[:len(l)-1]
	}
	return l
}

func isBinary(b []byte) bool {
	for _, x := range b {
		if x == 0 {
			return true
		}
	}
	return false
}

func lcs(a, b []string) int {
	prev := make([]int, len(b)+1)
	cur := make([]int, len(b)+1)
	for i := 1; i <= len(a); i++ {
		for j := 1; j <= len(b); j++ {
			if a[i-1] == b[j-1] {
				cur[j] = prev[j-1] + 1
			} else if prev[j] >= cur[j-1] {
				cur[j] = prev[j]
			} else {
				cur[j] = cur[j-1]
			}
		}
		prev, cur = cur, prev
	}
	return prev[len(b)]
}

func noSpaces(l []string) []string {
	r := make([]string, len(l))
	for i, x := range l {
		r[i] = strings.Replace(x, " ", "", -1)
	}
	return r
}

func b2i(b bool) int {
	if b {
		return 1
	}
	return 0
}

// truthDiff lists the declared differences between two commits (parent < 0: the empty tree):
// (f name-id old oldbin new newbin ins del), absent = -1; ins/del = those of a minimal line diff.
func truthDiff(specs []synth.CommitSpec, parent, c int, names *table, ws bool) []Sx {
	old := map[string][]byte{}
	oldMode, curMode := map[string]filemode.FileMode{}, map[string]filemode.FileMode{}
	if parent >= 0 {
		for _, f := range specs[parent].Files {
			old[f.Path] = f.Data
			oldMode[f.Path] = f.Mode
		}
	}
	cur := map[string][]byte{}
	for _, f := range specs[c].Files {
		cur[f.Path] = f.Data
		curMode[f.Path] = f.Mode
	}
	all := map[string]bool{}
	for k := range old {
		all[k] = true
	}
	for k := range cur {
		all[k] = true
	}
	var keys []string
	for k := range all {
		keys = append(keys, k)
	}
	sort.Strings(keys)
	var res []Sx
	for _, k := range keys {
		o, oin := old[k]
		n, nin := cur[k]
		if oin && nin && string(o) == string(n) && oldMode[k] == curMode[k] {
			// same content, same mode (a change of the mode alone IS a change of the file: zero lines inserted / deleted)
			continue
		}
		ol, nl, ins, del := -1, -1, -1, -1
		var la, lb []string
		if oin {
			la = splitLines(o)
			ol = len(la)
		}
		if nin {
			lb = splitLines(n)
			nl = len(lb)
		}
		if oin && nin {
			if ws {
				// FileDiff.WhitespaceIgnore: two lines that differ in U+0020 only are the same line; the NUMBER of lines of
				// either side is that of the declared contents
				la, lb = noSpaces(la), noSpaces(lb)
			}
			m := lcs(la, lb)
			ins, del = nl-m, ol-m
		}
		res = append(res, T("f", I(names.id(k)), I(ol), I(b2i(oin && isBinary(o))), I(nl), I(b2i(nin && isBinary(n))), I(ins), I(del)))
	}
	return res
}

// ---------------------------------------------------------------------------------------------
// one pipeline case

// pipeOpts are the options of one pipeline case.
type pipeOpts struct {
	cec, ren bool
	hib      int    // Pipeline.HibernationDistance
	pr       int    // bit 0: Pipeline.PrintActions, bit 1: Pipeline.DumpPlan
	alt      int    // re-use cases: the variant of the history (see runIn.alt)
	pd       int    // > 0: IdentityDetector.PeopleDict given from outside, knowing the developers 0 .. pd-2 (the others are AuthorMissing)
	ws       bool   // FileDiff.WhitespaceIgnore (round 4)
	ncl      bool   // FileDiff.NoCleanup (round 4)
	dto      int    // > 0: FileDiff.Timeout in milliseconds (round 4)
	hpm      int    // informational: two merge commits of the case have hashes that agree in this many hex digits (round 4)
	noPlan   bool   // skip the informational second planner call
	scale    *shape // non-nil: the commits were generated from these segments (mode scale)
}

const (
	factHibernationDistance = "Pipeline.HibernationDistance" // core.ConfigPipelineHibernationDistance
	factPrintActions        = "Pipeline.PrintActions"        // core.ConfigPipelinePrintActions
	factDumpPlan            = "Pipeline.DumpPlan"            // core.ConfigPipelineDumpPlan
	factPeopleDict          = "IdentityDetector.PeopleDict"  // identity.FactIdentityDetectorPeopleDict
	factReversedPeopleDict  = "IdentityDetector.ReversedPeopleDict"
	factWhitespaceIgnore    = "FileDiff.WhitespaceIgnore" // plumbing.ConfigFileWhitespaceIgnore
	factNoCleanup           = "FileDiff.NoCleanup"        // plumbing.ConfigFileDiffDisableCleanup
	factDiffTimeout         = "FileDiff.Timeout"          // plumbing.ConfigFileDiffTimeout
)

// leafSet holds the leaf items of an analysis; a re-use case hands the SAME instances to several pipelines.
type leafSet struct {
	devs *leaves.DevsAnalysis
	cst  *leaves.CommitsAnalysis
	// re-use of the whole Pipeline object (runIn.samep): the pipeline of the previous analysis and what it was made for
	samep bool
	prev  *pipeState
}

type pipeState struct {
	p         *hercules.Pipeline
	rec       *recorder
	devs, cst hercules.LeafPipelineItem
	repo      *git.Repository
	commits   []*object.Commit
	alt       int
}

// analysis is one Initialize + Run of a pipeline and what was observed.
type analysis struct {
	status     string // ok | empty | panic | error | failed (the recorder returned the error it was told to return)
	pre        []Sx   // plan, truth, pipeline, steps
	haveRes    bool
	devsRes    leaves.DevsResult
	commitsRes leaves.CommitsResult
	names      *table
	langs      *table
	cidx       map[plumbing.Hash]int
	commits    []*object.Commit
	first      string // the results as serialised when the run ended
	samePipe   bool   // the Pipeline object of the previous analysis was used again
}

// results serialises the retained DevsResult and CommitsResult (again): (devs ...) (commits ...) (lhashes ...).
func (a *analysis) results() []Sx {
	devsRes, commitsRes, names, langs := a.devsRes, a.commitsRes, a.names, a.langs
	var tks []int
	for t := range devsRes.Ticks {
		tks = append(tks, t)
	}
	sort.Ints(tks)
	var devSx []Sx
	for _, t := range tks {
		var ds []int
		for d := range devsRes.Ticks[t] {
			ds = append(ds, d)
		}
		sort.Ints(ds)
		for _, d := range ds {
			dt := devsRes.Ticks[t][d]
			var ls []string
			for l := range dt.Languages {
				ls = append(ls, l)
			}
			sort.Strings(ls)
			var lsx []Sx
			for _, l := range ls {
				v := dt.Languages[l]
				lsx = append(lsx, T("l", I(langs.id(l)), I(v.Added), I(v.Removed), I(v.Changed)))
			}
			devSx = append(devSx, T("t", I(t), I(d), I(dt.Commits), I(dt.Added), I(dt.Removed), I(dt.Changed), T("langs", lsx...)))
		}
	}
	var cSx, lh []Sx
	for _, cm := range commitsRes.Commits {
		ci, ok := a.cidx[plumbing.NewHash(cm.Hash)]
		if !ok {
			ci = -1
		}
		fs := append([]leaves.FileStat{}, cm.Files...)
		sort.Slice(fs, func(i, j int) bool {
			if fs[i].Name != fs[j].Name {
				return fs[i].Name < fs[j].Name
			}
			return fs[i].Removed < fs[j].Removed
		})
		var fsx []Sx
		for _, f := range fs {
			fsx = append(fsx, T("fl", I(names.id(f.Name)), I(langs.id(f.Language)), I(f.Added), I(f.Removed), I(f.Changed)))
		}
		whenOK := ci >= 0 && cm.When == a.commits[ci].Author.When.Unix()
		cSx = append(cSx, T("c", I(ci), B(whenOK), I(cm.Author), T("files", fsx...)))
		lh = append(lh, A("h"+cm.Hash))
	}
	return []Sx{T("devs", devSx...), T("commits", cSx...), T("lhashes", lh...)}
}

// obs gives the observation fields of the analysis; late = serialise the retained results again.
func (a *analysis) obs(late bool) []Sx {
	switch a.status {
	case "empty", "panic", "error":
		return []Sx{T(a.status)}
	}
	var res []Sx
	if a.status == "failed" {
		res = append(res, T("failed"))
	}
	if a.samePipe {
		res = append(res, T("same-pipeline"))
	}
	res = append(res, a.pre...)
	if a.haveRes {
		res = append(res, a.results()...)
	}
	return append(res, a.names.sx("names"), a.langs.sx("langs"))
}

func sxString(xs []Sx) string {
	var sb strings.Builder
	for _, x := range xs {
		sb.WriteString(x.String())
	}
	return sb.String()
}

// analyse builds the repository of the declared commits and runs a NEW pipeline on it with the leaf items of ls
// (new instances when ls is nil).  failAt >= 0: the recording item returns an error at that step.
func analyse(c *Config, o pipeOpts, cs []commitIn, ls *leafSet, failAt int) *analysis {
	cec, ren := o.cec, o.ren
	a := &analysis{status: "ok", names: newTable(), langs: newTable(), cidx: map[plumbing.Hash]int{}}
	specs := toSpecs(cs)
	if len(specs) == 0 {
		a.status = "empty"
		return a
	}
	var repo *git.Repository
	var commits []*object.Commit
	var same *pipeState
	if ls != nil && ls.samep && ls.prev != nil && ls.prev.alt == o.alt && len(specs) <= len(ls.prev.commits) {
		// the SAME Pipeline object again: its repository holds the commits (a prefix of what it analysed before)
		same = ls.prev
		a.samePipe = true
		repo, commits = same.repo, same.commits[:len(specs)]
	} else {
		repo, commits = synth.BuildRepo(specs)
	}
	a.commits = commits
	cidx := a.cidx
	for i, cm := range commits {
		if _, dup := cidx[cm.Hash]; !dup {
			cidx[cm.Hash] = i
		}
	}
	names, langs := a.names, a.langs
	langs.id("")
	reuse := ls != nil
	if ls == nil {
		ls = &leafSet{devs: &leaves.DevsAnalysis{}, cst: &leaves.CommitsAnalysis{}}
	}
	rec := &recorder{sh: &recShared{failAt: failAt}}
	if same != nil {
		rec = same.rec
		rec.sh.failAt = failAt
	}
	var itemNames []string
	var runErr error
	_, panicked := Catch(func() {
		if o.pr != 0 || failAt >= 0 || reuse {
			// the plan / the actions are printed to os.Stderr at call time, a failing run is logged to the os.Stderr the
			// pipeline's logger saw when it was made; the harness prints nothing but the trace
			if null, err := os.OpenFile(os.DevNull, os.O_WRONLY, 0); err == nil {
				saved := os.Stderr
				os.Stderr = null
				defer func() { os.Stderr = saved; null.Close() }()
			}
		}
		var p *hercules.Pipeline
		var devs, cst hercules.LeafPipelineItem
		if same != nil {
			p, devs, cst = same.p, same.devs, same.cst
		} else {
			p = hercules.NewPipeline(repo)
			devs = p.DeployItem(ls.devs).(hercules.LeafPipelineItem)
			cst = p.DeployItem(ls.cst).(hercules.LeafPipelineItem)
			p.DeployItem(rec)
			ls.prev = &pipeState{p: p, rec: rec, devs: devs, cst: cst, repo: repo, commits: commits, alt: o.alt}
		}
		facts := map[string]interface{}{
			hercules.ConfigPipelineCommits:        commits,
			leaves.ConfigDevsConsiderEmptyCommits: cec,
		}
		if ren {
			// the command line default; without the fact the threshold stays 0 (everything big enough pairs up)
			facts[api.ConfigRenameAnalysisSimilarityThreshold] = 80
		}
		if o.hib > 0 || c.N%2 == 0 || same != nil {
			// distance 0 is also given explicitly in half of the cases (fact present / absent)
			facts[factHibernationDistance] = o.hib
		}
		if o.pd > 0 {
			// a people dictionary from outside that knows the developers 0 .. pd-2 only: everybody else is AuthorMissing
			pdict, rdict := map[string]int{}, []string{}
			for d := 0; d < o.pd-1; d++ {
				au := fmt.Sprintf("dev%d", d)
				pdict[au], pdict[au+"@x"] = d, d
				rdict = append(rdict, au+"|"+au+"@x")
			}
			facts[factPeopleDict], facts[factReversedPeopleDict] = pdict, rdict
		}
		if o.ws {
			facts[factWhitespaceIgnore] = true
		}
		if o.ncl {
			facts[factNoCleanup] = true
		}
		expired := o.dto == 7777 // the deadline of every diff is in the past: see below
		if expired {
			o.dto = 1
		}
		if o.dto > 0 {
			facts[factDiffTimeout] = o.dto
		}
		if o.pr&1 != 0 {
			facts[factPrintActions] = true
		}
		if o.pr&2 != 0 {
			facts[factDumpPlan] = true
		}
		if runErr = p.Initialize(facts); runErr != nil {
			return
		}
		if p.HibernationDistance != o.hib {
			runErr = fmt.Errorf("hibernation distance not taken")
			return
		}
		for _, it := range p.VerifItems() {
			itemNames = append(itemNames, it.Name())
			if it.Name() == "FileDiff" && (o.ws || o.ncl || o.dto > 0) {
				// the options of the upstream item were taken (exported fields, read by reflection: the type is internal)
				v := reflect.ValueOf(it).Elem()
				if v.FieldByName("WhitespaceIgnore").Bool() != o.ws || v.FieldByName("CleanupDisabled").Bool() != o.ncl ||
					(o.dto > 0 && time.Duration(v.FieldByName("Timeout").Int()) != time.Duration(o.dto)*time.Millisecond) {
					runErr = fmt.Errorf("FileDiff options not taken")
					return
				}
			}
		}
		var out map[hercules.LeafPipelineItem]interface{}
		out, runErr = p.Run(commits)
		if runErr != nil {
			if rec.sh.failed {
				// the error path: no result from Run; observe what the leaf items hold by calling Finalize ourselves
				a.devsRes, a.commitsRes, a.haveRes = ls.devs.Finalize().(leaves.DevsResult), ls.cst.Finalize().(leaves.CommitsResult), true
			}
			return
		}
		a.devsRes, a.commitsRes, a.haveRes = out[devs].(leaves.DevsResult), out[cst].(leaves.CommitsResult), true
	})
	if panicked {
		a.status = "panic"
		return a
	}
	if runErr != nil {
		if !rec.sh.failed || !a.haveRes {
			a.status = "error"
			return a
		}
		a.status = "failed"
	} else if rec.sh.failed {
		a.status = "error" // the injected error was swallowed
		return a
	}

	// the plan of a separate planner call, for information only (the planner is not deterministic across calls);
	// not for the long histories
	var plan []verifapi.VerifAction
	var planSx []Sx
	if o.scale != nil || o.noPlan {
		planSx = append(planSx, A("skipped"))
	} else {
		plan = verifapi.PrepareRunPlan(commits, 0)
	}
	for _, a := range plan {
		switch a.Action {
		case verifapi.ActionCommit:
			planSx = append(planSx, T("c", I(cidx[a.Commit.Hash]), I(a.Items[0])))
		case verifapi.ActionFork:
			planSx = append(planSx, T("f", Ints(a.Items).List...))
		case verifapi.ActionMerge:
			planSx = append(planSx, T("m", Ints(a.Items).List...))
		case verifapi.ActionEmerge:
			planSx = append(planSx, T("e", Ints(a.Items).List...))
		case verifapi.ActionDelete:
			planSx = append(planSx, T("d", Ints(a.Items).List...))
		default:
			planSx = append(planSx, T("x", I(a.Action)))
		}
	}
	a.pre = append(a.pre, T("plan", planSx...))
	if o.hpm > 0 {
		// informational: the longest common hash prefix (hex digits) of two commits with several parents
		best := 0
		for i, x := range commits {
			for _, y := range commits[:i] {
				if x.NumParents() >= 2 && y.NumParents() >= 2 && x.Hash != y.Hash {
					xs, ys, k := x.Hash.String(), y.Hash.String(), 0
					for k < len(xs) && xs[k] == ys[k] {
						k++
					}
					if k > best {
						best = k
					}
				}
			}
		}
		a.pre = append(a.pre, T("mergeprefix", I(best)))
	}
	// declared truth of every executed replay step: the commit against the commit its branch held before
	var truth []Sx
	for _, st := range rec.sh.steps {
		par := -1
		if st.hasPrev {
			par = cidx[st.prev]
		}
		ci := cidx[st.hash]
		truth = append(truth, T("on", append([]Sx{I(ci), I(par)}, truthDiff(specs, par, ci, names, o.ws)...)...))
	}
	a.pre = append(a.pre, T("truth", truth...))
	var pipeline []Sx
	for _, n := range itemNames {
		pipeline = append(pipeline, A(n))
	}
	a.pre = append(a.pre, T("pipeline", pipeline...))

	// the replay steps as the items saw them
	var steps []Sx
	for _, s := range rec.sh.steps {
		var chs []Sx
		for _, ch := range s.changes {
			chs = append(chs, changeSx(ch, names, langs))
		}
		var sts []Sx
		for _, x := range s.stats {
			sts = append(sts, T("k", I(x.side), I(names.id(x.name)), I(langs.id(x.lang)), I(x.a), I(x.r), I(x.c)))
		}
		steps = append(steps, T("s", I(cidx[s.hash]), I(s.nparents), B(s.isMerge), I(s.author), I(s.tick), I(s.index), T("ch", chs...), T("st", sts...), I(s.inst)))
	}
	a.pre = append(a.pre, T("steps", steps...))
	a.first = sxString(a.results())
	return a
}

func optFields(o pipeOpts) []Sx {
	fs := []Sx{T("cec", B(o.cec)), T("ren", B(o.ren)), T("hib", I(o.hib)), T("pr", I(o.pr))}
	if o.pd > 0 {
		fs = append(fs, T("pd", I(o.pd)))
	}
	if o.ws {
		fs = append(fs, T("ws", B(true)))
	}
	if o.ncl {
		fs = append(fs, T("ncl", B(true)))
	}
	if o.dto > 0 {
		fs = append(fs, T("dto", I(o.dto)))
	}
	if o.hpm > 0 {
		fs = append(fs, T("hpm", I(o.hpm)))
	}
	return fs
}

func runPipe(c *Config, kind string, o pipeOpts, cs []commitIn) {
	head := []Sx{T("kind", A(kind)), T("nt", B(len(cs) >= 3))}
	if o.scale != nil {
		head = append(append(append(head, T("mode", A("scale"))), optFields(o)...), T("au", I(o.scale.au)), T("tk", I(o.scale.tk)), T("items", o.scale.sx()...))
	} else {
		var items []Sx
		for _, ci := range cs {
			items = append(items, ci.sx())
		}
		head = append(append(append(head, T("mode", A("pipe"))), optFields(o)...), T("items", items...))
	}
	a := analyse(c, o, cs, nil, -1)
	c.Emit(append(head, T("obs", a.obs(false)...))...)
}

// ---------------------------------------------------------------------------------------------
// re-use of the leaf items (mode reuse): several analyses, each with a NEW pipeline, DeployItem of the SAME
// DevsAnalysis (and, with (rc 1), the same CommitsAnalysis) instance, Initialize, Run - on the same history, on a
// prefix of it (the history has grown / shrunk in between), on a variant with other hashes (another repository);
// an analysis may be told to fail half way (the recording item returns an error).  Every analysis is judged like a
// first one.  After the last one the results of the earlier ones are serialised again: they must not have changed.

type runIn struct {
	cut  int  // analyse the first cut declared commits (0 = all)
	alt  int  // > 0: every commit carries an extra file: all hashes differ from those of the other variants
	cec  bool // Devs.ConsiderEmptyCommits of this analysis
	hib  int  // Pipeline.HibernationDistance of this analysis
	fail int  // >= 0: the recording item fails at this step
	// the Pipeline OBJECT of the previous analysis is used again (Initialize + Run once more) when it was made for the same
	// variant and at least as many commits; otherwise a new pipeline is made as usual
	samep bool
}

func (r runIn) sx() Sx { return T("r", I(r.cut), I(r.alt), B(r.cec), I(r.hib), I(r.fail), B(r.samep)) }

func parseRuns(cs Sx) []runIn {
	var rs []runIn
	if f, ok := cs.Field("runs"); ok {
		for _, r := range f.Args() {
			ri := runIn{cut: r.List[1].Int(), alt: r.List[2].Int(), cec: r.List[3].Int() != 0, hib: r.List[4].Int(), fail: r.List[5].Int()}
			if len(r.List) > 6 {
				ri.samep = r.List[6].Int() != 0
			}
			rs = append(rs, ri)
		}
	}
	return rs
}

func runReuse(c *Config, kind string, o pipeOpts, reuseCommits bool, runs []runIn, cs []commitIn) {
	head := []Sx{T("kind", A(kind)), T("nt", B(len(cs) >= 3 && len(runs) >= 2)), T("mode", A("reuse")), T("ren", B(o.ren)), T("pr", I(o.pr))}
	if o.pd > 0 {
		head = append(head, T("pd", I(o.pd)))
	}
	head = append(head, T("rc", B(reuseCommits)))
	var rsx []Sx
	for _, r := range runs {
		rsx = append(rsx, r.sx())
	}
	head = append(head, T("runs", rsx...))
	if o.scale != nil {
		head = append(head, T("au", I(o.scale.au)), T("tk", I(o.scale.tk)), T("items", o.scale.sx()...))
	} else {
		var items []Sx
		for _, ci := range cs {
			items = append(items, ci.sx())
		}
		head = append(head, T("items", items...))
	}
	ls := &leafSet{devs: &leaves.DevsAnalysis{}, cst: &leaves.CommitsAnalysis{}}
	var as []*analysis
	var obs []Sx
	for i, r := range runs {
		sub := cs
		if r.cut > 0 && r.cut < len(cs) {
			sub = cs[:r.cut]
		}
		if r.alt > 0 {
			sub = append([]commitIn{}, sub...)
			for j := range sub {
				sub[j].Files = append(append([]fileIn{}, sub[j].Files...), fileIn{Name: fmt.Sprintf("zz-alt%d.md", r.alt), Data: []byte(fmt.Sprintf("variant %d\n", r.alt))})
			}
		}
		ro := o
		ro.cec, ro.hib, ro.noPlan, ro.alt = r.cec, r.hib, true, r.alt
		// the Pipeline object again when it was made for the same variant and holds the commits
		ls.samep = r.samep && ls.prev != nil && ls.prev.alt == r.alt && len(sub) > 0 && len(sub) <= len(ls.prev.commits)
		if !reuseCommits && !ls.samep {
			ls.cst = &leaves.CommitsAnalysis{}
		}
		a := analyse(c, ro, sub, ls, r.fail)
		as = append(as, a)
		obs = append(obs, T("run", I(i), B(false), B(r.cec), I(r.hib), T("obs", a.obs(false)...)))
	}
	// the results handed out by the earlier analyses, observed again after the items were used again
	for i, a := range as {
		if a.haveRes && a.status == "ok" && sxString(a.results()) != a.first {
			obs = append(obs, T("run", I(i), B(true), B(runs[i].cec), I(runs[i].hib), T("obs", a.obs(true)...)))
		}
	}
	c.Emit(append(head, T("obs", obs...))...)
}

func changeSx(ch recChange, names, langs *table) Sx {
	switch ch.kind {
	case "ins", "del":
		return T(ch.kind, I(names.id(ch.name)), I(langs.id(ch.lang)), I(ch.lines))
	}
	var ds []Sx
	for _, d := range ch.diffs {
		ds = append(ds, T([]string{"e", "i", "d", "x"}[d[0]], I(d[1])))
	}
	return T("mod", I(names.id(ch.name)), I(langs.id(ch.lang)), I(names.id(ch.from)), B(ch.hasFD), I(ch.old), I(ch.new), T("ds", ds...))
}

// ---------------------------------------------------------------------------------------------
// long histories (mode scale): a handful of segment kinds, generated deterministically

// seg is one segment of a long history.
//
//	(lin n)     n commits in a line, each modifies one of three files
//	(dia n v)   n diamonds: two children A, B of the tip and their merge.  v = 0: A and B change different files, the
//	            merge adds nothing (it differs from both parents); 1: the merge also changes a file of its own;
//	            2: B repeats the tree of the tip (an empty commit) and the merge equals A; 3: 0, 1, 2 in turn
//	(comb n)    n trunk commits, each with a side commit ("tooth") that stays alive; then the n teeth are merged
//	            into the trunk one after the other: n branches alive at the same time, idle for up to 2n steps
//	(octo n p)  n sections: p children of the tip (each changes its own file) and their p-parent merge
type seg struct {
	kind string
	n, p int
}

type shape struct {
	au, tk int // authors (0 = every commit its own author), commits per tick
	segs   []seg
}

func (sh *shape) sx() []Sx {
	var r []Sx
	for _, g := range sh.segs {
		switch g.kind {
		case "dia", "octo":
			r = append(r, T(g.kind, I(g.n), I(g.p)))
		default:
			r = append(r, T(g.kind, I(g.n)))
		}
	}
	return r
}

func parseShape(cs Sx, items Sx) *shape {
	sh := &shape{au: 3, tk: 50}
	if f, ok := cs.Field("au"); ok {
		sh.au = f.List[1].Int()
	}
	if f, ok := cs.Field("tk"); ok {
		sh.tk = f.List[1].Int()
	}
	if sh.tk < 1 {
		sh.tk = 1
	}
	for _, it := range items.Args() {
		g := seg{kind: it.Tag(), n: it.List[1].Int()}
		if len(it.List) > 2 {
			g.p = it.List[2].Int()
		}
		sh.segs = append(sh.segs, g)
	}
	return sh
}

// segsOf splits n into powers of two, largest first, and a unit, so that the greedy shrinker (which drops items) can
// reduce a failing long case to a small number of elements that still fails.
func segsOf(kind string, n, p int) []seg {
	var r []seg
	if n < 1 {
		return r
	}
	// n = powers of two of n-1, plus one unit segment: a threshold at 2^k + 1 shrinks to (2^k) (1)
	for b := 1 << 20; b > 0; b >>= 1 {
		if (n-1)&b != 0 {
			r = append(r, seg{kind, b, p})
		}
	}
	return append(r, seg{kind, 1, p})
}

// buildShape generates the declared commits of a long history.
func buildShape(sh *shape) []commitIn {
	var cs []commitIn
	trees := []map[string]string{} // the tree of every commit (maps are shared, never modified after creation)
	body := func(name string, id int) string {
		var sb strings.Builder
		fmt.Fprintf(&sb, "h-%s\n", name)
		for j := 0; j <= id%3; j++ {
			fmt.Fprintf(&sb, "v%d-%d\n", id, j)
		}
		sb.WriteString("t\n")
		return sb.String()
	}
	with := func(base map[string]string, kv ...string) map[string]string {
		m := make(map[string]string, len(base)+1)
		for k, v := range base {
			m[k] = v
		}
		for i := 0; i+1 < len(kv); i += 2 {
			m[kv[i]] = kv[i+1]
		}
		return m
	}
	add := func(parents []int, tree map[string]string) int {
		id := len(cs)
		au := id
		if sh.au > 0 {
			au = id % sh.au
		}
		ci := commitIn{ID: id, Parents: parents, Author: au, Tick: id / sh.tk}
		names := make([]string, 0, len(tree))
		for k := range tree {
			names = append(names, k)
		}
		sort.Strings(names)
		for _, k := range names {
			ci.Files = append(ci.Files, fileIn{Name: k, Data: []byte(tree[k])})
		}
		cs = append(cs, ci)
		trees = append(trees, tree)
		return id
	}
	// touch makes a child of parent p that rewrites file name
	touch := func(p int, name string) int {
		return add([]int{p}, with(trees[p], name, body(name, len(cs))))
	}
	tip := add(nil, map[string]string{"r.md": body("r.md", 0)})
	for _, g := range sh.segs {
		switch g.kind {
		case "lin":
			for i := 0; i < g.n; i++ {
				tip = touch(tip, []string{"l0.go", "l1.py", "l2"}[len(cs)%3])
			}
		case "dia":
			for i := 0; i < g.n; i++ {
				v := g.p
				if v == 3 {
					v = i % 3
				}
				an, bn := []string{"a0.go", "a1.go"}[i%2], []string{"b0.py", "b1.py"}[(i/2)%2]
				a := touch(tip, an)
				var b int
				if v == 2 {
					b = add([]int{tip}, trees[tip])
				} else {
					b = touch(tip, bn)
				}
				mt := trees[a]
				if v != 2 {
					mt = with(mt, bn, trees[b][bn])
				}
				if v == 1 {
					mt = with(mt, "m.md", body("m.md", len(cs)))
				}
				ps := []int{a, b}
				if i%2 == 1 {
					ps = []int{b, a}
				}
				tip = add(ps, mt)
			}
		case "comb":
			teeth := make([]int, g.n)
			names := make([]string, g.n)
			for i := 0; i < g.n; i++ {
				tip = touch(tip, "t.go")
				names[i] = fmt.Sprintf("s%d.py", i%8)
				teeth[i] = touch(tip, names[i])
			}
			for i := 0; i < g.n; i++ {
				tip = add([]int{tip, teeth[i]}, with(trees[tip], names[i], trees[teeth[i]][names[i]]))
			}
		case "octo":
			p := g.p
			if p < 2 {
				p = 2
			}
			for i := 0; i < g.n; i++ {
				arms := make([]int, p)
				mt := trees[tip]
				for a := 0; a < p; a++ {
					name := fmt.Sprintf("o%d.go", a)
					arms[a] = touch(tip, name)
					if (a+i)%3 == 0 {
						// a second commit on this arm
						arms[a] = touch(arms[a], name)
					}
					mt = with(mt, name, trees[arms[a]][name])
				}
				ps := make([]int, p)
				for a := 0; a < p; a++ {
					ps[a] = arms[(a+i)%p]
				}
				tip = add(ps, mt)
			}
		}
	}
	return cs
}

func runScale(c *Config, kind string, o pipeOpts, sh *shape) {
	o.scale = sh
	runPipe(c, kind, o, buildShape(sh))
}

// ---------------------------------------------------------------------------------------------
// direct cases: LinesStatsCalculator.Consume on fabricated dependencies

type dchange struct {
	kind  string // ins | del | mod
	name  int
	n     int // ins/del: number of lines; -1 = binary
	fin   bool
	diffs [][2]int // 0 eq 1 ins 2 del
}

func (d dchange) sx() Sx {
	if d.kind != "mod" {
		return T(d.kind, I(d.name), I(d.n), B(d.fin))
	}
	var ds []Sx
	for _, e := range d.diffs {
		ds = append(ds, T([]string{"e", "i", "d"}[e[0]], I(e[1])))
	}
	return T("mod", append([]Sx{I(d.name)}, ds...)...)
}

func parseDChange(s Sx) dchange {
	d := dchange{kind: s.Tag(), name: s.List[1].Int()}
	if d.kind != "mod" {
		d.n = s.List[2].Int()
		d.fin = s.List[3].Int() != 0
		return d
	}
	for _, e := range s.List[2:] {
		code := map[string]int{"e": 0, "i": 1, "d": 2}[e.Tag()]
		d.diffs = append(d.diffs, [2]int{code, e.List[1].Int()})
	}
	return d
}

// text of n runes, a mixture of one- to four-byte encodings, different for every call
var runeSrc = []rune{'a', 'é', '\n', '€', '😀', 'z', 0x7ff, 0xffff, 0x10000, ' '}

func runes(n, salt int) string {
	var sb strings.Builder
	for i := 0; i < n; i++ {
		sb.WriteRune(runeSrc[(i*7+salt)%len(runeSrc)])
	}
	return sb.String()
}

func blobData(n int, fin bool, salt int) []byte { return blobDataEnc(n, fin, salt, 0) }

// blobDataEnc: enc > 0 decorates the lines with bytes of one of the content classes of round 4 (see encLine).
func blobDataEnc(n int, fin bool, salt int, enc int) []byte {
	if n < 0 {
		return []byte(fmt.Sprintf("bin\x00%d\n", salt))
	}
	var sb strings.Builder
	for i := 0; i < n; i++ {
		sb.WriteString(encLine(fmt.Sprintf("l%d-%d", salt, i), enc, i))
		sb.WriteByte('\n')
	}
	s := sb.String()
	if !fin && n > 0 {
		s = s[:len(s)-1]
	}
	return []byte(s)
}

func runDirect(c *Config, kind string, merge bool, chs []dchange) {
	runDirectOpt(c, kind, merge, chs, 0, 0)
}

// runDirectOpt: enc = content class of every blob (0 = plain ASCII), hp > 0: the blob hashes of the call agree in their
// first hp bytes (the harness chooses the hashes: the blob cache is keyed by whatever the tree entries say).
func runDirectOpt(c *Config, kind string, merge bool, chs []dchange, enc, hp int) {
	var items []Sx
	nt := false
	for _, d := range chs {
		items = append(items, d.sx())
		if d.kind == "mod" && len(d.diffs) >= 2 {
			nt = true
		}
	}
	head := []Sx{T("kind", A(kind)), T("nt", B(nt)), T("mode", A("direct")), T("merge", B(merge))}
	if enc != 0 {
		head = append(head, T("enc", I(enc)))
	}
	if hp != 0 {
		head = append(head, T("hp", I(hp)))
	}
	head = append(head, T("items", items...))
	var changes object.Changes
	cache := map[plumbing.Hash]*api.CachedBlob{}
	fds := map[string]api.FileDiffData{}
	fromTree, toTree := &object.Tree{}, &object.Tree{Hash: plumbing.NewHash("01")}
	entry := func(tree *object.Tree, name string, data []byte) object.ChangeEntry {
		h := plumbing.ComputeHash(plumbing.BlobObject, data)
		for k := 0; k < hp && k < 16; k++ {
			h[k] = byte(0xa7 + 31*k)
		}
		cache[h] = &api.CachedBlob{Data: data}
		return object.ChangeEntry{Name: name, Tree: tree, TreeEntry: object.TreeEntry{Name: name, Mode: filemode.Regular, Hash: h}}
	}
	for i, d := range chs {
		name := fmt.Sprintf("f%d", d.name)
		switch d.kind {
		case "ins":
			changes = append(changes, &object.Change{To: entry(toTree, name, blobDataEnc(d.n, d.fin, d.name, enc))})
		case "del":
			changes = append(changes, &object.Change{From: entry(fromTree, name, blobDataEnc(d.n, d.fin, d.name, enc))})
		case "mod":
			changes = append(changes, &object.Change{From: entry(fromTree, name, blobDataEnc(1, true, 1000+2*d.name, enc)), To: entry(toTree, name, blobDataEnc(1, true, 1001+2*d.name, enc))})
			var diffs []diffmatchpatch.Diff
			for j, e := range d.diffs {
				ty := []diffmatchpatch.Operation{diffmatchpatch.DiffEqual, diffmatchpatch.DiffInsert, diffmatchpatch.DiffDelete}[e[0]]
				diffs = append(diffs, diffmatchpatch.Diff{Type: ty, Text: runes(e[1], i+j)})
			}
			fds[name] = api.FileDiffData{Diffs: diffs}
		}
	}
	var res map[object.ChangeEntry]api.LineStats
	var err error
	_, panicked := Catch(func() {
		lsc := &api.LinesStatsCalculator{}
		lsc.Initialize(nil)
		var out map[string]interface{}
		out, err = lsc.Consume(map[string]interface{}{
			api.DependencyIsMerge:     merge,
			api.DependencyTreeChanges: changes,
			api.DependencyBlobCache:   cache,
			api.DependencyFileDiff:    fds,
		})
		if err == nil {
			res = out[api.DependencyLineStats].(map[object.ChangeEntry]api.LineStats)
		}
	})
	if panicked {
		c.Emit(append(head, T("obs", T("panic")))...)
		return
	}
	if err != nil {
		c.Emit(append(head, T("obs", T("error")))...)
		return
	}
	type row struct{ side, name, a, r, c int }
	var rows []row
	for e, s := range res {
		side := 1
		if e.Tree == fromTree {
			side = 0
		}
		var id int
		fmt.Sscanf(e.Name, "f%d", &id)
		rows = append(rows, row{side, id, s.Added, s.Removed, s.Changed})
	}
	sort.Slice(rows, func(i, j int) bool {
		if rows[i].name != rows[j].name {
			return rows[i].name < rows[j].name
		}
		return rows[i].side < rows[j].side
	})
	var sts []Sx
	for _, r := range rows {
		sts = append(sts, T("k", I(r.side), I(r.name), I(0), I(r.a), I(r.r), I(r.c)))
	}
	c.Emit(append(head, T("obs", T("st", sts...)))...)
}

// ---------------------------------------------------------------------------------------------
// generators

func genScript(c *Config, canonical bool, maxLen, maxN int) [][2]int {
	n := c.Rng.Intn(maxLen + 1)
	var ds [][2]int
	prev := -1
	for len(ds) < n {
		o := c.Rng.Intn(3)
		if canonical && (o == prev || (prev == 1 && o == 2)) {
			continue
		}
		cnt := 1 + c.Rng.Intn(maxN)
		if !canonical && c.Rng.Intn(10) == 0 {
			cnt = 0
		}
		if c.Rng.Intn(25) == 0 {
			cnt = 50 + c.Rng.Intn(3000)
		}
		ds = append(ds, [2]int{o, cnt})
		prev = o
	}
	return ds
}

func genDirect(c *Config, canonical bool) []dchange {
	n := 1 + c.Rng.Intn(6)
	var chs []dchange
	for i := 0; i < n; i++ {
		if !canonical && i > 0 && c.Rng.Intn(8) == 0 {
			// the same change entry twice in one list (the map entry is overwritten): an exact copy of an
			// inserted / deleted file, or a second script for the same modified file
			d := chs[c.Rng.Intn(len(chs))]
			if d.kind == "mod" {
				d.diffs = genScript(c, canonical, 8, 5)
			}
			chs = append(chs, d)
			continue
		}
		switch c.Rng.Intn(6) {
		case 0:
			d := dchange{kind: "ins", name: i, n: c.Rng.Intn(6), fin: c.Rng.Intn(3) > 0}
			if c.Rng.Intn(5) == 0 {
				d.n = -1
			}
			chs = append(chs, d)
		case 1:
			d := dchange{kind: "del", name: i, n: c.Rng.Intn(6), fin: c.Rng.Intn(3) > 0}
			if c.Rng.Intn(5) == 0 {
				d.n = -1
			}
			chs = append(chs, d)
		default:
			chs = append(chs, dchange{kind: "mod", name: i, diffs: genScript(c, canonical, 8, 5)})
		}
	}
	return chs
}

// exhaustiveScripts enumerates every script of at most maxLen edits with counts 0..maxN-1 shifted by lo,
// packed as Modify changes of one commit, chunk files per case.
func exhaustiveScripts(c *Config, maxLen int, counts []int, chunk int) {
	var cur [][2]int
	var batch []dchange
	flush := func() {
		if len(batch) > 0 {
			runDirect(c, fmt.Sprintf("direct-exhaustive-%d", maxLen), false, batch)
			batch = nil
		}
	}
	var rec func()
	rec = func() {
		batch = append(batch, dchange{kind: "mod", name: len(batch), diffs: append([][2]int{}, cur...)})
		if len(batch) == chunk {
			flush()
		}
		if len(cur) == maxLen {
			return
		}
		for o := 0; o < 3; o++ {
			for _, n := range counts {
				cur = append(cur, [2]int{o, n})
				rec()
				cur = cur[:len(cur)-1]
			}
		}
	}
	rec()
	flush()
}

// exhaustiveDags enumerates every history of n commits in which commit i picks any set of at most three
// earlier commits as parents (none = a further root) and either repeats the tree of its first parent
// (empty tree for a root) or has content of its own; both settings of ConsiderEmptyCommits.
func exhaustiveDags(c *Config, n int, hib int) {
	var subsets func(i int) [][]int
	subsets = func(i int) [][]int {
		var res [][]int
		for m := 0; m < 1<<uint(i); m++ {
			var ps []int
			for b := 0; b < i; b++ {
				if m&(1<<uint(b)) != 0 {
					ps = append(ps, b)
				}
			}
			if len(ps) <= 3 {
				res = append(res, ps)
			}
		}
		return res
	}
	parents := make([][]int, n)
	var rec func(i int)
	rec = func(i int) {
		if i == n {
			wide := false
			for _, ps := range parents {
				if len(ps) >= 3 {
					wide = true
				}
			}
			for bits := 0; bits < 1<<uint(n); bits++ {
				cs := make([]commitIn, n)
				for j := 0; j < n; j++ {
					cs[j] = commitIn{ID: j, Parents: append([]int{}, parents[j]...), Author: j % 2, Tick: j / 2}
					if bits&(1<<uint(j)) != 0 {
						var sb strings.Builder
						for l := 0; l <= j; l++ {
							fmt.Fprintf(&sb, "x%d-%d\n", j, l%2)
						}
						cs[j].Files = []fileIn{{Name: "a.go", Data: []byte(sb.String())}}
						if j%3 == 2 {
							cs[j].Files = append(cs[j].Files, fileIn{Name: "b.py", Data: []byte(fmt.Sprintf("y%d\n", j))})
						}
					} else if len(parents[j]) > 0 {
						cs[j].Files = append([]fileIn{}, cs[parents[j][0]].Files...)
					}
				}
				for _, cec := range []bool{false, true} {
					if hib > 0 {
						// under hibernation only the histories with a commit of three parents, one setting each
						if !wide || cec != (bits%2 == 0) {
							continue
						}
						runPipe(c, fmt.Sprintf("dags-exhaustive-%d-hib", n), pipeOpts{cec: cec, ren: true, hib: hib}, cs)
						continue
					}
					runPipe(c, fmt.Sprintf("dags-exhaustive-%d", n), pipeOpts{cec: cec, ren: true}, cs)
				}
			}
			return
		}
		for _, ps := range subsets(i) {
			parents[i] = ps
			rec(i + 1)
		}
	}
	rec(0)
}

// skewTicks makes the commit times non-monotone / equal: the tick of a replay then depends on the branch it runs on
// (TicksSinceStart never lets the tick of a branch decrease), so the replays of one merge can land in different ticks.
func skewTicks(c *Config, cs []commitIn) {
	max := 1
	for _, ci := range cs {
		if ci.Tick > max {
			max = ci.Tick
		}
	}
	switch c.Rng.Intn(3) {
	case 0:
		for i := range cs {
			cs[i].Tick = c.Rng.Intn(max + 1)
		}
	case 1:
		for i := range cs {
			cs[i].Tick = max - cs[i].Tick
		}
	default:
		for i := range cs {
			cs[i].Tick = 0
		}
	}
}

// genShape draws a medium-size history from the segment kinds of the long histories.
func genShape(c *Config) *shape {
	sh := &shape{au: c.Rng.Intn(4), tk: 1 + c.Rng.Intn(6)}
	for k := 1 + c.Rng.Intn(4); k > 0; k-- {
		switch c.Rng.Intn(5) {
		case 0:
			sh.segs = append(sh.segs, seg{"lin", 1 + c.Rng.Intn(4), 0})
		case 1:
			sh.segs = append(sh.segs, seg{"dia", 1 + c.Rng.Intn(3), c.Rng.Intn(4)})
		case 2:
			sh.segs = append(sh.segs, seg{"comb", 1 + c.Rng.Intn(5), 0})
		default:
			sh.segs = append(sh.segs, seg{"octo", 1 + c.Rng.Intn(2), 3 + c.Rng.Intn(5)})
		}
	}
	return sh
}

// flipModes makes one file executable in the commits numbered k..k2-1: a mode change, alone or together with a
// change of the content (the tree entry changes, the blob possibly not).
func flipModes(c *Config, cs []commitIn) {
	if len(cs) < 2 {
		return
	}
	var names []string
	seen := map[string]bool{}
	for _, ci := range cs {
		for _, f := range ci.Files {
			if !seen[f.Name] {
				seen[f.Name] = true
				names = append(names, f.Name)
			}
		}
	}
	if len(names) == 0 {
		return
	}
	name := names[c.Rng.Intn(len(names))]
	k := 1 + c.Rng.Intn(len(cs)-1)
	k2 := k + 1 + c.Rng.Intn(len(cs))
	for i := k; i < k2 && i < len(cs); i++ {
		for j := range cs[i].Files {
			if cs[i].Files[j].Name == name {
				// the slice may be shared with another commit (empties): copy before writing
				fs := append([]fileIn{}, cs[i].Files...)
				fs[j].Exec = true
				cs[i].Files = fs
			}
		}
	}
}

// editInPlace appends a line to one file of one commit (that commit only): when the commit also renames the file,
// this is a rename together with an edit.
func editInPlace(c *Config, cs []commitIn) {
	if len(cs) < 2 {
		return
	}
	// prefer a commit that has a file name its predecessor does not have
	var cand [][2]int
	for i := 1; i < len(cs); i++ {
		prev := map[string]bool{}
		for _, f := range cs[i-1].Files {
			prev[f.Name] = true
		}
		for j, f := range cs[i].Files {
			if !prev[f.Name] && len(f.Data) > 0 && !isBinary(f.Data) {
				cand = append(cand, [2]int{i, j})
			}
		}
	}
	if len(cand) == 0 || c.Rng.Intn(4) == 0 {
		i := 1 + c.Rng.Intn(len(cs)-1)
		if len(cs[i].Files) == 0 {
			return
		}
		cand = [][2]int{{i, c.Rng.Intn(len(cs[i].Files))}}
	}
	p := cand[c.Rng.Intn(len(cand))]
	fs := append([]fileIn{}, cs[p[0]].Files...)
	d := append([]byte{}, fs[p[1]].Data...)
	if len(d) > 0 && d[len(d)-1] != '\n' {
		d = append(d, '\n')
	}
	fs[p[1]].Data = append(d, []byte("zz\n")...)
	cs[p[0]].Files = fs
}

func genPipe(c *Config, kind string) []commitIn {
	switch kind {
	case "octo":
		// octopus merges of 3..7 parents whose parent branches have been idle for different lengths (arms of 1..3
		// commits, 1-2 roots, sometimes a further head or a two-parent merge inside an arm)
		oo := synth.OctoOpts{Roots: 1 + c.Rng.Intn(2), Merges: 1 + c.Rng.Intn(2), MinPar: 3, MaxPar: 7, MaxArm: 1 + c.Rng.Intn(3),
			MaxTail: 1 + c.Rng.Intn(2), ExtraHead: c.Rng.Intn(3) == 0, SubMerge: c.Rng.Intn(3) == 0}
		if c.Rng.Intn(2) == 0 {
			oo.MinPar = 3 + c.Rng.Intn(5)
			oo.MaxPar = oo.MinPar
		}
		o := synth.GenOpts{Authors: 1 + c.Rng.Intn(3), Paths: 1 + c.Rng.Intn(3), MergeAddsPr: []int{0, 2, 3}[c.Rng.Intn(3)]}
		return fromHist(synth.GenHistShape(c.Rng, synth.GenOctopusShape(c.Rng, oo), o))
	case "hist", "hist-single":
		o := synth.GenOpts{MaxCommits: 4 + c.Rng.Intn(9), SingleHead: kind == "hist-single", Authors: 1 + c.Rng.Intn(3), Paths: 1 + c.Rng.Intn(3), MergeAddsPr: []int{0, 2, 3}[c.Rng.Intn(3)]}
		return fromHist(synth.GenHist(c.Rng, o))
	case "linear":
		na := 1 + c.Rng.Intn(3)
		return fromLinear(synth.GenLinear(c.Rng, 3+c.Rng.Intn(8)), func() int { return c.Rng.Intn(na) })
	}
	// "empties": a history with merges in which many commits repeat the tree of a parent
	// (empty commits, merges that take one side unchanged, fast-forward-like merges)
	cs := fromHist(synth.GenHist(c.Rng, synth.GenOpts{MaxCommits: 4 + c.Rng.Intn(8), SingleHead: c.Rng.Intn(2) == 0, Authors: 2, Paths: 2, MergeAddsPr: 3}))
	for i := range cs {
		if len(cs[i].Parents) > 0 && c.Rng.Intn(3) == 0 {
			p := cs[i].Parents[c.Rng.Intn(len(cs[i].Parents))]
			cs[i].Files = append([]fileIn{}, cs[p].Files...)
		}
		if c.Rng.Intn(12) == 0 {
			cs[i].Files = nil
		}
	}
	return cs
}

// optField reads an optional integer field of a replayed case line.
func optField(cs Sx, name string) int {
	if f, ok := cs.Field(name); ok && len(f.List) > 1 {
		return f.List[1].Int()
	}
	return 0
}

// drawHib draws a hibernation distance: 0 in half of the cases, otherwise 1..4.
func drawHib(c *Config) int {
	if c.Rng.Intn(2) == 0 {
		return 0
	}
	return 1 + c.Rng.Intn(4)
}

// drawPr: PrintActions / DumpPlan are switched on in one case out of eight.
func drawPr(c *Config) int {
	if c.Rng.Intn(8) == 0 {
		return 1 + c.Rng.Intn(3)
	}
	return 0
}

// boundary values: every size threshold one can think of in line / commit counting (2^8, 2^10, 2^15, 2^16) at c-1, c, c+1
var bigCounts = []int{255, 256, 257, 1023, 1024, 1025, 32767, 32768, 32769, 65535, 65536, 65537, 100000}

// directScale: LinesStatsCalculator.Consume on large inputs - edits of 2^k-1, 2^k, 2^k+1 lines, inserted / deleted
// files of that many lines, and long scripts whose counts are periodic with periods 2^k and 2^k+-1.
func directScale(c *Config) {
	counts := bigCounts
	if c.Thorough() {
		counts = append(append([]int{}, bigCounts...), 1<<20-1, 1<<20, 1<<20+1)
	}
	for i, x := range counts {
		y := counts[(i*7+3)%len(counts)]
		// a change block deleting x and inserting y lines, between two equal runs; a pure deletion; a pure insertion
		runDirect(c, "direct-scale", false, []dchange{
			{kind: "mod", name: 0, diffs: [][2]int{{0, 1}, {2, x}, {1, y}, {0, 2}}},
			{kind: "mod", name: 1, diffs: [][2]int{{2, x}, {0, 3}, {1, x}}},
			{kind: "mod", name: 2, diffs: [][2]int{{1, x}}},
			{kind: "mod", name: 3, diffs: [][2]int{{0, 5}, {2, x}}}})
		runDirect(c, "direct-scale", false, []dchange{{kind: "ins", name: 0, n: x, fin: i%2 == 0}, {kind: "del", name: 1, n: x, fin: i%3 != 0},
			{kind: "ins", name: 2, n: -1}, {kind: "mod", name: 3, diffs: [][2]int{{2, y}, {1, x}}}})
	}
	lens := []int{1000, 10000}
	if c.Thorough() {
		lens = []int{1000, 10000, 100000, 1000000}
	}
	for _, n := range lens {
		for _, period := range []int{2, 7, 8, 9, 63, 64, 65} {
			// canonical: equal, delete, insert, equal, insert, equal, delete, ... with counts 1 + (i mod period)
			var ds [][2]int
			pat := []int{0, 2, 1, 0, 1, 0, 2}
			for i := 0; i < n; i++ {
				ds = append(ds, [2]int{pat[i%len(pat)], 1 + i%period})
			}
			runDirect(c, "direct-scale-long", false, []dchange{{kind: "mod", name: 0, diffs: ds}})
			if n > 10000 {
				break
			}
		}
	}
}

// scaleCases: the long histories.  Quick: 10^3 merge commits (1100 diamonds: more than 2^10 merges), 10^4 linear
// commits, 1000 branches alive, chains of octopus merges under hibernation; thorough: 10^4 merges, 10^5 linear commits.
func scaleCases(c *Config) {
	type sc struct {
		kind string
		o    pipeOpts
		sh   shape
	}
	cat := func(xs ...[]seg) []seg {
		var r []seg
		for _, x := range xs {
			r = append(r, x...)
		}
		return r
	}
	cases := []sc{
		{"scale-diamonds", pipeOpts{ren: true}, shape{au: 7, tk: 64, segs: segsOf("dia", 1100, 0)}},
		{"scale-diamonds-mixed", pipeOpts{cec: false, ren: true, hib: 1}, shape{au: 1, tk: 5, segs: segsOf("dia", 1030, 3)}}, // 619 ticks
		{"scale-linear", pipeOpts{ren: false}, shape{au: 1, tk: 3000, segs: segsOf("lin", 10000, 0)}},                        // 3000 commits of one developer in one tick
		{"scale-comb", pipeOpts{cec: true, ren: true, hib: 2}, shape{au: 300, tk: 1500, segs: segsOf("comb", 1000, 0)}},      // 300 developers
		{"scale-octo", pipeOpts{ren: true, hib: 3}, shape{au: 4, tk: 33, segs: segsOf("octo", 150, 7)}},
		{"scale-octo-wide", pipeOpts{cec: true, ren: true, hib: 4}, shape{au: 2, tk: 65, segs: cat(segsOf("octo", 12, 33), segsOf("octo", 6, 65))}},
		{"scale-mixed", pipeOpts{cec: true, ren: true, hib: 1}, shape{au: 7, tk: 31,
			segs: cat(segsOf("lin", 100, 0), segsOf("dia", 300, 3), segsOf("octo", 40, 4), segsOf("comb", 100, 0), segsOf("dia", 300, 1), segsOf("lin", 300, 0))}},
	}
	if c.Thorough() {
		cases = append(cases,
			sc{"scale-diamonds", pipeOpts{ren: true}, shape{au: 7, tk: 1000, segs: segsOf("dia", 10000, 0)}},
			sc{"scale-diamonds-mixed", pipeOpts{cec: false, ren: true, hib: 4}, shape{au: 3, tk: 1025, segs: segsOf("dia", 10000, 3)}},
			sc{"scale-linear", pipeOpts{ren: true, hib: 2}, shape{au: 1, tk: 70000, segs: segsOf("lin", 100000, 0)}}, // more than 2^16 commits of one developer in one tick
			sc{"scale-comb", pipeOpts{ren: true, hib: 0}, shape{au: 5, tk: 100, segs: segsOf("comb", 5000, 0)}},
			sc{"scale-comb", pipeOpts{cec: true, ren: true, hib: 3}, shape{au: 5, tk: 100, segs: segsOf("comb", 3000, 0)}},
			sc{"scale-octo", pipeOpts{ren: true, hib: 2}, shape{au: 4, tk: 129, segs: segsOf("octo", 2500, 5)}},
			sc{"scale-mixed", pipeOpts{ren: false, hib: 2}, shape{au: 2, tk: 511,
				segs: cat(segsOf("dia", 2100, 1), segsOf("lin", 5000, 0), segsOf("octo", 1100, 3), segsOf("comb", 1100, 0), segsOf("dia", 2100, 2))}})
	}
	for i := range cases {
		runScale(c, cases[i].kind, cases[i].o, &cases[i].sh)
	}
}

// twinFiles gives one file of one commit the content of another file of that commit: two changes of one commit that
// reach the same blob (from different old blobs), or two new files with one blob.
func twinFiles(c *Config, cs []commitIn) {
	var cand []int
	for i, ci := range cs {
		if len(ci.Files) >= 2 {
			cand = append(cand, i)
		}
	}
	if len(cand) == 0 {
		return
	}
	i := cand[c.Rng.Intn(len(cand))]
	fs := append([]fileIn{}, cs[i].Files...)
	a := c.Rng.Intn(len(fs))
	b := (a + 1 + c.Rng.Intn(len(fs)-1)) % len(fs)
	fs[b].Data = fs[a].Data
	cs[i].Files = fs
}

// drawRuns draws the analyses of a re-use case over a history of n commits.
func drawRuns(c *Config, n int) (string, []runIn) {
	k := 2 + c.Rng.Intn(2)
	runs := make([]runIn, k)
	kind, fails := "reuse-same", false
	shapeOf := c.Rng.Intn(4) // 0: the same history every time; 1: it grows; 2: arbitrary prefixes; 3: other repositories in between
	for i := range runs {
		r := runIn{cec: c.Rng.Intn(2) == 0, hib: drawHib(c), fail: -1}
		switch shapeOf {
		case 1:
			kind = "reuse-grown"
			if i < k-1 && n > 1 {
				r.cut = 1 + (n-1)*(i+1)/k + c.Rng.Intn(2)
			}
		case 2:
			kind = "reuse-prefixes"
			if c.Rng.Intn(2) == 0 {
				r.cut = 1 + c.Rng.Intn(n)
			}
		case 3:
			kind = "reuse-other"
			if c.Rng.Intn(2) == 0 {
				r.alt = 1 + c.Rng.Intn(2)
			}
		}
		if i > 0 && c.Rng.Intn(3) == 0 {
			r.samep = true
		}
		if i < k-1 && c.Rng.Intn(6) == 0 {
			// the error path: this analysis fails half way; the items are used again afterwards
			r.fail = c.Rng.Intn(n + 1)
			fails = true
		}
		runs[i] = r
	}
	if fails {
		kind = "reuse-fail"
	}
	return kind, runs
}

// reuseExhaustive: every history of n commits (as exhaustiveDags) analysed twice with the same leaf items: all of it
// twice (n <= 3), and the first n-1 commits then all of it.  For n = 4 only the histories with a commit of several
// parents, one setting of ConsiderEmptyCommits.
func reuseExhaustive(c *Config, n int) {
	var subsets func(i int) [][]int
	subsets = func(i int) [][]int {
		var res [][]int
		for m := 0; m < 1<<uint(i); m++ {
			var ps []int
			for b := 0; b < i; b++ {
				if m&(1<<uint(b)) != 0 {
					ps = append(ps, b)
				}
			}
			if len(ps) <= 3 {
				res = append(res, ps)
			}
		}
		return res
	}
	parents := make([][]int, n)
	var rec func(i int)
	rec = func(i int) {
		if i == n {
			merges := false
			for _, ps := range parents {
				if len(ps) >= 2 {
					merges = true
				}
			}
			if n >= 4 && !merges {
				return
			}
			for bits := 0; bits < 1<<uint(n); bits++ {
				cs := make([]commitIn, n)
				for j := 0; j < n; j++ {
					cs[j] = commitIn{ID: j, Parents: append([]int{}, parents[j]...), Author: j % 2, Tick: j / 2}
					if bits&(1<<uint(j)) != 0 {
						var sb strings.Builder
						for l := 0; l <= j; l++ {
							fmt.Fprintf(&sb, "x%d-%d\n", j, l%2)
						}
						cs[j].Files = []fileIn{{Name: "a.go", Data: []byte(sb.String())}}
						if j%3 == 2 {
							cs[j].Files = append(cs[j].Files, fileIn{Name: "b.py", Data: []byte(fmt.Sprintf("y%d\n", j))})
						}
					} else if len(parents[j]) > 0 {
						cs[j].Files = append([]fileIn{}, cs[parents[j][0]].Files...)
					}
				}
				for _, cec := range []bool{false, true} {
					if n >= 4 && cec != (bits%2 == 0) {
						continue
					}
					rc := bits%2 == 1
					if n >= 4 {
						rc = bits%4 >= 2
					}
					kind := fmt.Sprintf("reuse-exhaustive-%d", n)
					if n <= 3 || bits%3 == 0 {
						// the second analysis with a new pipeline / with the same Pipeline object
						runReuse(c, kind, pipeOpts{ren: true}, rc, []runIn{{cec: cec, fail: -1}, {cec: cec, fail: -1, samep: bits%2 == 0}}, cs)
					}
					if n >= 2 && (n <= 3 || bits%3 != 0) {
						runReuse(c, kind, pipeOpts{ren: true}, rc, []runIn{{cut: n - 1, cec: cec, fail: -1}, {cec: !cec, fail: -1}, {cec: cec, fail: -1, samep: bits%4 < 2}}, cs)
					}
				}
			}
			return
		}
		for _, ps := range subsets(i) {
			parents[i] = ps
			rec(i + 1)
		}
	}
	rec(0)
}

// reuseCases: the re-use family.
func reuseCases(c *Config) {
	for n := 1; n <= 3; n++ {
		reuseExhaustive(c, n)
	}
	reuseExhaustive(c, 4)
	if c.Thorough() {
		reuseExhaustive(c, 5)
	}
	for _, k := range []struct {
		kind string
		q, t int
	}{{"hist", 500, 6000}, {"hist-single", 300, 4000}, {"empties", 300, 4000}, {"octo", 150, 3000}, {"shape", 250, 4000}} {
		for i := c.Count(k.q, k.t); i > 0; i-- {
			o := pipeOpts{ren: c.Rng.Intn(2) == 0, pr: drawPr(c)}
			if c.Rng.Intn(6) == 0 {
				o.pd = 1 + c.Rng.Intn(3)
			}
			var cs []commitIn
			if k.kind == "shape" {
				o.scale = genShape(c)
				cs = buildShape(o.scale)
			} else {
				cs = genPipe(c, k.kind)
				if c.Rng.Intn(6) == 0 {
					skewTicks(c, cs)
				}
			}
			kind, runs := drawRuns(c, len(cs))
			runReuse(c, kind, o, c.Rng.Intn(2) == 0, runs, cs)
		}
	}
	// long histories with re-used items: more than 2^10 merge commits remembered from the analysis before
	type sc struct {
		o    pipeOpts
		rc   bool
		runs []runIn
		sh   shape
	}
	cases := []sc{
		{pipeOpts{ren: true}, false, []runIn{{cut: 1500, cec: true, hib: 1, fail: -1}, {fail: -1}, {cec: true, hib: 2, fail: -1, samep: true}}, shape{au: 5, tk: 40, segs: segsOf("dia", 1100, 3)}},
		{pipeOpts{ren: true}, true, []runIn{{fail: 700, hib: 2}, {alt: 1, fail: -1}, {cec: true, fail: -1}}, shape{au: 3, tk: 17, segs: append(segsOf("octo", 60, 5), segsOf("comb", 150, 0)...)}},
	}
	if c.Thorough() {
		cases = append(cases, sc{pipeOpts{ren: true}, true, []runIn{{cut: 20000, fail: -1}, {hib: 3, fail: -1}, {cec: true, fail: -1}}, shape{au: 7, tk: 500, segs: segsOf("dia", 10000, 3)}})
	}
	for i := range cases {
		o := cases[i].o
		o.scale = &cases[i].sh
		runReuse(c, "reuse-scale", o, cases[i].rc, cases[i].runs, buildShape(o.scale))
	}
}

func main() {
	log.SetOutput(ioutil.Discard)
	only := flag.String("only", "", "restrict the generators to one kind (debugging)")
	c := Setup()
	defer c.Close()
	if c.Replay != "" {
		for _, cs := range c.ReplayCases() {
			kind := "replay"
			if k, ok := cs.Field("kind"); ok {
				kind = k.List[1].Atom
			}
			mode, _ := cs.Field("mode")
			items, _ := cs.Field("items")
			if mode.List[1].Atom == "direct" {
				merge, _ := cs.Field("merge")
				var chs []dchange
				for _, it := range items.Args() {
					chs = append(chs, parseDChange(it))
				}
				runDirectOpt(c, kind, merge.List[1].Int() != 0, chs, optField(cs, "enc"), optField(cs, "hp"))
				continue
			}
			o := pipeOpts{cec: optField(cs, "cec") != 0, ren: optField(cs, "ren") != 0, hib: optField(cs, "hib"), pr: optField(cs, "pr"), pd: optField(cs, "pd"),
				ws: optField(cs, "ws") != 0, ncl: optField(cs, "ncl") != 0, dto: optField(cs, "dto"), hpm: optField(cs, "hpm")}
			if mode.List[1].Atom == "reuse" {
				var cis []commitIn
				if _, segs := cs.Field("au"); segs {
					o.scale = parseShape(cs, items)
					cis = buildShape(o.scale)
				} else {
					for _, it := range items.Args() {
						cis = append(cis, parseCommit(it))
					}
				}
				runReuse(c, kind, o, optField(cs, "rc") != 0, parseRuns(cs), cis)
				continue
			}
			if mode.List[1].Atom == "scale" {
				runScale(c, kind, o, parseShape(cs, items))
				continue
			}
			var cis []commitIn
			for _, it := range items.Args() {
				cis = append(cis, parseCommit(it))
			}
			runPipe(c, kind, o, cis)
		}
		return
	}
	want := func(k string) bool { return *only == "" || *only == k }

	// 1. direct: exhaustive small scripts, then random arbitrary and canonical change lists, then large inputs
	if want("direct") {
		if c.Thorough() {
			exhaustiveScripts(c, 5, []int{1, 2, 3}, 64)
			exhaustiveScripts(c, 4, []int{0, 1, 2, 5}, 64)
		} else {
			exhaustiveScripts(c, 4, []int{1, 2, 3}, 64)
			exhaustiveScripts(c, 3, []int{0, 1, 2, 5}, 64)
		}
		for i := c.Count(4000, 60000); i > 0; i-- {
			runDirect(c, "direct-arbitrary", c.Rng.Intn(10) == 0, genDirect(c, false))
		}
		for i := c.Count(4000, 60000); i > 0; i-- {
			runDirect(c, "direct-canonical", c.Rng.Intn(10) == 0, genDirect(c, true))
		}
	}
	if want("direct") || want("directscale") {
		directScale(c)
	}
	// 2. real pipeline runs
	if want("pipe") {
		for n := 1; n <= 4; n++ {
			exhaustiveDags(c, n, 0)
		}
		// every four-commit history with a three-parent commit again under hibernation (distance 1: a three-parent
		// merge is the smallest whose first replay is followed by a hibernate action)
		exhaustiveDags(c, 4, 1)
		if c.Thorough() {
			exhaustiveDags(c, 5, 0)
			exhaustiveDags(c, 5, 1)
			exhaustiveDags(c, 5, 2)
		}
		for _, k := range []struct {
			kind string
			q, t int
		}{{"hist", 1200, 12000}, {"hist-single", 800, 8000}, {"empties", 1200, 12000}, {"linear", 800, 10000}, {"octo", 500, 8000}, {"shape", 500, 8000}} {
			for i := c.Count(k.q, k.t); i > 0; i-- {
				o := pipeOpts{cec: c.Rng.Intn(2) == 0, ren: c.Rng.Intn(2) == 0, hib: drawHib(c), pr: drawPr(c)}
				if c.Rng.Intn(10) == 0 {
					// a people dictionary from outside that does not know everybody: AuthorMissing is the author of some commits
					o.pd = 1 + c.Rng.Intn(3)
				}
				if k.kind == "shape" {
					runScale(c, "shape", o, genShape(c))
					continue
				}
				cs := genPipe(c, k.kind)
				if k.kind != "linear" && c.Rng.Intn(6) == 0 {
					skewTicks(c, cs)
				}
				if k.kind != "octo" && c.Rng.Intn(5) == 0 {
					flipModes(c, cs)
				}
				if k.kind == "linear" && c.Rng.Intn(3) == 0 {
					editInPlace(c, cs)
				}
				if (k.kind == "linear" || k.kind == "hist") && c.Rng.Intn(6) == 0 {
					twinFiles(c, cs)
				}
				if k.kind == "octo" && o.hib == 0 && c.Rng.Intn(3) > 0 {
					o.hib = 1 + c.Rng.Intn(4)
				}
				runPipe(c, k.kind, o, cs)
			}
		}
	}
	// 3. long histories
	if want("pipe") || want("scale") {
		scaleCases(c)
	}
	// 4. the leaf items re-used by several analyses
	if want("pipe") || want("reuse") {
		reuseCases(c)
	}
	// 5. round 4: the byte content of the files, the options of the upstream FileDiff, entry kinds, decimal widths
	if want("pipe") || want("bytes") {
		bytesCases(c)
	}
	if want("pipe") || want("bytes") || want("prefix") {
		prefixCases(c)
	}
	if want("direct") || want("bytes") {
		directBytes(c)
	}
}
