(* The specification the red-black tree is compared with: a list of (id, key, value) entries,
   strictly sorted by key, where "id" is the name under which an iterator refers to the entry.
   All functions are executable: they are extracted and used as the property oracle on the answers
   of the Go implementation. *)
From Coq Require Import List ZArith Bool.
Import ListNotations.
Open Scope Z_scope.

Notation entry := (Z * Z * Z)%type (only parsing).
Notation smap := (list (Z * Z * Z)) (only parsing).

Definition eid (e : entry) : Z := fst (fst e).
Definition ekey (e : entry) : Z := snd (fst e).
Definition eval (e : entry) : Z := snd e.

Definition keys (l : smap) : list Z := map ekey l.
Definition eids (l : smap) : list Z := map eid l.

Fixpoint sortedb (l : list Z) : bool :=
  match l with
  | a :: ((b :: _) as r) => (a <? b) && sortedb r
  | _ => true
  end.

(* insertion: nothing happens when the key is present *)
Fixpoint s_insert (ni nk nv : Z) (l : smap) : smap :=
  match l with
  | [] => [(ni, nk, nv)]
  | (i, k, v) :: r =>
      if nk <? k then (ni, nk, nv) :: l
      else if k <? nk then (i, k, v) :: s_insert ni nk nv r
      else l
  end.

Fixpoint s_delete (x : Z) (l : smap) : smap :=
  match l with
  | [] => []
  | (i, k, v) :: r => if k =? x then r else (i, k, v) :: s_delete x r
  end.

Fixpoint s_mem (x : Z) (l : smap) : bool :=
  match l with [] => false | (_, k, _) :: r => (k =? x) || s_mem x r end.

Fixpoint s_get (x : Z) (l : smap) : option Z :=
  match l with [] => None | (_, k, v) :: r => if k =? x then Some v else s_get x r end.

(* the entry with a given id *)
Fixpoint s_item (x : Z) (l : smap) : option (Z * Z) :=
  match l with [] => None | (i, k, v) :: r => if x =? i then Some (k, v) else s_item x r end.

(* smallest entry with key >= x *)
Fixpoint s_find_ge (x : Z) (l : smap) : option entry :=
  match l with [] => None | (i, k, v) :: r => if x <=? k then Some (i, k, v) else s_find_ge x r end.

(* largest entry with key <= x *)
Fixpoint s_find_le_aux (x : Z) (l : smap) (acc : option entry) : option entry :=
  match l with
  | [] => acc
  | (i, k, v) :: r => if k <=? x then s_find_le_aux x r (Some (i, k, v)) else acc
  end.
Definition s_find_le (x : Z) (l : smap) : option entry := s_find_le_aux x l None.

Definition s_min (l : smap) : option entry := match l with [] => None | e :: _ => Some e end.
Fixpoint s_max (l : smap) : option entry :=
  match l with [] => None | [e] => Some e | _ :: r => s_max r end.

(* the entry after / before the entry with id x; the outer None: x is not an entry *)
Fixpoint s_next (x : Z) (l : smap) : option (option entry) :=
  match l with
  | [] => None
  | (i, _, _) :: r => if x =? i then Some (s_min r) else s_next x r
  end.
Fixpoint s_prev_aux (x : Z) (l : smap) (before : option entry) : option (option entry) :=
  match l with
  | [] => None
  | (i, k, v) :: r => if x =? i then Some before else s_prev_aux x r (Some (i, k, v))
  end.
Definition s_prev (x : Z) (l : smap) : option (option entry) := s_prev_aux x l None.

(* iterator positions: an entry, or the two ends *)
Definition pos_fwd (o : option entry) : Z := match o with Some e => eid e | None => 0 end.
Definition pos_bwd (o : option entry) : Z := match o with Some e => eid e | None => 4294967295 end.
