(* The candidate repair of the open finding "language-flip" (docs/C20.md): filterDiffs judges the
   language of BOTH sides of a modification and turns a modification whose sides disagree into a deletion
   (the file leaves the analysed set) or an insertion (it enters it).  This file models the repaired loop
   and proves that with it the filter commutes with the tree difference for every configuration - the
   hypothesis [flip_free] of FilterProofs.filter_commutes disappears.  Nothing here is extracted or
   replayed: the code in /repo is the unrepaired one. *)
From Coq Require Import List NArith Bool Lia.
From Herc Require Import TreeDiff.Model TreeDiff.ChangesProofs TreeDiff.FilterProofs.
Import ListNotations.
Open Scope N_scope.

(* the three name-based tests of the loop *)
Definition path_keep (f : fcfg) (c : change) : bool :=
  let tn := name_of (c_to c) in
  let fn := name_of (c_from c) in
  negb (negb (nilb (f_skip f)) && (f_vendor f tn || f_vendor f fn))
  && negb (existsb (fun d => prefixb d tn || prefixb d fn) (f_skip f))
  && negb (f_name_set f && negb (name_hit f tn) && negb (name_hit f fn)).

Definition lang_of (f : fcfg) (e : entry) : bool := check_language f (e_path e) (e_hash e).

(* one iteration of the repaired loop: zero or one change *)
Definition fix_one (f : fcfg) (c : change) : list change :=
  if negb (path_keep f c) then [] else
  match c_from c, c_to c with
  | Some x, Some y =>
      if lang_of f y then (if lang_of f x then [c] else [ins y])
      else (if lang_of f x then [del x] else [])
  | None, Some y => if lang_of f y then [c] else []
  | Some x, None => if lang_of f x then [c] else []
  | None, None => if check_language f [] 0 then [c] else []
  end.

Definition filter_diffs_fixed (f : fcfg) (cs : list change) : list change := flat_map (fix_one f) cs.

(* the name-based part of [passes] *)
Definition ppass (f : fcfg) (p : list N) : bool :=
  negb (negb (nilb (f_skip f)) && f_vendor f p)
  && negb (existsb (fun d => prefixb d p) (f_skip f))
  && (negb (f_name_set f) || f_name f p).

Lemma passes_split : forall f e, passes f e = ppass f (e_path e) && lang_of f e.
Proof. intros f e. reflexivity. Qed.

Lemma path_keep_ins : forall f y, e_path y <> [] -> f_vendor f [] = false -> path_keep f (ins y) = ppass f (e_path y).
Proof.
  intros f y HN HV. unfold path_keep, ppass, ins. simpl. rewrite HV, orb_false_r.
  rewrite (existsb_ext' (fun d => prefixb d (e_path y) || prefixb d []) (fun d => prefixb d (e_path y)))
    by (intro d; apply prefix_or_nil).
  rewrite (name_hit_nonempty f _ HN).
  destruct (f_name_set f); destruct (f_name f (e_path y)); simpl; rewrite ?andb_true_r, ?andb_false_r; reflexivity.
Qed.

Lemma path_keep_del : forall f x, e_path x <> [] -> f_vendor f [] = false -> path_keep f (del x) = ppass f (e_path x).
Proof.
  intros f x HN HV. unfold path_keep, ppass, del. simpl. rewrite HV, orb_false_l.
  rewrite (existsb_ext' (fun d => prefixb d [] || prefixb d (e_path x)) (fun d => prefixb d (e_path x)))
    by (intro d; rewrite orb_comm; apply prefix_or_nil).
  rewrite (name_hit_nonempty f _ HN).
  destruct (f_name_set f); destruct (f_name f (e_path x)); simpl; rewrite ?andb_true_r, ?andb_false_r; reflexivity.
Qed.

Lemma path_keep_mod : forall f x y, e_path x = e_path y -> e_path y <> [] ->
  path_keep f (mkC (Some x) (Some y)) = ppass f (e_path y).
Proof.
  intros f x y HP HN. unfold path_keep, ppass. simpl. rewrite HP, orb_diag.
  rewrite (existsb_ext' (fun d => prefixb d (e_path y) || prefixb d (e_path y)) (fun d => prefixb d (e_path y)))
    by (intro d; apply orb_diag).
  rewrite (name_hit_nonempty f _ HN).
  destruct (f_name_set f); destruct (f_name f (e_path y)); simpl; rewrite ?andb_true_r, ?andb_false_r; reflexivity.
Qed.

(* the repaired loop maps the unrestricted expected change of a path to the restricted one *)
Lemma fix_one_expected : forall f prev cur p c,
  tree_wfb prev = true -> tree_wfb cur = true -> f_vendor f [] = false ->
  expected all_pass prev cur p = Some c ->
  fix_one f c = match expected f prev cur p with Some c' => [c'] | None => [] end.
Proof.
  intros f prev cur p c WP WC HV HE.
  unfold expected in *. rewrite !rlookup_all_pass in HE. unfold rlookup.
  destruct (lookup p prev) as [x|] eqn:LP; destruct (lookup p cur) as [y|] eqn:LC.
  - pose proof (lookup_some _ _ _ LP) as [IX PX]. pose proof (lookup_some _ _ _ LC) as [IY PY].
    destruct (entry_eqb x y) eqn:EQ; try discriminate. inversion HE; subst c. clear HE.
    assert (NY : e_path y <> []) by exact (tree_wfb_nonempty cur y WC IY).
    unfold fix_one. rewrite path_keep_mod by congruence. simpl.
    rewrite !passes_split. replace (e_path x) with (e_path y) by congruence.
    destruct (ppass f (e_path y)); simpl; [|reflexivity].
    destruct (lang_of f y); destruct (lang_of f x); simpl; try reflexivity.
    rewrite EQ. reflexivity.
  - pose proof (lookup_some _ _ _ LP) as [IX PX]. inversion HE; subst c. clear HE.
    assert (NX : e_path x <> []) by exact (tree_wfb_nonempty prev x WP IX).
    unfold fix_one. rewrite path_keep_del by assumption. simpl. rewrite passes_split.
    destruct (ppass f (e_path x)); simpl; [|reflexivity].
    destruct (lang_of f x); reflexivity.
  - pose proof (lookup_some _ _ _ LC) as [IY PY]. inversion HE; subst c. clear HE.
    assert (NY : e_path y <> []) by exact (tree_wfb_nonempty cur y WC IY).
    unfold fix_one. rewrite path_keep_ins by assumption. simpl. rewrite passes_split.
    destruct (ppass f (e_path y)); simpl; [|reflexivity].
    destruct (lang_of f y); reflexivity.
  - discriminate.
Qed.

Lemma expected_some_all_pass : forall f prev cur p c',
  expected f prev cur p = Some c' -> exists c, expected all_pass prev cur p = Some c.
Proof.
  intros f prev cur p c' H. unfold expected in *. rewrite !rlookup_all_pass. unfold rlookup in H.
  destruct (lookup p prev) as [x|]; destruct (lookup p cur) as [y|]; eauto; try discriminate.
  destruct (entry_eqb x y) eqn:EQ; eauto. apply entry_eqb_eq in EQ. subst y.
  destruct (passes f x); try discriminate. rewrite entry_eqb_refl in H. discriminate.
Qed.

Lemma NoDup_flat_map_paths : forall (g : change -> list change) l,
  NoDup (map cpath l) ->
  (forall c c', In c l -> In c' (g c) -> g c = [c'] /\ cpath c' = cpath c) ->
  NoDup (map cpath (flat_map g l)).
Proof.
  induction l as [|c l IH]; intros ND HG; simpl.
  - constructor.
  - inversion ND; subst. rewrite map_app.
    assert (IHl : NoDup (map cpath (flat_map g l))).
    { apply IH; auto. intros c0 c' Hc0 Hc'. apply HG; auto. right; exact Hc0. }
    destruct (g c) as [|c1 r] eqn:G; simpl; [exact IHl|].
    destruct (HG c c1) as [HE HP]. left; reflexivity. rewrite G; left; reflexivity.
    rewrite G in HE. inversion HE; subst r. simpl. constructor; [|exact IHl].
    intro HI. apply H1. rewrite <- HP. apply in_map_iff in HI. destruct HI as [c' [E HI]].
    apply in_flat_map in HI. destruct HI as [c0 [Hc0 Hc']].
    destruct (HG c0 c') as [_ HP']. right; exact Hc0. exact Hc'.
    rewrite <- E, HP'. apply in_map. exact Hc0.
Qed.

Theorem fixed_filter_commutes : forall f prev cur dt,
  tree_wfb prev = true -> tree_wfb cur = true -> f_vendor f [] = false ->
  changes_ok all_pass prev cur dt = true ->
  changes_ok f prev cur (filter_diffs_fixed f dt) = true.
Proof.
  intros f prev cur dt WP WC HV H. unfold changes_ok in H.
  apply andb_true_iff in H. destruct H as [H H3]. apply andb_true_iff in H. destruct H as [H1 H2].
  apply nodup_paths_NoDup in H1. rewrite forallb_forall in H2. rewrite forallb_forall in H3.
  assert (HE : forall c, In c dt -> expected all_pass prev cur (cpath c) = Some c).
  { intros c Hc. specialize (H2 c Hc). destruct (expected all_pass prev cur (cpath c)) as [c'|]; try discriminate.
    apply change_eqb_eq in H2. congruence. }
  assert (HF : forall c c', In c dt -> In c' (fix_one f c) ->
                 fix_one f c = [c'] /\ cpath c' = cpath c /\ expected f prev cur (cpath c) = Some c').
  { intros c c' Hc Hc'. rewrite (fix_one_expected f prev cur (cpath c) c WP WC HV (HE c Hc)) in *.
    destruct (expected f prev cur (cpath c)) as [c0|] eqn:EX; simpl in Hc'; [|contradiction].
    destruct Hc' as [->|[]]. repeat split. eapply expected_cpath; eauto. }
  unfold changes_ok, filter_diffs_fixed. apply andb_true_iff. split; [apply andb_true_iff; split|].
  - apply nodup_paths_NoDup. apply NoDup_flat_map_paths. exact H1.
    intros c c' Hc Hc'. destruct (HF c c' Hc Hc') as [A [B _]]. auto.
  - apply forallb_forall. intros c' Hc'. apply in_flat_map in Hc'. destruct Hc' as [c [Hc Hc']].
    destruct (HF c c' Hc Hc') as [_ [B C]]. rewrite B, C. apply change_eqb_eq. reflexivity.
  - apply forallb_forall. intros e He.
    destruct (expected f prev cur (e_path e)) as [c'|] eqn:EX; [|reflexivity].
    destruct (expected_some_all_pass _ _ _ _ _ EX) as [c0 E0].
    specialize (H3 e He). rewrite E0 in H3. rewrite existsb_exists in H3. destruct H3 as [c [Hc Hcp]].
    apply path_eqb_eq in Hcp.
    pose proof (fix_one_expected f prev cur (cpath c) c WP WC HV (HE c Hc)) as FO.
    rewrite Hcp, EX in FO.
    apply existsb_exists. exists c'. split.
    + apply in_flat_map. exists c. split. exact Hc. rewrite FO. left; reflexivity.
    + apply path_eqb_eq. eapply expected_cpath; eauto.
Qed.

(* with the repair, every accepted step satisfies the property whatever the language detection says *)
Corollary fixed_step_apply : forall f prev cur dt,
  tree_wfb prev = true -> tree_wfb cur = true -> f_vendor f [] = false ->
  changes_ok all_pass prev cur dt = true ->
  exists m, apply_all (filter_diffs_fixed f dt) (fs_of (restrict f prev)) = Some m /\
            forall p, m p = fs_of (restrict f cur) p.
Proof.
  intros f prev cur dt WP WC HV H. apply changes_ok_apply; auto. apply fixed_filter_commutes; auto.
Qed.

(* on the witnesses of the finding the repaired loop reports a deletion, resp. an insertion *)
Example fixed_on_witness :
  filter_diffs_fixed flip_cfg [mkC (Some flip_x) (Some flip_y)] = [del flip_x] /\
  filter_diffs_fixed flip_cfg [mkC (Some flip_y) (Some flip_x)] = [ins flip_x].
Proof. split; reflexivity. Qed.

(* and it agrees with the present loop whenever no verdict flips *)
Lemma fix_one_keep : forall f c,
  (forall x y, c_from c = Some x -> c_to c = Some y -> lang_of f x = lang_of f y) ->
  fix_one f c = if keep f c then [c] else [].
Proof.
  intros f c HL. unfold fix_one, keep, path_keep.
  destruct (negb (nilb (f_skip f)) && (f_vendor f (name_of (c_to c)) || f_vendor f (name_of (c_from c)))); simpl; [reflexivity|].
  destruct (existsb (fun d => prefixb d (name_of (c_to c)) || prefixb d (name_of (c_from c))) (f_skip f)); simpl; [reflexivity|].
  destruct (f_name_set f && negb (name_hit f (name_of (c_to c))) && negb (name_hit f (name_of (c_from c)))); simpl; [reflexivity|].
  destruct c as [[x|] [y|]]; simpl in *; unfold lang_of in *.
  - rewrite (HL x y eq_refl eq_refl). destruct (check_language f (e_path y) (e_hash y)); reflexivity.
  - reflexivity.
  - reflexivity.
  - reflexivity.
Qed.
