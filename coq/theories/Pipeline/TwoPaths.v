(* Third round of C10: a fourth region in which resolve answers "topological sort failure" for an item set
   that the validator of C10 accepts an order of.

   The chaining block of resolve keeps, of the consumers of a doubly provided entity k, exactly the nodes of
   ONE cycle  [k] -> consumer -> ... -> refiner -> [k]  (graph.FindCycle(key) returns one cycle) in front of the
   refiner (the provider that requires k itself: RenameAnalysis) and re-attaches every other consumer of k
   behind the refiner.  When the refiner transitively requires outputs of TWO consumers of k (two BlobCache-like
   items X{p x; r k}, Y{p y; r k} and the refiner R{p k; r k x y}) the second one is moved behind the refiner
   although the refiner needs it: the graph gets a cycle and Toposort fails.  With one such consumer (the
   built-in TreeDiff / BlobCache / RenameAnalysis shape) the same item set is resolved.

   [two_feeders_b]: the region, decided from the item set alone: some doubly provided entity has exactly one
   provider that requires the entity itself, and at least two OTHER items require the entity and feed that
   provider ([feedsb]: the provider transitively requires one of their outputs).
   Definitions only; the witness is in TwoPathsProofs.v. *)
From Coq Require Import List ZArith Bool.
From Herc Require Import Toposort.Model Pipeline.Resolve.
Import ListNotations.
Open Scope Z_scope.

(* the consumers of e, other than the refiner r, whose outputs r transitively requires *)
Definition feeders (items : list item) (e : Z) (r : item) : list item :=
  filter (fun c => (if item_eq_dec c r then false else true) && memZ e (ireq c) && feedsb items c r) items.

Definition two_feeders_keyb (items : list item) (e : Z) : bool :=
  match providers items e with
  | [a; b] =>
      match memZ e (ireq a), memZ e (ireq b) with
      | true, false => Nat.leb 2 (length (feeders items e a))
      | false, true => Nat.leb 2 (length (feeders items e b))
      | _, _ => false
      end
  | _ => false
  end.

Definition two_feeders_b (items : list item) : bool :=
  existsb (two_feeders_keyb items) (dedupZ (entities items)).
