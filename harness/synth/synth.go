// Package synth builds synthetic in-memory git repositories for the pipeline-level harnesses:
// a general repository builder (nested trees, modes, submodule entries, arbitrary signatures) and the
// declarative conflict-free history of DESIGN.md appendix D together with its serialisation, so that
// the same history is both turned into a real repository and handed to the Coq model as ground truth.
package synth

import (
	"fmt"
	"math/rand"
	"sort"
	"strings"
	"time"

	git "gopkg.in/src-d/go-git.v4"
	"gopkg.in/src-d/go-git.v4/plumbing"
	"gopkg.in/src-d/go-git.v4/plumbing/filemode"
	"gopkg.in/src-d/go-git.v4/plumbing/object"
	"gopkg.in/src-d/go-git.v4/storage/memory"

	"verifharness/lib"
)

// FileSpec is one file of a commit's tree.
type FileSpec struct {
	Path      string
	Mode      filemode.FileMode // zero = Regular
	Data      []byte
	Submodule bool // entry of mode Submodule whose hash is not in the object store
}

// CommitSpec describes one commit; Parents index earlier commits of the same slice.
type CommitSpec struct {
	Parents        []int
	AuthorName     string
	AuthorEmail    string
	AuthorWhen     time.Time
	CommitterName  string
	CommitterEmail string
	CommitterWhen  time.Time
	Message        string
	Files          []FileSpec
}

type dirNode struct {
	files map[string]FileSpec
	dirs  map[string]*dirNode
}

func newDir() *dirNode { return &dirNode{files: map[string]FileSpec{}, dirs: map[string]*dirNode{}} }

func writeTree(st *memory.Storage, d *dirNode) plumbing.Hash {
	var entries []object.TreeEntry
	for name, f := range d.files {
		mode := f.Mode
		if mode == 0 {
			mode = filemode.Regular
		}
		var h plumbing.Hash
		if f.Submodule {
			mode = filemode.Submodule
			h = plumbing.ComputeHash(plumbing.CommitObject, append([]byte("submodule:"), f.Data...))
		} else {
			o := st.NewEncodedObject()
			o.SetType(plumbing.BlobObject)
			w, _ := o.Writer()
			w.Write(f.Data)
			w.Close()
			h, _ = st.SetEncodedObject(o)
		}
		entries = append(entries, object.TreeEntry{Name: name, Mode: mode, Hash: h})
	}
	for name, sub := range d.dirs {
		entries = append(entries, object.TreeEntry{Name: name, Mode: filemode.Dir, Hash: writeTree(st, sub)})
	}
	// git order: directories compare as name + "/"
	key := func(e object.TreeEntry) string {
		if e.Mode == filemode.Dir {
			return e.Name + "/"
		}
		return e.Name
	}
	sort.Slice(entries, func(i, j int) bool { return key(entries[i]) < key(entries[j]) })
	tree := &object.Tree{Entries: entries}
	o := st.NewEncodedObject()
	tree.Encode(o)
	h, _ := st.SetEncodedObject(o)
	return h
}

// BuildRepo writes the commits into a fresh in-memory repository and returns them in input order.
func BuildRepo(cs []CommitSpec) (*git.Repository, []*object.Commit) {
	return BuildRepoFunc(len(cs), func(i int) CommitSpec { return cs[i] })
}

// BuildRepoFunc is BuildRepo for histories too large to hold every commit's file contents at once: the
// specification of commit i is asked for when it is written (parents index earlier commits).
func BuildRepoFunc(n int, spec func(i int) CommitSpec) (*git.Repository, []*object.Commit) {
	st := memory.NewStorage()
	hs := make([]plumbing.Hash, n)
	for i := 0; i < n; i++ {
		c := spec(i)
		root := newDir()
		for _, f := range c.Files {
			parts := strings.Split(f.Path, "/")
			d := root
			for _, p := range parts[:len(parts)-1] {
				if d.dirs[p] == nil {
					d.dirs[p] = newDir()
				}
				d = d.dirs[p]
			}
			d.files[parts[len(parts)-1]] = f
		}
		th := writeTree(st, root)
		cn, ce, cw := c.CommitterName, c.CommitterEmail, c.CommitterWhen
		if cn == "" && ce == "" {
			cn, ce = c.AuthorName, c.AuthorEmail
		}
		if cw.IsZero() {
			cw = c.AuthorWhen
		}
		cm := &object.Commit{
			Author:    object.Signature{Name: c.AuthorName, Email: c.AuthorEmail, When: c.AuthorWhen},
			Committer: object.Signature{Name: cn, Email: ce, When: cw},
			Message:   c.Message, TreeHash: th}
		if cm.Message == "" {
			cm.Message = fmt.Sprintf("c%d", i)
		}
		for _, p := range c.Parents {
			cm.ParentHashes = append(cm.ParentHashes, hs[p])
		}
		o := st.NewEncodedObject()
		cm.Encode(o)
		hs[i], _ = st.SetEncodedObject(o)
	}
	repo, err := git.Open(st, nil)
	if err != nil {
		repo, _ = git.Init(st, nil)
	}
	commits := make([]*object.Commit, n)
	for i, x := range hs {
		c, err := repo.CommitObject(x)
		if err != nil {
			panic(err)
		}
		commits[i] = c
	}
	return repo, commits
}

// ---------------------------------------------------------------------------------------------
// Conflict-free histories (DESIGN.md appendix D)

// Line is one line identity: born in commit Born, killed by commit Killer (-1: never).
type Line struct{ ID, Born, Killer int }

// Hist is the declarative history.  Commits are numbered in a topological order.
type Hist struct {
	N       int
	Parents [][]int
	Tick    []int
	Author  []int
	Paths   []string
	Seqs    map[string][]*Line // the global line order of every path
	anc     []map[int]bool
}

// BaseTime is the committer time of tick 0 (a multiple of 24 h, so that day ticks start at 0).
const BaseTime = int64(1500000000 / 86400 * 86400)

// Anc computes ancestor-or-self sets.
func (h *Hist) Anc() []map[int]bool {
	if h.anc != nil && len(h.anc) == h.N {
		return h.anc
	}
	h.anc = nil
	for c := 0; c < h.N; c++ {
		a := map[int]bool{c: true}
		for _, p := range h.Parents[c] {
			for x := range h.anc[p] {
				a[x] = true
			}
		}
		h.anc = append(h.anc, a)
	}
	return h.anc
}

// Alive tells whether line l is part of commit c's content.
func (h *Hist) Alive(c int, l *Line) bool {
	a := h.Anc()[c]
	return a[l.Born] && !(l.Killer >= 0 && a[l.Killer])
}

// Content returns the text of path at commit c and whether the path exists there.
func (h *Hist) Content(c int, path string) (string, bool) {
	var sb strings.Builder
	exists := false
	a := h.Anc()[c]
	for _, l := range h.Seqs[path] {
		if a[l.Born] {
			exists = true
		}
		if h.Alive(c, l) {
			fmt.Fprintf(&sb, "L%d\n", l.ID)
		}
	}
	return sb.String(), exists
}

// Heads returns the commits without children.
func (h *Hist) Heads() []int {
	isP := map[int]bool{}
	for _, ps := range h.Parents {
		for _, p := range ps {
			isP[p] = true
		}
	}
	var r []int
	for c := 0; c < h.N; c++ {
		if !isP[c] {
			r = append(r, c)
		}
	}
	return r
}

// HasMerge tells whether some commit has several parents.
func (h *Hist) HasMerge() bool {
	for _, ps := range h.Parents {
		if len(ps) > 1 {
			return true
		}
	}
	return false
}

// GenOpts steers GenHist.
type GenOpts struct {
	MaxCommits  int
	Linear      bool
	SingleHead  bool // close the history with merges until one head remains
	Authors     int
	Paths       int
	MergeAddsPr int  // 1/x chance that a merge commit adds lines (0 = never)
	SameTick    bool // every commit in tick 0 (no draw for the tick)
}

// histGen holds the state shared by GenHist and GenHistShape: the edit rules of one commit.
type histGen struct {
	rng    *rand.Rand
	o      GenOpts
	h      *Hist
	nextID int
	tick   int
}

func newHistGen(rng *rand.Rand, o GenOpts) *histGen {
	g := &histGen{rng: rng, o: o, h: &Hist{Seqs: map[string][]*Line{}}}
	for i := 0; i < o.Paths; i++ {
		g.h.Paths = append(g.h.Paths, string(rune('a'+i)))
	}
	return g
}

func (o *GenOpts) defaults() {
	if o.MaxCommits < 2 {
		o.MaxCommits = 2
	}
	if o.Authors < 1 {
		o.Authors = 3
	}
	if o.Paths < 1 {
		o.Paths = 3
	}
}

// addCommit appends a commit with the given parents: tick, author, kills (non-merge commits only: every
// alive line with probability 1/6), insertions (1-3 runs of 1-3 fresh lines; the root always 3 runs).
func (g *histGen) addCommit(ps []int, merge bool) {
	h, rng, o := g.h, g.rng, g.o
	c := h.N
	h.N++
	h.Parents = append(h.Parents, ps)
	h.anc = nil
	if !o.SameTick && c > 0 && rng.Intn(3) > 0 {
		g.tick += rng.Intn(3)
	}
	h.Tick = append(h.Tick, g.tick)
	h.Author = append(h.Author, rng.Intn(o.Authors))
	if !merge && c > 0 {
		for _, p := range h.Paths {
			for _, l := range h.Seqs[p] {
				if l.Killer < 0 && l.Born != c && h.Alive(c, l) && rng.Intn(6) == 0 {
					l.Killer = c
				}
			}
		}
	}
	if !merge || (o.MergeAddsPr > 0 && rng.Intn(o.MergeAddsPr) == 0) {
		nins := 1 + rng.Intn(3)
		if c == 0 {
			nins = 3
		}
		for i := 0; i < nins; i++ {
			p := h.Paths[rng.Intn(len(h.Paths))]
			run := 1 + rng.Intn(3)
			pos := rng.Intn(len(h.Seqs[p]) + 1)
			var ins []*Line
			for j := 0; j < run; j++ {
				ins = append(ins, &Line{g.nextID, c, -1})
				g.nextID++
			}
			s := append([]*Line{}, h.Seqs[p][:pos]...)
			s = append(s, ins...)
			s = append(s, h.Seqs[p][pos:]...)
			h.Seqs[p] = s
		}
	}
}

// GenHistShape draws a conflict-free history whose commit graph is given: parents[c] lists the parents of
// commit c (all smaller than c).  Ticks, authors, kills and insertions follow the rules of GenHist; a
// commit with several parents is a merge.  MaxCommits, Linear and SingleHead are ignored.
func GenHistShape(rng *rand.Rand, parents [][]int, o GenOpts) *Hist {
	o.defaults()
	g := newHistGen(rng, o)
	for _, ps := range parents {
		g.addCommit(append([]int{}, ps...), len(ps) > 1)
	}
	return g.h
}

// OctoOpts steers GenOctopusShape: histories made of octopus merges whose parent branches have been idle for
// different lengths.  In the run plan every parent branch replays the merge commit right before the merge
// action, so with hibernation distance d an octopus of at least d+3 parents makes insertHibernateBoot emit ONE
// boot action that covers several branches; arms of different lengths, several roots and chains after the
// merge vary the state those branches are in.
type OctoOpts struct {
	Roots     int // 1..3 root commits; the extra roots start arms of an octopus (default 1)
	Merges    int // number of octopus sections (default 1)
	MinPar    int // parents of an octopus merge: MinPar..MaxPar (defaults 3..7)
	MaxPar    int
	MaxArm    int  // every arm is a chain of 1..MaxArm commits, drawn independently (default 4)
	MaxTail   int  // chain of 0..MaxTail commits after each merge (default 3)
	ExtraHead bool // sometimes leave an additional arm unmerged (several heads)
	SubMerge  bool // sometimes put an ordinary two-parent merge inside an arm
}

func (o *OctoOpts) defaults() {
	if o.Roots < 1 {
		o.Roots = 1
	}
	if o.Merges < 1 {
		o.Merges = 1
	}
	if o.MinPar < 2 {
		o.MinPar = 3
	}
	if o.MaxPar < o.MinPar {
		o.MaxPar = 7
		if o.MaxPar < o.MinPar {
			o.MaxPar = o.MinPar
		}
	}
	if o.MaxArm < 1 {
		o.MaxArm = 4
	}
	if o.MaxTail < 0 {
		o.MaxTail = 0
	} else if o.MaxTail == 0 {
		o.MaxTail = 3
	}
}

// GenOctopusShape draws a commit graph (parents[c] lists the parents of commit c, all smaller than c):
// a short trunk, then o.Merges times: a fan of MinPar..MaxPar arms (chains of different lengths that start at
// the current tip, at an earlier trunk commit or at a fresh root; their commits are interleaved in the
// numbering), the octopus merge of the arm tips (parents in random order) and a chain after it.
func GenOctopusShape(rng *rand.Rand, o OctoOpts) [][]int {
	o.defaults()
	parents := [][]int{{}}
	add := func(ps ...int) int {
		parents = append(parents, append([]int{}, ps...))
		return len(parents) - 1
	}
	trunk := []int{0}
	tip := 0
	for i := rng.Intn(3); i > 0; i-- {
		tip = add(tip)
		trunk = append(trunk, tip)
	}
	rootsLeft := o.Roots - 1
	for m := 0; m < o.Merges; m++ {
		k := o.MinPar + rng.Intn(o.MaxPar-o.MinPar+1)
		narms := k
		dangling := o.ExtraHead && rng.Intn(3) == 0
		if dangling {
			narms++
		}
		// the arms: where each starts, how long it is
		type arm struct {
			base   int // -1: a fresh root
			length int
			tip    int
			sub    bool
		}
		arms := make([]arm, narms)
		for a := range arms {
			arms[a].base = tip
			if rootsLeft > 0 && rng.Intn(2) == 0 {
				arms[a].base = -1
				rootsLeft--
			} else if rng.Intn(4) == 0 {
				arms[a].base = trunk[rng.Intn(len(trunk))]
			}
			arms[a].length = 1 + rng.Intn(o.MaxArm)
			arms[a].tip = arms[a].base
			arms[a].sub = o.SubMerge && rng.Intn(5) == 0
		}
		// grow the arms one commit at a time in random interleaving
		left := 0
		for _, a := range arms {
			left += a.length
		}
		for left > 0 {
			a := rng.Intn(narms)
			if arms[a].length == 0 {
				continue
			}
			arms[a].length--
			left--
			switch {
			case arms[a].tip < 0:
				arms[a].tip = add()
			case arms[a].sub && arms[a].tip != arms[a].base && arms[a].base >= 0:
				// a two-parent merge of the arm with its own base (a side branch that merges the trunk in)
				side := add(arms[a].base)
				arms[a].tip = add(arms[a].tip, side)
				arms[a].sub = false
			default:
				arms[a].tip = add(arms[a].tip)
			}
		}
		var tips []int
		for a := 0; a < k; a++ {
			dup := false
			for _, x := range tips {
				if x == arms[a].tip {
					dup = true
				}
			}
			if !dup {
				tips = append(tips, arms[a].tip)
			}
		}
		rng.Shuffle(len(tips), func(i, j int) { tips[i], tips[j] = tips[j], tips[i] })
		tip = add(tips...)
		trunk = append(trunk, tip)
		for i := rng.Intn(o.MaxTail + 1); i > 0; i-- {
			tip = add(tip)
			trunk = append(trunk, tip)
		}
	}
	return parents
}

// GenOctopusHib draws a conflict-free history (ticks, authors, kills and insertions by the rules of GenHist)
// over a GenOctopusShape commit graph.
func GenOctopusHib(rng *rand.Rand, o GenOpts, oo OctoOpts) *Hist {
	return GenHistShape(rng, GenOctopusShape(rng, oo), o)
}

// GenHist draws a random conflict-free history.
func GenHist(rng *rand.Rand, o GenOpts) *Hist {
	o.defaults()
	n := 2 + rng.Intn(o.MaxCommits-1)
	g := newHistGen(rng, o)
	h := g.h
	addCommit := g.addCommit
	for c := 0; c < n; c++ {
		var ps []int
		if c > 0 {
			if o.Linear {
				ps = []int{c - 1}
			} else {
				k := 1
				if r := rng.Intn(10); r < 3 && c >= 2 {
					k = 2
				} else if r == 3 && c >= 3 {
					k = 3
				}
				seen := map[int]bool{}
				for len(ps) < k {
					w := c
					if w > 4 {
						w = 4
					}
					p := c - 1 - rng.Intn(w)
					if !seen[p] {
						seen[p] = true
						ps = append(ps, p)
					}
				}
			}
		}
		addCommit(ps, len(ps) > 1)
	}
	if o.SingleHead {
		for {
			heads := h.Heads()
			if len(heads) <= 1 {
				break
			}
			k := 2
			if len(heads) > 2 && rng.Intn(3) == 0 {
				k = 3
			}
			rng.Shuffle(len(heads), func(i, j int) { heads[i], heads[j] = heads[j], heads[i] })
			addCommit(append([]int{}, heads[:k]...), true)
		}
	}
	return h
}

// Specs turns the history into commit specifications.
func (h *Hist) Specs() []CommitSpec {
	var cs []CommitSpec
	for c := 0; c < h.N; c++ {
		var files []FileSpec
		for _, p := range h.Paths {
			txt, ok := h.Content(c, p)
			if ok {
				files = append(files, FileSpec{Path: p, Data: []byte(txt)})
			}
		}
		au := fmt.Sprintf("dev%d", h.Author[c])
		when := time.Unix(BaseTime+int64(h.Tick[c])*86400+int64(c), 0)
		cs = append(cs, CommitSpec{Parents: h.Parents[c], AuthorName: au, AuthorEmail: au + "@x", AuthorWhen: when, Files: files})
	}
	return cs
}

// Build makes the repository of the history.
func (h *Hist) Build() (*git.Repository, []*object.Commit) {
	return BuildRepo(h.Specs())
}

// Sx serialises the history:
// (hist (parents (..) (..)) (ticks ..) (authors ..) (paths (a (id born killer) ...) ...))
func (h *Hist) Sx() lib.Sx {
	ps := make([]lib.Sx, h.N)
	for i, p := range h.Parents {
		ps[i] = lib.Ints(p)
	}
	var paths []lib.Sx
	for _, p := range h.Paths {
		items := []lib.Sx{lib.A(p)}
		for _, l := range h.Seqs[p] {
			items = append(items, lib.L(lib.I(l.ID), lib.I(l.Born), lib.I(l.Killer)))
		}
		paths = append(paths, lib.L(items...))
	}
	return lib.T("hist", lib.T("parents", ps...), lib.T("ticks", lib.Ints(h.Tick).List...),
		lib.T("authors", lib.Ints(h.Author).List...), lib.T("paths", paths...))
}

// HistFromSx is the inverse of Sx.
func HistFromSx(s lib.Sx) *Hist {
	h := &Hist{Seqs: map[string][]*Line{}}
	f, _ := s.Field("parents")
	for _, p := range f.Args() {
		var ps []int
		for _, x := range p.List {
			ps = append(ps, x.Int())
		}
		h.Parents = append(h.Parents, ps)
	}
	h.N = len(h.Parents)
	f, _ = s.Field("ticks")
	for _, x := range f.Args() {
		h.Tick = append(h.Tick, x.Int())
	}
	f, _ = s.Field("authors")
	for _, x := range f.Args() {
		h.Author = append(h.Author, x.Int())
	}
	f, _ = s.Field("paths")
	for _, p := range f.Args() {
		name := p.List[0].Atom
		h.Paths = append(h.Paths, name)
		for _, l := range p.List[1:] {
			h.Seqs[name] = append(h.Seqs[name], &Line{l.List[0].Int(), l.List[1].Int(), l.List[2].Int()})
		}
	}
	return h
}

// ---------------------------------------------------------------------------------------------
// Linear histories with arbitrary edits (repeated lines, renames, deletions, binary flips)

// LinearStep is one commit of a linear history: the complete file set.
type LinearStep struct {
	Tick  int
	Files map[string][]byte
}

// CountLines mirrors what a text file contributes to the burndown (0 for binary / empty).
func CountLines(s []byte) int {
	if len(s) == 0 {
		return 0
	}
	for _, b := range s {
		if b == 0 {
			return 0
		}
	}
	n := 0
	for _, b := range s {
		if b == '\n' {
			n++
		}
	}
	if s[len(s)-1] != '\n' {
		n++
	}
	return n
}

func mutate(rng *rand.Rand, s string) string {
	if rng.Intn(12) == 0 {
		if strings.IndexByte(s, 0) >= 0 {
			return strings.Replace(s, "\x00", "", -1)
		}
		return s + "\x00"
	}
	lines := strings.SplitAfter(s, "\n")
	if len(lines) > 0 && lines[len(lines)-1] == "" {
		lines = lines[:len(lines)-1]
	}
	k := 1 + rng.Intn(3)
	for i := 0; i < k; i++ {
		switch rng.Intn(3) {
		case 0:
			pos := rng.Intn(len(lines) + 1)
			run := 1 + rng.Intn(3)
			var ins []string
			for j := 0; j < run; j++ {
				ins = append(ins, fmt.Sprintf("w%d\n", rng.Intn(4)))
			}
			lines = append(lines[:pos], append(ins, lines[pos:]...)...)
		case 1:
			if len(lines) > 0 {
				pos := rng.Intn(len(lines))
				run := 1 + rng.Intn(len(lines)-pos)
				if run > 4 {
					run = 4
				}
				lines = append(lines[:pos], lines[pos+run:]...)
			}
		case 2:
			if len(lines) > 0 {
				pos := rng.Intn(len(lines))
				lines[pos] = fmt.Sprintf("w%d\n", rng.Intn(4))
			}
		}
	}
	r := strings.Join(lines, "")
	if rng.Intn(5) == 0 && len(r) > 0 && r[len(r)-1] == '\n' {
		r = r[:len(r)-1]
	}
	return r
}

// GenLinear draws a linear history with arbitrary edits.
func GenLinear(rng *rand.Rand, maxCommits int) []LinearStep {
	n := 2 + rng.Intn(maxCommits-1)
	files := map[string]string{}
	var steps []LinearStep
	tick := 0
	names := []string{"a", "b", "c", "d"}
	for c := 0; c < n; c++ {
		for e := 1 + rng.Intn(2); e > 0; e-- {
			nm := names[rng.Intn(len(names))]
			cur, ok := files[nm]
			switch {
			case !ok:
				files[nm] = mutate(rng, "")
			case rng.Intn(8) == 0:
				delete(files, nm)
			case rng.Intn(8) == 0:
				nn := names[rng.Intn(len(names))]
				if _, ex := files[nn]; !ex {
					files[nn] = cur
					delete(files, nm)
				}
			default:
				files[nm] = mutate(rng, cur)
			}
		}
		if c > 0 && rng.Intn(3) > 0 {
			tick += rng.Intn(3)
		}
		snap := map[string][]byte{}
		for k, v := range files {
			snap[k] = []byte(v)
		}
		steps = append(steps, LinearStep{Tick: tick, Files: snap})
	}
	return steps
}

// LinearSpecs turns a linear history into commit specifications (one author).
func LinearSpecs(steps []LinearStep) []CommitSpec {
	var cs []CommitSpec
	for c, s := range steps {
		var names []string
		for k := range s.Files {
			names = append(names, k)
		}
		sort.Strings(names)
		var files []FileSpec
		for _, k := range names {
			files = append(files, FileSpec{Path: k, Data: s.Files[k]})
		}
		spec := CommitSpec{AuthorName: "u", AuthorEmail: "u@x",
			AuthorWhen: time.Unix(BaseTime+int64(s.Tick)*86400+int64(c), 0), Files: files}
		if c > 0 {
			spec.Parents = []int{c - 1}
		}
		cs = append(cs, spec)
	}
	return cs
}

// LinearSx serialises a linear history: (linear (step tick (name (bytes...)) ...) ...)
func LinearSx(steps []LinearStep) lib.Sx {
	var items []lib.Sx
	for _, s := range steps {
		var names []string
		for k := range s.Files {
			names = append(names, k)
		}
		sort.Strings(names)
		fs := []lib.Sx{lib.A("step"), lib.I(s.Tick)}
		for _, k := range names {
			fs = append(fs, lib.L(lib.A(k), lib.Bytes(s.Files[k])))
		}
		items = append(items, lib.L(fs...))
	}
	return lib.T("linear", items...)
}

// LinearFromSx is the inverse of LinearSx.
func LinearFromSx(s lib.Sx) []LinearStep {
	var steps []LinearStep
	for _, st := range s.Args() {
		ls := LinearStep{Tick: st.List[1].Int(), Files: map[string][]byte{}}
		for _, f := range st.List[2:] {
			var data []byte
			for _, b := range f.List[1].List {
				data = append(data, byte(b.Int()))
			}
			ls.Files[f.List[0].Atom] = data
		}
		steps = append(steps, ls)
	}
	return steps
}
