// Package planlib is shared by the C02 and C04 harnesses: fabricated commit graphs, hash assignment,
// enumeration of small DAGs, random DAGs and the S-expression form of run plans.
package planlib

import (
	"fmt"
	"io"
	"log"
	"math/rand"
	"sort"
	"strings"
	"time"

	"gopkg.in/src-d/go-git.v4/plumbing"
	"gopkg.in/src-d/go-git.v4/plumbing/object"
	"gopkg.in/src-d/hercules.v10/verifapi"
	. "verifharness/lib"
)

func init() {
	// leaveRootComponent logs a warning per dropped commit
	log.SetOutput(io.Discard)
}

// Graph is a commit history handed to the planner.  Commits are numbered 0..N-1 so that a parent has
// a smaller number than its child.  Edges are (child, parent) in the order of ParentHashes; a negative
// parent -1-k is the k-th hash outside the analysed commit set.  Ranks[i] is the position of commit
// i's hash in byte order (a permutation of 0..N-1): it drives every tie-break of the planner.
// Order is the order of the commits in the slice given to the planner.
//
// Times[i] (optional; nil = every Committer.When is the zero time) is the committer timestamp of commit i in
// seconds after TimeBase.  The planner must not depend on it: git does not guarantee that commit dates grow
// along the ancestry (clock skew, rebases, imported histories).
type Graph struct {
	N     int
	Edges [][2]int
	Ranks []int
	Order []int
	Times []int
}

// TimeBase is the origin of Graph.Times.
const TimeBase = 1500000000

// Hash makes the hash whose byte (= hex string) order is the rank.
func Hash(rank int) plumbing.Hash {
	var h plumbing.Hash
	h[0] = byte(rank >> 24)
	h[1] = byte(rank >> 16)
	h[2] = byte(rank >> 8)
	h[3] = byte(rank)
	h[19] = 1
	return h
}

// extHash is a hash that belongs to no commit of the set.
func extHash(k int) plumbing.Hash {
	var h plumbing.Hash
	h[0] = 0xee
	h[1] = byte(k >> 8)
	h[2] = byte(k)
	h[19] = 2
	return h
}

// Parents returns the parent lists restricted to the commit set (what the model sees).
func (g Graph) Parents() [][]int {
	ps := make([][]int, g.N)
	for _, e := range g.Edges {
		if e[1] >= 0 {
			ps[e[0]] = append(ps[e[0]], e[1])
		}
	}
	return ps
}

// Commits fabricates the commits (prepareRunPlan reads only Hash and ParentHashes) in slice order
// Order (reversed when rev is set) and returns the hash -> number table.
func (g Graph) Commits(rev bool) ([]*object.Commit, map[plumbing.Hash]int) {
	cs := make([]*object.Commit, g.N)
	id := map[plumbing.Hash]int{}
	for i := 0; i < g.N; i++ {
		cs[i] = &object.Commit{Hash: Hash(g.Ranks[i])}
		if len(g.Times) == g.N {
			when := time.Unix(TimeBase+int64(g.Times[i]), 0)
			cs[i].Committer.When = when
			cs[i].Author.When = when
		}
		id[cs[i].Hash] = i
	}
	for _, e := range g.Edges {
		if e[1] >= 0 {
			cs[e[0]].ParentHashes = append(cs[e[0]].ParentHashes, cs[e[1]].Hash)
		} else {
			cs[e[0]].ParentHashes = append(cs[e[0]].ParentHashes, extHash(-1-e[1]))
		}
	}
	res := make([]*object.Commit, g.N)
	for k, i := range g.Order {
		if rev {
			res[g.N-1-k] = cs[i]
		} else {
			res[k] = cs[i]
		}
	}
	return res, id
}

// Fields is the input part of a case line.
func (g Graph) Fields() []Sx {
	es := make([]Sx, len(g.Edges))
	for i, e := range g.Edges {
		es[i] = L(I(e[0]), I(e[1]))
	}
	fs := []Sx{T("n", I(g.N)), T("ranks", Ints(g.Ranks).List...), T("order", Ints(g.Order).List...)}
	if len(g.Times) == g.N {
		fs = append(fs, T("times", Ints(g.Times).List...))
	}
	return append(fs, T("edges", es...))
}

// NonTrivial: some commit has two distinct parents inside the set.
func (g Graph) NonTrivial() bool {
	for _, ps := range g.Parents() {
		for _, p := range ps {
			if p != ps[0] {
				return true
			}
		}
	}
	return false
}

// ParseGraph reads the input fields of a case line back (replay).  Edges that became dangling after
// shrinking are dropped.
func ParseGraph(cs Sx) Graph {
	var g Graph
	if f, ok := cs.Field("n"); ok {
		g.N = f.Args()[0].Int()
	}
	if f, ok := cs.Field("ranks"); ok {
		for _, x := range f.Args() {
			g.Ranks = append(g.Ranks, x.Int())
		}
	}
	if f, ok := cs.Field("order"); ok {
		for _, x := range f.Args() {
			g.Order = append(g.Order, x.Int())
		}
	}
	if f, ok := cs.Field("edges"); ok {
		for _, x := range f.Args() {
			c, p := x.List[0].Int(), x.List[1].Int()
			if c >= 0 && c < g.N && p < c {
				g.Edges = append(g.Edges, [2]int{c, p})
			}
		}
	}
	if f, ok := cs.Field("times"); ok {
		for _, x := range f.Args() {
			g.Times = append(g.Times, x.Int())
		}
	}
	if len(g.Times) != g.N {
		g.Times = nil
	}
	if len(g.Ranks) != g.N {
		g.Ranks = Identity(g.N)
	}
	if len(g.Order) != g.N {
		g.Order = Identity(g.N)
	}
	return g
}

// Identity permutation.
func Identity(n int) []int {
	r := make([]int, n)
	for i := range r {
		r[i] = i
	}
	return r
}

// FromParents builds a graph from parent lists.
func FromParents(parents [][]int, ranks []int) Graph {
	g := Graph{N: len(parents), Ranks: ranks, Order: Identity(len(parents))}
	for c, ps := range parents {
		for _, p := range ps {
			g.Edges = append(g.Edges, [2]int{c, p})
		}
	}
	return g
}

// ActionSx is (K commit items...) with K in C F M E D H B and commit -1 for nil.
func ActionSx(a verifapi.VerifAction, id map[plumbing.Hash]int) Sx {
	k := "?"
	switch a.Action {
	case verifapi.ActionCommit:
		k = "C"
	case verifapi.ActionFork:
		k = "F"
	case verifapi.ActionMerge:
		k = "M"
	case verifapi.ActionEmerge:
		k = "E"
	case verifapi.ActionDelete:
		k = "D"
	case verifapi.ActionHibernate:
		k = "H"
	case verifapi.ActionBoot:
		k = "B"
	}
	c := -1
	if a.Commit != nil {
		if x, ok := id[a.Commit.Hash]; ok {
			c = x
		} else {
			c = -2
		}
	}
	xs := []Sx{I(c)}
	for _, it := range a.Items {
		xs = append(xs, I(it))
	}
	return T(k, xs...)
}

// PlanSx is (tag action...).
func PlanSx(tag string, plan []verifapi.VerifAction, id map[plumbing.Hash]int) Sx {
	xs := make([]Sx, len(plan))
	for i, a := range plan {
		xs[i] = ActionSx(a, id)
	}
	return T(tag, xs...)
}

// ParseAction is the inverse of ActionSx; commits are fabricated from their number.
func ParseAction(s Sx) verifapi.VerifAction {
	var a verifapi.VerifAction
	switch s.Tag() {
	case "C":
		a.Action = verifapi.ActionCommit
	case "F":
		a.Action = verifapi.ActionFork
	case "M":
		a.Action = verifapi.ActionMerge
	case "E":
		a.Action = verifapi.ActionEmerge
	case "D":
		a.Action = verifapi.ActionDelete
	case "H":
		a.Action = verifapi.ActionHibernate
	case "B":
		a.Action = verifapi.ActionBoot
	default:
		panic("unknown action " + s.String())
	}
	args := s.Args()
	if len(args) > 0 {
		if c := args[0].Int(); c >= 0 {
			a.Commit = &object.Commit{Hash: Hash(c)}
		}
		for _, x := range args[1:] {
			a.Items = append(a.Items, x.Int())
		}
	}
	return a
}

// IdentityIDs maps Hash(i) -> i for plans whose commits were fabricated by ParseAction.
func IdentityIDs(n int) map[plumbing.Hash]int {
	id := map[plumbing.Hash]int{}
	for i := 0; i < n; i++ {
		id[Hash(i)] = i
	}
	return id
}

// Guard runs f and maps a panic to (panic).
func Guard(tag string, f func() Sx) Sx {
	var res Sx
	msg, p := Catch(func() { res = f() })
	if p {
		cls := "other"
		if strings.Contains(msg, "index out of range") {
			cls = "index"
		} else if strings.Contains(msg, "nil pointer") {
			cls = "nil"
		} else if strings.Contains(msg, "does not have an assigned branch") || strings.Contains(msg, "zero branch") ||
			strings.Contains(msg, "failed to assign") || strings.Contains(msg, "does not have a branch assigned") {
			cls = "planner"
		} else if strings.Contains(msg, "topologically") {
			cls = "toposort"
		}
		return T(tag, T("panic", A(cls)))
	}
	return res
}

// Connected tells whether the undirected graph of the parent lists is connected.
func Connected(parents [][]int) bool {
	n := len(parents)
	comp := Identity(n)
	var find func(int) int
	find = func(x int) int {
		for comp[x] != x {
			x = comp[x]
		}
		return x
	}
	for i := range parents {
		for _, p := range parents[i] {
			comp[find(i)] = find(p)
		}
	}
	r := find(0)
	for i := 1; i < n; i++ {
		if find(i) != r {
			return false
		}
	}
	return true
}

// Perms lists all permutations of 0..n-1 in lexicographic order.
func Perms(n int) [][]int {
	var res [][]int
	var rec func(cur []int, used int)
	rec = func(cur []int, used int) {
		if len(cur) == n {
			res = append(res, append([]int{}, cur...))
			return
		}
		for i := 0; i < n; i++ {
			if used&(1<<uint(i)) == 0 {
				rec(append(cur, i), used|1<<uint(i))
			}
		}
	}
	rec(nil, 0)
	return res
}

// DagFromMask: bit b of mask, counted over (i, j<i) pairs in row order, says that j is a parent of i.
func DagFromMask(n, mask int) [][]int {
	parents := make([][]int, n)
	b := 0
	for i := 1; i < n; i++ {
		for j := 0; j < i; j++ {
			if mask&(1<<uint(b)) != 0 {
				parents[i] = append(parents[i], j)
			}
			b++
		}
	}
	return parents
}

// NumMasks is the number of simple DAGs on n topologically numbered commits.
func NumMasks(n int) int { return 1 << uint(n*(n-1)/2) }

// RandomGraph draws a history of up to maxN commits: several roots, octopus merges, duplicate and
// redundant parent edges, criss-cross merges, disconnected components, parents outside the set.
func RandomGraph(r *rand.Rand, maxN int) Graph {
	n := 1 + r.Intn(maxN)
	if r.Intn(3) != 0 && maxN > 4 {
		n = maxN/2 + r.Intn(maxN-maxN/2+1)
	}
	if n > maxN {
		n = maxN
	}
	g := Graph{N: n, Ranks: r.Perm(n)}
	switch r.Intn(4) {
	case 0:
		g.Order = Identity(n)
	case 1:
		g.Order = Identity(n)
		for i, j := 0, n-1; i < j; i, j = i+1, j-1 {
			g.Order[i], g.Order[j] = g.Order[j], g.Order[i]
		}
	default:
		g.Order = r.Perm(n)
	}
	style := r.Intn(6)
	ext := 0
	for c := 0; c < n; c++ {
		if c == 0 {
			if r.Intn(8) == 0 {
				g.Edges = append(g.Edges, [2]int{0, -1 - ext})
				ext++
			}
			continue
		}
		var k int // number of parents
		switch x := r.Intn(20); {
		case x < 1:
			k = 0 // another root (possibly a separate component)
		case x < 11:
			k = 1
		case x < 17:
			k = 2
		case x < 19:
			k = 3
		default:
			k = 2 + r.Intn(4)
		}
		if style == 0 && k == 0 && r.Intn(2) == 0 {
			k = 1
		}
		if style == 5 && k == 0 && c >= 2 {
			k = 0
		}
		for j := 0; j < k; j++ {
			var p int
			switch style {
			case 1: // mostly recent commits: long chains with short-lived side branches
				p = c - 1 - r.Intn(minInt(c, 3))
			case 2: // criss-cross: parents among the last four
				p = c - 1 - r.Intn(minInt(c, 4))
			default:
				p = r.Intn(c)
			}
			g.Edges = append(g.Edges, [2]int{c, p})
			if r.Intn(12) == 0 { // duplicate parent edge
				g.Edges = append(g.Edges, [2]int{c, p})
			}
			if r.Intn(10) == 0 && p > 0 { // redundant edge: also a parent of the parent
				ps := Graph{N: n, Edges: g.Edges}.Parents()[p]
				if len(ps) > 0 {
					g.Edges = append(g.Edges, [2]int{c, ps[r.Intn(len(ps))]})
				}
			}
		}
		if r.Intn(25) == 0 {
			g.Edges = append(g.Edges, [2]int{c, -1 - ext})
			ext++
		}
	}
	return g
}

func minInt(a, b int) int {
	if a < b {
		return a
	}
	return b
}

// PlanString is a compact key for de-duplication.
func PlanString(plan []verifapi.VerifAction, id map[plumbing.Hash]int) string {
	return PlanSx("p", plan, id).String()
}

// SortedInts returns a sorted copy.
func SortedInts(xs []int) []int {
	r := append([]int{}, xs...)
	sort.Ints(r)
	return r
}

// Describe is used in error messages of the harnesses.
func Describe(g Graph) string { return fmt.Sprintf("n=%d ranks=%v edges=%v", g.N, g.Ranks, g.Edges) }
