(* C06 - Gallina model of the node allocator of internal/rbtree/rbtree.go (type Allocator).
   Definitions only; the proofs are in Proofs.v / Hibernate.v / SerializeProofs.v.

   Go                                   model
   -----------------------------------  ---------------------------------------------------------
   storage []node (nil when hibernated) storage : option (list cell)      (None = nil slice)
   gaps map[uint32]bool (nil when hib.) gaps    : option (list N)         (None = nil map; the key set as a
                                                                           strictly increasing list, so that equal
                                                                           sets are equal terms; values are always true)
   hibernatedData [7][]byte             hdata   : list (option (list N))  (7 entries, None = nil slice, bytes as N)
   hibernatedStorageLen / GapsLen int   hslen, hglen : Z
   HibernationThreshold int             thr : Z
   panic("...")                         Panic <class>  (the state is unchanged by every panic that a
                                        caller can reach; see the remarks at [malloc] and [free])
   map iteration in malloc              explicit [choice] argument
   CompressUInt32Slice / Decompress...  Section variables [compress] / [decompress] (LZ4, external C code)

   Capacity (cap(storage)) is not modelled: it is not observable through the API. *)
From Coq Require Import List NArith ZArith Bool.
Import ListNotations.

Inductive pclass : Type :=
| PHibUse          (* "hibernated allocators cannot be used" *)
| PCloneHib        (* "cannot clone a hibernated allocator" *)
| PAlreadyHib      (* "cannot hibernate an already hibernated Allocator" *)
| PBootSerialized  (* "cannot boot a serialized Allocator" *)
| PFreeZero        (* "node #0 is special and cannot be deallocated" *)
| PAssert          (* doAssert: "rbtree internal assertion failed" *)
| PIndex           (* Go runtime: index out of range *)
| PMaxSize         (* "the size of my RBTree allocator has reached the maximum value for uint32, sorry" *)
| PNilMap          (* Go runtime: assignment to entry in nil map *)
| PSerAwake        (* "serialization requires the hibernated state" *)
| PDeserAwake.     (* "deserialization requires the hibernated state" *)

Inductive eclass : Type :=
| EOpen            (* os.Open / os.Create failed *)
| EEof             (* io.EOF / unexpected EOF while reading *)
| EIncomplete.     (* "incomplete read i: n instead of x" *)

Inductive result (A : Type) : Type :=
| Ok (a : A)
| Panic (c : pclass)
| Err (e : eclass).
Arguments Ok {A} a.
Arguments Panic {A} c.
Arguments Err {A} e.

(* one arena cell: node{item{Key,Value}, parent, left, right, color} *)
Record cell : Type := mkcell {
  ckey : N; cval : N; cleft : N; cparent : N; cright : N; ccolor : bool }.
Definition zero_cell : cell := mkcell 0 0 0 0 0 false.

Record alloc : Type := mkalloc {
  thr : Z;
  storage : option (list cell);
  gaps : option (list N);
  hdata : list (option (list N));
  hslen : Z;
  hglen : Z }.

Definition max_u32 : N := 4294967295.
Definition two32 : N := 4294967296.

(* NewAllocator *)
Definition new_alloc : alloc := mkalloc 0 (Some []) (Some []) (repeat None 7) 0 0.

Definition with_storage (a : alloc) (s : option (list cell)) : alloc :=
  mkalloc (thr a) s (gaps a) (hdata a) (hslen a) (hglen a).
Definition with_gaps (a : alloc) (g : option (list N)) : alloc :=
  mkalloc (thr a) (storage a) g (hdata a) (hslen a) (hglen a).
Definition with_thr (a : alloc) (t : Z) : alloc :=
  mkalloc t (storage a) (gaps a) (hdata a) (hslen a) (hglen a).
Definition with_hslen (a : alloc) (n : Z) : alloc :=
  mkalloc (thr a) (storage a) (gaps a) (hdata a) n (hglen a).

(* len(storage), len(gaps): 0 for nil *)
Definition slist (a : alloc) : list cell := match storage a with Some s => s | None => [] end.
Definition glist (a : alloc) : list N := match gaps a with Some g => g | None => [] end.

(* Size() *)
Definition size (a : alloc) : Z := Z.of_nat (length (slist a)).

(* Used() *)
Definition used (a : alloc) : result Z :=
  match storage a with
  | None => Panic PHibUse
  | Some s => Ok (Z.of_nat (length s) - Z.of_nat (length (glist a)))%Z
  end.

(* Clone(): what is copied is the threshold, the storage and the gap set; the hibernation fields
   of the copy are zero values *)
Definition clone (a : alloc) : result alloc :=
  match storage a with
  | None => Panic PCloneHib
  | Some s => Ok (mkalloc (thr a) (Some s) (Some (glist a)) (repeat None 7) 0 0)
  end.

(* finite sets of uint32 as strictly increasing lists *)
Fixpoint ins_sorted (x : N) (l : list N) : list N :=
  match l with
  | [] => [x]
  | y :: r => if (x <? y)%N then x :: l else if (x =? y)%N then l else y :: ins_sorted x r
  end.
Definition memb (x : N) (l : list N) : bool := existsb (N.eqb x) l.
Fixpoint remove_n (x : N) (l : list N) : list N :=
  match l with
  | [] => []
  | y :: r => if (x =? y)%N then r else y :: remove_n x r
  end.
Definition set_of (l : list N) : list N := fold_left (fun acc x => ins_sorted x acc) l [].

Fixpoint set_nth {A : Type} (i : nat) (v : A) (l : list A) {struct l} : list A :=
  match l with
  | [] => []
  | y :: r => match i with O => v :: r | S j => y :: set_nth j v r end
  end.

(* malloc(): a gap if there is one (Go: the first key the map iteration yields - [choice] picks it),
   otherwise the fresh end of the storage; slot 0 is reserved on first use; MaxUint32 is reserved.
   The panics leave the state unchanged (the size-limit panic cannot coincide with the reservation
   of slot 0). *)
Definition malloc (choice : nat) (a : alloc) : result (alloc * N) :=
  match storage a with
  | None => Panic PHibUse
  | Some s =>
      match gaps a with
      | Some (g0 :: g') =>
          let g := g0 :: g' in
          let key := nth (Nat.modulo choice (length g)) g 0%N in
          Ok (with_gaps a (Some (remove_n key g)), key)
      | _ =>
          let s1 := match s with [] => [zero_cell] | _ => s end in
          let n := N.of_nat (length s1) in
          if (n =? max_u32 - 1)%N then Panic PMaxSize
          else if negb (n <? max_u32)%N then Panic PAssert
          else Ok (with_storage a (Some (s1 ++ [zero_cell])), (n mod two32)%N)
      end
  end.

(* free(n).  With a nil gap map and an awake storage (a state that no sequence of API calls
   reaches) Go would zero the cell and then panic on the map assignment; that case is PNilMap. *)
Definition free (n : N) (a : alloc) : result alloc :=
  match storage a with
  | None => Panic PHibUse
  | Some s =>
      if (n =? 0)%N then Panic PFreeZero
      else match gaps a with
           | Some g =>
               if memb n g then Panic PAssert
               else if (N.of_nat (length s) <=? n)%N then Panic PIndex
               else Ok (mkalloc (thr a) (Some (set_nth (N.to_nat n) zero_cell s)) (Some (ins_sorted n g))
                                (hdata a) (hslen a) (hglen a))
           | None => if (N.of_nat (length s) <=? n)%N then Panic PIndex else Panic PNilMap
           end
  end.

(* a tree writing one of its cells: allocator.storage[n] = c *)
Definition write_cell (n : N) (c : cell) (a : alloc) : result alloc :=
  match storage a with
  | None => Panic PIndex
  | Some s => if (N.of_nat (length s) <=? n)%N then Panic PIndex
              else Ok (with_storage a (Some (set_nth (N.to_nat n) c s)))
  end.

Definition deinterleave (s : list cell) : list (list N) :=
  [map ckey s; map cval s; map cleft s; map cparent s; map cright s;
   map (fun c => if ccolor c then 1%N else 0%N) s].

Definition interleave (n : nat) (b : list (list N)) : list cell :=
  let f k i := nth i (nth k b []) 0%N in
  map (fun i => mkcell (f 0%nat i) (f 1%nat i) (f 2%nat i) (f 3%nat i) (f 4%nat i) (0 <? f 5%nat i)%N) (seq 0 n).

Section LZ4.
  (* CompressUInt32Slice(data) and DecompressUInt32Slice(data, result) with len(result) = n *)
  Variable compress : list N -> list N.
  Variable decompress : list N -> nat -> list N.

  (* Hibernate() *)
  Definition hibernate (a : alloc) : result alloc :=
    if (0 <? hslen a)%Z then Panic PAlreadyHib
    else
      let s := slist a in
      let n := Z.of_nat (length s) in
      if (n <? thr a)%Z then Ok a
      else match s with
           | [] => Ok (with_hslen a 0)
           | _ :: _ =>
               let six := map (fun b => Some (compress b)) (deinterleave s) in
               match gaps a with
               | Some (g0 :: g') =>
                   let g := g0 :: g' in
                   Ok (mkalloc (thr a) None None (six ++ [Some (compress g)]) n (Z.of_nat (length g)))
               | _ =>
                   Ok (mkalloc (thr a) None None (six ++ [nth 6 (hdata a) None]) n (hglen a))
               end
           end.

  (* &data[0] of a nil or empty slice panics *)
  Definition nonempty_buf (d : option (list N)) : option (list N) :=
    match d with Some (x :: r) => Some (x :: r) | _ => None end.

  Fixpoint all_some {A : Type} (l : list (option A)) : option (list A) :=
    match l with
    | [] => Some []
    | None :: _ => None
    | Some x :: r => match all_some r with Some r' => Some (x :: r') | None => None end
    end.

  (* Boot().  A negative length cannot be produced by Hibernate or by a file written by Serialize;
     make([]uint32, negative) would panic (classified PIndex here). *)
  Definition boot (a : alloc) : result alloc :=
    if (hslen a =? 0)%Z then Ok a
    else match nth 0 (hdata a) None with
         | None => Panic PBootSerialized
         | Some _ =>
             if (hslen a <? 0)%Z then Panic PIndex else
             let n := Z.to_nat (hslen a) in
             match all_some (map nonempty_buf (firstn 6 (hdata a))) with
             | None => Panic PIndex
             | Some ds =>
                 let bufs := map (fun d => decompress d n) ds in
                 let st := interleave n bufs in
                 if (0 <? hglen a)%Z then
                   match nonempty_buf (nth 6 (hdata a) None) with
                   | None => Panic PIndex
                   | Some d =>
                       Ok (mkalloc (thr a) (Some st) (Some (set_of (decompress d (Z.to_nat (hglen a)))))
                                   (repeat None 7) 0 0)
                   end
                 else Ok (mkalloc (thr a) (Some st) (Some []) (repeat None 6 ++ [nth 6 (hdata a) None]) 0 (hglen a))
             end
         end.
End LZ4.

(* -------------------------------------------------------------------------------------------
   Several owners (trees) on one allocator.  A tree operation is, for the allocator, a sequence of
   malloc / free of its own nodes / writes to its own cells; hibernation events are interleaved. *)
Inductive op : Type :=
| OMalloc (o : nat) (choice : nat)
| OFree (o : nat) (id : N)
| OWrite (o : nat) (id : N) (c : cell)
| OSetThr (t : Z)
| OHibernate
| OBoot.

Record world : Type := mkworld { wa : alloc; owned : list (N * nat) }.

Definition owns (w : world) (o : nat) (id : N) : bool :=
  existsb (fun p => (fst p =? id)%N && Nat.eqb (snd p) o) (owned w).
Definition disown (id : N) (l : list (N * nat)) : list (N * nat) :=
  filter (fun p => negb (fst p =? id)%N) l.

Section World.
  Variable compress : list N -> list N.
  Variable decompress : list N -> nat -> list N.

  Definition step (w : world) (x : op) : world :=
    match x with
    | OMalloc o ch =>
        match malloc ch (wa w) with
        | Ok (a', id) => mkworld a' ((id, o) :: owned w)
        | _ => w
        end
    | OFree o id =>
        if owns w o id then
          match free id (wa w) with
          | Ok a' => mkworld a' (disown id (owned w))
          | _ => w
          end
        else w
    | OWrite o id c =>
        if owns w o id then
          match write_cell id c (wa w) with
          | Ok a' => mkworld a' (owned w)
          | _ => w
          end
        else w
    | OSetThr t => mkworld (with_thr (wa w) t) (owned w)
    | OHibernate =>
        match hibernate compress (wa w) with
        | Ok a' => mkworld a' (owned w)
        | _ => w
        end
    | OBoot =>
        match boot decompress (wa w) with
        | Ok a' => mkworld a' (owned w)
        | _ => w
        end
    end.

  Definition run (ops : list op) (w : world) : world := fold_left step ops w.
End World.

Definition init_world : world := mkworld new_alloc [].

(* ids of one owner *)
Definition ids_of (w : world) (o : nat) : list N :=
  map fst (filter (fun p => Nat.eqb (snd p) o) (owned w)).

(* a live id of an awake allocator: inside the arena, not slot 0, not a gap *)
Definition liveb (a : alloc) (id : N) : bool :=
  match storage a with
  | None => false
  | Some s => (0 <? id)%N && (id <? N.of_nat (length s))%N && negb (memb id (glist a))
  end.

(* -------------------------------------------------------------------------------------------
   Executable oracles for the implementation's own outputs (used by the replay driver). *)
Fixpoint nodupb (l : list N) : bool :=
  match l with [] => true | x :: r => negb (memb x r) && nodupb r end.

(* the id sets of the owners are pairwise disjoint and duplicate free *)
Definition oracle_disjoint (sets : list (list N)) : bool := nodupb (concat sets).

(* every owned id is a live cell of the snapshot (size, gaps) *)
Definition oracle_live (sz : N) (g : list N) (sets : list (list N)) : bool :=
  forallb (fun id => (0 <? id)%N && (id <? sz)%N && negb (memb id g)) (concat sets).

(* Used() = live + 1 once the arena is non-empty, 0 before *)
Definition oracle_used (sz : N) (sets : list (list N)) (u : Z) : bool :=
  if (sz =? 0)%N then (u =? 0)%Z && match concat sets with [] => true | _ => false end
  else (u =? Z.of_nat (length (concat sets)) + 1)%Z.

(* gaps are inside the arena, exclude slot 0, and are strictly increasing (the snapshot sorts them) *)
Fixpoint sortedb (l : list N) : bool :=
  match l with
  | x :: ((y :: _) as r) => (x <? y)%N && sortedb r
  | _ => true
  end.
Definition oracle_gaps (sz : N) (g : list N) : bool :=
  sortedb g && forallb (fun id => (0 <? id)%N && (id <? sz)%N) g.
