(* The graph that resolve builds (first and second loop), characterised through the C15 lemmas on
   Toposort/Model.v: well-formedness (wfb), node set, edge set. *)
From Coq Require Import List ZArith Lia Bool Permutation.
From Herc Require Import Toposort.Model Toposort.Assoc Toposort.Paths Toposort.Refine Toposort.Reach Toposort.Main.
From Herc Require Import Pipeline.Resolve Pipeline.CheckerProofs.
Import ListNotations.
Open Scope Z_scope.

Notation named := (list (Z * item)) (only parsing).

Definition noparent (s : st) (b : Z) : Prop := forall a, has_edge s a b = false.

Lemma count_parents_nonneg s x : 0 <= count_parents s x.
Proof.
  unfold count_parents. induction (outs s) as [|[k m] l IH]; cbn [fold_right]; [lia|].
  destruct (existsb (fun cr => fst cr =? x) (snd (k, m))); lia.
Qed.

Lemma get_in_noparent s b : wfb s = true -> noparent s b -> get_in s b = 0.
Proof.
  intros H Hn. pose proof (proj1 (wfb_spec s) H) as Hwf.
  destruct (in_dec Z.eq_dec b (map fst (outs s))) as [Hin|Hni].
  - rewrite (wf_indeg [] s Hwf b Hin). apply count_parents_zero. intros n m Hnm Hb.
    specialize (Hn n).
    assert (Ht : has_edge s n b = true).
    { apply has_edge_spec. exists m. split; [|exact Hb]. apply In_aget; [apply (wf_outs_nodup [] s Hwf)|exact Hnm]. }
    congruence.
  - unfold get_in. destruct (aget (ins s) b) eqn:E; [|reflexivity]. exfalso. apply Hni.
    apply (wf_ins_nodes [] s Hwf). eapply aget_Some_key; eauto.
Qed.

Lemma get_in_nonneg s b : wfb s = true -> is_node s b = true -> 0 <= get_in s b.
Proof.
  intros H Hb. pose proof (proj1 (wfb_spec s) H) as Hwf. apply is_node_spec in Hb.
  rewrite (wf_indeg [] s Hwf b Hb). apply count_parents_nonneg.
Qed.

Lemma add_edge_val s a b : is_node s a = true -> snd (add_edge s a b) = get_in s b + 1.
Proof. unfold is_node, add_edge. destruct (aget (outs s) a); [reflexivity|discriminate]. Qed.

Lemma add_edge_none s a b : is_node s a = false -> add_edge s a b = (s, 0).
Proof. unfold is_node, add_edge. destruct (aget (outs s) a); [discriminate|reflexivity]. Qed.

Lemma NoDup_app_l {A} (a b : list A) : NoDup (a ++ b) -> NoDup a.
Proof. induction a as [|x a IH]; cbn [app]; intros H; [constructor|]. inversion H; subst. constructor; [|auto]. intros Hx. apply H2. apply in_or_app. auto. Qed.
Lemma NoDup_app_r {A} (a b : list A) : NoDup (a ++ b) -> NoDup b.
Proof. induction a as [|x a IH]; cbn [app]; intros H; [exact H|]. inversion H; subst. auto. Qed.
Lemma NoDup_app_disj {A} (a b : list A) x : NoDup (a ++ b) -> In x a -> In x b -> False.
Proof. induction a as [|y a IH]; cbn [app]; intros H Ha Hb; [destruct Ha|]. inversion H; subst. destruct Ha as [->|Ha]; [|auto]. apply H2. apply in_or_app. auto. Qed.

Lemma memZ_cons x k r : memZ x (k :: r) = (x =? k) || memZ x r.
Proof. reflexivity. Qed.

Lemma memZ_app x a b : memZ x (a ++ b) = memZ x a || memZ x b.
Proof. unfold memZ. apply existsb_app. Qed.

Lemma memZ_false x l : memZ x l = false <-> ~ In x l.
Proof. rewrite <- memZ_In. destruct (memZ x l); split; congruence. Qed.

(* ---------- the inner loop over Provides() ---------- *)
Lemma provide_loop_some ch nm : forall keys s amb s' amb',
  wfb s = true -> is_node s nm = true -> NoDup keys ->
  (forall k, In k keys -> has_edge s nm k = false) ->
  provide_loop ch nm keys s amb = Some (s', amb') ->
  wfb s' = true /\
  (forall x, is_node s' x = is_node s x || memZ x keys) /\
  (forall x y, has_edge s' x y = has_edge s x y || ((x =? nm) && memZ y keys)).
Proof.
  induction keys as [|key r IH]; intros s amb s' amb' Hw Hnm Hnd Hne H.
  - cbn [provide_loop] in H. injection H as <- <-. split; [exact Hw|]. split; intros; cbn [memZ existsb].
    + rewrite orb_false_r. reflexivity.
    + unfold memZ. cbn [existsb]. rewrite andb_false_r, orb_false_r. reflexivity.
  - cbn [provide_loop] in H.
    set (s1 := fst (add_node s key)) in *.
    destruct (add_edge s1 nm key) as [s2 n] eqn:E.
    assert (Es2 : s2 = fst (add_edge s1 nm key)) by (rewrite E; reflexivity).
    assert (Hw1 : wfb s1 = true) by (apply wfb_add_node; exact Hw).
    assert (Hn1 : forall x, is_node s1 x = is_node s x || (x =? key)) by (intros; apply add_node_is_node).
    assert (He1 : forall x y, has_edge s1 x y = has_edge s x y) by (intros; apply add_node_has_edge).
    assert (Hnm1 : is_node s1 nm = true) by (rewrite Hn1, Hnm; reflexivity).
    assert (Hw2 : wfb s2 = true).
    { rewrite Es2. apply wfb_add_edge; [exact Hw1| |].
      - rewrite Hn1, Z.eqb_refl, orb_true_r. reflexivity.
      - rewrite He1. apply Hne. left. reflexivity. }
    assert (Hn2 : forall x, is_node s2 x = is_node s1 x) by (intros; rewrite Es2; apply add_edge_is_node).
    assert (He2 : forall x y, has_edge s2 x y = has_edge s1 x y || ((x =? nm) && (y =? key)))
      by (intros; rewrite Es2; apply add_edge_has_edge; exact Hnm1).
    pose proof (proj1 (NoDup_cons_iff _ _) Hnd) as [Hkr Hnd'].
    assert (Hgo : forall amb0, provide_loop ch nm r s2 amb0 = Some (s', amb') ->
      wfb s' = true /\ (forall x, is_node s' x = is_node s x || memZ x (key :: r)) /\
      (forall x y, has_edge s' x y = has_edge s x y || ((x =? nm) && memZ y (key :: r)))).
    { intros amb0 H0. apply IH in H0; [|exact Hw2|rewrite Hn2; exact Hnm1|exact Hnd'|].
      - destruct H0 as (A & B & C). split; [exact A|]. split.
        + intros x. rewrite B, Hn2, Hn1, memZ_cons. destruct (is_node s x), (x =? key), (memZ x r); reflexivity.
        + intros x y. rewrite C, He2, He1, memZ_cons.
          destruct (has_edge s x y), (x =? nm), (y =? key), (memZ y r); reflexivity.
      - intros k Hk. rewrite He2, He1, (Hne k (or_intror Hk)), Z.eqb_refl. cbn [orb andb].
        apply Z.eqb_neq. intros ->. contradiction. }
    destruct (1 <? n); [destruct (aget amb key); [discriminate|]|]; eapply Hgo; exact H.
Qed.

Lemma provide_loop_unamb ch nm : forall keys s,
  wfb s = true -> is_node s nm = true -> NoDup keys ->
  (forall k, In k keys -> noparent s k) ->
  exists s', provide_loop ch nm keys s [] = Some (s', []).
Proof.
  induction keys as [|key r IH]; intros s Hw Hnm Hnd Hnp.
  - exists s. reflexivity.
  - cbn [provide_loop].
    set (s1 := fst (add_node s key)) in *.
    assert (Hw1 : wfb s1 = true) by (apply wfb_add_node; exact Hw).
    assert (Hn1 : forall x, is_node s1 x = is_node s x || (x =? key)) by (intros; apply add_node_is_node).
    assert (He1 : forall x y, has_edge s1 x y = has_edge s x y) by (intros; apply add_node_has_edge).
    assert (Hnm1 : is_node s1 nm = true) by (rewrite Hn1, Hnm; reflexivity).
    pose proof (add_edge_val s1 nm key Hnm1) as Hv.
    destruct (add_edge s1 nm key) as [s2 n] eqn:E. cbn [snd] in Hv.
    assert (Es2 : s2 = fst (add_edge s1 nm key)) by (rewrite E; reflexivity).
    rewrite (get_in_noparent s1 key Hw1) in Hv by (intros a; rewrite He1; apply Hnp; left; reflexivity).
    subst n. cbn [Z.add Z.ltb Z.compare Pos.compare Pos.compare_cont].
    pose proof (proj1 (NoDup_cons_iff _ _) Hnd) as [Hkr Hnd'].
    assert (He2 : forall x y, has_edge (fst (add_edge s1 nm key)) x y = has_edge s1 x y || ((x =? nm) && (y =? key)))
      by (intros; apply add_edge_has_edge; exact Hnm1).
    rewrite Es2. apply IH.
    + apply wfb_add_edge; [exact Hw1| |].
      * rewrite Hn1, Z.eqb_refl, orb_true_r. reflexivity.
      * rewrite He1. apply Hnp. left. reflexivity.
    + rewrite add_edge_is_node. exact Hnm1.
    + exact Hnd'.
    + intros k Hk a. rewrite He2, He1, (Hnp k (or_intror Hk) a).
      assert (k =? key = false) as -> by (apply Z.eqb_neq; intros ->; contradiction).
      rewrite andb_false_r. reflexivity.
Qed.

(* ---------- the first loop ---------- *)
Definition nodes1 (l : named) : list Z := flat_map (fun ni => fst ni :: iprov (snd ni)) l.
Definition provided_of (l : named) : list Z := flat_map (fun ni => iprov (snd ni)) l.
Definition E1 (l : named) (x y : Z) : bool := existsb (fun ni => (x =? fst ni) && memZ y (iprov (snd ni))) l.
Definition E2 (l : named) (x y : Z) : bool := existsb (fun ni => (y =? fst ni) && memZ x (ireq (snd ni))) l.
Definition n2i_of (l : named) (n2i : named) : named := fold_left (fun acc ni => aset acc (fst ni) (snd ni)) l n2i.

Lemma loop1_some ch : forall (l : named) s n2i amb b,
  wfb s = true ->
  (forall ni, In ni l -> NoDup (iprov (snd ni))) ->
  (forall ni k, In ni l -> In k (iprov (snd ni)) -> has_edge s (fst ni) k = false) ->
  NoDup (map fst l) ->
  items_loop1 ch l s n2i amb = Some b ->
  wfb (bg b) = true /\
  (forall x, is_node (bg b) x = is_node s x || memZ x (nodes1 l)) /\
  (forall x y, has_edge (bg b) x y = has_edge s x y || E1 l x y) /\
  bn2i b = n2i_of l n2i.
Proof.
  induction l as [|[nm it] r IH]; intros s n2i amb b Hw Hnd Hne Hnames H.
  - cbn [items_loop1] in H. injection H as <-. cbn [bg bn2i]. split; [exact Hw|]. split; [|split]; intros; cbn.
    + rewrite orb_false_r. reflexivity.
    + rewrite orb_false_r. reflexivity.
    + reflexivity.
  - cbn [items_loop1] in H.
    set (s1 := fst (add_node s nm)) in *.
    destruct (provide_loop ch nm (iprov it) s1 amb) as [[s2 amb2]|] eqn:E; [|discriminate].
    assert (Hw1 : wfb s1 = true) by (apply wfb_add_node; exact Hw).
    assert (Hn1 : forall x, is_node s1 x = is_node s x || (x =? nm)) by (intros; apply add_node_is_node).
    assert (He1 : forall x y, has_edge s1 x y = has_edge s x y) by (intros; apply add_node_has_edge).
    apply provide_loop_some in E; [|exact Hw1| | |].
    + destruct E as (Hw2 & Hn2 & He2).
      pose proof (proj1 (NoDup_cons_iff _ _) Hnames) as [Hnr Hnames']. cbn [map fst] in Hnr, Hnames'.
      apply IH in H; [|exact Hw2| | |exact Hnames'].
      * destruct H as (A & B & C & D). split; [exact A|]. split; [|split].
        -- intros x. rewrite B, Hn2, Hn1. unfold nodes1. cbn [flat_map fst snd]. fold (nodes1 r).
           change (memZ x ((nm :: iprov it) ++ nodes1 r)) with (memZ x (nm :: (iprov it ++ nodes1 r))).
           rewrite memZ_cons, memZ_app.
           destruct (is_node s x), (x =? nm), (memZ x (iprov it)), (memZ x (nodes1 r)); reflexivity.
        -- intros x y. rewrite C, He2, He1. unfold E1. cbn [existsb fst snd]. fold (E1 r x y).
           destruct (has_edge s x y), ((x =? nm) && memZ y (iprov it)), (E1 r x y); reflexivity.
        -- rewrite D. reflexivity.
      * intros ni Hni. apply Hnd. right. exact Hni.
      * intros ni k Hni Hk. rewrite He2, He1, (Hne ni k (or_intror Hni) Hk).
        assert (fst ni =? nm = false) as ->; [|reflexivity].
        apply Z.eqb_neq. intros Heq. apply Hnr. rewrite <- Heq. apply in_map. exact Hni.
    + rewrite Hn1, Z.eqb_refl, orb_true_r. reflexivity.
    + apply (Hnd (nm, it)). left. reflexivity.
    + intros k Hk. rewrite He1. apply (Hne (nm, it) k); [left; reflexivity|exact Hk].
Qed.

Lemma loop1_unamb ch : forall (l : named) s n2i P,
  wfb s = true -> (forall x y, has_edge s x y = true -> In y P) ->
  NoDup (P ++ provided_of l) -> NoDup (map fst l) ->
  exists b, items_loop1 ch l s n2i [] = Some b /\ bamb b = [].
Proof.
  induction l as [|[nm it] r IH]; intros s n2i P Hw HP Hnd Hnames.
  - eexists. split; reflexivity.
  - cbn [items_loop1].
    set (s1 := fst (add_node s nm)) in *.
    assert (Hw1 : wfb s1 = true) by (apply wfb_add_node; exact Hw).
    assert (Hn1 : forall x, is_node s1 x = is_node s x || (x =? nm)) by (intros; apply add_node_is_node).
    assert (He1 : forall x y, has_edge s1 x y = has_edge s x y) by (intros; apply add_node_has_edge).
    assert (Hnm1 : is_node s1 nm = true) by (rewrite Hn1, Z.eqb_refl, orb_true_r; reflexivity).
    unfold provided_of in Hnd. cbn [flat_map snd] in Hnd. fold (provided_of r) in Hnd.
    assert (Hndit : NoDup (iprov it)).
    { apply NoDup_app_r in Hnd. apply NoDup_app_l in Hnd. exact Hnd. }
    assert (Hnp : forall k, In k (iprov it) -> noparent s1 k).
    { intros k Hk a. rewrite He1. destruct (has_edge s a k) eqn:Ea; [|reflexivity]. exfalso.
      apply HP in Ea. apply (NoDup_app_disj _ _ k Hnd Ea). apply in_or_app. left. exact Hk. }
    destruct (provide_loop_unamb ch nm (iprov it) s1 Hw1 Hnm1 Hndit Hnp) as (s2 & E). rewrite E.
    apply provide_loop_some in E; [|exact Hw1|exact Hnm1|exact Hndit|].
    + destruct E as (Hw2 & Hn2 & He2).
      pose proof (proj1 (NoDup_cons_iff _ _) Hnames) as [Hnr Hnames']. cbn [map fst] in Hnr, Hnames'.
      apply (IH s2 (aset n2i nm it) (P ++ iprov it)); [exact Hw2| | |exact Hnames'].
      * intros x y Hxy. rewrite He2, He1 in Hxy. apply orb_prop in Hxy. apply in_or_app. destruct Hxy as [Hxy|Hxy].
        -- left. apply HP in Hxy. exact Hxy.
        -- right. apply andb_prop in Hxy. apply memZ_In. apply Hxy.
      * rewrite <- app_assoc. exact Hnd.
    + intros k Hk. apply Hnp. exact Hk.
Qed.

(* ---------- the second loop ---------- *)
Lemma require_loop_some nm : forall keys s s',
  wfb s = true -> is_node s nm = true -> NoDup keys ->
  (forall k, In k keys -> has_edge s k nm = false) ->
  require_loop nm keys s = Some s' ->
  wfb s' = true /\ (forall x, is_node s' x = is_node s x) /\
  (forall x y, has_edge s' x y = has_edge s x y || ((y =? nm) && memZ x keys)) /\
  (forall k, In k keys -> is_node s k = true).
Proof.
  induction keys as [|key r IH]; intros s s' Hw Hnm Hnd Hne H.
  - cbn [require_loop] in H. injection H as <-. split; [exact Hw|]. split; [reflexivity|]. split.
    + intros. unfold memZ. cbn [existsb]. rewrite andb_false_r, orb_false_r. reflexivity.
    + intros k [].
  - cbn [require_loop] in H.
    destruct (is_node s key) eqn:Ek.
    2:{ rewrite (add_edge_none s key nm Ek) in H. cbn in H. discriminate. }
    destruct (add_edge s key nm) as [s1 n] eqn:E.
    assert (Es1 : s1 = fst (add_edge s key nm)) by (rewrite E; reflexivity).
    subst s1.
    destruct (n =? 0); [discriminate|].
    pose proof (proj1 (NoDup_cons_iff _ _) Hnd) as [Hkr Hnd'].
    assert (He1 : forall x y, has_edge (fst (add_edge s key nm)) x y = has_edge s x y || ((x =? key) && (y =? nm)))
      by (intros; apply add_edge_has_edge; exact Ek).
    apply IH in H.
    + destruct H as (A & B & C & D). split; [exact A|]. split; [|split].
      * intros x. rewrite B. apply add_edge_is_node.
      * intros x y. rewrite C, He1, memZ_cons.
        destruct (has_edge s x y), (x =? key), (y =? nm), (memZ x r); reflexivity.
      * intros k [<-|Hk]; [exact Ek|]. rewrite <- (add_edge_is_node s key nm k). apply D. exact Hk.
    + apply wfb_add_edge; [exact Hw|exact Hnm|]. apply Hne. left. reflexivity.
    + rewrite add_edge_is_node. exact Hnm.
    + exact Hnd'.
    + intros k Hk. rewrite He1, (Hne k (or_intror Hk)).
      assert (k =? key = false) as -> by (apply Z.eqb_neq; intros ->; contradiction). reflexivity.
Qed.

Lemma require_loop_total nm : forall keys s,
  wfb s = true -> is_node s nm = true -> NoDup keys ->
  (forall k, In k keys -> has_edge s k nm = false) ->
  (forall k, In k keys -> is_node s k = true) ->
  exists s', require_loop nm keys s = Some s'.
Proof.
  induction keys as [|key r IH]; intros s Hw Hnm Hnd Hne Hk.
  - eexists. reflexivity.
  - cbn [require_loop].
    assert (Ek : is_node s key = true) by (apply Hk; left; reflexivity).
    pose proof (add_edge_val s key nm Ek) as Hv.
    destruct (add_edge s key nm) as [s1 n] eqn:E. cbn [snd] in Hv.
    assert (Es1 : s1 = fst (add_edge s key nm)) by (rewrite E; reflexivity).
    subst s1.
    pose proof (get_in_nonneg s nm Hw Hnm) as Hge.
    assert (n =? 0 = false) as -> by (apply Z.eqb_neq; lia).
    pose proof (proj1 (NoDup_cons_iff _ _) Hnd) as [Hkr Hnd'].
    apply IH.
    + apply wfb_add_edge; [exact Hw|exact Hnm|]. apply Hne. left. reflexivity.
    + rewrite add_edge_is_node. exact Hnm.
    + exact Hnd'.
    + intros k Hk'. rewrite (add_edge_has_edge s key nm k nm Ek), (Hne k (or_intror Hk')).
      assert (k =? key = false) as -> by (apply Z.eqb_neq; intros ->; contradiction). reflexivity.
    + intros k Hk'. rewrite add_edge_is_node. apply Hk. right. exact Hk'.
Qed.

Lemma require_loop_nodes nm : forall keys s s', require_loop nm keys s = Some s' -> forall x, is_node s' x = is_node s x.
Proof.
  induction keys as [|key r IH]; intros s s' H x; cbn [require_loop] in H.
  - injection H as <-. reflexivity.
  - destruct (add_edge s key nm) as [s1 n] eqn:E. destruct (n =? 0); [discriminate|].
    rewrite (IH _ _ H x). replace s1 with (fst (add_edge s key nm)) by (rewrite E; reflexivity). apply add_edge_is_node.
Qed.

Lemma require_loop_unsat nm : forall keys s, (exists k, In k keys /\ is_node s k = false) -> require_loop nm keys s = None.
Proof.
  induction keys as [|key r IH]; intros s (k & Hk & Hn); [destruct Hk|].
  cbn [require_loop]. destruct (is_node s key) eqn:Ek.
  - destruct Hk as [->|Hk]; [congruence|].
    destruct (add_edge s key nm) as [s1 n] eqn:E. destruct (n =? 0); [reflexivity|].
    apply IH. exists k. split; [exact Hk|].
    replace s1 with (fst (add_edge s key nm)) by (rewrite E; reflexivity). rewrite add_edge_is_node. exact Hn.
  - rewrite (add_edge_none s key nm Ek). reflexivity.
Qed.

Lemma loop2_some : forall (l : named) s s',
  wfb s = true ->
  (forall ni, In ni l -> is_node s (fst ni) = true) ->
  (forall ni, In ni l -> NoDup (ireq (snd ni))) ->
  (forall ni k, In ni l -> In k (ireq (snd ni)) -> has_edge s k (fst ni) = false) ->
  NoDup (map fst l) ->
  items_loop2 l s = Some s' ->
  wfb s' = true /\ (forall x, is_node s' x = is_node s x) /\
  (forall x y, has_edge s' x y = has_edge s x y || E2 l x y) /\
  (forall ni k, In ni l -> In k (ireq (snd ni)) -> is_node s k = true).
Proof.
  induction l as [|[nm it] r IH]; intros s s' Hw Hnode Hnd Hne Hnames H.
  - cbn [items_loop2] in H. injection H as <-. split; [exact Hw|]. split; [reflexivity|]. split.
    + intros. cbn. rewrite orb_false_r. reflexivity.
    + intros ni k [].
  - cbn [items_loop2] in H. destruct (require_loop nm (ireq it) s) as [s1|] eqn:E; [|discriminate].
    apply require_loop_some in E; [|exact Hw|apply (Hnode (nm, it)); left; reflexivity|apply (Hnd (nm, it)); left; reflexivity|].
    2:{ intros k Hk. apply (Hne (nm, it) k); [left; reflexivity|exact Hk]. }
    destruct E as (Hw1 & Hn1 & He1 & Hk1).
    pose proof (proj1 (NoDup_cons_iff _ _) Hnames) as [Hnr Hnames']. cbn [map fst] in Hnr, Hnames'.
    apply IH in H; [|exact Hw1| | | |exact Hnames'].
    + destruct H as (A & B & C & D). split; [exact A|]. split; [|split].
      * intros x. rewrite B. apply Hn1.
      * intros x y. rewrite C, He1. unfold E2. cbn [existsb fst snd]. fold (E2 r x y).
        destruct (has_edge s x y), ((y =? nm) && memZ x (ireq it)), (E2 r x y); reflexivity.
      * intros ni k [<-|Hni] Hk; [apply Hk1; exact Hk|]. rewrite <- Hn1. eapply D; eauto.
    + intros ni Hni. rewrite Hn1. apply Hnode. right. exact Hni.
    + intros ni Hni. apply Hnd. right. exact Hni.
    + intros ni k Hni Hk. rewrite He1, (Hne ni k (or_intror Hni) Hk).
      assert (fst ni =? nm = false) as ->; [|reflexivity].
      apply Z.eqb_neq. intros Heq. apply Hnr. rewrite <- Heq. apply in_map. exact Hni.
Qed.

Lemma loop2_total : forall (l : named) s,
  wfb s = true ->
  (forall ni, In ni l -> is_node s (fst ni) = true) ->
  (forall ni, In ni l -> NoDup (ireq (snd ni))) ->
  (forall ni k, In ni l -> In k (ireq (snd ni)) -> has_edge s k (fst ni) = false) ->
  (forall ni k, In ni l -> In k (ireq (snd ni)) -> is_node s k = true) ->
  NoDup (map fst l) ->
  exists s', items_loop2 l s = Some s'.
Proof.
  induction l as [|[nm it] r IH]; intros s Hw Hnode Hnd Hne Hsat Hnames.
  - eexists. reflexivity.
  - cbn [items_loop2].
    destruct (require_loop_total nm (ireq it) s Hw (Hnode (nm, it) (or_introl eq_refl)) (Hnd (nm, it) (or_introl eq_refl)))
      as (s1 & E).
    { intros k Hk. apply (Hne (nm, it) k); [left; reflexivity|exact Hk]. }
    { intros k Hk. apply (Hsat (nm, it) k); [left; reflexivity|exact Hk]. }
    rewrite E.
    apply require_loop_some in E; [|exact Hw|apply (Hnode (nm, it)); left; reflexivity|apply (Hnd (nm, it)); left; reflexivity|].
    2:{ intros k Hk. apply (Hne (nm, it) k); [left; reflexivity|exact Hk]. }
    destruct E as (Hw1 & Hn1 & He1 & Hk1).
    pose proof (proj1 (NoDup_cons_iff _ _) Hnames) as [Hnr Hnames']. cbn [map fst] in Hnr, Hnames'.
    apply IH; [exact Hw1| | | | |exact Hnames'].
    + intros ni Hni. rewrite Hn1. apply Hnode. right. exact Hni.
    + intros ni Hni. apply Hnd. right. exact Hni.
    + intros ni k Hni Hk. rewrite He1, (Hne ni k (or_intror Hni) Hk).
      assert (fst ni =? nm = false) as ->; [|reflexivity].
      apply Z.eqb_neq. intros Heq. apply Hnr. rewrite <- Heq. apply in_map. exact Hni.
    + intros ni k Hni Hk. rewrite Hn1. eapply Hsat; [right; exact Hni|exact Hk].
Qed.

Lemma loop2_nodes : forall (l : named) s s', items_loop2 l s = Some s' -> forall x, is_node s' x = is_node s x.
Proof.
  induction l as [|[nm it] r IH]; intros s s' H x; cbn [items_loop2] in H.
  - injection H as <-. reflexivity.
  - destruct (require_loop nm (ireq it) s) as [s1|] eqn:E; [|discriminate].
    rewrite (IH _ _ H x). eapply require_loop_nodes. exact E.
Qed.

Lemma loop2_unsat : forall (l : named) s,
  (exists ni k, In ni l /\ In k (ireq (snd ni)) /\ is_node s k = false) -> items_loop2 l s = None.
Proof.
  induction l as [|[nm it] r IH]; intros s (ni & k & Hni & Hk & Hn); [destruct Hni|].
  cbn [items_loop2]. destruct (require_loop nm (ireq it) s) as [s1|] eqn:E; [|reflexivity].
  destruct Hni as [<-|Hni].
  - rewrite (require_loop_unsat nm (ireq it) s) in E; [discriminate|]. exists k. split; assumption.
  - apply IH. exists ni, k. split; [exact Hni|]. split; [exact Hk|].
    rewrite (require_loop_nodes _ _ _ _ E). exact Hn.
Qed.

(* the node set after the first loop, without any well-formedness assumption *)
Lemma provide_loop_nodes ch nm : forall keys s amb s' amb',
  provide_loop ch nm keys s amb = Some (s', amb') -> forall x, is_node s' x = is_node s x || memZ x keys.
Proof.
  induction keys as [|key r IH]; intros s amb s' amb' H x; cbn [provide_loop] in H.
  - injection H as <- <-. cbn. rewrite orb_false_r. reflexivity.
  - destruct (add_edge (fst (add_node s key)) nm key) as [s2 n] eqn:E.
    assert (Hn2 : is_node s2 x = is_node s x || (x =? key)).
    { replace s2 with (fst (add_edge (fst (add_node s key)) nm key)) by (rewrite E; reflexivity).
      rewrite add_edge_is_node. apply add_node_is_node. }
    assert (Hgo : forall amb0, provide_loop ch nm r s2 amb0 = Some (s', amb') -> is_node s' x = is_node s x || memZ x (key :: r)).
    { intros amb0 H0. rewrite (IH _ _ _ _ H0 x), Hn2, memZ_cons. destruct (is_node s x), (x =? key), (memZ x r); reflexivity. }
    destruct (1 <? n); [destruct (aget amb key); [discriminate|]|]; eapply Hgo; exact H.
Qed.

Lemma loop1_nodes ch : forall (l : named) s n2i amb b,
  items_loop1 ch l s n2i amb = Some b -> forall x, is_node (bg b) x = is_node s x || memZ x (nodes1 l).
Proof.
  induction l as [|[nm it] r IH]; intros s n2i amb b H x; cbn [items_loop1] in H.
  - injection H as <-. cbn. rewrite orb_false_r. reflexivity.
  - destruct (provide_loop ch nm (iprov it) (fst (add_node s nm)) amb) as [[s2 amb2]|] eqn:E; [|discriminate].
    rewrite (IH _ _ _ _ H x), (provide_loop_nodes _ _ _ _ _ _ _ E x), add_node_is_node.
    unfold nodes1. cbn [flat_map fst snd]. fold (nodes1 r).
    change (memZ x ((nm :: iprov it) ++ nodes1 r)) with (memZ x (nm :: (iprov it ++ nodes1 r))).
    rewrite memZ_cons, memZ_app.
    destruct (is_node s x), (x =? nm), (memZ x (iprov it)), (memZ x (nodes1 r)); reflexivity.
Qed.
