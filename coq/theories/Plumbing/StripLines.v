(* C11: stripWhitespace (as repaired) works line by line: the lines of the stripped blob are the stripped lines. *)
From Coq Require Import List ZArith Bool Arith Lia.
From Herc Require Import Plumbing.LineCount Plumbing.LineCountProofs.
Import ListNotations.

Lemma has_nl_app : forall x y, has_nl (x ++ y) = has_nl x || has_nl y.
Proof. intros. unfold has_nl. apply existsb_app. Qed.

(* induction over the lines of a blob *)
Lemma lines_ind : forall P : bytes -> Prop,
  P [] ->
  (forall body, has_nl body = false -> body <> [] -> P body) ->
  (forall body rest, has_nl body = false -> P rest -> P (body ++ 10%Z :: rest)) ->
  forall b, P b.
Proof.
  intros P H0 H1 H2 b.
  assert (Q : forall pre, has_nl pre = false -> P (pre ++ b)).
  { induction b as [|c r IH]; intros pre Hp.
    - rewrite app_nil_r. destruct pre; [exact H0|apply H1; [exact Hp|discriminate]].
    - destruct (is_nl c) eqn:Ec.
      + rewrite (is_nl_true _ Ec). apply H2; [exact Hp|]. apply (IH [] eq_refl).
      + replace (pre ++ c :: r) with ((pre ++ [c]) ++ r) by (rewrite <- app_assoc; reflexivity).
        apply IH. rewrite has_nl_app, Hp. cbn. now rewrite Ec. }
  apply (Q [] eq_refl).
Qed.

Lemma lines_of_app_nl : forall body rest, has_nl body = false ->
  lines_of (body ++ 10%Z :: rest) = (body ++ [10%Z]) :: lines_of rest.
Proof.
  induction body as [|c body IH]; intros rest H; [reflexivity|].
  unfold has_nl in H. cbn [existsb] in H. apply orb_false_iff in H as [Hc Hb].
  cbn [app lines_of]. rewrite Hc. rewrite (IH rest Hb). reflexivity.
Qed.

Lemma lines_of_single : forall body, has_nl body = false -> body <> [] -> lines_of body = [body].
Proof.
  induction body as [|c body IH]; intros H Hne; [congruence|].
  unfold has_nl in H. cbn [existsb] in H. apply orb_false_iff in H as [Hc Hb].
  cbn [lines_of]. rewrite Hc. destruct body as [|d body']; [reflexivity|].
  rewrite (IH Hb) by discriminate. reflexivity.
Qed.

Lemma remove_spaces_app : forall x y, remove_spaces (x ++ y) = remove_spaces x ++ remove_spaces y.
Proof. intros. unfold remove_spaces. apply filter_app. Qed.

Lemma last_byte_app : forall x y, y <> [] -> last_byte (x ++ y) = last_byte y.
Proof.
  induction x as [|c x IH]; intros y Hy; [reflexivity|].
  cbn [app]. destruct (x ++ y) as [|d t] eqn:E.
  - destruct x; [cbn in E; congruence|discriminate].
  - rewrite last_byte_cons, <- E. now apply IH.
Qed.

(* stripWhitespace treats a line and what follows it separately *)
Lemma strip_app_nl : forall body rest,
  strip_whitespace (body ++ 10%Z :: rest) = remove_spaces body ++ 10%Z :: strip_whitespace rest.
Proof.
  intros body rest. unfold strip_whitespace.
  assert (E10 : forall t, remove_spaces (10%Z :: t) = 10%Z :: remove_spaces t) by reflexivity.
  rewrite remove_spaces_app, E10.
  rewrite (last_byte_app body (10%Z :: rest)) by discriminate.
  destruct rest as [|x rest'].
  - cbn. reflexivity.
  - rewrite last_byte_cons. destruct (last_byte (x :: rest')) as [c|] eqn:Hl; [|reflexivity].
    destruct (is_sp c); [|reflexivity].
    rewrite (last_byte_app (remove_spaces body) (10%Z :: remove_spaces (x :: rest'))) by discriminate.
    destruct (remove_spaces (x :: rest')) as [|y t] eqn:Er.
    + cbn [last_byte is_nl Z.eqb app]. rewrite <- app_assoc. reflexivity.
    + rewrite last_byte_cons. destruct (last_byte (y :: t)) as [d|]; [|rewrite <- app_assoc; reflexivity].
      destruct (is_nl d); [rewrite <- app_assoc; reflexivity|reflexivity].
Qed.

Lemma strip_single : forall body, has_nl body = false -> body <> [] ->
  has_nl (strip_whitespace body) = false /\ strip_whitespace body <> [].
Proof.
  intros body Hn Hne. unfold strip_whitespace.
  assert (Hr : has_nl (remove_spaces body) = false) by now rewrite has_nl_strip.
  assert (Hs : has_nl (remove_spaces body ++ [32%Z]) = false) by (rewrite has_nl_app, Hr; reflexivity).
  assert (Ha : remove_spaces body ++ [32%Z] <> []) by (destruct (remove_spaces body); discriminate).
  destruct body as [|x body']; [congruence|]. destruct (last_byte_some x body') as [c Hc]. rewrite Hc.
  destruct (is_sp c) eqn:Es.
  - destruct (last_byte (remove_spaces (x :: body'))) as [d|] eqn:Hd; [|split; assumption].
    destruct (is_nl d); [split; assumption|]. split; [exact Hr|]. intros E. rewrite E in Hd. discriminate.
  - split; [exact Hr|]. eapply strip_keeps; eauto.
Qed.

Theorem lines_of_strip_whitespace : forall b,
  lines_of (strip_whitespace b) = map strip_whitespace (lines_of b).
Proof.
  apply lines_ind.
  - reflexivity.
  - intros body Hn Hne. rewrite (lines_of_single body Hn Hne). cbn [map].
    destruct (strip_single body Hn Hne) as [H1 H2]. now rewrite lines_of_single.
  - intros body rest Hn IH.
    rewrite strip_app_nl, !lines_of_app_nl by (try rewrite has_nl_strip; assumption).
    cbn [map]. rewrite IH. f_equal.
    pose proof (strip_app_nl body []) as E. cbn in E. rewrite E. reflexivity.
Qed.

Theorem split_lines_strip_whitespace : forall b,
  split_lines (strip_whitespace b) = map strip_whitespace (split_lines b).
Proof. intros. rewrite !split_lines_spec. apply lines_of_strip_whitespace. Qed.

(* on one line of a blob stripWhitespace is "remove the spaces, but never return nothing" *)
Lemma strip_line_form : forall x, line_shape x ->
  strip_whitespace x = match remove_spaces x with [] => [32%Z] | r => r end.
Proof.
  intros x (body & Hn & [->|[-> Hne]]).
  - pose proof (strip_app_nl body []) as E. cbn [strip_whitespace last_byte remove_spaces filter] in E.
    rewrite E. rewrite remove_spaces_app.
    destruct (remove_spaces body ++ remove_spaces [10%Z]) eqn:Er; [|rewrite <- Er; reflexivity].
    apply app_eq_nil in Er as [_ Er]. discriminate.
  - unfold strip_whitespace. destruct body as [|c0 body']; [congruence|].
    destruct (last_byte_some c0 body') as [c Hc]. rewrite Hc.
    assert (Hr : has_nl (remove_spaces (c0 :: body')) = false) by now rewrite has_nl_strip.
    destruct (is_sp c) eqn:Es.
    + destruct (remove_spaces (c0 :: body')) as [|y t] eqn:Er; [reflexivity|].
      destruct (last_byte_some y t) as [d Hd]. rewrite Hd.
      assert (Hdn : is_nl d = false).
      { clear - Hr Hd. revert y Hr Hd. induction t as [|z t IH]; intros y Hr Hd.
        - cbn in Hd. injection Hd as <-. unfold has_nl in Hr. cbn in Hr. now apply orb_false_iff in Hr as [? _].
        - rewrite last_byte_cons in Hd. apply (IH z); [|exact Hd].
          unfold has_nl in *. cbn [existsb] in Hr. now apply orb_false_iff in Hr as [_ ?]. }
      now rewrite Hdn.
    + destruct (remove_spaces (c0 :: body')) eqn:Er; [|reflexivity].
      exfalso. eapply strip_keeps; eauto.
Qed.

Lemma remove_spaces_no_space : forall x, ~ In 32%Z (remove_spaces x).
Proof. intros x H. apply filter_In in H as [_ H]. discriminate. Qed.

Lemma strip_line_eq : forall x y, line_shape x -> line_shape y ->
  (strip_whitespace x = strip_whitespace y <-> remove_spaces x = remove_spaces y).
Proof.
  intros x y Hx Hy. rewrite (strip_line_form x Hx), (strip_line_form y Hy).
  pose proof (remove_spaces_no_space x) as Nx. pose proof (remove_spaces_no_space y) as Ny.
  destruct (remove_spaces x) as [|cx rx], (remove_spaces y) as [|cy ry]; split; intros E; try reflexivity; try exact E; try discriminate.
  - exfalso. apply Ny. rewrite <- E. now left.
  - exfalso. apply Nx. rewrite E. now left.
Qed.
