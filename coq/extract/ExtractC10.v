Require Extraction.
Require Import ExtrOcamlBasic.
From Herc Require Import Base.Conv Toposort.Model Pipeline.Resolve Pipeline.Deploy Pipeline.Strict Pipeline.TwoPaths Pipeline.NameCollision.
Extraction "c10_model.ml" conv_anchor resolve ambiguous_keys names_okb domain_okb order_ok positions_strict perm_b
  unsatisfiedb max_providers cyclicb region_of feedsb sort_items named_items
  deploy set_feature closure_names reg_okb summon
  chain_order_ok shallow_secondb two_feeders_b collision_only_b.
