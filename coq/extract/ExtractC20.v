Require Extraction.
Require Import ExtrOcamlBasic.
From Herc Require Import Base.Conv TreeDiff.Model TreeDiff.StrictProofs.
Extraction "c20_model.ml" conv_anchor td_zero bc_zero br_zero td_consume td_initialize td_fork bc_consume bc_initialize bc_fork
  run_op changes_ok all_pass flip_free empty_name_inert tree_wfb passes restrict is_file first_listing filter_diffs expected
  entry_eqb change_eqb path_eqb lookup integral_b.
