(* BlobCache.Consume: every hash referenced by a change is a key of the returned cache and the cached
   data are the exact bytes of the object (empty for an object that the store does not have, i.e. the
   placeholder of a submodule entry); the rotating cache keeps that property over every replay;
   branches are private. *)
From Coq Require Import List NArith Bool Lia.
From Herc Require Import TreeDiff.Model.
Import ListNotations.
Open Scope N_scope.

(* ---------- association lists ---------- *)

Lemma aget_aset_same : forall {V} (m : list (N * V)) k v, aget (aset m k v) k = Some v.
Proof.
  induction m as [|[k' v'] m IH]; intros k v; simpl.
  - rewrite N.eqb_refl. reflexivity.
  - destruct (k' =? k) eqn:E; simpl.
    + rewrite N.eqb_refl. reflexivity.
    + rewrite E. apply IH.
Qed.

Lemma aget_aset_other : forall {V} (m : list (N * V)) k v k', k <> k' -> aget (aset m k v) k' = aget m k'.
Proof.
  induction m as [|[k0 v0] m IH]; intros k v k' H; simpl.
  - destruct (k =? k') eqn:E; auto. apply N.eqb_eq in E. contradiction.
  - destruct (k0 =? k) eqn:E; simpl.
    + apply N.eqb_eq in E. subst k0.
      destruct (k =? k') eqn:E2; auto. apply N.eqb_eq in E2. contradiction.
    + destruct (k0 =? k'); auto.
Qed.

Lemma aget_aset : forall {V} (m : list (N * V)) k v k',
  aget (aset m k v) k' = if k =? k' then Some v else aget m k'.
Proof.
  intros V m k v k'. destruct (k =? k') eqn:E.
  - apply N.eqb_eq in E. subst. apply aget_aset_same.
  - apply aget_aset_other. apply N.eqb_neq. exact E.
Qed.

(* ---------- faithful caches ---------- *)

Definition bytes (store : N -> option (list N)) (h : N) : list N :=
  match store h with Some d => d | None => [] end.

Definition faithful (store : N -> option (list N)) (m : list (N * cblob)) : Prop :=
  forall h cb, aget m h = Some cb -> cb_data cb = bytes store h.

Lemma faithful_nil : forall store, faithful store [].
Proof. intros store h cb H. discriminate. Qed.

Lemma faithful_aset : forall store m h cb,
  faithful store m -> cb_data cb = bytes store h -> faithful store (aset m h cb).
Proof.
  intros store m h cb HF HD h' cb' H. rewrite aget_aset in H. destruct (h =? h') eqn:E.
  - apply N.eqb_eq in E. subst h'. inversion H; subst. exact HD.
  - apply HF. exact H.
Qed.

Definition has_key (m : list (N * cblob)) (h : N) : Prop := exists cb, aget m h = Some cb.

Lemma has_key_aset : forall m h cb h', has_key m h' \/ h = h' -> has_key (aset m h cb) h'.
Proof.
  intros m h cb h' H. unfold has_key. rewrite aget_aset. destruct (h =? h') eqn:E.
  - eauto.
  - destruct H as [H|H]. exact H. apply N.eqb_neq in E. contradiction.
Qed.

Lemma load_data : forall b e cb, load (e_hash e) (get_blob b e) = Some cb -> cb_data cb = bytes (b_store b) (e_hash e).
Proof.
  intros b e cb H. unfold get_blob, bytes in *. destruct (b_store b (e_hash e)) as [d|] eqn:S.
  - simpl in H. inversion H. reflexivity.
  - destruct (negb (e_mode e =? mode_submodule)); simpl in H; try discriminate.
    destruct (negb (b_fail_missing b)); simpl in H.
    + inversion H. reflexivity.
    + destruct (b_modules b); simpl in H; try discriminate.
      destruct (path_mem (e_path e) l); simpl in H; try discriminate. inversion H. reflexivity.
Qed.

Lemma load_none_store : forall b e, load (e_hash e) (get_blob b e) = None -> b_store b (e_hash e) = None.
Proof.
  intros b e H. unfold get_blob in H. destruct (b_store b (e_hash e)); auto. simpl in H. discriminate.
Qed.

Lemma get_blob_nonblob_store : forall b e, (forall d, get_blob b e <> GBlob d) -> b_store b (e_hash e) = None.
Proof.
  intros b e H. unfold get_blob in H. destruct (b_store b (e_hash e)) as [d|]; auto. exfalso. apply (H d). reflexivity.
Qed.

Definition side (e : entry) (c : change) : Prop := c_from c = Some e \/ c_to c = Some e.

(* one iteration of the loop *)
Lemma bc_step_spec : forall b lg old cache newc c cache' newc',
  faithful (b_store b) old -> faithful (b_store b) cache -> faithful (b_store b) newc ->
  bc_step b lg old (cache, newc) c = Ok (cache', newc') ->
  faithful (b_store b) cache' /\ faithful (b_store b) newc' /\
  (forall h, has_key cache h -> has_key cache' h) /\
  (forall e, side e c -> has_key cache' (e_hash e)).
Proof.
  intros b lg old cache newc c cache' newc' FO FC FN H.
  unfold bc_step in H. destruct c as [[fr|] [t|]]; simpl in H.
  - (* modification *)
    destruct (load (e_hash t) (get_blob b t)) as [cb|] eqn:LT.
    + pose proof (load_data _ _ _ LT) as DT.
      destruct (aget old (e_hash fr)) as [cb1|] eqn:AO.
      * inversion H; subst. clear H. pose proof (FO _ _ AO) as D1.
        repeat split.
        -- apply faithful_aset; auto. apply faithful_aset; auto.
        -- apply faithful_aset; auto.
        -- intros h Hk. apply has_key_aset. left. apply has_key_aset. left. exact Hk.
        -- intros e [HS|HS]; simpl in HS; inversion HS; subst.
           ++ apply has_key_aset. right. reflexivity.
           ++ apply has_key_aset. left. apply has_key_aset. right. reflexivity.
      * destruct (load (e_hash fr) (get_blob b fr)) as [cb1|] eqn:LF.
        -- inversion H; subst. clear H. pose proof (load_data _ _ _ LF) as D1.
           repeat split.
           ++ apply faithful_aset; auto. apply faithful_aset; auto.
           ++ apply faithful_aset; auto.
           ++ intros h Hk. apply has_key_aset. left. apply has_key_aset. left. exact Hk.
           ++ intros e [HS|HS]; simpl in HS; inversion HS; subst.
              ** apply has_key_aset. right. reflexivity.
              ** apply has_key_aset. left. apply has_key_aset. right. reflexivity.
        -- destruct lg; discriminate.
    + destruct lg; simpl in H; try discriminate.
      pose proof (load_none_store _ _ LT) as ST.
      assert (DE : cb_data empty_cb = bytes (b_store b) (e_hash t)) by (unfold bytes; rewrite ST; reflexivity).
      destruct (aget old (e_hash fr)) as [cb1|] eqn:AO; try discriminate.
      destruct (load (e_hash fr) (get_blob b fr)) as [cb1|] eqn:LF; try discriminate.
      inversion H; subst. clear H. pose proof (load_data _ _ _ LF) as D1.
      repeat split.
      * apply faithful_aset; auto. apply faithful_aset; auto.
      * apply faithful_aset; auto.
      * intros h Hk. apply has_key_aset. left. apply has_key_aset. left. exact Hk.
      * intros e [HS|HS]; simpl in HS; inversion HS; subst.
        -- apply has_key_aset. right. reflexivity.
        -- apply has_key_aset. left. apply has_key_aset. right. reflexivity.
  - (* deletion *)
    destruct (aget old (e_hash fr)) as [cb1|] eqn:AO.
    + inversion H; subst. clear H. pose proof (FO _ _ AO) as D1. repeat split; auto.
      * apply faithful_aset; auto.
      * intros h Hk. apply has_key_aset. left. exact Hk.
      * intros e [HS|HS]; simpl in HS; inversion HS; subst. apply has_key_aset. right. reflexivity.
    + assert (HD : forall d, (get_blob b fr = GBlob d -> d = bytes (b_store b) (e_hash fr))).
      { intros d HG. unfold get_blob, bytes in *. destruct (b_store b (e_hash fr)).
        - inversion HG. reflexivity.
        - destruct (negb (e_mode fr =? mode_submodule)); try discriminate.
          destruct (negb (b_fail_missing b)); try discriminate.
          destruct (b_modules b); try discriminate. destruct (path_mem (e_path fr) l); discriminate. }
      assert (HE : (forall d, get_blob b fr <> GBlob d) -> [] = bytes (b_store b) (e_hash fr)).
      { intro HNB. unfold bytes. rewrite (get_blob_nonblob_store _ _ HNB). reflexivity. }
      destruct (get_blob b fr) as [d| | |] eqn:G.
      * inversion H; subst. clear H. repeat split; auto.
        -- apply faithful_aset; [assumption|]. simpl. apply HD. reflexivity.
        -- intros h Hk. apply has_key_aset. left. exact Hk.
        -- intros e [HS|HS]; simpl in HS; inversion HS; subst. apply has_key_aset. right. reflexivity.
      * inversion H; subst. clear H. repeat split; auto.
        -- apply faithful_aset; [assumption|]. simpl. apply HE. intros d HH. discriminate.
        -- intros h Hk. apply has_key_aset. left. exact Hk.
        -- intros e [HS|HS]; simpl in HS; inversion HS; subst. apply has_key_aset. right. reflexivity.
      * inversion H; subst. clear H. repeat split; auto.
        -- apply faithful_aset; [assumption|]. simpl. apply HE. intros d HH. discriminate.
        -- intros h Hk. apply has_key_aset. left. exact Hk.
        -- intros e [HS|HS]; simpl in HS; inversion HS; subst. apply has_key_aset. right. reflexivity.
      * destruct lg; discriminate.
  - (* insertion *)
    destruct (load (e_hash t) (get_blob b t)) as [cb|] eqn:LT.
    + inversion H; subst. clear H. pose proof (load_data _ _ _ LT) as DT. repeat split.
      * apply faithful_aset; auto.
      * apply faithful_aset; auto.
      * intros h Hk. apply has_key_aset. left. exact Hk.
      * intros e [HS|HS]; simpl in HS; inversion HS; subst. apply has_key_aset. right. reflexivity.
    + destruct lg; discriminate.
  - destruct lg; discriminate.
Qed.

Lemma bc_loop_spec : forall b lg old cs cache newc cache' newc',
  faithful (b_store b) old -> faithful (b_store b) cache -> faithful (b_store b) newc ->
  bc_loop b lg old (cache, newc) cs = Ok (cache', newc') ->
  faithful (b_store b) cache' /\ faithful (b_store b) newc' /\
  (forall h, has_key cache h -> has_key cache' h) /\
  (forall c e, In c cs -> side e c -> has_key cache' (e_hash e)).
Proof.
  induction cs as [|c r IH]; intros cache newc cache' newc' FO FC FN H; cbn [bc_loop] in H.
  - inversion H; subst. repeat split; auto. intros c e [].
  - destruct (bc_step b lg old (cache, newc) c) as [[cache1 new1]| |] eqn:S; try discriminate.
    destruct (bc_step_spec _ _ _ _ _ _ _ _ FO FC FN S) as [F1 [F2 [K1 K2]]].
    destruct (IH _ _ _ _ FO F1 F2 H) as [F3 [F4 [K3 K4]]].
    repeat split; auto.
    intros c' e [->|HI] HS.
    + apply K3. apply K2. exact HS.
    + eapply K4; eauto.
Qed.

(* the statement of the property about blobs *)
Theorem cache_covers : forall b s cs s' out,
  faithful (b_store b) (bc_cache s) ->
  bc_consume b s cs = Ok (s', out) ->
  (forall c e, In c cs -> side e c ->
     exists cb, aget out (e_hash e) = Some cb /\ cb_data cb = bytes (b_store b) (e_hash e)) /\
  faithful (b_store b) (bc_cache s') /\ bc_log s' = bc_log s.
Proof.
  intros b s cs s' out FO H. unfold bc_consume in H.
  destruct (bc_loop b (bc_log s) (bc_cache s) ([], []) cs) as [[cache newc]| |] eqn:L; try discriminate.
  inversion H; subst. clear H.
  destruct (bc_loop_spec _ _ _ _ _ _ _ _ FO (faithful_nil _) (faithful_nil _) L) as [F1 [F2 [_ K]]].
  repeat split; auto.
  intros c e HI HS. destruct (K c e HI HS) as [cb Hcb]. exists cb. split. exact Hcb. apply F1 in Hcb. exact Hcb.
Qed.

(* submodule entries: the object store does not have the hash, the placeholder is empty *)
Corollary cache_submodule_empty : forall b s cs s' out c e,
  faithful (b_store b) (bc_cache s) ->
  bc_consume b s cs = Ok (s', out) -> In c cs -> side e c -> b_store b (e_hash e) = None ->
  exists cb, aget out (e_hash e) = Some cb /\ cb_data cb = [].
Proof.
  intros b s cs s' out c e FO H HI HS HN.
  destruct (cache_covers _ _ _ _ _ FO H) as [K _]. destruct (K c e HI HS) as [cb [H1 H2]].
  exists cb. split. exact H1. rewrite H2. unfold bytes. rewrite HN. reflexivity.
Qed.

(* no refusal of an integral change list in the default (lenient) submodule mode *)
Definition integral (b : benv) (cs : list change) : Prop :=
  forall c e, In c cs -> side e c -> is_submodule e = false -> b_store b (e_hash e) <> None.

Definition well_shaped (cs : list change) : Prop :=
  forall c, In c cs -> c_from c <> None \/ c_to c <> None.

Lemma load_total : forall b e, b_fail_missing b = false ->
  (is_submodule e = false -> b_store b (e_hash e) <> None) ->
  exists cb, load (e_hash e) (get_blob b e) = Some cb.
Proof.
  intros b e HF HI. unfold get_blob. destruct (b_store b (e_hash e)) as [d|] eqn:S.
  - simpl. eauto.
  - unfold is_submodule in HI. destruct (e_mode e =? mode_submodule); simpl.
    + rewrite HF. simpl. eauto.
    + exfalso. apply HI; reflexivity.
Qed.

Lemma bc_step_total : forall b lg old acc c, b_fail_missing b = false ->
  integral b [c] -> well_shaped [c] -> exists acc', bc_step b lg old acc c = Ok acc'.
Proof.
  intros b lg old [cache newc] c HF HI HW. unfold bc_step.
  assert (HL : forall e, side e c -> exists cb, load (e_hash e) (get_blob b e) = Some cb).
  { intros e HS. apply load_total; auto. intro HSub. apply (HI c e); auto. left; reflexivity. }
  destruct c as [[fr|] [t|]]; simpl.
  - destruct (HL t) as [cb LT]. right; reflexivity. rewrite LT.
    destruct (aget old (e_hash fr)). eauto.
    destruct (HL fr) as [cb1 LF]. left; reflexivity. rewrite LF. eauto.
  - destruct (aget old (e_hash fr)). eauto.
    destruct (HL fr) as [cb1 LF]. left; reflexivity.
    destruct (get_blob b fr); simpl in LF; try discriminate; eauto.
  - destruct (HL t) as [cb LT]. right; reflexivity. rewrite LT. eauto.
  - exfalso. destruct (HW (mkC None None)) as [H|H]. left; reflexivity. apply H; reflexivity. apply H; reflexivity.
Qed.

Theorem cache_no_refusal : forall b s cs, b_fail_missing b = false ->
  integral b cs -> well_shaped cs -> exists r, bc_consume b s cs = Ok r.
Proof.
  intros b s cs HF HI HW. unfold bc_consume.
  assert (HL : forall acc, exists acc', bc_loop b (bc_log s) (bc_cache s) acc cs = Ok acc').
  { induction cs as [|c r IH]; intro acc; simpl.
    - eauto.
    - destruct (bc_step_total b (bc_log s) (bc_cache s) acc c HF) as [acc1 S].
      + intros c' e [E|[]] HS HSub; subst c'. apply (HI c e); simpl; auto.
      + intros c' [E|[]]; subst c'. apply HW. left; reflexivity.
      + rewrite S. apply IH.
        * intros c' e HI' HS HSub. apply (HI c' e); simpl; auto.
        * intros c' HI'. apply HW. right; exact HI'. }
  destruct (HL ([], [])) as [[cache newc] L]. rewrite L. eauto.
Qed.

(* ---------- replays over several branches ---------- *)

Lemma nth_error_set_nth_other : forall {A} (l : list A) i j x, i <> j -> nth_error (set_nth l i x) j = nth_error l j.
Proof.
  induction l as [|y l IH]; intros i j x H; simpl.
  - reflexivity.
  - destruct i; destruct j; simpl; try congruence. apply IH. congruence.
Qed.

Lemma nth_error_set_nth_same : forall {A} (l : list A) i x y, nth_error l i = Some y -> nth_error (set_nth l i x) i = Some x.
Proof.
  induction l as [|z l IH]; intros i x y H; destruct i; simpl in *; try discriminate.
  - reflexivity.
  - eapply IH; eauto.
Qed.

Lemma length_set_nth : forall {A} (l : list A) i x, length (set_nth l i x) = length l.
Proof. induction l; intros; destruct i; simpl; auto. Qed.

(* consuming (or re-initialising) on one branch leaves every other branch as it was *)
Theorem fork_private : forall f bs i c dt b j, j <> i ->
  nth_error (run_op f bs (OConsume i c dt b)) j = nth_error bs j.
Proof.
  intros f bs i c dt b j H. simpl.
  destruct (nth_error bs i) as [br|]; auto.
  destruct (td_consume f (br_td br) c dt) as [[s' cs]| |]; auto.
  destruct (bc_consume b (br_bc br) cs) as [[new out]| |]; apply nth_error_set_nth_other; congruence.
Qed.

Theorem init_private : forall f bs i j, j <> i -> nth_error (run_op f bs (OInit i)) j = nth_error bs j.
Proof.
  intros f bs i j H. simpl. destruct (nth_error bs i); auto. apply nth_error_set_nth_other. congruence.
Qed.

(* Fork leaves the existing branches alone and appends copies of the origin *)
Theorem fork_copies : forall f bs i n br, nth_error bs i = Some br ->
  run_op f bs (OFork i n) = bs ++ repeat (mkBr (br_td br) (mkBC (bc_cache (br_bc br)) false)) n.
Proof.
  intros f bs i n br H. simpl. rewrite H. f_equal. unfold td_fork, bc_fork.
  induction n; simpl; congruence.
Qed.

(* every reachable state has faithful rotating caches *)
Definition op_store (store : N -> option (list N)) (o : op) : Prop :=
  match o with OConsume _ _ _ b => b_store b = store | _ => True end.

Definition inv (store : N -> option (list N)) (bs : list branch) : Prop :=
  Forall (fun br => faithful store (bc_cache (br_bc br))) bs.

Lemma Forall_set_nth : forall {A} (P : A -> Prop) l i x, Forall P l -> P x -> Forall P (set_nth l i x).
Proof.
  induction l as [|y l IH]; intros i x HF HP; destruct i; simpl; auto.
  - inversion HF; subst. constructor; auto.
  - inversion HF; subst. constructor; auto.
Qed.

Lemma inv_run_op : forall f store bs o, op_store store o -> inv store bs -> inv store (run_op f bs o).
Proof.
  intros f store bs o HS HI. unfold inv in *. destruct o as [i c dt b|i n|i]; simpl in *.
  - destruct (nth_error bs i) as [br|] eqn:E; auto.
    assert (HB : faithful store (bc_cache (br_bc br))).
    { rewrite Forall_forall in HI. apply HI. eapply nth_error_In; eauto. }
    destruct (td_consume f (br_td br) c dt) as [[s' cs]| |]; auto.
    destruct (bc_consume b (br_bc br) cs) as [[new out]| |] eqn:BC.
    + apply Forall_set_nth; auto. simpl. subst store.
      destruct (cache_covers _ _ _ _ _ HB BC) as [_ [F _]]. exact F.
    + apply Forall_set_nth; auto.
    + apply Forall_set_nth; auto.
  - destruct (nth_error bs i) as [br|] eqn:E; auto.
    assert (HB : faithful store (bc_cache (br_bc br))).
    { rewrite Forall_forall in HI. apply HI. eapply nth_error_In; eauto. }
    apply Forall_app. split; auto.
    apply Forall_forall. intros x Hx. apply in_map_iff in Hx. destruct Hx as [[t bc] [Hx1 Hx2]]. subst x. simpl.
    apply in_combine_r in Hx2. unfold bc_fork in Hx2. apply repeat_spec in Hx2. subst bc. simpl. exact HB.
  - destruct (nth_error bs i) as [br|] eqn:E; auto.
    apply Forall_set_nth; auto. simpl. apply faithful_nil.
Qed.

Theorem inv_reachable : forall f store ops,
  Forall (op_store store) ops -> inv store (fold_left (run_op f) ops [br_zero]).
Proof.
  intros f store ops H.
  assert (G : forall bs, inv store bs -> inv store (fold_left (run_op f) ops bs)).
  { induction ops as [|o r IH]; intros bs HI; simpl.
    - exact HI.
    - inversion H; subst. apply IH; auto. apply inv_run_op; auto. }
  apply G. constructor; [|constructor]. simpl. apply faithful_nil.
Qed.
