(* Fast versions of the two C13 property oracles of Renames.v, for the large change sets of the replay
   (10^4 .. 10^6 changes), on which the quadratic [repairing_b] / [exact_b] are too slow.  Proofs included
   (the file is small); the statements are repeated in props/C13.v.

   repairing_fast_b   the re-pairing oracle with the two multiset comparisons done by merge sort
                      (Coq.Sorting.Mergesort on a total order of entries) instead of repeated removal, and
                      with the modifications expected as a prefix of the output, in input order (where
                      Consume puts them; an output that has them elsewhere is simply not accepted by this
                      oracle and goes to the slow one).  Sound: true implies [repairing].
   exact_at_restrict  the count clause for one hash depends only on the changes that carry this hash on some
                      side: the driver may evaluate [exact_at] per hash on the sub-lists of the changes that
                      touch the hash (linear in total instead of #hashes x #changes). *)
From Coq Require Import List ZArith NArith Bool Lia Permutation Orders Sorting.Mergesort.
From Herc Require Import Plumbing.Renames Plumbing.RenamesProofs.
Import ListNotations.

(* ---------- a total order on entries (any total order would do; only totality is needed) ---------- *)
Fixpoint hash_cmp (a b : list N) : comparison :=
  match a, b with
  | [], [] => Eq
  | [], _ :: _ => Lt
  | _ :: _, [] => Gt
  | x :: a', y :: b' => match (x ?= y)%N with Eq => hash_cmp a' b' | c => c end
  end.

Definition entry_cmp (x y : entry) : comparison :=
  match (e_name x ?= e_name y)%N with
  | Eq => match hash_cmp (e_hash x) (e_hash y) with
          | Eq => (e_size x ?= e_size y)%Z
          | c => c
          end
  | c => c
  end.

Definition entry_leb (x y : entry) : bool :=
  match entry_cmp x y with Gt => false | _ => true end.

Lemma hash_cmp_antisym : forall a b, hash_cmp b a = CompOpp (hash_cmp a b).
Proof.
  induction a as [|x a IH]; intros [|y b]; cbn [hash_cmp]; auto.
  rewrite (N.compare_antisym x y). destruct (x ?= y)%N; cbn [CompOpp]; auto.
Qed.

Lemma entry_cmp_antisym : forall x y, entry_cmp y x = CompOpp (entry_cmp x y).
Proof.
  intros x y. unfold entry_cmp.
  rewrite (N.compare_antisym (e_name x) (e_name y)).
  destruct (e_name x ?= e_name y)%N; cbn [CompOpp]; auto.
  rewrite (hash_cmp_antisym (e_hash x) (e_hash y)).
  destruct (hash_cmp (e_hash x) (e_hash y)); cbn [CompOpp]; auto.
  apply Z.compare_antisym.
Qed.

Lemma entry_leb_total : forall x y, entry_leb x y = true \/ entry_leb y x = true.
Proof.
  intros x y. unfold entry_leb. rewrite (entry_cmp_antisym x y).
  destruct (entry_cmp x y); cbn [CompOpp]; auto.
Qed.

Module EntryOrder <: TotalLeBool.
  Definition t := entry.
  Definition leb := entry_leb.
  Infix "<=?" := leb (at level 70, no associativity).
  Theorem leb_total : forall a1 a2, a1 <=? a2 = true \/ a2 <=? a1 = true.
  Proof. exact entry_leb_total. Qed.
End EntryOrder.

Module ESort := Sort EntryOrder.

(* ---------- list equality ---------- *)
Fixpoint list_eqb {A} (eqb : A -> A -> bool) (l m : list A) : bool :=
  match l, m with
  | [], [] => true
  | x :: l', y :: m' => eqb x y && list_eqb eqb l' m'
  | _, _ => false
  end.

Lemma list_eqb_eq : forall {A} (eqb : A -> A -> bool), (forall x y, reflect (x = y) (eqb x y)) ->
  forall l m, list_eqb eqb l m = true -> l = m.
Proof.
  intros A eqb sp. induction l as [|x l IH]; intros [|y m] H; cbn [list_eqb] in H; try discriminate; auto.
  apply andb_true_iff in H as [H1 H2]. destruct (sp x y); [|discriminate]. subst. f_equal. auto.
Qed.

(* ---------- the fast re-pairing oracle ---------- *)
Definition perm_fast (l m : list entry) : bool :=
  list_eqb entry_eqb (ESort.sort l) (ESort.sort m).

Lemma perm_fast_sound : forall l m, perm_fast l m = true -> Permutation l m.
Proof.
  unfold perm_fast. intros l m H. apply (list_eqb_eq entry_eqb entry_eqb_spec) in H.
  rewrite (ESort.Permuted_sort l), H. symmetry. apply ESort.Permuted_sort.
Qed.

Definition repairing_fast_b (inp out : list change) : bool :=
  let k := length (mods inp) in
  let rest := skipn k out in
  list_eqb change_eqb (firstn k out) (mods inp)
  && perm_fast (froms rest) (dels inp) && perm_fast (tos rest) (adds inp)
  && forallb nonempty rest.

Lemma repairing_fast_sound : forall inp out, repairing_fast_b inp out = true -> repairing inp out.
Proof.
  unfold repairing_fast_b, repairing. intros inp out H.
  apply andb_true_iff in H as [H H4]. apply andb_true_iff in H as [H H3]. apply andb_true_iff in H as [H1 H2].
  apply (list_eqb_eq change_eqb change_eqb_spec) in H1.
  exists (skipn (length (mods inp)) out). repeat split.
  - rewrite <- H1 at 1. rewrite firstn_skipn. reflexivity.
  - apply perm_fast_sound; auto.
  - apply perm_fast_sound; auto.
  - apply Forall_forall. rewrite forallb_forall in H4. auto.
Qed.

(* ---------- the count clause per hash, on the changes that touch the hash ---------- *)
Definition side_has (h : hash) (s : option entry) : bool :=
  match s with Some e => hash_eqb (e_hash e) h | None => false end.

Definition touches (h : hash) (c : change) : bool := side_has h (fst c) || side_has h (snd c).

Lemma filter_filter_impl : forall {A} (p q : A -> bool) l,
  (forall x, p x = true -> q x = true) -> filter p (filter q l) = filter p l.
Proof.
  intros A p q l H. induction l as [|x l IH]; [reflexivity|]. cbn [filter].
  destruct (q x) eqn:Q; cbn [filter].
  - rewrite IH. reflexivity.
  - destruct (p x) eqn:P; [rewrite (H x P) in Q; discriminate|]. exact IH.
Qed.

Lemma filter_comm : forall {A} (p q : A -> bool) l, filter p (filter q l) = filter q (filter p l).
Proof.
  intros A p q l. induction l as [|x l IH]; [reflexivity|]. cbn [filter].
  destruct (q x) eqn:Q, (p x) eqn:P; cbn [filter]; rewrite ?Q, ?P, IH; reflexivity.
Qed.

Lemma same_hash_touches : forall h c, same_hash h c = true -> touches h c = true.
Proof.
  intros h [[f|] [t|]]; cbn [same_hash]; try discriminate.
  intros H. apply andb_true_iff in H as [H _]. unfold touches. cbn [fst snd side_has]. rewrite H. reflexivity.
Qed.

Section Restrict.
  Variable keep : change -> bool.
  Variable h : hash.
  Hypothesis keeps : forall c, touches h c = true -> keep c = true.

  Lemma count_same_restrict : forall cs, count_same h (filter keep cs) = count_same h cs.
  Proof.
    intros cs. unfold count_same. rewrite filter_filter_impl; auto.
    intros c H. apply keeps, same_hash_touches, H.
  Qed.

  Lemma mods_restrict : forall cs, mods (filter keep cs) = filter keep (mods cs).
  Proof. intros cs. unfold mods. apply filter_comm. Qed.

  Lemma count_adds_restrict : forall cs, count_hash h (adds (filter keep cs)) = count_hash h (adds cs).
  Proof.
    induction cs as [|c cs IH]; [reflexivity|]. cbn [filter].
    destruct (keep c) eqn:K.
    - unfold adds in *. cbn [flat_map]. rewrite !count_hash_app, IH. reflexivity.
    - rewrite IH. unfold adds. cbn [flat_map]. fold (adds cs). rewrite count_hash_app.
      destruct c as [[f|] [t|]]; cbn [app]; try reflexivity.
      rewrite count_hash_cons.
      destruct (hash_eqb (e_hash t) h) eqn:E; [|reflexivity].
      rewrite (keeps (None, Some t)) in K; [discriminate|].
      unfold touches. cbn [fst snd side_has]. rewrite E. reflexivity.
  Qed.

  Lemma count_dels_restrict : forall cs, count_hash h (dels (filter keep cs)) = count_hash h (dels cs).
  Proof.
    induction cs as [|c cs IH]; [reflexivity|]. cbn [filter].
    destruct (keep c) eqn:K.
    - unfold dels in *. cbn [flat_map]. rewrite !count_hash_app, IH. reflexivity.
    - rewrite IH. unfold dels. cbn [flat_map]. fold (dels cs). rewrite count_hash_app.
      destruct c as [[f|] [t|]]; cbn [app]; try reflexivity.
      rewrite count_hash_cons.
      destruct (hash_eqb (e_hash f) h) eqn:E; [|reflexivity].
      rewrite (keeps (Some f, None)) in K; [discriminate|].
      unfold touches. cbn [fst snd side_has]. rewrite E. reflexivity.
  Qed.

  Lemma exact_at_restrict : forall inp out,
    exact_at (filter keep inp) (filter keep out) h = exact_at inp out h.
  Proof.
    intros inp out. unfold exact_at.
    rewrite count_same_restrict, mods_restrict, count_same_restrict, count_adds_restrict, count_dels_restrict.
    reflexivity.
  Qed.
End Restrict.

(* what the driver does on a large case: for every hash that occurs, [exact_at] on the changes touching it *)
Lemma exact_by_buckets_sound : forall inp out,
  (forall h, In h (hashes_of inp out) ->
             exact_at (filter (touches h) inp) (filter (touches h) out) h = true) ->
  forall h, count_same h out =
            (count_same h (mods inp) + Nat.min (count_hash h (adds inp)) (count_hash h (dels inp)))%nat.
Proof.
  intros inp out H. apply exact_b_sound. unfold exact_b. apply forallb_forall. intros h I.
  rewrite <- (exact_at_restrict (touches h) h (fun c T => T) inp out). apply H, I.
Qed.
