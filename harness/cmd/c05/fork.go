// The `fork` families of C05 (round 4, class R4-6 "two features at once": several trees on one allocator x the
// fork idiom x free-list re-use x hibernation).  hercules forks a branch with Allocator.Clone() followed by
// RBTree.CloneShallow() of every file tree (leaves/burndown.go); from that moment the trees of the fork are
// "several trees sharing an allocator" whose arena and free list were not built by the operations of the
// property but copied.  Whatever the copy gets wrong about a cell (a live cell entered into the free list, a
// gap forgotten, a header not copied, storage shared with the original) only shows when BOTH sides are used
// afterwards: a later Insert into ANOTHER tree of the fork re-uses the cell, a write of one side is seen by the
// other.  Operations of the small-case language added for this (main.go):
//
//	(fork a)  a new arena: Clone() of the allocator of arena a and CloneShallow() of each of its nt trees; the
//	          trees of arena j have the indexes j*nt .. j*nt+nt-1 (at most 4 arenas; forks of forks are allowed)
//	(hib a)   Hibernate() + Boot() of the allocator of arena a under its living trees and iterators
//
// After EVERY operation the harness records every arena (cells, gaps, headers, Used()), and the driver judges
// every tree of every arena; the generators make the re-use of a wrongly freed cell CERTAIN: they know the
// number of genuine gaps of each arena and let one tree insert (gaps + number of trees + 1) new keys, which
// drains any free list with up to one spurious entry per tree, whichever entry malloc's map iteration picks.
//
//	forkex   directed, enumerated: (number of trees 2..3) x (size of each tree in {0, 1, 2, 3, 6} for 2 trees, {0, 1, 2, 5} for 3: the empty
//	         tree, the root-only tree, a root with one child, ...) x (genuine gaps at fork time 0..2), each with drawn
//	         key universe, fill order, hibernation before / after the fork, the side that is mutated first, the
//	         tree that drains the free list, a second-level fork (of the fork or of the original)
//	forkrnd  random: 2-3 trees over 2..8 keys, mutations on a random tree of a random arena (Insert, DeleteWithKey,
//	         DeleteWithIterator, Erase, CloneDeep, drain of the free list), forks and hibernations in between,
//	         every mutation followed by reads on the trees of its arena and on the twins of the mutated tree in the other
//	         arenas (one time in six: on every tree of every arena, with complete iterations)
//
// and the scale cases `scale-fork-*` (macro (forksw hib) of scale.go).
package main

import (
	"fmt"
	"math/rand"
	"sort"

	. "verifharness/lib"
)

type forkSim struct {
	nt    int
	sets  []map[int]bool // by global tree index
	live  []int          // by arena
	cells []int
}

func newForkSim(nt int) *forkSim {
	s := &forkSim{nt: nt, live: []int{0}, cells: []int{0}}
	for i := 0; i < nt; i++ {
		s.sets = append(s.sets, map[int]bool{})
	}
	return s
}

func (s *forkSim) arenas() int    { return len(s.live) }
func (s *forkSim) gaps(a int) int { return s.cells[a] - s.live[a] }

func (s *forkSim) grow(a, n int) {
	s.live[a] += n
	if s.live[a] > s.cells[a] {
		s.cells[a] = s.live[a]
	}
}

func (s *forkSim) ins(t, k int) bool {
	if s.sets[t][k] {
		return false
	}
	s.sets[t][k] = true
	s.grow(t/s.nt, 1)
	return true
}

func (s *forkSim) del(t, k int) bool {
	if !s.sets[t][k] {
		return false
	}
	delete(s.sets[t], k)
	s.live[t/s.nt]--
	return true
}

func (s *forkSim) erase(t int) {
	s.live[t/s.nt] -= len(s.sets[t])
	s.sets[t] = map[int]bool{}
}

func (s *forkSim) clone(src, dst int) bool {
	if src == dst || src/s.nt != dst/s.nt || len(s.sets[dst]) != 0 {
		return false
	}
	for k := range s.sets[src] {
		s.sets[dst][k] = true
	}
	s.grow(src/s.nt, len(s.sets[src]))
	return true
}

func (s *forkSim) fork(a int) int {
	if a < 0 || a >= s.arenas() || s.arenas() >= maxArenas {
		return -1
	}
	for t := a * s.nt; t < (a+1)*s.nt; t++ {
		m := map[int]bool{}
		for k := range s.sets[t] {
			m[k] = true
		}
		s.sets = append(s.sets, m)
	}
	s.live = append(s.live, s.live[a])
	s.cells = append(s.cells, s.cells[a])
	return s.arenas() - 1
}

func (s *forkSim) keys(t int) []int {
	var l []int
	for k := range s.sets[t] {
		l = append(l, k)
	}
	sort.Ints(l)
	return l
}

type forkGen struct {
	r   *rand.Rand
	sim *forkSim
	ops []op
	nv  int
}

func (g *forkGen) add(o op) { g.ops = append(g.ops, o) }

func (g *forkGen) val() int {
	g.nv++
	switch g.nv % 11 {
	case 3:
		return 0
	case 7:
		return negLimit
	}
	return 1000*(g.nv%97) + g.nv%13
}

func (g *forkGen) ins(t, k, r int) bool {
	g.add(op{kind: "ins", t: t, k: k, v: g.val(), r: r})
	return g.sim.ins(t, k)
}

func (g *forkGen) delk(t, k int) bool {
	g.add(op{kind: "delk", t: t, k: k})
	return g.sim.del(t, k)
}

func (g *forkGen) fork(a int) int {
	n := g.sim.fork(a)
	if n >= 0 {
		g.add(op{kind: "fork", t: a})
	}
	return n
}

func (g *forkGen) lookups(t, k, rot, ra, rb int) {
	for j := 0; j < 3; j++ {
		switch (j + rot) % 3 {
		case 0:
			g.add(op{kind: "get", t: t, k: k})
		case 1:
			g.add(op{kind: "fge", t: t, k: k, r: ra})
		case 2:
			g.add(op{kind: "fle", t: t, k: k, r: rb})
		}
	}
}

// the reads on tree t (registers 2 and 3 are the scratch registers; 0 and 1 hold iterators across operations)
func (g *forkGen) readTree(t int, keys []int, rot int, walks bool) {
	for _, k := range keys {
		g.lookups(t, k, rot, 2, 3)
	}
	g.add(op{kind: "len", t: t})
	n := len(g.sim.sets[t])
	g.add(op{kind: "min", t: t, r: 2})
	if walks {
		for j := 0; j < n; j++ {
			g.add(op{kind: "next", r: 2})
		}
	}
	g.add(op{kind: "max", t: t, r: 3})
	if walks {
		for j := 0; j < n; j++ {
			g.add(op{kind: "prev", r: 3})
		}
	}
}

// the trees of the arena of tree t and the twins of t (the same tree in every other arena)
func (g *forkGen) readNear(t int, keys []int, rot int, walks bool) {
	nt := g.sim.nt
	for j := 0; j < nt; j++ {
		g.readTree((t/nt)*nt+(t%nt+j)%nt, keys, rot, walks)
	}
	for a := 0; a < g.sim.arenas(); a++ {
		if a != t/nt {
			g.readTree(a*nt+t%nt, keys, rot, walks)
		}
	}
}

// every tree of every arena, starting with the trees of arena `first`
func (g *forkGen) readAll(first int, keys []int, rot int, walks bool) {
	n := len(g.sim.sets)
	for j := 0; j < n; j++ {
		g.readTree((first*g.sim.nt+j)%n, keys, rot, walks)
	}
}

// n keys that tree t does not hold: the universe first, then keys next to it
func (g *forkGen) freshKeys(t int, uni []int, n int) []int {
	var l []int
	seen := map[int]bool{}
	try := func(k int) {
		if len(l) < n && k >= 0 && k <= negLimit && !seen[k] && !g.sim.sets[t][k] {
			seen[k] = true
			l = append(l, k)
		}
	}
	for _, k := range uni {
		try(k)
	}
	for d := 1; len(l) < n && d < 64; d++ {
		for _, k := range uni {
			try(k + d*7)
			try(k - d*7)
		}
	}
	return l
}

// tree t inserts so many new keys that the free list of its arena is drained even if it holds one spurious
// entry per tree; returns the keys
func (g *forkGen) drain(t int, uni []int) []int {
	a := t / g.sim.nt
	fresh := g.freshKeys(t, uni, g.sim.gaps(a)+g.sim.nt+1)
	for _, q := range fresh {
		g.ins(t, q, -1)
	}
	return fresh
}

func someKeys(fresh, uni []int, n int) []int {
	var keys []int
	seen := map[int]bool{}
	put := func(k int) {
		if len(keys) < n && !seen[k] {
			seen[k] = true
			keys = append(keys, k)
		}
	}
	if len(fresh) > 0 {
		put(fresh[0])
		put(fresh[len(fresh)-1])
	}
	for _, k := range uni {
		put(k)
	}
	return keys
}

var forkSizes = [][]int{nil, nil, {0, 1, 2, 3, 6}, {0, 1, 2, 5}}

func forkCase(r *rand.Rand, nt int, sizes []int, ngaps int) []op {
	g := &forkGen{r: r, sim: newForkSim(nt)}
	uni := shareUniverses[r.Intn(len(shareUniverses))]
	rot := r.Intn(12)
	// 1. prefill (the cells of the trees interleave when the order is shuffled)
	type ik struct{ t, k int }
	var fill []ik
	for t := 0; t < nt; t++ {
		keys := append([]int{}, uni[:sizes[t]]...)
		if rot%3 == 1 {
			sort.Sort(sort.Reverse(sort.IntSlice(keys)))
		}
		if sizes[t] <= 3 && r.Intn(2) == 0 {
			// not always the smallest keys of the universe
			p := r.Perm(len(uni))[:sizes[t]]
			for i := range keys {
				keys[i] = uni[p[i]]
			}
		}
		for _, k := range keys {
			fill = append(fill, ik{t, k})
		}
	}
	if rot%3 == 2 {
		r.Shuffle(len(fill), func(i, j int) { fill[i], fill[j] = fill[j], fill[i] })
	}
	// the genuine gaps: keys that come and go (in the middle of the prefill or after it)
	gt := r.Intn(nt)
	var gk []int
	for d := 1; len(gk) < ngaps && d < 50; d++ {
		k := uni[(d*5)%6] + 3*d
		if k > negLimit {
			k = uni[(d*5)%6] - 3*d - 100
		}
		ok := true
		for _, u := range append(append([]int{}, uni...), gk...) {
			if u == k {
				ok = false
			}
		}
		if ok {
			gk = append(gk, k)
		}
	}
	at := len(fill)
	if r.Intn(2) == 0 {
		at = len(fill) / 2
	}
	for i := 0; i <= len(fill); i++ {
		if i == at {
			for _, k := range gk {
				g.ins(gt, k, -1)
			}
		}
		if i < len(fill) {
			g.ins(fill[i].t, fill[i].k, -1)
		}
	}
	for _, k := range gk {
		g.delk(gt, k)
	}
	// 2. iterators held across the fork (Item() is recorded after every operation)
	g.add(op{kind: "min", t: 0, r: 0})
	g.add(op{kind: "max", t: 1, r: 1})
	hib := r.Intn(4) // 1: the original hibernates before the fork, 2: the fork after it, 3: both
	if hib&1 != 0 {
		g.add(op{kind: "hib", t: 0})
	}
	// 3. fork
	f1 := g.fork(0)
	if hib&2 != 0 {
		g.add(op{kind: "hib", t: f1})
	}
	g.readAll(f1, someKeys(nil, uni, 1), rot, true)
	// iterators into the fork
	g.add(op{kind: "max", t: f1 * nt, r: 0})
	g.add(op{kind: "min", t: f1*nt + nt - 1, r: 1})
	// 4. one side is mutated: a tree drains the free list of its arena; then everything is read on both sides
	side := []int{f1, 0}
	if r.Intn(3) == 0 {
		side = []int{0, f1}
	}
	tt := r.Intn(nt)
	fresh := g.drain(side[0]*nt+tt, uni)
	g.readAll(side[0], someKeys(fresh, uni, 2), rot, true)
	// 5. the other side: a key leaves one tree, another tree drains the free list
	t2 := r.Intn(nt)
	if ks := g.sim.keys(side[1]*nt + t2); len(ks) > 0 {
		k := ks[r.Intn(len(ks))]
		if r.Intn(2) == 0 {
			g.delk(side[1]*nt+t2, k)
		} else {
			g.add(op{kind: "fle", t: side[1]*nt + t2, k: k, r: 2})
			g.add(op{kind: "deli", r: 2})
			g.sim.del(side[1]*nt+t2, k)
		}
	}
	fresh2 := g.drain(side[1]*nt+(t2+1)%nt, uni)
	g.readAll(side[1], someKeys(fresh2, uni, 1), rot+1, true)
	// 6. a second-level fork (of the fork or of the original), used at once; Erase + re-use in its parent
	if r.Intn(2) == 0 {
		p := side[r.Intn(2)]
		f2 := g.fork(p)
		if r.Intn(3) == 0 {
			g.add(op{kind: "hib", t: f2})
		}
		et := p*nt + r.Intn(nt)
		g.add(op{kind: "erase", t: et})
		g.sim.erase(et)
		fresh3 := g.drain(f2*nt+r.Intn(nt), uni)
		g.drain(p*nt+r.Intn(nt), uni)
		g.readAll(f2, someKeys(fresh3, uni, 1), rot+2, true)
	}
	return g.ops
}

func forkDirected(c *Config, draws int) {
	for nt := 2; nt <= 3; nt++ {
		idx := make([]int, nt)
		for {
			sizes := make([]int, nt)
			for i, x := range idx {
				sizes[i] = forkSizes[nt][x]
			}
			for ngaps := 0; ngaps < 3; ngaps++ {
				for d := 0; d < draws; d++ {
					emit(c, fmt.Sprintf("forkex%d", nt), nt, forkCase(c.Rng, nt, sizes, ngaps))
				}
			}
			i := nt - 1
			for i >= 0 {
				idx[i]++
				if idx[i] < len(forkSizes[nt]) {
					break
				}
				idx[i] = 0
				i--
			}
			if i < 0 {
				break
			}
		}
	}
}

func forkRandom(c *Config) (int, []op) {
	r := c.Rng
	nt := 2 + r.Intn(2)
	g := &forkGen{r: r, sim: newForkSim(nt)}
	base := shareUniverses[r.Intn(len(shareUniverses))]
	uni := append([]int{}, base...)
	if r.Intn(3) == 0 {
		for _, k := range []int{base[0] + 7, base[5] - 7} {
			if k >= 0 && k <= negLimit {
				uni = append(uni, k)
			}
		}
	}
	uni = uni[:2+r.Intn(len(uni)-1)]
	n := 4 + r.Intn(13)
	forkP := 3 + r.Intn(8)
	prev := uni[0]
	for i := 0; i < n; i++ {
		t, k := r.Intn(len(g.sim.sets)), uni[r.Intn(len(uni))]
		if r.Intn(3) == 0 {
			g.lookups(t, k, r.Intn(3), 0, 1)
		}
		switch x := r.Intn(22); {
		case x < 8:
			g.ins(t, k, -1)
		case x < 12:
			g.delk(t, k)
		case x < 14:
			g.add(op{kind: "fge", t: t, k: k, r: 1})
			if g.sim.sets[t][k] {
				g.add(op{kind: "deli", r: 1})
				g.sim.del(t, k)
			}
		case x < 15:
			g.add(op{kind: "erase", t: t})
			g.sim.erase(t)
		case x < 16:
			d := (t/nt)*nt + r.Intn(nt)
			if len(g.sim.sets[d]) != 0 && r.Intn(2) == 0 {
				g.add(op{kind: "erase", t: d})
				g.sim.erase(d)
			}
			if g.sim.clone(t, d) {
				g.add(op{kind: "clone", t: t, k: d})
			}
		case x < 19:
			g.drain(t, uni)
		default:
			g.add(op{kind: "hib", t: t / nt})
		}
		keys := []int{k}
		if prev != k && r.Intn(2) == 0 {
			keys = append(keys, prev)
		}
		if r.Intn(6) == 0 {
			g.readAll(r.Intn(g.sim.arenas()), keys[:1], r.Intn(3), true)
		} else {
			g.readNear(t, keys, r.Intn(3), r.Intn(4) == 0)
		}
		prev = k
		if r.Intn(forkP) == 0 && g.sim.arenas() < maxArenas {
			f := g.fork(r.Intn(g.sim.arenas()))
			// the fork is used at once in half of the cases: one of its trees drains the free list
			if r.Intn(2) == 0 {
				g.drain(f*nt+r.Intn(nt), uni)
				g.readAll(f, uni[:2], r.Intn(3), true)
			}
		}
	}
	return nt, g.ops
}

func forkFamilies(c *Config) {
	switch c.Tier {
	case "quick":
		forkDirected(c, 1)
	case "thorough":
		forkDirected(c, 8)
	default:
		forkDirected(c, 1)
	}
	for i := c.Count(150, 4000); i > 0; i-- {
		nt, ops := forkRandom(c)
		emit(c, fmt.Sprintf("forkrnd%d", nt), nt, ops)
	}
}

// scale: a big tree, a ROOT-ONLY tree and an empty tree with genuine gaps on one allocator; fork (the case goes on
// with the fork); the big tree drains the free list; every tree is read, grows and shrinks; a second fork
// (hibernated and booted) in the middle of iterator sweeps
func forkScale(c *Config, n, ord int) []op {
	seed := 1 + c.Rng.Intn(1000000)
	var ops []op
	ops = append(ops, mk("fill", 2, 2, 50, 11, 13, seed+2)) // these 50 cells become the genuine gaps
	ops = append(ops, mk("fill", 0, ord, n, 1, 1, seed))
	ops = append(ops, mk("fill", 1, 0, 1, 0, 1, seed+1)) // the tree of an empty file: {0}
	ops = append(ops, mk("mdel", 2, 1, 50, 11, 13, seed+2))
	ops = append(ops, mk("hold", 0, n/2, 0), mk("hold", 1, 0, 1), mk("hold", 0, n, 2), mk("chk"))
	ops = append(ops, mk("forksw", 0), mk("chk"))
	ops = append(ops, mk("probe", 1, 2, seed+3), mk("probe", 2, 2, seed+4))
	// 300 new keys: the 50 gaps (and whatever else the free list holds) are re-used, then the storage grows
	ops = append(ops, mk("fill", 0, 2, 300, n+1, 1, seed+5))
	for t := 0; t < 3; t++ {
		ops = append(ops, mk("probe", t, 6, seed+6+t), mk("walk", t, 0), mk("walk", t, 1))
	}
	ops = append(ops, mk("chk"))
	// the root-only tree and the empty tree grow, the big one shrinks, in the fork
	ops = append(ops, mk("fill", 1, 0, 120, 1, 2, seed+9), mk("fill", 2, 1, 120, 5, 3, seed+10), mk("mdel", 0, 2, n/3, 1, 3, seed+11))
	ops = append(ops, mk("qkeys", 0, 0, 300, 1, 1, seed), mk("qkeys", 1, 0, 121, 0, 1, seed), mk("probe", 2, 6, seed+12), mk("chk"))
	// back to a root-only tree and an empty tree with many gaps; fork again, hibernated and booted
	ops = append(ops, mk("mdel", 1, 1, 120, 1, 2, seed+9), mk("erase", 2), mk("hold", 1, 0, 3), mk("chk"))
	ops = append(ops, mk("forksw", 1), mk("chk"))
	ops = append(ops, mk("sweep", 0, 0, 3, 1, 0), mk("fill", 2, 2, n/3+400, 7, 5, seed+13), mk("probe", 1, 2, seed+14), mk("walk", 1, 0), mk("walk", 0, 1), mk("chk"))
	ops = append(ops, mk("fill", 1, 2, 64, 3, 9, seed+15), mk("probe", 0, 8, seed+16), mk("probe", 1, 4, seed+17), mk("walk", 2, 0), mk("chk"))
	return ops
}
