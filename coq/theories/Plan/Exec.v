(* The abstract executor of run plans.

   It is the branch bookkeeping of [Pipeline.Run] (internal/core/pipeline.go) with the analysis
   state of a branch abstracted to what the properties C02 / C04 talk about:
     - [inc]  : the commits whose [Consume] the branch has incorporated (directly, through the
                branch it was forked from, or through a merge),
     - [last] : the commit consumed last on this branch.
   [Run] keeps [branches map[int][]PipelineItem]:
     emerge  b          branches[b] = fresh items                       -> Live, nothing incorporated
     commit  c @ b      every item of branches[b] consumes c            -> c added, last := c
     fork    b t1..tk   branches[ti] = clone of branches[b]             -> copy
     merge   b1..bk     items of all participants are merged together   -> every participant gets the union
     delete  b          delete(branches, b)                             -> Disposed
     hibernate / boot   Hibernate() / Boot() on the items of each listed branch -> Live <-> Hibernated
   The executor never fails: like [Run] it does not check anything.  What a *sound* plan is, is said
   by predicates over the states it goes through (CheckerSound.v, Lifecycle.v). *)
From Coq Require Import List ZArith Bool Arith Lia.
From Herc Require Import Plan.Syntax.
Import ListNotations.
Open Scope Z_scope.

Record branch := mkB { inc : list nat; last : option nat }.

Inductive life := Absent | Live (x : branch) | Hibernated (x : branch) | Disposed.

Notation state := (list (Z * life)) (only parsing).

Fixpoint get (s : state) (b : Z) : life :=
  match s with
  | [] => Absent
  | (k, v) :: r => if k =? b then v else get r b
  end.

Definition set (s : state) (b : Z) (v : life) : state := (b, v) :: s.

Definition upd (f : branch -> branch) (l : life) : life :=
  match l with
  | Live x => Live (f x)
  | Hibernated x => Hibernated (f x)
  | Absent => Absent
  | Disposed => Disposed
  end.

Definition data (l : life) : option branch :=
  match l with Live x | Hibernated x => Some x | _ => None end.

Definition inc_of (l : life) : list nat := match data l with Some x => inc x | None => [] end.
Definition last_of (l : life) : option nat := match data l with Some x => last x | None => None end.
Definition last_on (s : state) (b : Z) : option nat := last_of (get s b).

Definition hibernate1 (s : state) (b : Z) : state :=
  match get s b with Live x => set s b (Hibernated x) | _ => s end.
Definition boot1 (s : state) (b : Z) : state :=
  match get s b with Hibernated x => set s b (Live x) | _ => s end.

Definition step (s : state) (a : action) : state :=
  match kind a, items a with
  | KCommit, b :: _ =>
      match commit a with
      | Some c => set s b (upd (fun x => mkB (c :: inc x) (Some c)) (get s b))
      | None => s
      end
  | KEmerge, b :: _ => set s b (Live (mkB [] None))
  | KFork, b :: ts => fold_left (fun s' t => set s' t (get s b)) ts s
  | KMerge, ms =>
      let u := flat_map (fun m => inc_of (get s m)) ms in
      fold_left (fun s' m => set s' m (upd (fun x => mkB u (last x)) (get s m))) ms s
  | KDelete, b :: _ => set s b Disposed
  | KHibernate, bs => fold_left hibernate1 bs s
  | KBoot, bs => fold_left boot1 bs s
  | _, [] => s
  end.

Definition run (s : state) (p : plan) : state := fold_left step p s.

Definition init : state := [].

(* lifecycle vocabulary *)
Definition awake (s : state) (b : Z) : Prop := exists x, get s b = Live x.
Definition hibernated (s : state) (b : Z) : Prop := exists x, get s b = Hibernated x.
Definition surviving (s : state) (b : Z) : Prop := awake s b \/ hibernated s b.

Definition awakeb (s : state) (b : Z) : bool := match get s b with Live _ => true | _ => false end.
Definition hibernatedb (s : state) (b : Z) : bool := match get s b with Hibernated _ => true | _ => false end.
Definition absentb (s : state) (b : Z) : bool := match get s b with Absent => true | _ => false end.
Definition survivingb (s : state) (b : Z) : bool := awakeb s b || hibernatedb s b.
