CONFIG = dict(
        level='proof',
        streams=[dict(harness='c08', driver='c08', shrink_field='ops'), dict(harness='c08run', driver='c08', shrink_field='commits')],
        rule='ITEM-LEVEL (harness c08): three streams on the REAL objects, each case an operation list (Consume on copy i / Fork(n) of copy i) with a snapshot of EVERY '
             'copy after EVERY operation. bd / bdex: leaves.BurndownAnalysis (people tracking on/off, TrackFiles on/off), populated by 1-4 commits, forked 1-3 ways '
             'repeatedly (up to 6 live copies, forks of forks), then real Consume calls with fabricated dependencies (insertions, deletions, '
             'modifications with edit scripts, renames, binary flips, merge-mode commits, time going backwards; 30 % of the cases also carry '
             'irregular input: wrong lengths, double inserts, renames over tracked files, untracked paths) on random copies; bdex = one file of 3 '
             'lines, 3 copies, every sequence of 2 commits out of a 3 copies x 9 changes alphabet, 2 (quick) / 4 (thorough) people x TrackFiles modes. rb / rbex: '
             'rbtree.Allocator.Clone + RBTree.CloneShallow of 1-4 trees, then Insert / DeleteWithKey / Erase / CloneDeep / NewRBTree / further '
             'clones on random sides; rbex = tree {1,2,3}, two sides, every sequence of 3 operations out of 2 sides x 7 operations. pl: '
             'plumbing.TreeDiff, BlobCache, TicksSinceStart (tick 1 h / 24 h / 7 d) forked 1-3 ways on synthetic in-memory repositories (nested '
             'paths, identical blobs under several paths, merge commits, commits that are not children of the previous one, committer time '
             'going backwards, one commit replayed on two copies), different children consumed on different copies in interleaved order, each '
             'output recorded next to the output of a fresh never forked instance fed with the same branch-local commits. '
             'bdh / bdhex: the two other operations Pipeline.Run applies to the items of a branch, Hibernate and Boot, between the forks of a '
             'BurndownAnalysis: in memory and on disk (HibernationToDisk, private temporary directory), thresholds 0 / small / at the arena '
             'size -1, +0, +1 / above it, a Hibernate-Boot cycle of the origin BEFORE the first fork, several copies asleep at overlapping times, '
             'booted in any order, Consume and Fork of the awake copies in between; a hibernated copy is recorded as the CRC and size of its '
             'compressed image (buffers or file), which must not change while other copies are operated on, and after Boot it must report '
             'exactly what it reported before Hibernate; bdhex = one file of 3 lines, origin + 1 clone (thorough: + 2 clones), every VALID sequence of '
             '4 (thorough: 5) operations out of copies x {hib, boot, consume}, x {memory, disk} x {with, without a cycle before the fork}. '
             'bds-*: LARGE cases, tracked files recorded run-length encoded, every copy compared with the model after every operation: one file '
             'of 10^3 / 10^4 (thorough 10^5, 10^6) lines (+7, +1, +3: no multiple of 8/16/64) cut by edits with periods 2^k, 2^k+-1 (17, 63, 64, 65, '
             '255, 1024, 4097) or by blocks walking up / down the file, forked 5 ways (+2), ticks up to 16382 = TreeMergeMark-1, all copies '
             'asleep at the same time with the threshold at the arena size -1/+0/+1; 10^3 (thorough 10^4, 2^16+1) files of 0..16 lines; 100 / 64 '
             '(thorough 1000) copies alive made by forks of arity 5 / 2 (3), all hibernated at once and booted in random order. '
             'PIPELINE-LEVEL (harness c08run, kinds run-*): the real Pipeline.Run on synthetic histories with 1..4 (sometimes 5-6) roots, forks of '
             'arity 2..5 (sometimes 6..9, planlib.WideGraph 7..14), nested forks, octopus and two-parent merges, unmerged heads, long arms '
             '(other branches sleep), committer times backwards / equal, hibernation distance 0..3, DumpPlan / PrintActions, tick 1 h / 24 h / 7 d, '
             'items: TicksSinceStart, TreeDiff, BlobCache inside transparent wrappers, a probe forked BY VALUE that remembers the commits it '
             'consumed, and in half of the runs BurndownAnalysis (+ IdentityDetector, FileDiff) with hibernation threshold 0..1000 in memory / on '
             'disk, people tracking on/off. The wrappers number the instances Fork returns and log every call, so Run is observed as an '
             'operation list (fork i n) (consume i c index) (merge i j..) (hib i) (boot i) over instance numbers with a snapshot of every live '
             'instance after every operation; judged like an item-level case (sibling unchanged, fork copy = origin, answer = private twin fed '
             'with the instance history, Boot restores) plus: the history of the PLAN branch (Emerge: empty, Fork: copy, Commit: append; plan '
             'captured from Run itself) must equal what the consuming instance / its by-value probe has consumed, and the probe must be handed '
             'what the items of its own branch produced. run-dir: r roots x fork arity k x arm length a x distance d (r 1..4, k 0,2..5, a 1..3, d '
             '0..3; quick: a quarter), each with and without burndown. run-scale: 1000 commits / 250 forks of arity 2..5 (thorough 10^4), 150 '
             'commits with burndown on disk (thorough 2000); instances of deleted branches are no longer read, twins sampled. '
             'ROUND 4 (content of values): plt-* = the pl stream in a TIME regime x tick size: commits dated 0 / 1 / -1 / 1989-12-31 up to and beyond '
             'the first fork and every copy jumping to its own sane date afterwards (zero), all dates before 1970 (pre1970; go-git writes negative '
             'stamps as 0, the decoded commit objects are given the intended times), around 0, around 631152000 = the suspicious-timestamp constant '
             'of TicksSinceStart (-1, +0, +1, +-1 day), around 2^31-1 and 2^32-1, after the wall clock (2027, 2037), equal times and steps of +-1 s '
             'around a tick boundary, times decreasing along the history; tick sizes 1 h / 24 h / 7 d and 5 h, 7 h, 25 h, 30 d, and (field ssize, seconds) '
             '1 s, 60 s, 1000 s, 3601 s, 5400 s, 86399 s, 86401 s, with start times that are no multiples of the tick. In EVERY pl / plt / pln / run case '
             'author time differs from committer time (0, +3 d, -400 d, +1 h, -1 s by commit number) and both carry zone offsets (+5:30, -8, +14, -12, '
             '+5:45, +1); file number -> path and blob number -> content are bijections onto adversarial byte strings: pln draws the files from '
             'case variants (p1 / P1, d1/p3 / D1/p3 / d1/P3), trailing / leading / inner white space (ASCII, NBSP, U+2028, U+3000), tab, CR, CRLF, '
             'invalid UTF-8 (0xff, lone 0xc3, overlong, surrogate) next to a REAL U+FFFD, BOM, common prefixes (p, p1, pp1, p10, p100), widths 9/10/11, '
             '99/100/101, 999/1000/1001; blobs: empty, BOM only, white space only, invalid UTF-8 next to U+FFFD, CR / CRLF, NUL, no final newline; '
             'entry kind = function of the blob number (regular / executable / symlink: a new version turns a file into a symlink and back). The '
             'bd* streams use the same kind of name table for the tracked files (f1 / F1 / "f1 " / f\\xff / f\\ufffd / BOM / d/f1 / D/f1 / NUL / ...). '
             'Pipeline level: four runs in ten live in one of the nine time regimes (x tick 5 h / 25 h / 30 d in a third of them; with the burndown item '
             'all but the zero regime), kinds run-t<k>-*; nasty blobs and entry kinds in the runs without burndown, nasty paths in all. '
             'Non-trivial = at least one Fork and at least one later mutation (bd: Consume / Hibernate; rb: Insert/Delete/Erase; pl: two Consume; '
             'run: two roots or a commit with two children); distinct = distinct configuration + operation list (+ commit list).',
        exhaustive_note='bdex: 3 copies x 9 changes, all 729 two-commit sequences x 2 configurations (thorough: 4); rbex: 2 sides x 7 operations, all 2744 three-operation sequences; '
                        'bdhex: 2 copies x {hib, boot, consume}, all valid 4-operation sequences x {memory, disk} x {cycle before the fork or not} (thorough: 5 operations, 3 copies)',
        assumptions=[
            'the split of every item into a private and a shared part (coq/theories/Fork/Model.v, table in docs/C08.md) was made by reading '
            'each Fork method; that the Go Fork really copies the private part is NOT a theorem (heap aliasing is not expressible in Gallina): '
            'it is what the correspondence check observes, copy by copy, after every step',
            'of fileHistories (TrackFiles on) only the set of paths that have a history is modelled (that is what handleRename reads); the '
            'history objects bound to the per-file updaters are shared by design and not modelled; the error and cycle branches of the '
            'rename-chain walk in handleRename are transcribed from the code but were never reached by the generators; a tracked file is '
            'modelled by its flattened line array (that File.Update refines the array operation is C03)',
            'go-git DiffTree on the synthetic repositories is compared with a path-wise tree diff (no renames, no mode changes: C20 covers those)',
            'after an error or panic of Consume the Go object is half-updated: the case stops there; the snapshot of the OTHER copies is still compared',
            'Hibernate / Boot are modelled as the identity on the private and the shared state (that the compressed arena decodes to itself is C09); '
            'a hibernated copy cannot be read, it is taken to be in the state it last reported and checked when it is booted',
            'pipeline-level stream: which commits a branch consists of is read from the plan that Run prints (DumpPlan / PrintActions through the '
            'package sink, hook verifapi/c14.SetPlanPrinter); that the plan is a valid plan is C02/C04, that Run interprets it is C14; the burndown '
            'item inside Run is judged by the implementation-only oracles (no model: its input comes from the real FileDiff); instances of '
            'branches the plan has deleted are read once more at the end only',
        ],
        trusted_base=[
            'hand-written Gallina model coq/theories/Fork/Model.v: generic branch machinery (private/shared split, fork, step_on, run, solo) and '
            'one instance per way of forking found in /repo (BurndownAnalysis.Consume with handleInsertion/Deletion/Modification/Rename on '
            'flattened files, allocator + trees as in-order lists, TreeDiff, BlobCache, TicksSinceStart), tied to the code by the replay of '
            'every harness case',
            'read-only accessors /repo/leaves/verif_c08.go, /repo/internal/plumbing/verif_c08.go, re-exports /repo/verifapi/c08/c08.go (build tag '
            'verif), and the existing internal/rbtree/verif_hooks.go (VerifSnapshot), internal/burndown/verif_hooks.go (VerifFlatten)',
            'harness/synth (synthetic repositories); go-git, diffmatchpatch types are used, not verified',
            'harness/cmd/c08run: the transparent wrappers (delegate every call, number the instances, log), the by-value probe, the plan '
            'interpretation (branch -> commits), the private-twin replay; hooks verifapi/c14.SetPlanPrinter, leaves.VerifC08HibernatedFileName / '
            'VerifC08Allocator (read-only)',
        ],
        level_text='Coq theorems for EVERY item (generic item interface, all fork arities, all operation sequences on any subset of the copies): '
                   'C08_frame (the private state of copy j is unchanged by any run that does not consume on j), C08_fork_copies (each new copy '
                   'starts equal to the origin; existing copies and the shared state untouched), C08_shared_only (what copy j reports afterwards '
                   'is a function of its old private state and the new shared state only; the shared parts are the enumerated records), '
                   'C08_twin (+ instances for TreeDiff, BlobCache, allocator, TicksSinceStart, the chained plumbing pipeline: inside any '
                   'interleaving every copy answers exactly like a private never-forked instance), C08_lineage_twin (the same for copies made by '
                   'forks of forks: every copy is in the state of a fresh instance that consumed its lineage - the harness oracle), C08_burndown_files, '
                   'C08_same_item_shares_everything; all closed under the global context. The aliasing half of the property is carried by '
                   'the correspondence check: every copy of the real objects is compared with its own independent model state after every '
                   'step, and three implementation-only oracles (sibling unchanged, fork copy equals origin, copy = private twin) judge the '
                   'Go outputs directly. Level: proof + correspondence; partial for the aliasing clause.',
        level_note='PARTIAL by nature: the model is isolated by construction (one value per copy), so the theorems make the private/shared '
                   'enumeration explicit and checked but cannot show that the Go Fork methods copy what the model calls private; that is '
                   'established only for the generated scenarios (exhaustive small scopes + seeded random), by snapshotting every copy after '
                   'every operation. Modelled rather than verified: reflect-based ForkCopyPipelineItem, Allocator.Clone, CloneShallow/CloneDeep, '
                   'go-git, diffmatchpatch. Not modelled: the content of fileHistories, the compressed form of a hibernated arena (C09; Hibernate / Boot '
                   'are the identity here), Merge (C07; in the pipeline-level stream the participants of a Merge may change, nobody else). '
                   'Observations recorded in docs/C08.md: BlobCache.Fork does not copy the logger (a forked BlobCache panics with a nil '
                   'dereference where the original logs an error); whether BlobCache.Fork copies or shares the cache MAP is unobservable '
                   '(Consume replaces the map, never writes to it); BurndownAnalysis.mergedFiles is shared by pointer after Fork but every '
                   'write is preceded by a replacement, so it behaves as private.',
        technique='machine-checked proof in Coq of frame / fork / shared-only / private-twin theorems over a generic item interface with one '
                  'Gallina instance per built-in way of forking + correspondence replay of every copy after every step with extracted models '
                  'and implementation-only isolation oracles',
    )
