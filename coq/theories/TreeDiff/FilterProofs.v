(* hercules's own logic in TreeDiff.Consume: the parent check, the first-commit listing and
   filterDiffs.  Main result: filtering a correct tree difference with [filter_diffs] gives a correct
   difference of the restricted trees, PROVIDED the language verdict of no path flips between the two
   trees ([flip_free]); without that proviso the statement is false ([language_flip_refuted]). *)
From Coq Require Import List NArith Bool Lia.
From Herc Require Import TreeDiff.Model TreeDiff.ChangesProofs.
Import ListNotations.
Open Scope N_scope.

(* ---------- the parent check ---------- *)

Lemma existsb_eqb_In : forall x l, existsb (N.eqb x) l = true <-> In x l.
Proof.
  intros x l. rewrite existsb_exists. split.
  - intros [y [Hy E]]. apply N.eqb_eq in E. subst. exact Hy.
  - intro H. exists x. split. exact H. apply N.eqb_refl.
Qed.

Lemma parent_ok_spec : forall s c,
  parent_ok s c = true <-> (In (td_commit s) (cm_parents c) \/ td_commit s = 0).
Proof.
  intros s c. unfold parent_ok. rewrite orb_true_iff, existsb_eqb_In, N.eqb_eq. tauto.
Qed.

Theorem parent_refusal : forall f s c dt,
  td_commit s <> 0 -> ~ In (td_commit s) (cm_parents c) ->
  td_consume f s c dt = Err EParent.
Proof.
  intros f s c dt H0 HN. unfold td_consume.
  destruct (parent_ok s c) eqn:E.
  - apply parent_ok_spec in E. tauto.
  - reflexivity.
Qed.

Theorem parent_refusal_only : forall f s c dt,
  td_consume f s c dt = Err EParent ->
  td_commit s <> 0 /\ ~ In (td_commit s) (cm_parents c).
Proof.
  intros f s c dt H. unfold td_consume in H.
  destruct (parent_ok s c) eqn:E; simpl in H.
  - exfalso. destruct (td_tree s).
    + discriminate.
    + unfold first_listing in H. destruct (forallb _ (cm_tree c)); discriminate.
  - split; intro HH; assert (parent_ok s c = true) by (apply parent_ok_spec; tauto); congruence.
Qed.

(* a successful Consume always moves the branch memory to the consumed commit *)
Lemma td_consume_state : forall f s c dt s' cs,
  td_consume f s c dt = Ok (s', cs) -> s' = mkTD (Some (cm_tree c)) (cm_hash c) /\ parent_ok s c = true.
Proof.
  intros f s c dt s' cs H. unfold td_consume in H.
  destruct (parent_ok s c); simpl in H; try discriminate.
  destruct (td_tree s).
  - inversion H; auto.
  - destruct (first_listing f (cm_tree c)); try discriminate. inversion H; auto.
Qed.

(* ---------- keep versus passes ---------- *)

Lemma prefixb_nil_r : forall d p, prefixb d [] = true -> prefixb d p = true.
Proof. intros d p H. destruct d; simpl in *. reflexivity. discriminate. Qed.

Lemma prefix_or_nil : forall d p, prefixb d p || prefixb d [] = prefixb d p.
Proof.
  intros d p. destruct (prefixb d []) eqn:E.
  - rewrite (prefixb_nil_r d p E). reflexivity.
  - apply orb_false_r.
Qed.

Lemma existsb_ext' : forall {A} (g h : A -> bool) l, (forall x, g x = h x) -> existsb g l = existsb h l.
Proof. intros A g h l H. induction l; simpl; congruence. Qed.

Lemma name_hit_nonempty : forall f p, p <> [] -> name_hit f p = f_name f p.
Proof. intros f p H. unfold name_hit. destruct p; simpl; congruence. Qed.

Lemma keep_ins : forall f y, e_path y <> [] -> f_vendor f [] = false -> keep f (ins y) = passes f y.
Proof.
  intros f y HN HV. unfold keep, passes, ins. simpl.
  rewrite HV, orb_false_r.
  rewrite (existsb_ext' (fun d => prefixb d (e_path y) || prefixb d []) (fun d => prefixb d (e_path y)))
    by (intro d; apply prefix_or_nil).
  rewrite (name_hit_nonempty f _ HN).
  destruct (negb (nilb (f_skip f)) && f_vendor f (e_path y)); simpl; [reflexivity|].
  destruct (existsb (fun d => prefixb d (e_path y)) (f_skip f)); simpl; [reflexivity|].
  destruct (f_name_set f); simpl; [|reflexivity].
  destruct (f_name f (e_path y)); simpl; reflexivity.
Qed.

Lemma keep_del : forall f x, e_path x <> [] -> f_vendor f [] = false -> keep f (del x) = passes f x.
Proof.
  intros f x HN HV. unfold keep, passes, del. simpl.
  rewrite HV, orb_false_l.
  rewrite (existsb_ext' (fun d => prefixb d [] || prefixb d (e_path x)) (fun d => prefixb d (e_path x)))
    by (intro d; rewrite orb_comm; apply prefix_or_nil).
  rewrite (name_hit_nonempty f _ HN).
  destruct (negb (nilb (f_skip f)) && f_vendor f (e_path x)); simpl; [reflexivity|].
  destruct (existsb (fun d => prefixb d (e_path x)) (f_skip f)); simpl; [reflexivity|].
  destruct (f_name_set f); simpl; [|reflexivity].
  destruct (f_name f (e_path x)); simpl; reflexivity.
Qed.

Lemma keep_mod : forall f x y, e_path x = e_path y -> e_path y <> [] ->
  keep f (mkC (Some x) (Some y)) = passes f y.
Proof.
  intros f x y HP HN. unfold keep, passes. simpl. rewrite HP.
  rewrite orb_diag.
  rewrite (existsb_ext' (fun d => prefixb d (e_path y) || prefixb d (e_path y)) (fun d => prefixb d (e_path y)))
    by (intro d; apply orb_diag).
  rewrite (name_hit_nonempty f _ HN).
  destruct (negb (nilb (f_skip f)) && f_vendor f (e_path y)); simpl; [reflexivity|].
  destruct (existsb (fun d => prefixb d (e_path y)) (f_skip f)); simpl; [reflexivity|].
  destruct (f_name_set f); simpl; [|reflexivity].
  destruct (f_name f (e_path y)); simpl; reflexivity.
Qed.

Lemma passes_same_path : forall f x y, e_path x = e_path y ->
  check_language f (e_path x) (e_hash x) = check_language f (e_path y) (e_hash y) ->
  passes f x = passes f y.
Proof. intros f x y HP HL. unfold passes. rewrite HL, HP. reflexivity. Qed.

Lemma passes_all_pass : forall e, passes all_pass e = true.
Proof. intro e. reflexivity. Qed.

Lemma rlookup_all_pass : forall p t, rlookup all_pass p t = lookup p t.
Proof. intros p t. unfold rlookup. destruct (lookup p t); reflexivity. Qed.

Lemma flip_free_spec : forall f prev cur x y,
  flip_free f prev cur = true -> In x prev -> lookup (e_path x) cur = Some y ->
  check_language f (e_path x) (e_hash x) = check_language f (e_path y) (e_hash y).
Proof.
  intros f prev cur x y H HI HL. unfold flip_free in H. rewrite forallb_forall in H.
  specialize (H x HI). rewrite HL in H. apply eqb_prop in H. exact H.
Qed.

(* ---------- filtering commutes with the difference ---------- *)

(* what the restricted difference of a path is, in terms of the unrestricted one *)
Lemma expected_filtered : forall f prev cur p c,
  tree_wfb prev = true -> tree_wfb cur = true -> f_vendor f [] = false ->
  flip_free f prev cur = true ->
  expected f prev cur p = Some c ->
  expected all_pass prev cur p = Some c /\ keep f c = true.
Proof.
  intros f prev cur p c WP WC HV FF HE.
  unfold expected in *. rewrite !rlookup_all_pass. unfold rlookup in HE.
  destruct (lookup p prev) as [x|] eqn:LP; destruct (lookup p cur) as [y|] eqn:LC.
  - pose proof (lookup_some _ _ _ LP) as [IX PX]. pose proof (lookup_some _ _ _ LC) as [IY PY].
    assert (HL : check_language f (e_path x) (e_hash x) = check_language f (e_path y) (e_hash y)).
    { eapply flip_free_spec; eauto. rewrite PX. exact LC. }
    assert (HPs : passes f x = passes f y) by (apply passes_same_path; congruence).
    rewrite HPs in HE. destruct (passes f y) eqn:PY'; try discriminate.
    destruct (entry_eqb x y); try discriminate. inversion HE; subst c. split. reflexivity.
    rewrite keep_mod. exact PY'. congruence. exact (tree_wfb_nonempty cur y WC IY).
  - pose proof (lookup_some _ _ _ LP) as [IX PX].
    destruct (passes f x) eqn:PX'; try discriminate. inversion HE; subst c. split. reflexivity.
    rewrite keep_del; auto. exact (tree_wfb_nonempty prev x WP IX).
  - pose proof (lookup_some _ _ _ LC) as [IY PY].
    destruct (passes f y) eqn:PY'; try discriminate. inversion HE; subst c. split. reflexivity.
    rewrite keep_ins; auto. exact (tree_wfb_nonempty cur y WC IY).
  - discriminate.
Qed.

Lemma expected_kept : forall f prev cur p c,
  tree_wfb prev = true -> tree_wfb cur = true -> f_vendor f [] = false ->
  flip_free f prev cur = true ->
  expected all_pass prev cur p = Some c -> keep f c = true ->
  expected f prev cur p = Some c.
Proof.
  intros f prev cur p c WP WC HV FF HE HK.
  unfold expected in *. rewrite !rlookup_all_pass in HE. unfold rlookup.
  destruct (lookup p prev) as [x|] eqn:LP; destruct (lookup p cur) as [y|] eqn:LC.
  - pose proof (lookup_some _ _ _ LP) as [IX PX]. pose proof (lookup_some _ _ _ LC) as [IY PY].
    assert (HL : check_language f (e_path x) (e_hash x) = check_language f (e_path y) (e_hash y)).
    { eapply flip_free_spec; eauto. rewrite PX. exact LC. }
    assert (HPs : passes f x = passes f y) by (apply passes_same_path; congruence).
    destruct (entry_eqb x y) eqn:EQ; try discriminate. inversion HE; subst c.
    rewrite keep_mod in HK; [| congruence | exact (tree_wfb_nonempty cur y WC IY)].
    rewrite HPs, HK, EQ. reflexivity.
  - pose proof (lookup_some _ _ _ LP) as [IX PX]. inversion HE; subst c.
    rewrite keep_del in HK; auto; [| exact (tree_wfb_nonempty prev x WP IX)]. rewrite HK. reflexivity.
  - pose proof (lookup_some _ _ _ LC) as [IY PY]. inversion HE; subst c.
    rewrite keep_ins in HK; auto; [| exact (tree_wfb_nonempty cur y WC IY)]. rewrite HK. reflexivity.
  - discriminate.
Qed.

Lemma NoDup_map_filter : forall {A B} (g : A -> B) (q : A -> bool) l,
  NoDup (map g l) -> NoDup (map g (filter q l)).
Proof.
  induction l as [|x l IH]; simpl; intro H.
  - constructor.
  - inversion H; subst. destruct (q x); simpl.
    + constructor; auto. intro HI. apply H2. apply in_map_iff in HI. destruct HI as [y [E HI]].
      apply filter_In in HI. destruct HI as [HI _]. rewrite <- E. apply in_map. exact HI.
    + auto.
Qed.

Theorem filter_commutes : forall f prev cur dt,
  tree_wfb prev = true -> tree_wfb cur = true -> f_vendor f [] = false ->
  flip_free f prev cur = true ->
  changes_ok all_pass prev cur dt = true ->
  changes_ok f prev cur (filter_diffs f dt) = true.
Proof.
  intros f prev cur dt WP WC HV FF H. unfold changes_ok in H.
  apply andb_true_iff in H. destruct H as [H H3]. apply andb_true_iff in H. destruct H as [H1 H2].
  apply nodup_paths_NoDup in H1. rewrite forallb_forall in H2. rewrite forallb_forall in H3.
  assert (HE : forall c, In c dt -> expected all_pass prev cur (cpath c) = Some c).
  { intros c Hc. specialize (H2 c Hc). destruct (expected all_pass prev cur (cpath c)) as [c'|]; try discriminate.
    apply change_eqb_eq in H2. congruence. }
  unfold changes_ok, filter_diffs. apply andb_true_iff. split; [apply andb_true_iff; split|].
  - apply nodup_paths_NoDup. apply NoDup_map_filter. exact H1.
  - apply forallb_forall. intros c Hc. apply filter_In in Hc. destruct Hc as [Hc HK].
    rewrite (expected_kept f prev cur (cpath c) c WP WC HV FF (HE c Hc) HK).
    apply change_eqb_eq. reflexivity.
  - apply forallb_forall. intros e He.
    destruct (expected f prev cur (e_path e)) as [c'|] eqn:EX; [|reflexivity].
    destruct (expected_filtered f prev cur (e_path e) c' WP WC HV FF EX) as [E0 HK].
    specialize (H3 e He). rewrite E0 in H3. rewrite existsb_exists in H3. destruct H3 as [c [Hc Hcp]].
    apply path_eqb_eq in Hcp. pose proof (HE c Hc) as HEc. rewrite Hcp in HEc.
    assert (c = c') by congruence. subst c'.
    apply existsb_exists. exists c. split.
    + apply filter_In. split; assumption.
    + apply path_eqb_eq. exact Hcp.
Qed.

(* Consume on a branch that has a previous tree *)
Theorem consume_diff_apply : forall f s c dt prev s' cs,
  td_tree s = Some prev ->
  tree_wfb prev = true -> tree_wfb (cm_tree c) = true -> f_vendor f [] = false ->
  flip_free f prev (cm_tree c) = true ->
  changes_ok all_pass prev (cm_tree c) dt = true ->
  td_consume f s c dt = Ok (s', cs) ->
  changes_ok f prev (cm_tree c) cs = true /\
  exists m, apply_all cs (fs_of (restrict f prev)) = Some m /\
            forall p, m p = fs_of (restrict f (cm_tree c)) p.
Proof.
  intros f s c dt prev s' cs HT WP WC HV FF HD H.
  unfold td_consume in H. destruct (parent_ok s c); simpl in H; try discriminate.
  rewrite HT in H. inversion H; subst.
  assert (HO : changes_ok f prev (cm_tree c) (filter_diffs f dt) = true) by (apply filter_commutes; assumption).
  split. exact HO. apply changes_ok_apply; assumption.
Qed.

(* ---------- the first commit of a branch ---------- *)

Lemma filter_keep_ins : forall f l, f_vendor f [] = false -> (forall e, In e l -> e_path e <> []) ->
  filter (keep f) (map ins l) = map ins (filter (passes f) l).
Proof.
  induction l as [|e l IH]; intros HV HN; simpl.
  - reflexivity.
  - rewrite keep_ins by (auto; apply HN; left; reflexivity).
    destruct (passes f e); simpl; rewrite IH; auto; intros e' He'; apply HN; right; exact He'.
Qed.

Lemma filter_passes_lang : forall f l,
  filter (passes f) (filter (fun e => is_file e && check_language f (e_path e) (e_hash e)) l)
  = filter (passes f) (filter is_file l).
Proof.
  induction l as [|e l IH]; simpl.
  - reflexivity.
  - destruct (is_file e); simpl.
    + destruct (check_language f (e_path e) (e_hash e)) eqn:CL; simpl.
      * rewrite IH. reflexivity.
      * assert (passes f e = false) by (unfold passes; rewrite CL; apply andb_false_r).
        rewrite H. exact IH.
    + exact IH.
Qed.

Theorem first_commit : forall f s c dt,
  td_tree s = None -> parent_ok s c = true ->
  (forall e, In e (cm_tree c) -> is_submodule e = false -> f_has_blob f (e_hash e) = true) ->
  tree_wfb (cm_tree c) = true -> f_vendor f [] = false ->
  td_consume f s c dt =
    Ok (mkTD (Some (cm_tree c)) (cm_hash c), map ins (restrict f (filter is_file (cm_tree c)))).
Proof.
  intros f s c dt HT HP HB WF HV. unfold td_consume. rewrite HP, HT. simpl.
  unfold first_listing.
  assert (HA : forallb (fun e => is_submodule e || f_has_blob f (e_hash e)) (cm_tree c) = true).
  { apply forallb_forall. intros e He. destruct (is_submodule e) eqn:ES; simpl. reflexivity. apply HB; assumption. }
  rewrite HA. unfold filter_diffs, restrict.
  rewrite filter_keep_ins.
  - rewrite filter_passes_lang. reflexivity.
  - exact HV.
  - intros e He. apply filter_In in He. destruct He as [He _]. eapply tree_wfb_nonempty; eauto.
Qed.

(* a missing blob of a file makes the first Consume fail without touching the branch memory *)
Theorem first_commit_missing_blob : forall f s c dt e,
  td_tree s = None -> In e (cm_tree c) -> is_submodule e = false -> f_has_blob f (e_hash e) = false ->
  exists k, td_consume f s c dt = Err k.
Proof.
  intros f s c dt e HT HI HS HB. unfold td_consume.
  destruct (parent_ok s c); simpl; [|eauto]. rewrite HT. unfold first_listing.
  assert (HA : forallb (fun e => is_submodule e || f_has_blob f (e_hash e)) (cm_tree c) = false).
  { destruct (forallb _ (cm_tree c)) eqn:E; auto. rewrite forallb_forall in E. specialize (E e HI).
    rewrite HS, HB in E. discriminate. }
  rewrite HA. eauto.
Qed.

Lemma wf_filter : forall q t, tree_wfb t = true -> tree_wfb (filter q t) = true.
Proof.
  intros q t H. unfold tree_wfb in *. apply andb_true_iff in H. destruct H as [H1 H2].
  apply andb_true_iff. split.
  - apply nodup_paths_NoDup. apply NoDup_map_filter. apply nodup_paths_NoDup. exact H1.
  - apply forallb_forall. intros e He. apply filter_In in He. destruct He as [He _].
    rewrite forallb_forall in H2. apply H2. exact He.
Qed.

(* the listing of all passing entries of a tree is the valid difference from the empty tree *)
Lemma listing_changes_ok : forall f t, tree_wfb t = true ->
  changes_ok f [] t (map ins (restrict f t)) = true.
Proof.
  intros f t WF. pose proof (tree_wfb_NoDup t WF) as ND.
  unfold changes_ok. apply andb_true_iff. split; [apply andb_true_iff; split|].
  - apply nodup_paths_NoDup. rewrite map_map. simpl.
    replace (map (fun x => cpath (ins x)) (restrict f t)) with (map e_path (restrict f t))
      by (apply map_ext; reflexivity).
    apply NoDup_map_filter. exact ND.
  - apply forallb_forall. intros c Hc. apply in_map_iff in Hc. destruct Hc as [y [E Hy]]. subst c.
    apply filter_In in Hy. destruct Hy as [Hy HPy].
    unfold expected. simpl. unfold cpath. simpl. unfold rlookup at 1. simpl.
    unfold rlookup. rewrite (lookup_in_unique t y ND Hy). rewrite HPy.
    apply change_eqb_eq. reflexivity.
  - apply forallb_forall. intros e He. simpl in He.
    unfold expected. unfold rlookup at 1. simpl. unfold rlookup.
    rewrite (lookup_in_unique t e ND He).
    destruct (passes f e) eqn:PE; [|reflexivity].
    apply existsb_exists. exists (ins e). split.
    + apply in_map. apply filter_In. split; assumption.
    + apply path_eqb_refl.
Qed.

Theorem first_commit_apply : forall f t, tree_wfb t = true ->
  exists m, apply_all (map ins (restrict f t)) (fun _ => None) = Some m /\
            forall p, m p = fs_of (restrict f t) p.
Proof.
  intros f t WF.
  destruct (changes_ok_apply f [] t (map ins (restrict f t))) as [m [HA HP]]; auto.
  - apply listing_changes_ok. exact WF.
  - exists m. split; assumption.
Qed.

(* ---------- the open defect: a language verdict that flips across a modification ---------- *)

Definition flip_cfg : fcfg :=
  mkF [] (fun _ => false) false (fun _ => true) false (fun _ h => h =? 1) (fun _ => true).
Definition flip_x : entry := mkE [114; 117; 110] 1 33261.   (* "run", blob 1: passes the language filter *)
Definition flip_y : entry := mkE [114; 117; 110] 2 33261.   (* "run", blob 2: does not *)
Definition flip_commit (h p : N) (e : entry) : commit := mkCommit h [p] [e].

(* the modification is dropped: the file stays in the downstream file set although the restricted
   current tree does not contain it *)
Theorem language_flip_refuted :
  exists f prev c dt s,
    td_tree s = Some prev /\ tree_wfb prev = true /\ tree_wfb (cm_tree c) = true /\
    f_vendor f [] = false /\ changes_ok all_pass prev (cm_tree c) dt = true /\
    exists s' cs, td_consume f s c dt = Ok (s', cs) /\
      ~ (exists m, apply_all cs (fs_of (restrict f prev)) = Some m /\
                   forall p, m p = fs_of (restrict f (cm_tree c)) p).
Proof.
  exists flip_cfg, [flip_x], (flip_commit 20 10 flip_y), [mkC (Some flip_x) (Some flip_y)], (mkTD (Some [flip_x]) 10).
  repeat split; try reflexivity.
  eexists. eexists. split. reflexivity.
  intros [m [HA HP]]. vm_compute in HA. inversion HA; subst m. clear HA.
  specialize (HP [114; 117; 110]). vm_compute in HP. discriminate.
Qed.

(* the other direction: a modification is reported whose old side was never part of the restricted file
   set, so that it cannot be applied *)
Theorem language_flip_refuted_spurious :
  exists f prev c dt s,
    td_tree s = Some prev /\ tree_wfb prev = true /\ tree_wfb (cm_tree c) = true /\
    f_vendor f [] = false /\ changes_ok all_pass prev (cm_tree c) dt = true /\
    exists s' cs, td_consume f s c dt = Ok (s', cs) /\
      apply_all cs (fs_of (restrict f prev)) = None.
Proof.
  exists flip_cfg, [flip_y], (flip_commit 20 10 flip_x), [mkC (Some flip_y) (Some flip_x)], (mkTD (Some [flip_y]) 10).
  repeat split; try reflexivity.
  eexists. eexists. split; reflexivity.
Qed.

(* and the validator rejects both outputs, which is how the check reports them *)
Lemma language_flip_detected :
  changes_ok flip_cfg [flip_x] [flip_y] (filter_diffs flip_cfg [mkC (Some flip_x) (Some flip_y)]) = false /\
  changes_ok flip_cfg [flip_y] [flip_x] (filter_diffs flip_cfg [mkC (Some flip_y) (Some flip_x)]) = false /\
  flip_free flip_cfg [flip_x] [flip_y] = false.
Proof. repeat split; reflexivity. Qed.
