CONFIG = dict(
        level='proof',
        streams=[dict(harness='c09', driver='c09', timeout=3600)],
        search_scale=0.5,
        search_seconds=200,
        rule='the real Pipeline.Run with leaves.BurndownAnalysis (files and people tracked) on synthetic conflict-free histories of 2-14 commits with '
             'forks, 2- and 3-way merges and merge commits that add lines (harness/synth GenHist, closed to one head): one run without hibernation, then '
             'Pipeline.HibernationDistance 1..6 x Burndown.HibernationThreshold {0, 1, an arena size met at a Hibernate call, that size + 1, the largest '
             'size met, 2^30} x in memory / on disk (sweep); faults (dirfault: hibernation directory that does not exist, whose parent is a regular '
             'file, chmod 0555; tamper: an extra pipeline item deployed in the same pipeline removes every *-hercules.bin file or truncates it to 0, 1, '
             'a quarter, half, size-9, -4, -2, -1 or the same size when its Consume is called while some branch sleeps on disk, at the first such moment or after skipping '
             'up to 3); octo / octotamper: harness/synth.GenOctopusHib histories (1-2 octopus merges of 4..7 parents - every third history 3..k -, arms of '
             'different lengths, a chain after the merge, 1-2 roots, single head) x distance 1..4 x threshold {0, 1, an arena size met} x memory/disk '
             'plus 4 tamper runs: an octopus of at least distance+3 parents makes ONE boot action cover several sleeping branches.  Three quarters of the runs deploy a delegating wrapper around the real BurndownAnalysis that records every Hibernate/Boot '
             'call (arena size before/after, temp-file name and length, error), the rest runs the bare item.  Every case records the digest of the '
             'complete canonical result text (all matrices, ownership, people dictionary) or the error/panic, the plan Run executed (its own '
             'prepareRunPlan call, read through the plan printer), the directory listing before every plan step and after Run. '
             'Streams added after the seeded changes C09-s3 / C09-s4 were missed.  ONE damaged file per run: bootvictim (octopus histories of 4..6 parents, '
             'distance <= parents-3; right before a boot action that covers >= 2 branches - OnProgress, the plan is known from the dump - the temp file of '
             'the first / middle / last branch IN BOOT ORDER is removed or truncated to 0, size-1, half; wrapper on), octovictim (same histories; the tamper '
             'item damages the first / middle / last file in directory order once >= 2 temp files exist), victim (GenHist histories, one victim file), '
             'longvictim.  long: commit graphs of 30..135 commits (plans of about 100, > 100 and > 200 steps: Run calls FreeOSMemory every 100 steps) x '
             'distance {1, 2..3, 4..8} x memory/disk with Burndown.TrackFiles off, Burndown.People off and no Burndown.HibernationDirectory (TMPDIR points '
             'to a fresh directory) varied.  scale: parametric histories (harness/cmd/c09/scale.go: F files of L lines, every P-th line rewritten by another '
             'author / in another tick so that the intervals cannot fuse, K arms, optional deletions that leave gaps in the allocator, octopus when K >= 4) '
             'with 10^2 .. 4*10^4 line intervals in the quick tier and up to 10^6 in the thorough tier; arena lengths tuned to c-1, c, c+1 for c = 128, 16512 '
             '(widths of the variable-width integers of the file format; thorough also 65536) and temp files tuned closely below and above 256 KiB (thorough also 64 KiB, 1 MiB; '
             'largest 6.7 MB); each runs distance 1 on disk (wrapper: full correspondence while the file is below 3 MB), distance 2 on disk (bare item), distance 2 with threshold '
             '= arena length, distance 1 in memory and threshold = arena length + 1, compared with the run without hibernation.  The trace records the parameters of a scale history, not its lines.  '
             'The harness runs as supervisor + child: when the child dies during a run with hibernation (a panic in a goroutine of Allocator.Hibernate / Boot cannot be recovered) the trace holds that input '
             'with outcome (panic crash), a property failure.  '
             'Streams added after the round-3 seeded changes C09-s5 / C09-s6 were missed (harness/cmd/c09/wipe.go).  View histories: conflict-free line histories in which a path without an alive line is ABSENT from the tree '
             '(files are deleted), a line may carry a NUL byte (the file is binary while it is alive: text <-> binary flips) and a line may have several killers; concurrent commits never touch the same file, so the result '
             'does not depend on the planner (checked: four runs without hibernation agree).  wipe / wipevictim: a fork point removes EVERY tracked file of the branch (all files deleted; all text files deleted, only binary '
             'files left; every text file flipped to binary; a mixture) or an arm removes its own file again, while the arena is not empty; fans of 2..4 arms of 1..4 commits on own text / binary files, sub-forks inside an arm, '
             'merge, tail, 1-2 such sections; the branch that tracks nothing idles, is hibernated and is used again by an insertion, a binary-only commit followed by a fork / another hibernation, or a merge; x distance 1..4 x '
             'threshold {0, 1, an arena size met, 2^30} x memory/disk (+ 2 one-victim tamper runs).  truncall: for 3 (thorough 40) small histories (view and GenHist) the temp file of ONE hibernated branch - identified by '
             'the digest of its bytes, chosen among the files that all of four probing runs write, those with free nodes in the arena first - is truncated to EVERY length 0 .. size-1, one complete run each (files of 75..260 '
             'bytes, thorough up to 2500).  rerun: the SAME BurndownAnalysis instance (every third case the same Pipeline object too) goes through Initialize + Run twice: a prior run with hibernation that succeeds or FAILS '
             '(temp file removed / truncated, missing directory; its temp files left in place or tidied away), on the same history, a parent-closed prefix of it or another history, then the run of the case under other '
             'hibernation settings in a fresh directory, judged like every other run (twin: a fresh instance without hibernation; for a re-used Pipeline the same two runs without hibernation).  When two successful runs '
             'differ and followed different base plans the harness looks for a run without hibernation on the SAME base plan (obs baseretry).  '
             'Streams added after the round-4 seeded changes C09-s7 / C09-s8 were missed (harness/cmd/c09/picked.go).  picked (hibernation distance x octopus merge x one change present on several parents): view '
             'histories whose lines may be inserted independently by several commits (also: a cherry-pick); an octopus of 3..5 arms of 1-2 commits, every arm on a file of its own, and per base file ONE shared change - '
             'the same lines deleted, the whole file deleted, the very same lines inserted, or the content replaced - made on one arm, on all arms but one (half of the draws), on some or on all arms, so that at the replay '
             'of the merge commit the file differs on some parents only; merge (may add lines), a tail that edits every file again; x distance 1..3 (a distance <= arms-2 puts a branch to sleep BETWEEN its replay of the '
             'merge commit and the merge action; driver counter picked_branch_sleeps_between_merge_replay_and_merge) x threshold {0, 1} x memory/disk, with TicksSinceStart.TickSize drawn from {24, 1, 5, 7, 168, 720} hours per '
             'history (commit times are not multiples of the tick; the baseline uses the same value); histories whose result without hibernation is not the same in 30 runs are not used.  oddir (byte content of a '
             'configured string): Burndown.HibernationDirectory names an existing, empty, writable directory whose name is one of 53 odd names - trailing / leading blank, tab, LF, CRLF, CR, NBSP, U+3000, U+2028, U+2029, '
             'U+0085, U+2009, U+202F, a single blank, BOM in front / behind / alone, invalid UTF-8 (\\xff, lone \\xc3, overlong, surrogate) next to a real U+FFFD, NFC / NFD, upper / mixed case, dotless-i, inner blanks, '
             'trailing dots, leading dashes, backslash, ~, $HOME, %20, %s, quotes, ;, #, &, trailing slash, /., //, nested, sub/../plain, 200 characters; every second case creates next to it the directories that a '
             'normalisation of the name would lead to (TrimSpace, Trim of BOM, ToLower / ToUpper, ToValidUTF8, Fields-join, NFC <-> NFD, ...) and the harness counts the files that ever appear in them or in the parent '
             '(obs stray: a property failure); every fifth case passes the odd directory as TMPDIR with no directory configured.  No fault is injected: the run is judged like every other run (result of the run without '
             'hibernation, nothing left).  '
             'Non-trivial = the executed plan contains a Hibernate action; distinct = distinct (history, granularity, sampling, distance, threshold, disk, '
             'wrapper, fault, options, tick size, directory name).',
        exhaustive_note='',
        assumptions=[
            'C06 (allocator): Boot(Hibernate(a)) = a for a non-empty arena at or above the threshold (Section hypothesis boot_hibernate, discharged by '
            'C06_boot_hibernate), Deserialize(Serialize(h)) = h (file_roundtrip: C06_file_roundtrip / C06_disk_roundtrip) and Deserialize of every PROPER '
            'PREFIX of the file fails (truncation_detected: C06_truncated).  Only truncation to a proper prefix is detected; overwriting bytes or '
            'appending is not a truncation and the format has no checksum.  Discharged inside Coq for the allocator-backed item alloc_ops built from C06\'s '
            'hibernate / boot / serialize / deserialize (C09_item_assumptions_composed, docs/COMPOSITION.md); LZ4 stays a hypothesis (lz4_ok, lz4_small).',
            'C04 (planner): the plan Run executes satisfies the branch lifecycle predicate lifecycle_ok_h (C04_hib proves it of insertHibernateBoot); '
            'the predicate is also evaluated on every executed plan of the replay.  Proved in Coq from C04_hib through the plan translation fwd_plan '
            '(C09_lifecycle_composed, C09_erasure_composed, C09_faults_composed).',
            'ioutil.TempFile never returns a name twice during a run nor the name of a file that exists (hypotheses on io_name); the adversary '
            'removes or truncates files but does not create or overwrite them.',
            'The analysis item is abstract in the theorems (any Consume/Fork/Merge/Finalize, any state): what is assumed of BurndownAnalysis is that '
            'its behaviour is a function of its awake state and that Hibernate/Boot touch the allocator and the temp file only (C01/C08 territory; '
            'checked end to end by the result comparison of the replay).',
            'prepareRunPlan is not deterministic across calls (map iteration in the planner): the run with hibernation and the run without may '
            'follow different base plans.  The theorem compares a plan with ITS OWN erasure; the replay compares with a baseline run whose plan may '
            'differ (driver counter base_plan_differs), so a result that depended on the planner choice would be reported here although it belongs to C01/C02.',
        ],
        trusted_base=[
            'hand-written Gallina model coq/theories/Hibernation/Model.v of Pipeline.Run (Hibernate/Boot actions, isMerge skipping them, error '
            'propagation), BurndownAnalysis.Hibernate/Boot and the abstract file system, tied to the code by the replay of every wrapped harness case '
            '(every Hibernate/Boot call with its kind, the directory before every step and after the run, the outcome and its error class)',
            'leaves/verif_c09.go (arena size, temp-file name), internal/core/verif_c09.go + verifapi/c09 (plan printer sink), the delegating wrapper item '
            'and the tamper item of harness/cmd/c09 (incl. the tampering from the public OnProgress callback right before a multi-branch boot action), '
            'the supervisor / child split of the harness (a crash of the child during a run with hibernation becomes the outcome (panic crash)) and the parametric '
            'generator of the large histories (harness/cmd/c09/scale.go) and of the view histories with deleted / binary files (harness/cmd/c09/wipe.go; the every-length '
            'truncation picks its victim by the digest of the file bytes from the public OnProgress callback) and of the octopus histories with shared changes / the odd directory '
            'names and their normalised twins (harness/cmd/c09/picked.go)',
        ],
        level_text='Coq theorems over every plan that satisfies the lifecycle predicate, every abstract analysis item, every threshold and disk setting, every '
                   'I/O oracle and every remove/truncate adversary: C09_erasure (all I/O succeeds, nobody tampers: the run equals the run of the plan without '
                   'Hibernate/Boot actions - result, error or panic), C09_no_leftover (after ANY successful run every file in the directory was there before; '
                   'empty directory stays empty), C09_faults (under any failures and tampering the run equals the erased run or returns an I/O error; '
                   'C09_faults_never_another_result), C09_faults_io_failure_surfaces (a run that ends Ok saw every create/close/write/open/read/remove '
                   'succeed), C09_faults_boot_of_damaged_file and C09_faults_damaged_file_surfaces (a temp file that is missing or a proper prefix when the '
                   'adversary has moved makes the run fail).  All closed under the global context; the allocator facts enter as three hypotheses that C06 proves.',
        level_note='Proved about the Gallina model, not about the Go text; the tie is the correspondence replay.  The analysis item is abstract: that the '
                   'real BurndownAnalysis is a function of its awake state (no hidden coupling between Hibernate/Boot and the histories) is carried by the '
                   'result comparison against the non-hibernated run on every generated history and setting.  Write, close and remove failures are covered by '
                   'the oracle in the theorems but cannot be injected hook-free into the real run (only create failures, missing and truncated files are); '
                   'chmod does not deny root, so the read-only directory case degenerates to a successful run in this sandbox (recorded per case).  '
                   'Plans outside the lifecycle predicate are outside the model (marker PUndefined).  Composition with C04 (the planner output satisfies '
                   'the predicate) and C06 (the three hypotheses) is by hypothesis, not by a Coq import.',
        technique='machine-checked proof in Coq (simulation of the run with Hibernate/Boot actions by the run of the erased plan over an abstract item and file '
                  'system with failure oracle and adversary) + replay of the real pipeline through the extracted model and result/leftover/fault oracles',
    )
