(* C19 - proofs about the model of TicksSinceStart (Ticks.v): one Consume, the registry, and every
   sequence of Consume / Fork / Merge on any number of branches. *)
From Coq Require Import ZArith List Bool Lia Sorted PeanoNat.
From Herc Require Import Plumbing.Ticks Plumbing.TicksArith.
Import ListNotations.
Open Scope Z_scope.

(* ------------------------------------------------------------------ lists *)

Lemma nth_error_set_nth_same : forall A (l : list A) n x y,
  nth_error l n = Some y -> nth_error (set_nth l n x) n = Some x.
Proof.
  induction l as [|a l IH]; intros [|n] x y H; cbn in *; try discriminate; eauto.
Qed.

Lemma nth_error_set_nth_other : forall A (l : list A) n m x,
  n <> m -> nth_error (set_nth l n x) m = nth_error l m.
Proof.
  induction l as [|a l IH]; intros [|n] [|m] x H; cbn; try reflexivity; try congruence.
  apply IH. congruence.
Qed.

Lemma length_set_nth : forall A (l : list A) n x, length (set_nth l n x) = length l.
Proof.
  induction l as [|a l IH]; intros [|n] x; cbn; try reflexivity. f_equal. apply IH.
Qed.

Lemma Forall2_set_nth : forall A B (R : A -> B -> Prop) l1 l2 n x y,
  Forall2 R l1 l2 -> R x y -> Forall2 R (set_nth l1 n x) (set_nth l2 n y).
Proof.
  intros A B R l1 l2 n x y H. revert n. induction H as [|a b l1 l2 Hab H IH]; intros [|n] Hxy; cbn;
    constructor; auto.
Qed.

Lemma Forall2_nth_error : forall A B (R : A -> B -> Prop) l1 l2 n x,
  Forall2 R l1 l2 -> nth_error l1 n = Some x -> exists y, nth_error l2 n = Some y /\ R x y.
Proof.
  intros A B R l1 l2 n x H. revert n. induction H as [|a b l1 l2 Hab H IH]; intros [|n] Hn; cbn in *;
    try discriminate.
  - injection Hn as <-. eauto.
  - eauto.
Qed.

Lemma Forall2_nth_error_none : forall A B (R : A -> B -> Prop) l1 l2 n,
  Forall2 R l1 l2 -> nth_error l1 n = None -> nth_error l2 n = None.
Proof.
  intros A B R l1 l2 n H. revert n. induction H; intros [|n] Hn; cbn in *; try discriminate; auto.
Qed.

Lemma Forall2_weaken : forall A B (R R' : A -> B -> Prop) l1 l2,
  (forall x y, R x y -> R' x y) -> Forall2 R l1 l2 -> Forall2 R' l1 l2.
Proof.
  intros A B R R' l1 l2 HR H. induction H; constructor; auto.
Qed.

Lemma Forall2_repeat : forall A B (R : A -> B -> Prop) x y n, R x y -> Forall2 R (repeat x n) (repeat y n).
Proof.
  induction n; cbn; intros; constructor; auto.
Qed.

Lemma Forall_set_nth : forall A (P : A -> Prop) l n x, Forall P l -> P x -> Forall P (set_nth l n x).
Proof.
  intros A P l n x H. revert n. induction H; intros [|n] Hx; cbn; constructor; auto.
Qed.

Lemma Forall_set_nth_inv : forall A (P : A -> Prop) l n x y,
  nth_error l n = Some y -> Forall P (set_nth l n x) -> P y -> Forall P l.
Proof.
  induction l as [|a l IH]; intros [|n] x y Hn H Hy; cbn in *; try discriminate.
  - injection Hn as ->. inversion H; subst. constructor; assumption.
  - inversion H; subst. constructor; eauto.
Qed.

Lemma Forall_set_nth_at : forall A (P : A -> Prop) l n x y,
  nth_error l n = Some y -> Forall P (set_nth l n x) -> P x.
Proof.
  induction l as [|a l IH]; intros [|n] x y Hn H; cbn in *; try discriminate.
  - inversion H; assumption.
  - inversion H; subst. eauto.
Qed.

Lemma last_snoc : forall A (l : list A) x d, last (l ++ [x]) d = x.
Proof.
  induction l as [|a l IH]; intros x d; [reflexivity|].
  cbn [app]. destruct (l ++ [x]) eqn:E.
  - destruct l; discriminate.
  - rewrite <- E. cbn [last]. rewrite E. rewrite <- E. apply IH.
Qed.

(* ------------------------------------------------------------------ nondecreasing lists *)

Lemma last_cons_default : forall A (l : list A) a d, last (a :: l) d = last l a.
Proof.
  induction l as [|b l IH]; intros a d; [reflexivity|].
  change (last (a :: b :: l) d) with (last (b :: l) d). rewrite (IH b d), (IH b a). reflexivity.
Qed.

Lemma nondecreasing_snoc : forall l p k,
  nondecreasing p (l ++ [k]) = nondecreasing p l && (last l p <=? k).
Proof.
  induction l as [|a l IH]; intros p k; cbn [app nondecreasing].
  - cbn. rewrite andb_true_r. reflexivity.
  - rewrite IH, last_cons_default, andb_assoc. reflexivity.
Qed.

Lemma nondecreasing_last : forall l p, nondecreasing p l = true -> p <= last l p.
Proof.
  induction l as [|a l IH]; intros p H; [cbn; lia|].
  cbn [nondecreasing] in H. apply andb_true_iff in H as [H1 H2]. apply Z.leb_le in H1.
  specialize (IH a H2). rewrite last_cons_default. lia.
Qed.

Lemma nondecreasing_Sorted : forall l p, nondecreasing p l = true <-> Sorted Z.le (p :: l).
Proof.
  induction l as [|a l IH]; intros p; cbn [nondecreasing].
  - split; [intros _; repeat constructor|reflexivity].
  - rewrite andb_true_iff, Z.leb_le, IH. split.
    + intros [H1 H2]. constructor; [assumption|constructor; assumption].
    + intros H. inversion H as [|? ? HS HR]; subst. inversion HR; subst. split; assumption.
Qed.

(* ------------------------------------------------------------------ the registry *)

Lemma reg_get_set_same : forall r k l, reg_get (reg_set r k l) k = l.
Proof.
  induction r as [|[k' l'] r IH]; intros k l; cbn.
  - rewrite Z.eqb_refl. reflexivity.
  - destruct (Z.eqb_spec k' k) as [->|N]; cbn.
    + rewrite Z.eqb_refl. reflexivity.
    + destruct (Z.eqb_spec k' k); [contradiction|]. apply IH.
Qed.

Lemma reg_get_set_other : forall r k l k', k' <> k -> reg_get (reg_set r k l) k' = reg_get r k'.
Proof.
  induction r as [|[k1 l1] r IH]; intros k l k' N; cbn.
  - destruct (Z.eqb_spec k k'); [congruence|reflexivity].
  - destruct (Z.eqb_spec k1 k) as [->|N1]; cbn.
    + destruct (Z.eqb_spec k k'); [congruence|reflexivity].
    + destruct (Z.eqb_spec k1 k'); [reflexivity|]. apply IH; assumption.
Qed.

(* appending to the list of one tick lists the hash once more and changes nothing else *)
Lemma reg_count_set_snoc : forall r k h h',
  reg_count (reg_set r k (reg_get r k ++ [h])) h' =
  (reg_count r h' + (if Z.eq_dec h h' then 1 else 0))%nat.
Proof.
  unfold reg_count. induction r as [|[k1 l1] r IH]; intros k h h'.
  - cbn. destruct (Z.eq_dec h h'); reflexivity.
  - cbn [reg_get reg_set]. destruct (Z.eqb_spec k1 k) as [->|N]; cbn [map snd concat].
    + rewrite !count_occ_app. cbn [count_occ]. destruct (Z.eq_dec h h'); lia.
    + rewrite !count_occ_app. rewrite IH. lia.
Qed.

Lemma reg_count_get : forall r k h, In h (reg_get r k) -> (1 <= reg_count r h)%nat.
Proof.
  unfold reg_count. induction r as [|[k1 l1] r IH]; intros k h H; cbn in *; [contradiction|].
  rewrite count_occ_app. destruct (Z.eqb_spec k1 k).
  - apply (count_occ_In Z.eq_dec) in H. lia.
  - specialize (IH _ _ H). lia.
Qed.

Lemma existsb_eqb_In : forall h l, existsb (Z.eqb h) l = true <-> In h l.
Proof.
  intros h l. rewrite existsb_exists. split.
  - intros [x [Hx E]]. apply Z.eqb_eq in E. subst. assumption.
  - intros H. exists h. split; [assumption|apply Z.eqb_refl].
Qed.

Lemma listed_In : forall r e, listed r e = true <-> In (c_hash (fst e)) (reg_get r (snd e)).
Proof.
  intros r e. unfold listed. apply existsb_eqb_In.
Qed.

(* ------------------------------------------------------------------ one Consume *)

Definition new_t0 (s : shared) (d index : Z) (c : commit) : Z :=
  if index =? 0 then floor_time (c_when c) d else tick0 s.

Lemma consume_branch_tick : forall s b index c s' b' k,
  consume_branch s b index c = (s', b', k) ->
  k = Z.max (previous_tick b) (raw_tick (new_t0 s (tick_size b) index c) (tick_size b) (c_when c)) /\
  previous_tick b' = k /\ tick_size b' = tick_size b /\
  tick0 s' = new_t0 s (tick_size b) index c.
Proof.
  intros s b index c s' b' k H. unfold consume_branch in H. fold (new_t0 s (tick_size b) index c) in H.
  injection H as <- <- <-. cbn. repeat split.
  destruct (Z.ltb_spec (raw_tick (new_t0 s (tick_size b) index c) (tick_size b) (c_when c)) (previous_tick b)); lia.
Qed.

(* the registry after a Consume: the commit is listed under its tick, nothing is removed, and the
   only possible change is one more entry of this commit under this tick *)
Lemma consume_branch_registry : forall s b index c s' b' k,
  consume_branch s b index c = (s', b', k) ->
  In (c_hash c) (reg_get (commits s') k) /\
  (forall k' h, In h (reg_get (commits s) k') -> In h (reg_get (commits s') k')) /\
  (commits s' = commits s /\ (0 < c_parents c)%nat /\ In (c_hash c) (reg_get (commits s) k)
   \/ commits s' = reg_set (commits s) k (reg_get (commits s) k ++ [c_hash c]) /\
      ((0 < c_parents c)%nat -> ~ In (c_hash c) (reg_get (commits s) k))).
Proof.
  intros s b index c s' b' k H.
  destruct (consume_branch_tick _ _ _ _ _ _ _ H) as [Hk _].
  unfold consume_branch in H. fold (new_t0 s (tick_size b) index c) in H.
  set (raw := raw_tick (new_t0 s (tick_size b) index c) (tick_size b) (c_when c)) in *.
  set (tick := if raw <? previous_tick b then previous_tick b else raw) in *.
  injection H as <- <- Htick. cbn [commits]. rewrite <- Htick in *. clear Htick Hk.
  destruct ((0 <? c_parents c)%nat && existsb (Z.eqb (c_hash c)) (rev (reg_get (commits s) tick))) eqn:E.
  - apply andb_true_iff in E as [E1 E2]. apply Nat.ltb_lt in E1.
    apply existsb_eqb_In in E2. apply in_rev in E2.
    split; [assumption|]. split; [auto|]. left. auto.
  - split; [rewrite reg_get_set_same; apply in_or_app; right; left; reflexivity|]. split.
    + intros k' h Hin. destruct (Z.eq_dec k' tick) as [->|N].
      * rewrite reg_get_set_same. apply in_or_app. left. assumption.
      * rewrite reg_get_set_other by assumption. assumption.
    + right. split; [reflexivity|]. intros Hp Hin.
      apply andb_false_iff in E as [E|E].
      * apply Nat.ltb_ge in E. lia.
      * apply in_rev in Hin. apply existsb_eqb_In in Hin. congruence.
Qed.

(* C19_tick: the tick of one Consume, for a positive tick size *)
Lemma consume_tick_formula : forall s b index c s' b' k,
  consume_branch s b index c = (s', b', k) ->
  let d := tick_size b in
  let t := c_when c in
  let t0 := tick0 s' in
  0 < d ->
  t0 = (if index =? 0 then floor_time t d else tick0 s) /\
  k = Z.max (previous_tick b) (Z.quot (time_sub t t0) d) /\
  (in_range t0 t = true -> k = Z.max (previous_tick b) (Z.quot (t - t0) d)) /\
  (in_range t0 t = true -> 0 <= previous_tick b -> k = Z.max (previous_tick b) ((t - t0) / d)) /\
  (max_duration < t - t0 -> k = Z.max (previous_tick b) (Z.quot max_duration d)) /\
  (t <= t0 -> 0 <= previous_tick b -> k = previous_tick b).
Proof.
  intros s b index c s' b' k H d t t0 Hd.
  destruct (consume_branch_tick _ _ _ _ _ _ _ H) as [Hk [_ [_ Ht0]]].
  fold d t in Hk, Ht0. subst t0. rewrite Ht0. rewrite raw_tick_pos in Hk by assumption.
  unfold elapsed_ticks in Hk. split; [reflexivity|]. split; [assumption|]. split; [|split; [|split]].
  - intros R. rewrite (time_sub_in_range _ _ R) in Hk. assumption.
  - intros R Hp. rewrite (time_sub_in_range _ _ R) in Hk. rewrite Hk. apply max_quot_div; assumption.
  - intros A. rewrite (time_sub_above _ _ A) in Hk. assumption.
  - intros A Hp. pose proof (elapsed_nonpos (new_t0 s d index c) d t Hd A) as E.
    unfold elapsed_ticks in E. lia.
Qed.

(* ------------------------------------------------------------------ runs *)

Definition ev_of (o : op) (r : out) : list event :=
  match o, r with OConsume _ _ c, RTick k => [(c, k)] | _, _ => [] end.

Lemma run_cons : forall s o ops s' outs,
  run s (o :: ops) = (s', outs) ->
  exists s1 r outs', step s o = (s1, r) /\ run s1 ops = (s', outs') /\ outs = r :: outs'.
Proof.
  intros s o ops s' outs H. cbn [run] in H.
  destruct (step s o) as [s1 r]. destruct (run s1 ops) as [s2 rs] eqn:E.
  injection H as <- <-. exists s1, r, rs. auto.
Qed.

Lemma run_app : forall ops1 ops2 s s' outs,
  run s (ops1 ++ ops2) = (s', outs) ->
  exists s1 outs1 outs2, run s ops1 = (s1, outs1) /\ run s1 ops2 = (s', outs2) /\ outs = outs1 ++ outs2
    /\ length outs1 = length ops1.
Proof.
  induction ops1 as [|o ops1 IH]; intros ops2 s s' outs H.
  - exists s, [], outs. cbn. auto.
  - cbn [app] in H. apply run_cons in H as [s1 [r [outs' [Hs [Hr ->]]]]].
    apply IH in Hr as [s2 [o1 [o2 [H1 [H2 [-> Hl]]]]]].
    exists s2, (r :: o1), o2. cbn [run]. rewrite Hs, H1. cbn. auto.
Qed.

Lemma consumed_cons : forall o r ops outs, consumed (o :: ops) (r :: outs) = ev_of o r ++ consumed ops outs.
Proof.
  intros o r ops outs. destruct o; cbn; try reflexivity. destruct r; reflexivity.
Qed.

Lemma lineages_app : forall ops1 outs1 ops2 outs2 ls, length outs1 = length ops1 ->
  lineages (ops1 ++ ops2) (outs1 ++ outs2) ls = lineages ops2 outs2 (lineages ops1 outs1 ls).
Proof.
  induction ops1 as [|o ops1 IH]; intros [|r outs1] ops2 outs2 ls H; cbn in H; try discriminate.
  - reflexivity.
  - cbn [app lineages]. apply IH. lia.
Qed.

Lemma consumed_app : forall ops1 outs1 ops2 outs2, length outs1 = length ops1 ->
  consumed (ops1 ++ ops2) (outs1 ++ outs2) = consumed ops1 outs1 ++ consumed ops2 outs2.
Proof.
  induction ops1 as [|o ops1 IH]; intros [|r outs1] ops2 outs2 H; cbn in H; try discriminate.
  - reflexivity.
  - cbn [app]. rewrite !consumed_cons, IH by lia. apply app_assoc.
Qed.

(* An invariant of the system state together with the branch histories and the list of consumed
   commits that is preserved by every step (of the operations satisfying P) holds after every run. *)
Lemma run_invariant (P : op -> Prop) (Inv : sys -> list (list event) -> list event -> Prop) :
  (forall s ls seen o s' r, P o -> Inv s ls seen -> step s o = (s', r) ->
     Inv s' (lin_step ls o r) (seen ++ ev_of o r)) ->
  forall ops s ls seen s' outs, Forall P ops -> Inv s ls seen -> run s ops = (s', outs) ->
    Inv s' (lineages ops outs ls) (seen ++ consumed ops outs).
Proof.
  intros Hstep. induction ops as [|o ops IH]; intros s ls seen s' outs HP HI H.
  - cbn in H. injection H as <- <-. cbn. rewrite app_nil_r. assumption.
  - apply run_cons in H as [s1 [r [outs' [Hs [Hr ->]]]]]. inversion HP; subst.
    cbn [lineages]. rewrite consumed_cons, app_assoc.
    eapply IH; eauto.
Qed.

(* ------------------------------------------------------------------ all inputs: monotone ticks, listing *)

(* per branch: the branch-local previousTick is the last tick of the history (0 at the start) and
   the ticks of the history never decrease *)
Definition R_mono (br : branch) (l : list event) : Prop :=
  nondecreasing 0 (ticks l) = true /\ previous_tick br = last (ticks l) 0.

Definition Inv_all (s : sys) (ls : list (list event)) (seen : list event) : Prop :=
  Forall2 R_mono (brs s) ls /\ Forall (fun e => listed (commits (sh s)) e = true) seen.

Lemma ticks_snoc : forall l c k, ticks (l ++ [(c, k)]) = ticks l ++ [k].
Proof. intros. unfold ticks. rewrite map_app. reflexivity. Qed.

Lemma times_snoc : forall l c k, times (l ++ [(c, k)]) = times l ++ [c_when c].
Proof. intros. unfold times. rewrite map_app. reflexivity. Qed.

Lemma Inv_all_step : forall s ls seen o s' r, True -> Inv_all s ls seen -> step s o = (s', r) ->
  Inv_all s' (lin_step ls o r) (seen ++ ev_of o r).
Proof.
  intros s ls seen o s' r _ [HR HL] H. destruct o as [b index c|b n|bs|t d]; cbn [step] in H.
  - destruct (nth_error (brs s) b) as [br|] eqn:Eb.
    + destruct (consume_branch (sh s) br index c) as [[sh' br'] k] eqn:Ec.
      injection H as <- <-. cbn [ev_of lin_step sh brs].
      destruct (Forall2_nth_error _ _ _ _ _ _ _ HR Eb) as [l [El [Hn Hp]]]. rewrite El.
      destruct (consume_branch_tick _ _ _ _ _ _ _ Ec) as [Hk [Hp' _]].
      destruct (consume_branch_registry _ _ _ _ _ _ _ Ec) as [Hin [Hkeep _]].
      split.
      * apply Forall2_set_nth; [assumption|]. split.
        -- rewrite ticks_snoc, nondecreasing_snoc, Hn. cbn [andb]. apply Z.leb_le. lia.
        -- rewrite ticks_snoc, last_snoc. assumption.
      * apply Forall_app. split.
        -- eapply Forall_impl; [|exact HL]. intros e He. apply listed_In. apply Hkeep. apply listed_In. exact He.
        -- constructor; [|constructor]. apply listed_In. exact Hin.
    + injection H as <- <-. cbn. rewrite app_nil_r. split; assumption.
  - destruct (nth_error (brs s) b) as [br|] eqn:Eb.
    + injection H as <- <-. cbn [ev_of lin_step sh brs]. rewrite app_nil_r.
      destruct (Forall2_nth_error _ _ _ _ _ _ _ HR Eb) as [l [El Hl]]. rewrite El.
      split; [|assumption]. apply Forall2_app; [assumption|]. apply Forall2_repeat. assumption.
    + injection H as <- <-. cbn. rewrite app_nil_r. split; assumption.
  - injection H as <- <-. cbn. rewrite app_nil_r. split; assumption.
  - injection H as <- <-. cbn. rewrite app_nil_r. split; assumption.
Qed.

Lemma Inv_all_init : forall cfg, Inv_all (init_sys cfg) [[]] [].
Proof.
  intros cfg. split; [|constructor]. cbn. constructor; [|constructor]. split; reflexivity.
Qed.

Lemma Inv_all_run : forall cfg ops s' outs, run (init_sys cfg) ops = (s', outs) ->
  Inv_all s' (lineages ops outs [[]]) (consumed ops outs).
Proof.
  intros cfg ops s' outs H.
  change (consumed ops outs) with ([] ++ consumed ops outs).
  eapply (run_invariant (fun _ => True) Inv_all Inv_all_step); eauto using Inv_all_init.
  apply Forall_forall. auto.
Qed.

(* C19_monotone *)
Theorem ticks_monotone : forall cfg ops s' outs, run (init_sys cfg) ops = (s', outs) ->
  forall l, In l (lineages ops outs [[]]) -> Sorted Z.le (0 :: ticks l).
Proof.
  intros cfg ops s' outs H l Hl. destruct (Inv_all_run _ _ _ _ H) as [HR _].
  apply nondecreasing_Sorted.
  apply In_nth_error in Hl as [n Hn].
  clear H. revert n Hn. induction HR as [|br l' brs ls [Hn' _] _ IH]; intros [|n] Hn; cbn in Hn; try discriminate.
  - injection Hn as <-. assumption.
  - eauto.
Qed.

(* the branch-local previousTick is never negative and equals the last tick given on the branch *)
Theorem previous_tick_last : forall cfg ops s' outs, run (init_sys cfg) ops = (s', outs) ->
  Forall2 (fun br l => previous_tick br = last (ticks l) 0 /\ 0 <= previous_tick br) (brs s') (lineages ops outs [[]]).
Proof.
  intros cfg ops s' outs H. destruct (Inv_all_run _ _ _ _ H) as [HR _].
  eapply Forall2_weaken; [|exact HR]. intros br l [Hn Hp]. split; [assumption|].
  rewrite Hp. apply nondecreasing_last. assumption.
Qed.

(* C19_registry, first half: every consumed commit is listed under the tick it was given *)
Theorem registry_lists_all : forall cfg ops s' outs, run (init_sys cfg) ops = (s', outs) ->
  forall c k, In (c, k) (consumed ops outs) -> In (c_hash c) (reg_get (commits (sh s')) k).
Proof.
  intros cfg ops s' outs H c k Hin. destruct (Inv_all_run _ _ _ _ H) as [_ HL].
  rewrite Forall_forall in HL. specialize (HL _ Hin). apply listed_In in HL. exact HL.
Qed.
