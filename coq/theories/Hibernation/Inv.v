(* C09 - the invariant that ties a run with Hibernate / Boot actions to the run of the erased plan,
   and its preservation by table updates, the adversary, Hibernate and Boot of one item. *)
From Coq Require Import List ZArith Bool NArith Lia.
From Herc Require Import Hibernation.Model Hibernation.Tables.
Import ListNotations.
Open Scope Z_scope.

Section Inv.
  Context {S H K R byte : Type}.
  Variable o : ops S H K R byte.
  Notation item := (ist S H K).
  Notation fsys := (list (N * list byte)).

  (* what C06 establishes for the allocator and its file format *)
  Hypothesis boot_hibernate : forall s, size o s <> 0 -> decompress o (compress o s) = s.
  Hypothesis file_roundtrip : forall h, decode o (strip o h) (encode o h) = Some h.
  Hypothesis truncation_detected : forall h j,
      (j < length (encode o h))%nat -> decode o (strip o h) (firstn j (encode o h)) = None.

  Variable io : nat -> io_choice.
  Variable fs0 : fsys.
  (* ioutil.TempFile never hands out a name twice, nor the name of a file that is already there *)
  Hypothesis names_inj : forall i j, io_name (io i) = io_name (io j) -> i = j.
  Hypothesis names_new : forall i, fs_mem (io_name (io i)) fs0 = false.

  (* strict = true: every I/O operation succeeds and nobody touches the files *)
  Variable strict : bool.
  Hypothesis strict_io : strict = true -> forall i, io_result (io i) = IoOk.

  Definition intact (f : fsys) (n : N) (h : H) : Prop := fs_get n f = Some (encode o h).
  Definition damaged (f : fsys) (n : N) (h : H) : Prop :=
    fs_get n f = None \/
    exists j, (j < length (encode o h))%nat /\ fs_get n f = Some (firstn j (encode o h)).

  (* the item [it] of the run with hibernation stands for the awake state [s] *)
  Definition rel_item (f : fsys) (hib : bool) (it : item) (s : S) : Prop :=
    match it with
    | Awake s' => s' = s
    | HibMem h => hib = true /\ decompress o h = s
    | HibDisk k n => hib = true /\ exists h, strip o h = k /\ decompress o h = s /\
                                          (intact f n h \/ (strict = false /\ damaged f n h))
    end.

  Record Inv (stt : list (Z * bool)) (b1 : list (Z * item)) (f : fsys) (ni : nat)
         (b0 : list (Z * item)) : Prop := {
    inv_keys1 : map fst b1 = map fst stt;
    inv_keys0 : map fst b0 = map fst stt;
    inv_rel : forall b it, tget b b1 = Some it ->
        exists s hib, tget b b0 = Some (Awake s) /\ tget b stt = Some hib /\ rel_item f hib it s;
    inv_held : forall n, fs_mem n f = true ->
        fs_mem n fs0 = true \/ exists b k, tget b b1 = Some (HibDisk k n);
    inv_issued : forall b k n, tget b b1 = Some (HibDisk k n) ->
        exists i, (i < ni)%nat /\ n = io_name (io i);
    inv_distinct : forall b b' k k' n,
        tget b b1 = Some (HibDisk k n) -> tget b' b1 = Some (HibDisk k' n) -> b = b'
  }.

  Lemma inv_init : Inv [] [] fs0 0 [].
  Proof.
    constructor; cbn; try reflexivity; try discriminate; auto.
  Qed.

  (* a branch that is not hibernated according to the status table is awake, with the same state in
     both runs *)
  Lemma inv_live : forall stt b1 f ni b0 b,
      Inv stt b1 f ni b0 -> tget b stt = Some false ->
      exists s, tget b b1 = Some (Awake s) /\ tget b b0 = Some (Awake s).
  Proof.
    intros stt b1 f ni b0 b I Hs.
    destruct (tget b b1) as [it|] eqn:E.
    - destruct (inv_rel _ _ _ _ _ I _ _ E) as (s & hib & H0 & Hst & Hr).
      rewrite Hs in Hst. inversion Hst; subst hib.
      destruct it as [s'|h|k n]; cbn in Hr.
      + subst. eauto.
      + destruct Hr; discriminate.
      + destruct Hr; discriminate.
    - exfalso. apply tget_none_not_key in E. rewrite (inv_keys1 _ _ _ _ _ I) in E.
      apply E. eapply tget_in_keys; eauto.
  Qed.

  Lemma inv_absent : forall stt b1 f ni b0 b,
      Inv stt b1 f ni b0 -> tget b stt = None -> tget b b1 = None /\ tget b b0 = None.
  Proof.
    intros stt b1 f ni b0 b I Hs. split.
    - eapply keys_eq_tget_none; [|exact Hs]. symmetry. apply (inv_keys1 _ _ _ _ _ I).
    - eapply keys_eq_tget_none; [|exact Hs]. symmetry. apply (inv_keys0 _ _ _ _ _ I).
  Qed.

  (* a holder of a temp file is hibernated in the status table *)
  Lemma inv_holder_asleep : forall stt b1 f ni b0 b k n,
      Inv stt b1 f ni b0 -> tget b b1 = Some (HibDisk k n) -> tget b stt = Some true.
  Proof.
    intros stt b1 f ni b0 b k n I E.
    destruct (inv_rel _ _ _ _ _ I _ _ E) as (s & hib & _ & Hst & Hr).
    cbn in Hr. destruct Hr as [-> _]. exact Hst.
  Qed.

  (* ------------------------------------------------------------------------------------ *)
  (* the same awake state is stored for branch b in both runs (Consume, Fork, Merge, Emerge) *)
  Lemma inv_set_awake : forall stt b1 f ni b0 b s,
      Inv stt b1 f ni b0 ->
      (tget b stt = None \/ tget b stt = Some false) ->
      Inv (tset b false stt) (tset b (Awake s) b1) f ni (tset b (Awake s) b0).
  Proof.
    intros stt b1 f ni b0 b s I Hb.
    assert (Hnh : forall k n, tget b b1 <> Some (HibDisk k n)).
    { intros k n E. apply (inv_holder_asleep _ _ _ _ _ _ _ _ I) in E.
      destruct Hb as [Hb|Hb]; rewrite Hb in E; discriminate. }
    constructor.
    - rewrite !keys_tset. now rewrite (inv_keys1 _ _ _ _ _ I).
    - rewrite !keys_tset. now rewrite (inv_keys0 _ _ _ _ _ I).
    - intros b' it. rewrite !tget_tset. destruct (Z.eqb b b') eqn:E.
      + intros Hit. inversion Hit; subst it. exists s, false. cbn. auto.
      + apply (inv_rel _ _ _ _ _ I).
    - intros n Hn. destruct (inv_held _ _ _ _ _ I n Hn) as [Hl|(b' & k & Hh)]; [now left|].
      right. exists b', k. rewrite tget_tset. destruct (Z.eqb b b') eqn:E; [|exact Hh].
      apply Z.eqb_eq in E. subst b'. now apply Hnh in Hh.
    - intros b' k n. rewrite tget_tset. destruct (Z.eqb b b'); [discriminate|].
      apply (inv_issued _ _ _ _ _ I).
    - intros b' b'' k k' n. rewrite !tget_tset.
      destruct (Z.eqb b b'); [discriminate|]. destruct (Z.eqb b b''); [discriminate|].
      apply (inv_distinct _ _ _ _ _ I).
  Qed.

  Lemma inv_del : forall stt b1 f ni b0 b,
      Inv stt b1 f ni b0 -> tget b stt = Some false ->
      Inv (tdel b stt) (tdel b b1) f ni (tdel b b0).
  Proof.
    intros stt b1 f ni b0 b I Hb.
    assert (Hnh : forall k n, tget b b1 <> Some (HibDisk k n)).
    { intros k n E. apply (inv_holder_asleep _ _ _ _ _ _ _ _ I) in E. rewrite Hb in E. discriminate. }
    constructor.
    - rewrite !keys_tdel. now rewrite (inv_keys1 _ _ _ _ _ I).
    - rewrite !keys_tdel. now rewrite (inv_keys0 _ _ _ _ _ I).
    - intros b' it. rewrite !tget_tdel. destruct (Z.eqb b b'); [discriminate|].
      apply (inv_rel _ _ _ _ _ I).
    - intros n Hn. destruct (inv_held _ _ _ _ _ I n Hn) as [Hl|(b' & k & Hh)]; [now left|].
      right. exists b', k. rewrite tget_tdel. destruct (Z.eqb b b') eqn:E; [|exact Hh].
      apply Z.eqb_eq in E. subst b'. now apply Hnh in Hh.
    - intros b' k n. rewrite tget_tdel. destruct (Z.eqb b b'); [discriminate|].
      apply (inv_issued _ _ _ _ _ I).
    - intros b' b'' k k' n. rewrite !tget_tdel.
      destruct (Z.eqb b b'); [discriminate|]. destruct (Z.eqb b b''); [discriminate|].
      apply (inv_distinct _ _ _ _ _ I).
  Qed.

  (* several branches receive awake states (Fork: the clones; Merge: the merged states) *)
  Definition awake_upd (upd : list (Z * S)) : list (Z * item) := map (fun e => (fst e, Awake (snd e))) upd.
  Definition false_upd (upd : list (Z * S)) : list (Z * bool) := map (fun e => (fst e, false)) upd.

  Lemma inv_set_all : forall upd stt b1 f ni b0,
      Inv stt b1 f ni b0 ->
      (forall b, In b (map fst upd) -> tget b stt = None \/ tget b stt = Some false) ->
      Inv (tset_all stt (false_upd upd)) (tset_all b1 (awake_upd upd)) f ni (tset_all b0 (awake_upd upd)).
  Proof.
    induction upd as [|[b s] upd IH]; intros stt b1 f ni b0 I Hall; cbn; [exact I|].
    apply IH.
    - apply inv_set_awake; [exact I|]. apply Hall. now left.
    - intros b' Hin. rewrite tget_tset. destruct (Z.eqb b b'); [now right|].
      apply Hall. now right.
  Qed.

  Lemma tset_all_live_id : forall (upd : list (Z * S)) (stt : list (Z * bool)),
      (forall b, In b (map fst upd) -> tget b stt = Some false) ->
      tset_all stt (false_upd upd) = stt.
  Proof.
    induction upd as [|[b s] upd IH]; intros stt Hall; cbn; [reflexivity|].
    rewrite tset_same_value by (apply Hall; now left).
    apply IH. intros b' Hin. apply Hall. now right.
  Qed.

  (* ------------------------------------------------------------------------------------ *)
  (* only the item of branch b of the run with hibernation changes (Hibernate, Boot) *)
  Lemma rel_item_frame : forall f f' hib it s,
      (forall k n, it = HibDisk k n -> fs_get n f' = fs_get n f) ->
      rel_item f hib it s -> rel_item f' hib it s.
  Proof.
    intros f f' hib it s Hf Hr. destruct it as [s'|h|k n]; cbn in *; try exact Hr.
    destruct Hr as (Hh & h & Hk & Hd & Hi). split; [exact Hh|]. exists h. repeat split; try assumption.
    unfold intact, damaged in *. rewrite (Hf k n eq_refl). exact Hi.
  Qed.

  Lemma inv_update : forall stt b1 f ni b0 b it' f' ni' hib' s,
      Inv stt b1 f ni b0 ->
      (exists x, tget b stt = Some x) ->
      tget b b0 = Some (Awake s) ->
      rel_item f' hib' it' s ->
      (forall b' k n, b' <> b -> tget b' b1 = Some (HibDisk k n) -> fs_get n f' = fs_get n f) ->
      (forall m, fs_mem m f' = true ->
                 fs_mem m fs0 = true \/ (exists b' k, b' <> b /\ tget b' b1 = Some (HibDisk k m)) \/
                 (exists k, it' = HibDisk k m)) ->
      (forall k n, it' = HibDisk k n -> exists i, (i < ni')%nat /\ n = io_name (io i)) ->
      (forall k n, it' = HibDisk k n -> forall b' k', b' <> b -> tget b' b1 <> Some (HibDisk k' n)) ->
      (ni <= ni')%nat ->
      Inv (tset b hib' stt) (tset b it' b1) f' ni' b0.
  Proof.
    intros stt b1 f ni b0 b it' f' ni' hib' s I [x Hx] H0 Hr Hframe Hheld Hiss Hdist Hle.
    assert (Hk : kset b (map fst stt) = map fst stt).
    { unfold kset. replace (kmem b (map fst stt)) with true; [reflexivity|].
      symmetry. unfold kmem. apply existsb_exists. exists b. split; [|apply Z.eqb_refl].
      eapply tget_in_keys; eauto. }
    constructor.
    - rewrite !keys_tset. rewrite (inv_keys1 _ _ _ _ _ I). reflexivity.
    - rewrite keys_tset. rewrite Hk. apply (inv_keys0 _ _ _ _ _ I).
    - intros b' it. rewrite !tget_tset. destruct (Z.eqb b b') eqn:E.
      + apply Z.eqb_eq in E. subst b'. intros Hit. inversion Hit; subst it.
        exists s, hib'. auto.
      + apply Z.eqb_neq in E. intros Hit.
        destruct (inv_rel _ _ _ _ _ I _ _ Hit) as (s' & hib & Ha & Hb & Hc).
        exists s', hib. repeat split; try assumption.
        eapply rel_item_frame; [|exact Hc]. intros k n ->. eapply Hframe; eauto.
    - intros m Hm. destruct (Hheld m Hm) as [Hl|[(b' & k & Hne & Hh)|(k & Hh)]].
      + now left.
      + right. exists b', k. rewrite tget_tset.
        destruct (Z.eqb b b') eqn:E; [apply Z.eqb_eq in E; congruence|exact Hh].
      + right. exists b, k. rewrite tget_tset_same. now f_equal.
    - intros b' k n. rewrite tget_tset. destruct (Z.eqb b b') eqn:E.
      + intros Hit. inversion Hit. eapply Hiss; eauto.
      + intros Hit. destruct (inv_issued _ _ _ _ _ I _ _ _ Hit) as (i & Hi & Hn).
        exists i. split; [lia|exact Hn].
    - intros b' b'' k k' n. rewrite !tget_tset.
      destruct (Z.eqb b b') eqn:E1; destruct (Z.eqb b b'') eqn:E2.
      + apply Z.eqb_eq in E1, E2. congruence.
      + apply Z.eqb_eq in E1. apply Z.eqb_neq in E2. subst b'.
        intros Hit Hit'. inversion Hit. exfalso. eapply (Hdist k n); eauto.
      + apply Z.eqb_eq in E2. apply Z.eqb_neq in E1. subst b''.
        intros Hit' Hit. inversion Hit. exfalso. eapply (Hdist k' n); eauto.
      + apply (inv_distinct _ _ _ _ _ I).
  Qed.

  (* ------------------------------------------------------------------------------------ *)
  (* the adversary *)
  Lemma damaged_tamper : forall t f n h,
      intact f n h \/ damaged f n h ->
      intact (apply_tamper f t) n h \/ damaged (apply_tamper f t) n h.
  Proof.
    intros [m|m k] f n h Hs; unfold intact, damaged in *.
    - cbn. rewrite fs_get_remove. destruct (N.eqb m n); [right; now left|exact Hs].
    - rewrite fs_get_trunc. destruct (N.eqb n m); [|exact Hs].
      destruct Hs as [Hi|[Hn|(j & Hj & Hp)]].
      + rewrite Hi. cbn. destruct (Nat.ltb k (length (encode o h))) eqn:E.
        * apply Nat.ltb_lt in E. right. right. exists k. auto.
        * apply Nat.ltb_ge in E. left. now rewrite firstn_all2.
      + rewrite Hn. right. now left.
      + rewrite Hp. cbn. right. right. exists (Nat.min k j). split; [lia|].
        now rewrite firstn_firstn.
  Qed.

  Lemma inv_tamper1 : forall t stt b1 f ni b0,
      strict = false -> Inv stt b1 f ni b0 -> Inv stt b1 (apply_tamper f t) ni b0.
  Proof.
    intros t stt b1 f ni b0 Hs I. constructor.
    - apply (inv_keys1 _ _ _ _ _ I).
    - apply (inv_keys0 _ _ _ _ _ I).
    - intros b it Hit. destruct (inv_rel _ _ _ _ _ I _ _ Hit) as (s & hib & Ha & Hb & Hc).
      exists s, hib. repeat split; try assumption.
      destruct it as [s'|h|k n]; cbn in *; try exact Hc.
      destruct Hc as (Hh & h & Hk & Hd & Hi). split; [exact Hh|]. exists h. repeat split; try assumption.
      assert (Hx : intact f n h \/ damaged f n h) by (destruct Hi as [Hi|[_ Hi]]; auto).
      destruct (damaged_tamper t _ _ _ Hx); auto.
    - intros n Hn. apply fs_mem_tamper in Hn. apply (inv_held _ _ _ _ _ I _ Hn).
    - apply (inv_issued _ _ _ _ _ I).
    - apply (inv_distinct _ _ _ _ _ I).
  Qed.

  Lemma inv_tampers : forall ts stt b1 f ni b0,
      (strict = true -> ts = []) -> Inv stt b1 f ni b0 -> Inv stt b1 (apply_tampers f ts) ni b0.
  Proof.
    intros ts stt b1 f ni b0 Hs I. destruct strict eqn:E.
    - rewrite (Hs eq_refl). exact I.
    - clear Hs. revert f I. induction ts as [|t ts IH]; intros f I; cbn; [exact I|].
      apply IH. now apply inv_tamper1.
  Qed.

  (* no collision: the name the oracle hands out next is not in the directory *)
  Lemma inv_next_name_free : forall stt b1 f ni b0,
      Inv stt b1 f ni b0 -> fs_mem (io_name (io ni)) f = false.
  Proof.
    intros stt b1 f ni b0 I. destruct (fs_mem (io_name (io ni)) f) eqn:E; [|reflexivity].
    destruct (inv_held _ _ _ _ _ I _ E) as [Hl|(b & k & Hh)].
    - now rewrite names_new in Hl.
    - destruct (inv_issued _ _ _ _ _ I _ _ _ Hh) as (i & Hi & Hn).
      apply names_inj in Hn. lia.
  Qed.
End Inv.
