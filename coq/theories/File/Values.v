(* Values of a tracker state line by line: sval s i (the value governing line i), the specification of an
   edit as a function on line numbers (spec_val), the decomposition of a well-formed state around the
   origin node, and the uint32-free forms of the "insertions only" and "finish" blocks. *)
From Coq Require Import List ZArith Lia Bool.
Import ListNotations.
From Herc Require Import File.Model File.Spec File.NodeLists File.Locate File.DelLoop.
Open Scope Z_scope.

Definition WF2 (s : list node) : Prop := inc (-1) s /\ vlast 0 s = TreeEnd /\ exists v r, s = (0, v) :: r.

Definition spec_val (s : list node) (t P ins del i : Z) : Z :=
  if i <? P then sval s i else if i <? P + ins then t else sval s (i - ins + del).

Ltac zb :=
  repeat match goal with
  | |- context [?a <? ?b] => destruct (Z.ltb_spec a b)
  | |- context [?a =? ?b] => destruct (Z.eqb_spec a b)
  | |- context [?a <=? ?b] => destruct (Z.leb_spec a b)
  | |- context [?a >? ?b] => destruct (Z.gtb_spec a b)
  | |- context [?a >=? ?b] => destruct (Z.geb_spec a b)
  end.

Lemma last_opt_app L x : last_opt (L ++ [x]) = Some x.
Proof. unfold last_opt. rewrite rev_app_distr. reflexivity. Qed.

Lemma last_opt_nil : last_opt [] = None. Proof. reflexivity. Qed.

Lemma last_opt_vlast L p v : last_opt L = Some p -> vlast v L = snd p /\ forall k, klast k L = fst p.
Proof.
  unfold last_opt. intros H. destruct (rev L) as [|x l] eqn:E; [discriminate|]. inversion H; subst.
  assert (L = rev l ++ [p]) by (rewrite <- (rev_involutive L), E; reflexivity). subst L.
  destruct p as [a b]. split; [rewrite vlast_app|intros; rewrite klast_app]; reflexivity.
Qed.

Lemma last_opt_none L : last_opt L = None -> L = [].
Proof.
  unfold last_opt. destruct (rev L) eqn:E; [|discriminate]. intros _.
  rewrite <- (rev_involutive L), E. reflexivity.
Qed.

(* decomposition facts *)
Lemma inc_decomp L o R : inc (-1) (L ++ o :: R) ->
  inc (-1) L /\ klast (-1) L < fst o /\ inc (fst o) R.
Proof. destruct o as [ok ov]. intros H. apply inc_app in H. simpl in H. tauto. Qed.

(* value of the original state below the origin's successor *)
Lemma sval_left L ok ov R i : inc (-1) (L ++ (ok, ov) :: R) -> first_gt i R ->
  sval (L ++ (ok, ov) :: R) i =
    if i <? klast (-1) L then vfrom 0 L i else if i <? ok then vlast 0 L else ov.
Proof.
  intros H Hg. unfold sval. rewrite (vfrom_app _ _ _ _ (-1)) by auto.
  destruct (inc_decomp _ _ _ H) as (H1 & H2 & H3). simpl in *.
  destruct (Z.ltb_spec i (klast (-1) L)); auto.
  destruct (Z.ltb_spec i ok); auto.
  destruct R as [|[k w] R']; simpl; auto. simpl in Hg. destruct (Z.ltb_spec i k); auto. lia.
Qed.

(* value of the original state at or after the end of the deleted range *)
Lemma sval_right L ok ov D S j : inc (-1) (L ++ (ok, ov) :: D ++ S) ->
  klast ok D <= j ->
  sval (L ++ (ok, ov) :: D ++ S) j = vfrom (vlast ov D) S j.
Proof.
  intros H Hj. unfold sval. destruct (inc_decomp _ _ _ H) as (H1 & H2 & H3). simpl in *.
  apply inc_app in H3. destruct H3 as [H3 H4]. pose proof (klast_ge _ _ H3).
  rewrite (vfrom_app _ _ _ _ (-1)) by auto.
  destruct (Z.ltb_spec j (klast (-1) L)); [lia|]. simpl.
  destruct (Z.ltb_spec j ok); [lia|].
  rewrite (vfrom_app _ _ _ _ ok) by (apply inc_app; auto).
  destruct (Z.ltb_spec j (klast ok D)); [lia|]. reflexivity.
Qed.

Lemma vfrom_first_gt v R j P : first_gt P R -> j <= P -> vfrom v R j = v.
Proof. destruct R as [|[k w] R']; simpl; auto. intros. destruct (Z.ltb_spec j k); auto. lia. Qed.

(* sval of a list of the shape L ++ (k1,w1) :: tail, for i >= 0 *)
Lemma sval_L_cons L k1 w1 tl i : inc (-1) (L ++ (k1, w1) :: tl) ->
  sval (L ++ (k1, w1) :: tl) i =
    if i <? klast (-1) L then vfrom 0 L i else if i <? k1 then vlast 0 L else vfrom w1 tl i.
Proof.
  intros H. unfold sval. rewrite (vfrom_app _ _ _ _ (-1)) by auto. simpl. reflexivity.
Qed.

Lemma klast_shift_ne k0 k1 R d : R <> [] -> klast k0 (shift d R) = klast k1 R + d.
Proof. destruct R as [|[k w] R']; [congruence|]. intros _. simpl. apply (klast_shift k R' d). Qed.

Lemma vlast_ne v w R : R <> [] -> vlast v R = vlast w R.
Proof. destruct R as [|[k x] R']; [congruence|]. reflexivity. Qed.


Lemma last_fst_snd D ok ov : fst (last D (ok, ov)) = klast ok D /\ snd (last D (ok, ov)) = vlast ov D.
Proof.
  revert ok ov; induction D as [|[k w] D IH]; intros ok ov; [simpl; auto|].
  destruct D as [|[k' w'] D']; [simpl; auto|]. specialize (IH ok ov). simpl in *. exact IH.
Qed.

Lemma take_lt_inc q s k0 : inc k0 s -> inc k0 (take_lt q s).
Proof.
  revert k0; induction s as [|[k v] r IH]; simpl; intros k0 H; auto.
  destruct H. destruct (k <? q); simpl; auto.
Qed.

Lemma drop_nil_klast q s k0 : inc k0 s -> k0 < q -> drop_lt q s = [] -> klast k0 s < q.
Proof.
  revert k0; induction s as [|[k v] r IH]; simpl; intros k0 H Hk E; auto.
  destruct H. destruct (Z.ltb_spec k q); [|discriminate]. auto.
Qed.

Lemma take_all_or_first q s : take_lt q s = [] -> first_gt (q - 1) s.
Proof. destruct s as [|[k v] r]; simpl; auto. destruct (Z.ltb_spec k q); [discriminate|]. intros; lia. Qed.

(* the kept left part after the loop *)
Section LeftPart.
Variables (L R : list node) (ok ov P : Z).
Hypothesis Hinc : inc (-1) (L ++ (ok, ov) :: R).
Hypothesis Hok : ok <= P.
Hypothesis Hgt : first_gt P R.
Hypothesis Hzero : exists v r, L ++ (ok, ov) :: R = (0, v) :: r.
Let LL := if ok <? P then L ++ [(ok, ov)] else L.

Lemma LL_inc : inc (-1) LL.
Proof.
  destruct (inc_decomp _ _ _ Hinc) as (H1 & H2 & H3). unfold LL.
  destruct (ok <? P); auto. apply inc_app. simpl. auto.
Qed.

Lemma LL_klast : klast (-1) LL < P.
Proof.
  destruct (inc_decomp _ _ _ Hinc) as (H1 & H2 & H3). unfold LL. simpl in *.
  destruct (Z.ltb_spec ok P); [rewrite klast_app; simpl; lia| lia].
Qed.

Lemma LL_nil : LL = [] -> P = 0.
Proof.
  unfold LL. destruct (Z.ltb_spec ok P).
  - destruct L; simpl; discriminate.
  - intros ->. destruct Hzero as (v & r & E). simpl in E. inversion E. lia.
Qed.

Lemma LL_head : LL <> [] -> forall X, exists v r, LL ++ X = (0, v) :: r.
Proof.
  intros H X. destruct Hzero as (v & r & E). unfold LL in *.
  destruct (ok <? P).
  - destruct L as [|x L']; simpl in *; inversion E; subst; eauto.
  - destruct L as [|x L']; [congruence|]. simpl in *. inversion E; subst; eauto.
Qed.

Lemma LL_val i : 0 <= i < P ->
  sval (L ++ (ok, ov) :: R) i = if i <? klast (-1) LL then vfrom 0 LL i else vlast 0 LL.
Proof.
  intros Hi. destruct (inc_decomp _ _ _ Hinc) as (H1 & H2 & H3). simpl in *.
  rewrite sval_left by (auto; destruct R as [|[k w] R']; simpl in *; auto; lia).
  unfold LL. destruct (Z.ltb_spec ok P).
  - rewrite klast_app, vlast_app. simpl.
    rewrite (vfrom_app _ _ _ _ (-1)) by (apply inc_app; simpl; auto). simpl.
    zb; auto; lia.
  - assert (ok = P) by lia. subst. zb; auto; lia.
Qed.
End LeftPart.

Lemma last_opt_cases (L : list node) : (L = [] /\ last_opt L = None) \/
  (exists p, last_opt L = Some p /\ (forall v, vlast v L = snd p) /\ (forall k, klast k L = fst p) /\ L <> []).
Proof.
  destruct (last_opt L) as [p|] eqn:E.
  - right. exists p. destruct (last_opt_vlast L p 0 E) as [_ Hk].
    repeat split; auto.
    + intros v. apply (last_opt_vlast L p v E).
    + intros ->. discriminate.
  - left. split; auto. apply last_opt_none; auto.
Qed.

Lemma first_gt_klast P D X k0 : first_gt P (D ++ X) -> D <> [] -> inc k0 D -> P < klast k0 D.
Proof.
  destruct D as [|[k v] D']; [congruence|]. simpl. intros H _ [_ H2].
  pose proof (klast_ge _ _ H2). lia.
Qed.

Ltac fin := zb; try (exfalso; lia); auto; try (f_equal; lia).


Lemma inc_nonneg_nil (LL : list node) P : inc (-1) LL -> klast (-1) LL < P -> P = 0 -> LL = [].
Proof.
  destruct LL as [|[k v] r]; auto. simpl. intros [H1 H2] H3 ->. pose proof (klast_ge _ _ H2). lia.
Qed.


(* ---------- well-formedness with and without the uint32 bound ---------- *)
Lemma WF_WF2 s : WF s -> WF2 s.
Proof. unfold WF, WF2. tauto. Qed.
Lemma WF2_WF s : WF2 s -> len s <= MaxU32 -> WF s.
Proof. unfold WF, WF2. tauto. Qed.
Lemma len_slen s : len s = slen s.
Proof. reflexivity. Qed.

(* ---------- the blocks without uint32 casts ---------- *)
Definition ins_only_i (t pos ins : Z) (L : list node) (origin : node) (rest : list node) : list node :=
  let base := if (fst origin <? pos) || (snd origin =? t)
              then L ++ origin :: shift ins rest
              else L ++ shift ins (origin :: rest) in
  if snd origin =? t then base else
    let s2 := insert pos t base in
    if fst origin <? pos then insert (pos + ins) (snd origin) s2 else s2.

Definition finish_i (t pos ins del : Z) (prevOrigin : node) (previous : option node)
           (before after : list node) (origin2 : node) : list node :=
  let delta := ins - del in
  let s3 := before ++ shift delta after in
  let okey := if fst origin2 >? pos then fst origin2 + delta else fst origin2 in
  if ins >? 0 then
    if negb (snd origin2 =? t) then insert (pos + ins) (snd origin2) s3
    else if pos =? 0 then insert pos t s3 else s3
  else
    if ((pos >? okey) && (match previous with Some p => negb (snd p =? snd origin2) | None => false end))
       || ((pos =? okey) && negb (snd origin2 =? snd prevOrigin)) || (pos =? 0)
    then insert pos (snd origin2) s3 else s3.

Definition prepare_i (t pos ins del : Z) (origin1 : node) (L1 : list node) (r : node) (right_rest : list node)
  : list node * list node * node :=
  if (ins >? 0) && (negb (snd origin1 =? t) || (fst origin1 >=? pos)) then
    if (snd r =? t) && (fst r - del =? pos) then
      match last_opt L1 with
      | Some p =>
        if snd p =? t then (L1, right_rest, (fst origin1, t))
        else (L1 ++ [(pos, snd r)], right_rest, (fst origin1, t))
      | None => ([(pos, snd r)], right_rest, (fst origin1, t))
      end
    else (L1 ++ [(pos, t)], r :: right_rest, origin1)
  else (L1, r :: right_rest, origin1).

Lemma ins_only_eq t pos ins L origin rest hi :
  0 <= t <= MaxU32 -> 0 <= pos <= MaxU32 -> 0 <= ins -> fst origin <= pos ->
  keys_in 0 hi (origin :: rest) -> hi + ins <= MaxU32 -> pos <= hi ->
  ins_only t pos ins L origin rest = ins_only_i t pos ins L origin rest.
Proof.
  intros Ht Hp Hi Ho Hk Hhi Hph. unfold ins_only, ins_only_i.
  rewrite (u32_id t Ht), (u32_id pos Hp), (u32_id ins) by lia. rewrite (u32_id (pos + ins)) by lia.
  rewrite (shift32_eq ins 0 hi (origin :: rest)) by (auto; lia).
  rewrite (shift32_eq ins 0 hi rest) by (try lia; eapply keys_in_tail; eauto).
  replace ((fst origin <? pos) || ((snd origin =? t) && ((pos =? 0) || (pos =? fst origin)))) with
    ((fst origin <? pos) || (snd origin =? t)).
  2:{ destruct origin as [ok ov]; cbn [fst snd] in *. destruct (ov =? t); cbn [andb]; auto.
      destruct (Z.ltb_spec ok pos), (Z.eqb_spec pos 0), (Z.eqb_spec pos ok); cbn [orb]; auto; exfalso; lia. }
  destruct (snd origin =? t); reflexivity.
Qed.

Lemma finish_eq t pos ins del prevOrigin previous before after origin2 lo hi :
  0 <= t <= MaxU32 -> 0 <= pos <= MaxU32 -> 0 <= pos + ins <= MaxU32 ->
  keys_in lo hi after -> 0 <= lo + (ins - del) -> hi + (ins - del) <= MaxU32 ->
  finish t pos ins del prevOrigin previous before after origin2 =
  finish_i t pos ins del prevOrigin previous before after origin2.
Proof.
  intros Ht Hp Hpi Hk Hlo Hhi. unfold finish, finish_i. cbv zeta.
  rewrite (u32_id t Ht), (u32_id pos Hp), (u32_id (pos + ins) Hpi).
  replace (if ins - del =? 0 then before ++ after else before ++ shift32 (ins - del) after)
    with (before ++ shift (ins - del) after).
  2:{ destruct (Z.eqb_spec (ins - del) 0) as [E|E].
      - rewrite E, shift_0. reflexivity.
      - rewrite (shift32_eq _ lo hi) by auto. reflexivity. }
  replace (if negb (ins - del =? 0) && (fst origin2 >? pos) then fst origin2 + (ins - del) else fst origin2)
    with (if fst origin2 >? pos then fst origin2 + (ins - del) else fst origin2).
  2:{ destruct (Z.eqb_spec (ins - del) 0) as [E|E]; cbn [negb andb]; auto.
      rewrite E. destruct (fst origin2 >? pos); lia. }
  reflexivity.
Qed.

Lemma prepare_eq t pos ins del origin1 L1 r right_rest :
  0 <= t <= MaxU32 -> 0 <= pos <= MaxU32 ->
  prepare t pos ins del origin1 L1 r right_rest = prepare_i t pos ins del origin1 L1 r right_rest.
Proof.
  intros Ht Hp. unfold prepare, prepare_i. rewrite (u32_id t Ht), (u32_id pos Hp).
  destruct (last_opt L1) as [p|]; auto. destruct (snd p =? t); reflexivity.
Qed.

(* rewriting under the let-pattern of update_body *)
Lemma let3_ext {A B C D} (X : A * B * C) (f g : A -> B -> C -> D) :
  (forall a b c, X = (a, b, c) -> f a b c = g a b c) ->
  (let '(a, b, c) := X in f a b c) = (let '(a, b, c) := X in g a b c).
Proof. destruct X as [[a b] c]. intros H. apply H. reflexivity. Qed.

(* the nodes after the iterator are a suffix of what the deletion loop left *)
Lemma prepare_i_after t pos ins del origin1 L1 r right_rest b a o :
  prepare_i t pos ins del origin1 L1 r right_rest = (b, a, o) -> a = r :: right_rest \/ a = right_rest.
Proof.
  unfold prepare_i.
  repeat match goal with
  | |- context [if ?c then _ else _] => destruct c
  | |- context [match last_opt ?l with _ => _ end] => destruct (last_opt l)
  end; intros H; inversion H; auto.
Qed.

Lemma keys_in_weaken lo hi lo' hi' s : keys_in lo hi s -> lo' <= lo -> hi <= hi' -> keys_in lo' hi' s.
Proof. induction s as [|[a b] r IH]; simpl; auto. intros [H1 H2] Hl Hh. split; [lia|auto]. Qed.

(* "prepare" + "finish" without casts, as they appear in update_body *)
Lemma body_tail_eq t pos ins del prevOrigin prev origin1 L1 r rr (reps : list delta_rec) lo hi :
  0 <= t <= MaxU32 -> 0 <= pos <= MaxU32 -> 0 <= pos + ins <= MaxU32 ->
  keys_in lo hi (r :: rr) -> 0 <= lo + (ins - del) -> hi + (ins - del) <= MaxU32 ->
  (let '(b, a, o) := prepare t pos ins del origin1 L1 r rr in
   Ok (finish t pos ins del prevOrigin prev b a o, reps)) =
  (let '(b, a, o) := prepare_i t pos ins del origin1 L1 r rr in
   Ok (finish_i t pos ins del prevOrigin prev b a o, reps)).
Proof.
  intros Ht Hp Hpi Hk Hlo Hhi. rewrite (prepare_eq t pos ins del origin1 L1 r rr Ht Hp).
  apply (let3_ext (prepare_i t pos ins del origin1 L1 r rr)
           (fun b a o => Ok (finish t pos ins del prevOrigin prev b a o, reps))
           (fun b a o => Ok (finish_i t pos ins del prevOrigin prev b a o, reps))).
  intros b a o E. f_equal. f_equal. apply (finish_eq _ _ _ _ _ _ _ _ _ lo hi); auto.
  destruct (prepare_i_after _ _ _ _ _ _ _ _ _ _ _ E) as [-> | ->]; auto.
  eapply keys_in_tail; eauto.
Qed.
