Require Extraction.
Require Import ExtrOcamlBasic.
From Herc Require Import Base.Conv LineStats.Model.
Extraction "c12_model.ml" conv_anchor line_stats lsc_consume step_stats devs_run devs_result commits_run replay_ok
  once_ok no_del_del canonical inserted deleted langs_sum_ok conserve_ok count_commit single_branch.
