(* The abstract analysis run on a declarative history: the canonical edit scripts of a conflict-free
   history and an executable validator for run plans ("every commit is replayed on exactly its own
   ancestry, merge commits on each non-redundant parent branch and then merged once").
   Definitions only.  The validator is what C02 proves of the real planner; here it is also evaluated on
   the plan the pipeline really used (translation validation per case), so C01's theorems apply to a
   case without depending on C02. *)
From Coq Require Import List ZArith Lia Bool.
From Herc Require Import Burndown.Base Burndown.Dense Burndown.Lifetimes Burndown.Analysis.
Import ListNotations.
Open Scope Z_scope.

(* ---------- canonical scripts ---------- *)
(* status of a line of the global sequence between the old commit (None = empty tree) and the new one *)
Inductive lstat := LKeep | LDel | LIns | LNone.
Definition old_alive (A : list (list bool)) (last : option Z) (l : line) : bool :=
  match last with None => false | Some o => aliveb A o l end.
Definition lstatus (A : list (list bool)) (last : option Z) (c : Z) (l : line) : lstat :=
  match old_alive A last l, aliveb A c l with
  | true, true => LKeep
  | true, false => LDel
  | false, true => LIns
  | false, false => LNone
  end.

(* hunks "Eq k; Del d; Ins i": the deletions and insertions between two kept lines are gathered,
   deletions first (diffmatchpatch's canonical order).  o / n: the line is in the old / new version. *)
Fixpoint hunks3 (o n : line -> bool) (seq : list line) (k d i : Z) : list (Z * Z * Z) :=
  match seq with
  | [] => [(k, d, i)]
  | l :: r =>
      match o l, n l with
      | true, true => if 0 <? d + i then (k, d, i) :: hunks3 o n r 1 0 0 else hunks3 o n r (k + 1) 0 0
      | true, false => hunks3 o n r k (d + 1) i
      | false, true => hunks3 o n r k d (i + 1)
      | false, false => hunks3 o n r k d i
      end
  end.
Definition flat_hunks (ts : list (Z * Z * Z)) : list (dop * Z) :=
  flat_map (fun kdi => [(DEq, fst (fst kdi)); (DDel, snd (fst kdi)); (DIns, snd kdi)]) ts.
Definition hunks (A : list (list bool)) (last : option Z) (c : Z) (seq : list line) (k d i : Z) : list (dop * Z) :=
  flat_hunks (hunks3 (old_alive A last) (aliveb A c) seq k d i).

Definition old_exists (A : list (list bool)) (last : option Z) (seq : list line) : bool :=
  match last with None => false | Some o => path_exists A o seq end.

Definition change_of_path (A : list (list bool)) (last : option Z) (c : Z) (p : Z) (seq : list line) : list change :=
  let oldn := Z.of_nat (length (filter (old_alive A last) seq)) in
  let newn := Z.of_nat (length (content A c seq)) in
  match old_exists A last seq, path_exists A c seq with
  | false, false => []
  | false, true => [CInsert p newn]
  | true, false => [CDelete p oldn]
  | true, true =>
      if forallb (fun l => match lstatus A last c l with LDel | LIns => false | _ => true end) seq then []
      else [CModify p oldn newn (hunks A last c seq 0 0 0)]
  end.

(* the path is touched by the replay (its change list is not empty) *)
Definition touched (A : list (list bool)) (last : option Z) (c : Z) (seq : list line) : bool :=
  match old_exists A last seq, path_exists A c seq with
  | false, false => false
  | true, true => negb (forallb (fun l => match lstatus A last c l with LDel | LIns => false | _ => true end) seq)
  | _, _ => true
  end.

Definition changes_of (h : hist) (A : list (list bool)) (last : option Z) (c : Z) : list change :=
  flat_map (fun pl => change_of_path A last c (fst pl) (snd pl)) (h_paths h).

(* aidx: people index of the author of commit i (the identity detector's numbering) *)
Definition run_hist (cf : cfg) (h : hist) (aidx : list Z) (plan : list action) : result world :=
  let A := ancs h in
  run cf (fun c => znth 0 aidx c) (tick_of h) (changes_of h A) plan.

(* ---------- plan validator ---------- *)
Fixpoint vec_eqb (a b : list bool) : bool :=
  match a, b with
  | [], [] => true
  | x :: a', y :: b' => Bool.eqb x y && vec_eqb a' b'
  | _, _ => false
  end.
Fixpoint vec_leb (a b : list bool) : bool :=
  match a, b with
  | [], [] => true
  | x :: a', y :: b' => implb x y && vec_leb a' b'
  | _, _ => false
  end.
Definition vec_get (v : list bool) (i : Z) : bool := znth false v i.
Definition vec_set (v : list bool) (i : Z) : list bool := if i <? 0 then v else setbit (Z.to_nat i) v.

Record pbranch := mkPB { pb_set : list bool; pb_last : option Z }.

Record pstate := mkPS {
  ps_live : list (Z * pbranch);
  ps_seen : list Z;                       (* every branch index ever used *)
  ps_done : list Z;                       (* commits whose contribution is complete *)
  ps_pend : option (Z * list Z)           (* merge commit being replayed, branches done so far *)
}.

Definition memz (x : Z) (l : list Z) : bool := existsb (Z.eqb x) l.
Definition subset_z (a b : list Z) : bool := forallb (fun x => memz x b) a.

Definition pstep (h : hist) (A : list (list bool)) (n : nat)
           (before_rev after : list action) (a : action) (s : pstate) : option pstate :=
  match a with
  | AHibernate _ | ABoot _ => Some s
  | AEmerge b =>
      match ps_pend s with
      | Some _ => None
      | None => if memz b (ps_seen s) then None
                else Some (mkPS (aset (ps_live s) b (mkPB (repeat false n) None)) (b :: ps_seen s) (ps_done s) None)
      end
  | ACommit c b =>
      match aget (ps_live s) b with
      | None => None
      | Some pb =>
          if negb (in_range (Z.of_nat n) c) || vec_get (pb_set pb) c || memz c (ps_done s) then None
          else
            let set' := vec_set (pb_set pb) c in
            let live' := aset (ps_live s) b (mkPB set' (Some c)) in
            if is_merge_at before_rev after c then
              (* merge mode: the branch's last commit is a parent, the group is contiguous *)
              (* ... and holds only ancestors of the merge commit, which has several parents *)
              let ok_parent := match pb_last pb with Some l => memz l (parents_of h c) | None => false end in
              if negb (ok_parent && vec_leb (pb_set pb) (znth [] A c) && (2 <=? Z.of_nat (length (parents_of h c)))) then None
              else match ps_pend s with
                   | None => Some (mkPS live' (ps_seen s) (ps_done s) (Some (c, [b])))
                   | Some (m, bs) => if (m =? c) && negb (memz b bs)
                                     then Some (mkPS live' (ps_seen s) (ps_done s) (Some (c, bs ++ [b])))
                                     else None
                   end
            else
              match ps_pend s with
              | Some _ => None
              | None =>
                  (* normal mode: afterwards the branch holds exactly the ancestry of c *)
                  if vec_eqb set' (znth [] A c) then Some (mkPS live' (ps_seen s) (c :: ps_done s) None) else None
              end
      end
  | AFork b bs =>
      match ps_pend s, aget (ps_live s) b with
      | None, Some pb =>
          if forallb (fun b' => negb (memz b' (ps_seen s))) bs && nodup_zb bs then
            Some (mkPS (fold_left (fun m b' => aset m b' pb) bs (ps_live s)) (bs ++ ps_seen s) (ps_done s) None)
          else None
      | _, _ => None
      end
  | AMerge bs =>
      match ps_pend s with
      | None => None
      | Some (m, rs) =>
          if negb (nodup_zb bs && subset_z bs rs && subset_z rs bs && (2 <=? Z.of_nat (length bs))) then None
          else
            let sets := map (fun b => match aget (ps_live s) b with Some pb => pb_set pb | None => [] end) bs in
            let u := fold_left orvec sets (repeat false n) in
            if vec_eqb u (znth [] A m) then
              Some (mkPS (fold_left (fun l b => aset l b (mkPB u (Some m))) bs (ps_live s)) (ps_seen s) (m :: ps_done s) None)
            else None
      end
  | ADelete b =>
      match ps_pend s, aget (ps_live s) b with
      | None, Some _ => Some (mkPS (adel (ps_live s) b) (ps_seen s) (ps_done s) None)
      | _, _ => None
      end
  end.

Fixpoint prun (h : hist) (A : list (list bool)) (n : nat) (before_rev plan : list action) (s : pstate) : option pstate :=
  match plan with
  | [] => Some s
  | a :: rest => match pstep h A n before_rev rest a s with
                 | Some s' => prun h A n (a :: before_rev) rest s'
                 | None => None
                 end
  end.

Definition pstate0 : pstate := mkPS [] [] [] None.

(* every commit accounted exactly once, nothing pending *)
Definition plan_okb (h : hist) (plan : list action) : bool :=
  let n := length (h_parents h) in
  match prun h (ancs h) n [] plan pstate0 with
  | None => false
  | Some s =>
      match ps_pend s with
      | Some _ => false
      | None => (Z.of_nat (length (ps_done s)) =? Z.of_nat n) && nodup_zb (ps_done s)
      end
  end.

(* the branch the result is taken from holds every commit (single head) *)
Definition master_all (h : hist) (plan : list action) : bool :=
  let n := length (h_parents h) in
  match prun h (ancs h) n [] plan pstate0 with
  | None => false
  | Some s =>
      match fold_left (fun acc kb => match acc with
                                     | None => Some kb
                                     | Some (k, _) => if fst kb <? k then Some kb else acc
                                     end) (ps_live s) None with
      | Some (_, pb) => forallb (fun x => x) (pb_set pb) && Nat.eqb (length (pb_set pb)) n
      | None => false
      end
  end.
