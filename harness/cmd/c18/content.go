package main

// Round 4: the CONTENT of the values the results are made of, and two features at once.
//
//   - names (files, developer names and e-mails, languages, pipeline item names) are byte strings: invalid UTF-8, U+FFFD as real
//     content next to invalid bytes, NFC / NFD, BOM, NUL, tabs, CR, NBSP / U+2028 / U+3000, case variants, path spellings, common
//     prefixes and suffixes, decimal widths (f9 / f09 / f10 ...).  Every case holds at least two names that a normalisation
//     (ToValidUTF8, ToLower, TrimSpace, path.Clean, NFC, a fixed-width key ...) would make EQUAL: the merge re-indexes BY NAME, so a
//     collapse shows as a sum that is not the sum of the inputs by name (cp_sum_b / dv_conserve_b / common_b, the identity-table judge).
//   - time: tick sizes other than 24 h (hours that do not divide the distance between Go's zero time and 1970, weeks, 30 days,
//     seconds, odd values) combined with begin times on both sides of the boundaries of BOTH tick grids (multiples of the tick counted
//     from year 1 = the grid of TicksSinceStart / FloorTime, and multiples counted from 1970), eras from 1960 to 2100 (before 1970,
//     around 2^31, after the wall clock).  For burndown the real mergeMatrices is observed through (align ...): where the value of
//     each input history lands (band and first sample) - judged in the driver against tick_offsets of the extracted model.
//   - pairs: every stream below also varies the identity class (literal / identities merge / bridge), the time stream of burndown also
//     the presence of histories and matrices.

import (
	"math/rand"
	"sort"

	. "verifharness/lib"
)

// groups of spellings that some plausible normalisation would identify
var fileGroups = [][]string{
	{"docs/caf\xe9.txt", "docs/caf\xe8.txt", "docs/caf\xef\xbf\xbd.txt", "docs/caf\xc3\xa9.txt", "docs/cafe\xcc\x81.txt", "docs/cafe.txt",
		"docs/caf\xc3.txt", "docs/caf\xe9\xe8.txt", "docs/caf\xc0\xaf.txt", "docs/caf\xed\xa0\x80.txt", "docs/caf.txt"},
	{"README.md", "readme.md", "Readme.MD", "ReadMe.md", "README.MD"},
	{"lib/a.py", "lib/a.py ", " lib/a.py", "lib/a.py\t", "lib/a.py\r", "lib/a.py\r\n", "lib/ a.py", "lib/a.py\xc2\xa0", "lib/a\xe2\x80\xa8.py",
		"lib/a\xe3\x80\x80.py", "lib/a .py", "lib/a\t.py"},
	{"\xef\xbb\xbfmain.go", "main.go", "main.go\x00", "ma\x00in.go", "\xef\xbb\xbf", "\xff\xfemain.go"},
	{"src/z.c", "src//z.c", "./src/z.c", "src/./z.c", "src\\z.c", "src/z.c/", "/src/z.c", "src/../src/z.c"},
	{"Makefile", "Makefile.am", "Makefil", "GNUMakefile", "Makefile~", "makefile", "Makefile.Makefile"},
	{"f9.go", "f09.go", "f10.go", "f11.go", "f99.go", "f100.go", "f101.go", "f999.go", "f1000.go", "f1001.go", "f010.go", "f1.go", "f01.go"},
	{"a(b).c", "a\"b\".c", "a\\b.c", "a b.c", "a|b.c", "a;b.c", "ab.c", "a\\x20b.c", "", " ", "a'b.c"},
}

var personGroups = [][]string{
	{"ann", "Ann", "ANN", "aNN"},
	{"bob", "bob ", " bob", "bob\t", "bo b", "bob\xc2\xa0", "bob\xe3\x80\x80", "bob\r", "bob\xe2\x80\xa8", "bo  b"},
	{"c\xffy", "c\xfey", "c\xef\xbf\xbdy", "c\xc3y", "c\xc0\xafy", "c\xed\xa0\x80y", "cy", "c\xff\xfey"},
	{"zo\xc3\xab", "zoe\xcc\x88", "zoe", "ZO\xc3\x8b", "zo\xeb"},
	{"\xef\xbb\xbfdee", "dee", "de\x00e", "dee\x00"},
	{"eve", "eve2", "ev", "steve", "eve eve", "e.v.e"},
	{"gus9", "gus09", "gus10", "gus99", "gus100", "gus101", "gus999", "gus1000", "gus1001"},
}

var mailGroups = [][]string{
	{"a@x.io", "A@x.io", "a@X.IO", "a@x.io ", " a@x.io", "a@x.io\r", "<a@x.io>", "a+tag@x.io", "a@x.io."},
	{"1234+ann@users.noreply.github.com", "ann@users.noreply.github.com", "12345+ann@users.noreply.github.com", "1234+Ann@users.noreply.github.com",
		"234+ann@users.noreply.github.com"},
	{"b\xff@y.org", "b\xfe@y.org", "b\xef\xbf\xbd@y.org", "b@y.org", "b\xc3@y.org"},
	{"c@z.net", "c@z.net\x00", "\xef\xbb\xbfc@z.net", "c@z.ne", "cc@z.net", "c@zz.net"},
	{"d9@w.de", "d09@w.de", "d10@w.de", "d99@w.de", "d100@w.de", "d101@w.de", "d1000@w.de", "d1001@w.de"},
}

var langGroups = [][]string{
	{"Go", "go", "GO", "Go ", " Go", "\xef\xbb\xbfGo", "Go\x00"},
	{"C", "C++", "c", "C#", "C\xff", "C\xfe", "C\xef\xbf\xbd", "C "},
	{"", " ", "\t", "\xc2\xa0"},
	{"Python", "python", "Python3", "Pytho", "Python\r"},
	{"Objective-C", "Objective C", "Objective-C++", "objective-c"},
}

var itemGroups = [][]string{
	{"Burndown", "burndown", "Burndown ", "Burn\xffdown", "Burn\xfedown", "Burn\xef\xbf\xbddown", "BurndownAnalysis", "Burndow"},
	{"Devs", "DevS", "devs", "Devs\x00", "Dev"},
	{"Couples", "Couples2", "Couple", "couples", "\xef\xbb\xbfCouples"},
	{"", " ", "TreeDiff", "treediff", "Tree Diff"},
}

// confusable draws about n spellings: whole runs out of a few groups, so that names which differ only in the bytes a
// normalisation would touch occur TOGETHER.
func confusable(r *rand.Rand, groups [][]string, n int) []string {
	res := []string{}
	seen := map[string]bool{}
	for _, gi := range r.Perm(len(groups)) {
		if len(res) >= n {
			break
		}
		g := groups[gi]
		k := 2 + r.Intn(3)
		for _, i := range r.Perm(len(g)) {
			if k == 0 || len(res) >= n {
				break
			}
			if !seen[g[i]] {
				seen[g[i]] = true
				res = append(res, g[i])
				k--
			}
		}
	}
	return res
}

// peoplePairConfusable: identity lists whose parts come from the confusable pools.
func peoplePairConfusable(r *rand.Rand, mode, maxIds int) ([]string, []string) {
	sn, sm := nameParts, mailParts
	defer func() { nameParts, mailParts = sn, sm }()
	names := confusable(r, personGroups, 7)
	mails := confusable(r, mailGroups, 7)
	// "" is not a part (an identity is never empty); pad from the plain pools
	for i := 0; len(names) < 7; i++ {
		names = append(names, sn[i]+"_")
	}
	for i := 0; len(mails) < 7; i++ {
		mails = append(mails, "_"+sm[i])
	}
	r.Shuffle(len(names), func(i, j int) { names[i], names[j] = names[j], names[i] })
	r.Shuffle(len(mails), func(i, j int) { mails[i], mails[j] = mails[j], mails[i] })
	nameParts, mailParts = names, mails
	return peoplePair(r, mode, maxIds)
}

func somePeople(r *rand.Rand, mode, maxIds int) ([]string, []string) {
	if r.Intn(2) == 0 {
		return peoplePairConfusable(r, mode, maxIds)
	}
	return peoplePair(r, mode, maxIds)
}

// two file lists out of one confusable pool: partially overlapping, at least one confusable pair in the union
func genFilesConfusable(r *rand.Rand) ([]string, []string) {
	pool := confusable(r, fileGroups, 4+r.Intn(6))
	pick := func() []string {
		res := []string{}
		for _, i := range r.Perm(len(pool)) {
			if r.Intn(5) < 3 {
				res = append(res, pool[i])
			}
		}
		return res
	}
	f1, f2 := pick(), pick()
	switch r.Intn(6) {
	case 0: // the two spellings of one group face each other: one in each result, same position
		f1 = append([]string{pool[0]}, without(f1, pool[0], pool[1])...)
		f2 = append([]string{pool[1]}, without(f2, pool[0], pool[1])...)
	case 1: // both in the first result only
		f1 = append(without(f1, pool[0], pool[1]), pool[0], pool[1])
		f2 = without(f2, pool[0], pool[1])
	}
	return f1, f2
}

func without(l []string, xs ...string) []string {
	res := []string{}
	for _, s := range l {
		keep := true
		for _, x := range xs {
			if s == x {
				keep = false
			}
		}
		if keep {
			res = append(res, s)
		}
	}
	return res
}

// ---------------------------------------------------------------------------------------------
// time

const zeroToUnix = int64(62135596800) // seconds from Go's zero time to 1970

// tick sizes in seconds: the default and its divisors (immune to grid confusions), hours that do not divide the 17 259 888 hours between
// the two epochs, weeks and months (what --tick-size is used for), decimal widths, seconds, odd values
var timeTicks = []int64{24 * 3600, 168 * 3600, 168 * 3600, 720 * 3600, 3600, 2 * 3600, 5 * 3600, 7 * 3600, 9 * 3600, 10 * 3600, 11 * 3600,
	13 * 3600, 25 * 3600, 48 * 3600, 99 * 3600, 100 * 3600, 101 * 3600, 336 * 3600, 1, 60, 999, 1000, 1001, 90061, 604801, 12 * 3600}

var eras = []int64{-300000000, 3 * 86400, 1000000000, 1500000000, 1547000000, 1 << 31, 2500000000, 4102444800}

func floorDiv(a, b int64) int64 {
	q := a / b
	if a%b != 0 && (a < 0) != (b < 0) {
		q--
	}
	return q
}

// genCommonPairTime: two summaries whose begin times lie within a tick of a boundary of one of the two tick grids
// (year-1 grid: what FloorTime / TicksSinceStart use; 1970 grid: what a division of Unix seconds uses), each result at
// least one whole tick long.
func genCommonPairTime(r *rand.Rand, d int64) (Common, Common) {
	base := eras[r.Intn(len(eras))] + int64(r.Intn(400))*day + int64(r.Intn(int(day)))
	var p int64
	if r.Intn(2) == 0 {
		p = floorDiv(base, d) * d
	} else {
		p = floorDiv(base+zeroToUnix, d)*d - zeroToUnix
	}
	span := d
	if span < 3 {
		span = 3
	}
	delta := func() int64 {
		switch r.Intn(4) {
		case 0: // right at the boundary
			return int64(r.Intn(7)) - 3
		case 1: // up to half a tick around it
			return r.Int63n(span+1) - span/2
		default:
			return r.Int63n(2*span+1) - span
		}
	}
	b1 := p + delta()
	b2 := p + delta()
	switch r.Intn(8) {
	case 0:
		b2 = b1
	case 1:
		b2 = b1 + int64(1+r.Intn(3))*d // whole ticks apart
	case 2:
		b2 = b1 - int64(1+r.Intn(3))*d
	}
	if b1 == 0 {
		b1 = 1
	}
	if b2 == 0 {
		b2 = -1
	}
	mk := func(b int64) Common {
		e := b + d + r.Int63n(3*span+1)
		if e == 0 {
			e = 1
		}
		return Common{Begin: b, End: e, Commits: r.Intn(1000), Runtime: int64(r.Intn(1000000)) * 1000000, Items: []string{}}
	}
	return mk(b1), mk(b2)
}

func genBurndownTimeCase(r *rand.Rand, mode int) (string, input) {
	var rd1, rd2 []string
	if mode == 0 && r.Intn(3) == 0 {
		rd1, rd2 = peoplePairConfusable(r, 0, 5)
	} else {
		rd1, rd2 = peoplePair(r, mode, 5)
	}
	in := input{an: "burndown", stream: "r4-time"}
	d := timeTicks[r.Intn(len(timeTicks))]
	in.c1, in.c2 = genCommonPairTime(r, d)
	ts := d * 1000000000
	pm1, pm2 := true, true
	switch r.Intn(20) {
	case 0:
		pm1, pm2 = false, false
	case 1:
		pm2 = false
	}
	in.bd[0] = genBurndown(r, rd1, ts, 0, r.Intn(8) != 0, true, pm1)
	in.bd[1] = genBurndown(r, rd2, ts, 1, r.Intn(8) != 0, true, pm2)
	return "bd-" + classify(rd1, rd2), in
}

var widthTicks = []int{0, 1, 9, 10, 11, 99, 100, 101, 999, 1000, 1001}

func genDevsTimeCase(r *rand.Rand, mode int) (string, input) {
	rd1, rd2 := somePeople(r, mode, 4)
	in := input{an: "devs", stream: "r4-time"}
	d := timeTicks[r.Intn(len(timeTicks))]
	in.c1, in.c2 = genCommonPairTime(r, d)
	in.dv[0] = genDevs(r, rd1, d*1000000000, false)
	in.dv[1] = genDevs(r, rd2, d*1000000000, false)
	if r.Intn(3) == 0 { // tick numbers at the decimal widths
		for k := range in.dv {
			perm := r.Perm(len(widthTicks))[:len(in.dv[k].Ticks)]
			sort.Ints(perm)
			for i := range in.dv[k].Ticks {
				in.dv[k].Ticks[i].Tick = widthTicks[perm[i]]
			}
		}
	}
	return "dv-" + classify(rd1, rd2), in
}

// ---------------------------------------------------------------------------------------------
// names

func genCouplesNamesCase(r *rand.Rand, mode int) (string, input) {
	rd1, rd2 := somePeople(r, mode, 4)
	in := input{an: "couples", stream: "r4-names"}
	in.c1, in.c2 = genCommonPair(r)
	f1, f2 := genFilesConfusable(r)
	in.cp[0] = genCouples(r, rd1, f1, false)
	in.cp[1] = genCouples(r, rd2, f2, false)
	return "cp-" + classify(rd1, rd2), in
}

func genDevsNamesCase(r *rand.Rand, mode int) (string, input) {
	rd1, rd2 := peoplePairConfusable(r, mode, 4)
	in := input{an: "devs", stream: "r4-names"}
	in.c1, in.c2 = genCommonPair(r)
	sl := langPool
	langPool = confusable(r, langGroups, 5)
	defer func() { langPool = sl }()
	ts := tickSizes[r.Intn(len(tickSizes))]
	in.dv[0] = genDevs(r, rd1, ts, false)
	in.dv[1] = genDevs(r, rd2, ts, false)
	return "dv-" + classify(rd1, rd2), in
}

func genBurndownNamesCase(r *rand.Rand) (string, input) {
	rd1, rd2 := peoplePairConfusable(r, 0, 5)
	in := input{an: "burndown", stream: "r4-names"}
	in.c1, in.c2 = genCommonPair(r)
	ts := int64(24 * 3600e9)
	in.bd[0] = genBurndown(r, rd1, ts, 0, true, true, true)
	in.bd[1] = genBurndown(r, rd2, ts, 1, true, true, r.Intn(10) != 0)
	return "bd-" + classify(rd1, rd2), in
}

func genCommonNamesCase(r *rand.Rand) (string, input) {
	sp := itemPool
	itemPool = confusable(r, itemGroups, 5)
	defer func() { itemPool = sp }()
	k, in := genCommonCase(r)
	in.stream = "r4-names"
	if r.Intn(2) == 0 {
		d := timeTicks[r.Intn(len(timeTicks))]
		a, b := genCommonPairTime(r, d)
		in.c1.Begin, in.c1.End, in.c2.Begin, in.c2.End = a.Begin, a.End, b.Begin, b.End
	}
	return k, in
}

func contentFamily(c *Config) {
	r := c.Rng
	for i := c.Count(900, 30000); i > 0; i-- {
		k, in := genBurndownTimeCase(r, i%3)
		emit(c, k, in)
	}
	for i := c.Count(450, 15000); i > 0; i-- {
		k, in := genDevsTimeCase(r, i%3)
		emit(c, k, in)
	}
	for i := c.Count(900, 30000); i > 0; i-- {
		k, in := genCouplesNamesCase(r, i%3)
		emit(c, k, in)
	}
	for i := c.Count(500, 15000); i > 0; i-- {
		k, in := genDevsNamesCase(r, i%3)
		emit(c, k, in)
	}
	for i := c.Count(200, 6000); i > 0; i-- {
		k, in := genBurndownNamesCase(r)
		emit(c, k, in)
	}
	for i := c.Count(250, 8000); i > 0; i-- {
		k, in := genCommonNamesCase(r)
		emit(c, k, in)
	}
}
