package main

// The "content" family (round 4): what the VALUES inside a result are made of, not how many there are.
//
//   ct-*-name     byte content of the strings that travel through the codecs (file names, developer names,
//                 language names): U+FFFD as real content, its neighbours, BOMs, tabs, CR / CRLF / lone CR, NUL,
//                 ASCII and Unicode white space, case variants, composed / decomposed forms, path spellings, names
//                 with common prefixes and suffixes (noreply e-mails with and without the numeric id, hash-like names
//                 that agree in their first 1 .. 8 hex digits), numbered names at the decimal widths 9 | 10 | 11 ..
//                 1001, YAML-looking scalars, names of 127 / 128 / 16383 / 16384 bytes.  The names come in GROUPS whose
//                 members a normalisation (sanitising, trimming, case folding, NFC, path cleaning, ...) would make
//                 equal, and the members of one group occur TOGETHER in one result, so that a collapse is visible.
//   ct-*-badutf8  the same results with one name that is NOT valid UTF-8 next to the valid special ones.  proto3
//                 strings must be valid UTF-8: gogo Marshal refuses them, so Serialize returns an error; such results
//                 are outside the domain of the property (assumption "names are valid UTF-8") and the driver only
//                 checks that outcome (a sanitiser shows as a correspondence mismatch).
//   ct-mx-dec, ct-bd-dec   cells at the decimal widths: 10^k - 1, 10^k, 10^k + 1 for every k that fits (k <= 18 for
//                 bare matrices and the interaction matrix, k <= 9 for history cells), as the maximum of the matrix and
//                 not, in the first / an inner / the last column, next to cells with fewer digits, with both signs and
//                 both values of fixNegative (the column width of PrintMatrix is computed from the largest and the
//                 smallest cell), combined with clamped negatives and trailing zeros.
//   ct-*-cnt      the sizes 10, 99, 100, 101 on every size axis (the scale family has 9, 11, 999, 1000, 1001).
//   tick sizes    1 ns, 1 s, 1 h, 7 d, 30 d, odd values, the int64 extremes rotate through all ct-* results.

import (
	"fmt"
	"sort"
	"strings"
	"time"
	"unicode/utf8"

	. "verifharness/lib"
)

// groups of names that a plausible normalisation makes equal (all valid UTF-8)
var ctGroups = [][]string{
	// the replacement character as real content, what a sanitiser turns invalid bytes into, and its neighbours
	{"what\ufffd", "what?", "what", "\ufffd", "?", "\ufffd\ufffd", "docs/caf\ufffd.txt", "docs/caf?.txt", "docs/caf\u00e9.txt",
		"j\ufffdrgen m\ufffdller|jm@example.com", "j?rgen m?ller|jm@example.com", "\ufffc", "\ufffe", "\uffff", "a\ufffdb", "a\ufffd\ufffdb", "a?b",
		"a\ufffd?b", "\U0010ffff", "\U0001fffd"},
	// byte order marks and other invisible characters
	{"\ufeff", "\ufeffa.go", "a.go", "a.go\ufeff", "a\ufeff.go", "\ufeff\ufeffa.go", "\u200ba.go", "\u2060a.go", "\u00ada.go", "\u200ea.go"},
	// white space, ASCII and Unicode
	{"a", " a", "a ", " a ", "a b", "a  b", "a\tb", "\ta", "a\t", "a\u00a0b", "\u00a0a", "a\u00a0", "a\u2028b", "a\u2029b",
		"a\u3000b", "\u3000", "\u00a0", " ", "  ", "\t", "a\u0085b", "a\vb", "a\fb", "a\u2003b", "a\u202fb", "ab"},
	// line ends
	{"a\nb", "a\r\nb", "a\rb", "a\n", "a\r\n", "a\r", "\r", "\n", "\r\n", "\n\r", "a\n\nb", "ab", "a"},
	// NUL and other control bytes
	{"a\x00b", "ab", "a\x00", "\x00a", "\x00", "\x00\x00", "a\x01b", "a\x7fb", "a\x1bb", "a\x08b", "a"},
	// case
	{"README.md", "readme.md", "Readme.md", "ReadMe.MD", "README.MD", "\u00df", "SS", "ss", "\u1e9e", "\u0130", "i", "I", "\u0131",
		"\u03a3", "\u03c3", "\u03c2", "K", "k", "\u212a", "\u00c9", "\u00e9"},
	// composed / decomposed / compatibility forms
	{"\u00e9", "e\u0301", "e", "\u00c5", "A\u030a", "\u212b", "\ufb01", "fi", "\uff41", "a", "\u03a9", "\u2126", "\u1e69", "s\u0323\u0307", "s\u0307\u0323"},
	// spellings of one path
	{"a/b", "a//b", "./a/b", "a/./b", "a\\b", "a/b/", "/a/b", "a/c/../b", "a/b/.", "A/B", "a/b ", "a:b", "\"a/b\"", "a/b\\"},
	// common prefixes and suffixes
	{"a", "a.go", "a.go.bak", "a/", "a/a", "aa", "ab", "b/a", "a.g", "a.goo", ".go", "go", "a.go/a.go",
		"user@users.noreply.github.com", "1234+user@users.noreply.github.com", "12345+user@users.noreply.github.com",
		"user|user@users.noreply.github.com", "user|1234+user@users.noreply.github.com", "+user@users.noreply.github.com",
		"user@users.noreply.github.co", "ser@users.noreply.github.com"},
	// hash-like names that agree in their first 1, 2, 4, 7, 8 hex digits (and in their last ones)
	{"0123456789abcdef0123456789abcdef01234567", "0fffffffffffffffffffffffffffffffffffffff", "01ffffffffffffffffffffffffffffffffffffff",
		"0123ffffffffffffffffffffffffffffffffffff", "0123456fffffffffffffffffffffffffffffffff", "01234567ffffffffffffffffffffffffffffffff",
		"0123456789abcdef0123456789abcdef01234568", "f123456789abcdef0123456789abcdef01234567", "0123456", "01234567", "0123456789ABCDEF0123456789ABCDEF01234567"},
	// numbered names at the decimal widths (bytewise order is not numeric order)
	{"f9", "f10", "f11", "f99", "f100", "f101", "f999", "f1000", "f1001", "f09", "f010", "f0", "f00", "9", "10", "11", "99", "100", "101",
		"f9.go", "f10.go", "f1e1", "f+10", "f-10"},
	// scalars and indicators of YAML
	{"null", "~", "true", "True", "yes", "no", "on", "off", "1", "01", "1.0", "0x1", "1e3", "- a", "a: b", "a:", ":a", "#a", "a #b",
		"'a'", "\"a\"", "[a]", "{a}", "*a", "&a", "!a", "|", ">", "|-", "%a", "@a", "`a`", "? a", "---", "...", "<<", "=", ".inf", ".nan"},
}

// names that are NOT valid UTF-8: a byte that never occurs, a lone lead byte, lone continuation bytes, Latin-1,
// overlong forms, a surrogate, a code point above U+10FFFF, truncated sequences
var ctInvalid = []string{
	"\xff", "a\xffb", "caf\xe9.txt", "\xc3", "a\xc3", "\xc3(", "\x80", "a\x80\x80", "\xc0\xaf", "\xc1\xbf", "\xe0\x80\xaf", "\xf0\x80\x80\xaf",
	"\xed\xa0\x80", "\xed\xbf\xbf", "\xf4\x90\x80\x80", "\xf8\x88\x80\x80\x80", "\xef\xbf", "a\xef\xbf", "\xef\xbb", "\xf0\x9f\x9a", "\xfe", "\xe9",
	"\ufffd\xff", "\xff\ufffd", "what\xff", "j\xfcrgen m\xfcller|jm@example.com",
}

// groups of very long names: used once per result type only (they make the trace large)
var ctLong [][]string

func init() {
	for _, n := range []int{127, 128, 129, 16383, 16384} {
		// a long name (the length prefix of the wire format changes its width at 128 and 16384), a twin that differs
		// only in its last byte, one that is a proper prefix
		long := strings.Repeat("d/", n/2) + strings.Repeat("x", n%2)
		grp := []string{long, long[:n-1] + "y", long[:n-1], long + "\ufffd"}
		if n < 1000 {
			ctGroups = append(ctGroups, grp)
		} else {
			ctLong = append(ctLong, grp)
		}
	}
	for _, grp := range ctGroups {
		for _, s := range grp {
			if !utf8.ValidString(s) {
				panic("content family: name of a valid group is not valid UTF-8: " + fmt.Sprintf("%q", s))
			}
		}
	}
	for _, s := range ctInvalid {
		if utf8.ValidString(s) {
			panic("content family: name of the invalid list is valid UTF-8: " + fmt.Sprintf("%q", s))
		}
	}
}

var ctTicks = []int64{1, int64(time.Second), int64(time.Hour), int64(7 * 24 * time.Hour), int64(30 * 24 * time.Hour),
	int64(24*time.Hour) + 1, int64(time.Hour) - 1, int64(time.Second) + int64(time.Millisecond), 1000000007, 1<<63 - 1, -(1 << 63), -1,
	int64(24 * time.Hour), int64(90 * time.Minute), 1 << 31, 1 << 32, 999999999, 1000000000, 1000000001}

type ctGen struct {
	g    *gen
	tick int
}

func (x *ctGen) nextTick() int64 {
	x.tick++
	return ctTicks[x.tick%len(ctTicks)]
}

func distinctSorted(l []string) []string {
	seen := map[string]bool{}
	var r []string
	for _, s := range l {
		if !seen[s] {
			seen[s] = true
			r = append(r, s)
		}
	}
	sort.Strings(r)
	return r
}

// a small history with a marker cell, so that two files / developers never carry the same matrix
func markerMat(rows, cols, mark int) mat {
	m := make(mat, rows)
	for i := range m {
		m[i] = make([]int64, cols)
		for j := range m[i] {
			if (i+j+mark)%3 != 0 {
				m[i][j] = int64(1 + (mark*7+i*3+j)%50)
			}
		}
	}
	m[rows-1][0] = int64(mark + 1)
	return m
}

// burndown result over the given file names (made distinct, sorted) and developer names (in this order, repeats kept)
func (x *ctGen) burndown(files, devs []string) *bdRes {
	r := x.g.c.Rng
	rows, cols := 1+r.Intn(3), 1+r.Intn(3)
	res := &bdRes{global: markerMat(rows, cols, 40), pmNil: true, tick: x.nextTick(), samp: 1 + int64(r.Intn(30)), gran: 1 + int64(r.Intn(30))}
	for i, n := range distinctSorted(files) {
		res.files = append(res.files, namedMat{n, markerMat(rows, cols, i)})
		res.own = append(res.own, namedTable{n, []kv{{-1, int64(i)}, {int64(i), int64(i + 1)}}})
	}
	for i := range devs {
		res.people = append(res.people, markerMat(rows, cols, 100+i))
	}
	res.names = append([]string{}, devs...)
	if n := len(devs); n > 0 {
		res.pmNil = false
		res.pm = make(mat, n)
		for i := range res.pm {
			res.pm[i] = make([]int64, n+2)
			res.pm[i][(i*5+1)%(n+2)] = int64(i + 1)
			res.pm[i][(i*3)%(n+2)] -= int64(2*i + 1)
		}
	}
	return res
}

// devs result: the developers 0 .. len(devs)-1 (and AuthorMissing) in two ticks, the languages of the first developer
// of every tick are langs (made distinct, sorted)
func (x *ctGen) devs(devs, langs []string) *dvRes {
	res := &dvRes{names: append([]string{}, devs...), tick: x.nextTick()}
	ls := distinctSorted(langs)
	for t := 0; t < 2; t++ {
		td := tickDevs{tick: int64(t * 9)}
		for d := 0; d <= len(devs) && d < 4; d++ {
			dev := int64(d)
			if d == len(devs) || d == 3 {
				dev = int64(262142) // AuthorMissing
			}
			dt := devTick{dev: dev, commits: int64(1 + d + t), s: stats{int64(10 + d), int64(d), int64(t)}}
			if d == 0 || d == 2 {
				for i, n := range ls {
					dt.langs = append(dt.langs, langStat{n, stats{int64(i + 1), int64(i * 2), int64(i*i + t)}})
				}
			}
			td.devs = append(td.devs, dt)
		}
		sort.Slice(td.devs, func(a, b int) bool { return td.devs[a].dev < td.devs[b].dev })
		res.ticks = append(res.ticks, td)
	}
	return res
}

// couples result over the given file names (in this order, repeats kept) and developer names; loaded = the pseudo
// developer is named as well
func (x *ctGen) couples(files, devs []string, loaded bool) *cpRes {
	nf, np := len(files), len(devs)
	res := &cpRes{files: append([]string{}, files...), names: append([]string{}, devs...)}
	if loaded {
		res.names = append(res.names, "<unmatched>")
	}
	for i := 0; i < nf; i++ {
		res.fl = append(res.fl, int64(10+i))
		row := []kv{{int64(i), int64(i + 1)}}
		if j := (i*3 + 1) % nf; j != i {
			row = append(row, kv{int64(j), int64(i + 2)})
		}
		sort.Slice(row, func(a, b int) bool { return row[a].k < row[b].k })
		res.fm = append(res.fm, row)
	}
	for i := 0; i < np+1; i++ {
		row := []kv{{int64(i), int64(2*i + 1)}}
		if j := (i*2 + 1) % (np + 1); j != i {
			row = append(row, kv{int64(j), int64(i + 3)})
		}
		sort.Slice(row, func(a, b int) bool { return row[a].k < row[b].k })
		res.pm = append(res.pm, row)
		var fs []int64
		for j := 0; j < nf; j++ {
			if (i+j)%2 == 0 {
				fs = append(fs, int64(j))
			}
		}
		res.pf = append(res.pf, fs)
	}
	return res
}

// n names: most from one group (so that the twins meet), some from a second one; shuffled
func (x *ctGen) pick(n int) []string {
	r := x.g.c.Rng
	a, b := ctGroups[r.Intn(len(ctGroups))], ctGroups[r.Intn(len(ctGroups))]
	l := make([]string, n)
	for i := range l {
		if r.Intn(4) > 0 {
			l[i] = a[r.Intn(len(a))]
		} else {
			l[i] = b[r.Intn(len(b))]
		}
	}
	return l
}

func withInvalid(x *ctGen, l []string) []string {
	r := x.g.c.Rng
	l = append([]string{}, l...)
	bad := ctInvalid[r.Intn(len(ctInvalid))]
	if len(l) == 0 || r.Intn(3) == 0 {
		k := r.Intn(len(l) + 1)
		l = append(l[:k:k], append([]string{bad}, l[k:]...)...)
	} else {
		l[r.Intn(len(l))] = bad
	}
	return l
}

func pow10(k int) int64 {
	v := int64(1)
	for ; k > 0; k-- {
		v *= 10
	}
	return v
}

// matrices around the cell v (|v| >= 9): v as the widest cell and not, in every column position, next to cells
// with one digit less (lo) and with few digits, with clamped negatives and trailing zeros
func decTemplates(v int64) []mat {
	lo := v / 10 // one digit less (same sign)
	wider := v
	if v > -(1<<62) && v < 1<<62 {
		if w := v*10 + v%7; (w < 0) == (v < 0) {
			wider = w // one digit more
		}
	}
	return []mat{
		{{87, v}},
		{{v, 87}},
		{{401, 320, v}},
		{{7, v, 7}},
		{{lo, v}},
		{{lo, v, lo}, {v, lo, 0}},
		{{1, 2}, {3, v}},
		{{1, v}, {3, 4}},
		{{5}, {v}},
		{{0, v, 0, 0}},
		{{-3, v}, {v, -3}},
		{{v, v}},
		{{0, 0}, {0, v}},
		{{5000, 0, 0, v}},
		{{-lo, v}},
		{{-v, v}},
		{{v, wider}},
		{{wider, v}, {v, 0}},
	}
}

func contentFamily(c *Config, g *gen) {
	x := &ctGen{g: g}
	r := c.Rng
	// ---- names: every group as a whole (all members together, as file names AND as developer / language names) ...
	for gi, grp := range ctGroups {
		devs := grp
		if len(devs) > 12 {
			devs = append([]string{}, grp[gi%3:]...)[:12] // (the interaction matrix is quadratic)
		}
		emitBd(c, "ct-bd-name", x.burndown(grp, devs))
		emitDv(c, "ct-dv-name", x.devs(grp, grp))
		emitCp(c, "ct-cp-name", x.couples(grp, grp, false))
		emitCp(c, "ct-cp-name", x.couples(grp, devs, true))
		// ... every member alone and every member next to the first / the next one of its group
		for i, n := range grp {
			m := grp[(i+1)%len(grp)]
			emitBd(c, "ct-bd-name", x.burndown([]string{n}, []string{n}))
			emitBd(c, "ct-bd-name", x.burndown([]string{n, m, grp[0]}, []string{m, n, n}))
			emitDv(c, "ct-dv-name", x.devs([]string{n}, []string{n}))
			emitDv(c, "ct-dv-name", x.devs([]string{m, n}, []string{n, m, grp[0]}))
			emitCp(c, "ct-cp-name", x.couples([]string{n}, []string{n}, i%2 == 0))
			emitCp(c, "ct-cp-name", x.couples([]string{m, n, m}, []string{n, m}, i%2 == 1))
		}
	}
	for _, grp := range ctLong {
		emitBd(c, "ct-bd-name", x.burndown(grp, grp[2:]))
		emitDv(c, "ct-dv-name", x.devs(grp[:2], grp[1:]))
		emitCp(c, "ct-cp-name", x.couples(grp, grp[1:3], false))
	}
	// ... random mixtures of two groups
	for i := c.Count(500, 5000); i > 0; i-- {
		switch i % 3 {
		case 0:
			emitBd(c, "ct-bd-name", x.burndown(x.pick(r.Intn(7)), x.pick(r.Intn(5))))
		case 1:
			emitDv(c, "ct-dv-name", x.devs(x.pick(r.Intn(5)), x.pick(r.Intn(6))))
		default:
			emitCp(c, "ct-cp-name", x.couples(x.pick(r.Intn(7)), x.pick(r.Intn(5)), r.Intn(2) == 0))
		}
	}
	// ---- one invalid name among valid special ones: every invalid name in every position class, then random ones
	for i, bad := range ctInvalid {
		grp := ctGroups[i%len(ctGroups)]
		emitBd(c, "ct-bd-badutf8", x.burndown([]string{grp[0], bad, grp[1]}, []string{grp[0]}))
		emitBd(c, "ct-bd-badutf8", x.burndown([]string{grp[0], grp[1]}, []string{grp[0], bad}))
		emitDv(c, "ct-dv-badutf8", x.devs([]string{grp[0], bad}, []string{grp[1]}))
		emitDv(c, "ct-dv-badutf8", x.devs([]string{grp[0], grp[1]}, []string{grp[1], bad, grp[0]}))
		emitCp(c, "ct-cp-badutf8", x.couples([]string{bad, grp[0]}, []string{grp[1]}, false))
		emitCp(c, "ct-cp-badutf8", x.couples([]string{grp[0], grp[1]}, []string{grp[1], bad}, i%2 == 0))
	}
	for i := c.Count(150, 1500); i > 0; i-- {
		switch i % 6 {
		case 0:
			emitBd(c, "ct-bd-badutf8", x.burndown(withInvalid(x, x.pick(r.Intn(5))), x.pick(r.Intn(4))))
		case 1:
			emitBd(c, "ct-bd-badutf8", x.burndown(x.pick(r.Intn(5)), withInvalid(x, x.pick(r.Intn(4)))))
		case 2:
			emitDv(c, "ct-dv-badutf8", x.devs(withInvalid(x, x.pick(r.Intn(4))), x.pick(r.Intn(4))))
		case 3:
			emitDv(c, "ct-dv-badutf8", x.devs(x.pick(r.Intn(4)), withInvalid(x, x.pick(r.Intn(4)))))
		case 4:
			emitCp(c, "ct-cp-badutf8", x.couples(withInvalid(x, x.pick(r.Intn(5))), x.pick(r.Intn(4)), r.Intn(2) == 0))
		default:
			emitCp(c, "ct-cp-badutf8", x.couples(x.pick(r.Intn(5)), withInvalid(x, x.pick(r.Intn(4))), r.Intn(2) == 0))
		}
	}
	// ---- decimal widths of the cells
	n := 0
	for k := 1; k <= 18; k++ {
		for _, d := range []int64{-1, 0, 1} {
			v := pow10(k) + d
			for _, s := range []int64{v, -v} {
				for ti, m := range decTemplates(s) {
					emitMx(c, "ct-mx-dec", m, (ti+n)%2 == 0)
					emitMx(c, "ct-mx-dec", m, (ti+n)%2 == 1)
				}
				n++
			}
			// whole burndown results: history cells stay below 2^32, the interaction matrix takes any int64
			names := x.pick(2)
			for ti, m := range decTemplates(v) {
				if k <= 9 {
					ts := decTemplates(pow10(1+(k+ti)%9) + d)
					res := &bdRes{global: m, tick: x.nextTick(), samp: 1 + int64(ti), gran: 1 + int64(k)}
					res.files = []namedMat{{names[0], ts[(ti+3)%len(ts)]}}
					res.own = []namedTable{{names[0], []kv{{-1, v % (1 << 31)}, {0, pow10(k%10) - d}}}}
					res.people = []mat{ts[(ti+7)%len(ts)], m}
					res.names = []string{names[1], names[0]}
					res.pm = mat{{1, 0, -v, v}, {v*10 - d, 3, 0, 0}}
					emitBd(c, "ct-bd-dec", res)
				}
			}
			// the interaction matrix alone, every width up to 10^18, both signs
			for ti, m := range decTemplates(v) {
				if len(m) > 2 || ti%2 == k%2 {
					continue
				}
				for _, sgn := range []int64{1, -1} {
					pm := make(mat, len(m))
					for i, row := range m {
						pm[i] = make([]int64, len(m)+2)
						for j := range pm[i] {
							if j < len(row) {
								pm[i][len(pm[i])-1-j] = sgn * row[len(row)-1-j]
							}
						}
					}
					res := &bdRes{global: mat{{1, 2}}, tick: x.nextTick(), samp: 1, gran: 1, pm: pm}
					for range m {
						res.people = append(res.people, mat{{1, 0}})
						res.names = append(res.names, fmt.Sprintf("dev%d", len(res.names)))
					}
					emitBd(c, "ct-bd-dec", res)
				}
			}
		}
	}
	// ---- counts at the decimal widths
	for _, n := range []int{10, 99, 100, 101} {
		emitMx(c, "ct-mx-cnt", g.sparseDense(n, 5, 2), n%2 == 0)
		emitMx(c, "ct-mx-cnt", g.sparseDense(2, n, 3), n%2 == 1)
		emitBd(c, "ct-bd-cnt", scaleBd(g.sparseDense(n, 6, 2)))
		emitBd(c, "ct-bd-cnt", scaleBd(g.sparseDense(3, n, 4)))
		emitBd(c, "ct-bd-cnt", g.bdFiles(n))
		emitBd(c, "ct-bd-cnt", g.bdOwnership(n))
		emitBd(c, "ct-bd-cnt", g.bdPeople(n))
		emitDv(c, "ct-dv-cnt", g.dvTicks(n))
		emitDv(c, "ct-dv-cnt", g.dvDevelopers(n))
		emitDv(c, "ct-dv-cnt", g.dvLanguages(n))
		emitCp(c, "ct-cp-cnt", g.cpScale(n, 3, 0))
		emitCp(c, "ct-cp-cnt", g.cpScale(5, n-1, 0))
		emitCp(c, "ct-cp-cnt", g.cpScale(n, 2, n))
	}
}
