(* Soundness of the execution-time lifecycle oracle of RunLifecycle.v:
   [run_okb single n log = true -> run_spec single n log].

   The oracle state is five tables; the invariant [Inv l s] says what each table means in terms of the plain
   log predicates ([created_in], [hibernated_in], [finalized_in], [last_consumed], [incorporated]) of the calls
   [l] made so far.  It is preserved by every call (checked or not), so it holds of the state in which every
   call of an accepted log was checked. *)
From Coq Require Import List Bool Arith Lia.
From Herc Require Import Plan.RunLifecycle.
Import ListNotations.

(* ---------- booleans ---------- *)

Lemma rl_mem_In i l : rl_mem i l = true <-> In i l.
Proof.
  unfold rl_mem. rewrite existsb_exists. split.
  - intros [x [Hin Heq]]. apply Nat.eqb_eq in Heq. subst. exact Hin.
  - intros Hin. exists i. split; [exact Hin | apply Nat.eqb_refl].
Qed.

Lemma rl_mem_false i l : rl_mem i l = false <-> ~ In i l.
Proof.
  rewrite <- rl_mem_In. destruct (rl_mem i l); split; intro H.
  - discriminate.
  - exfalso. apply H. reflexivity.
  - discriminate.
  - reflexivity.
Qed.

Lemma rl_nodupb_NoDup l : rl_nodupb l = true -> NoDup l.
Proof.
  induction l as [|x r IH]; simpl; intro H.
  - constructor.
  - apply andb_true_iff in H. destruct H as [Hx Hr]. constructor.
    + apply negb_true_iff in Hx. apply rl_mem_false in Hx. exact Hx.
    + apply IH. exact Hr.
Qed.

Lemma rl_is_nil_eq {A} (l : list A) : rl_is_nil l = true -> l = [].
Proof. destruct l; simpl; intro H; [reflexivity | discriminate]. Qed.

(* ---------- the log predicates under one more call ---------- *)

Lemma snoc_split' {A} (l1 l2 : list A) (x e : A) l :
  l ++ [e] = l1 ++ x :: l2 ->
  (l2 = [] /\ l = l1 /\ e = x) \/ (exists l2', l2 = l2' ++ [e] /\ l = l1 ++ x :: l2').
Proof.
  intro H. destruct l2 as [|y l2] using rev_ind.
  - left. apply app_inj_tail in H. destruct H as [H1 H2]. subst. auto.
  - right. exists l2. clear IHl2.
    replace (l1 ++ x :: l2 ++ [y]) with ((l1 ++ x :: l2) ++ [y]) in H by (rewrite <- app_assoc; reflexivity).
    apply app_inj_tail in H. destruct H as [H1 H2]. subst. auto.
Qed.

Lemma created_in_snoc l e i : created_in (l ++ [e]) i <-> created_in l i \/ In i (ev_creates e).
Proof.
  unfold created_in. split.
  - intros [x [Hin Hc]]. apply in_app_or in Hin. destruct Hin as [Hin | [Heq | []]].
    + left. exists x. auto.
    + subst. right. exact Hc.
  - intros [[x [Hin Hc]] | Hc].
    + exists x. split; [apply in_or_app; left; exact Hin | exact Hc].
    + exists e. split; [apply in_or_app; right; left; reflexivity | exact Hc].
Qed.

Lemma finalized_in_snoc l e i : finalized_in (l ++ [e]) i <-> finalized_in l i \/ e = EFinalize i.
Proof.
  unfold finalized_in. split.
  - intro Hin. apply in_app_or in Hin. destruct Hin as [Hin | [Heq | []]]; auto.
  - intros [Hin | Heq]; apply in_or_app; [left; exact Hin | right; left; exact Heq].
Qed.

Lemma hibernated_in_snoc l e i :
  hibernated_in (l ++ [e]) i <-> e = EHibernate i \/ (hibernated_in l i /\ e <> EBoot i).
Proof.
  unfold hibernated_in. split.
  - intros [l1 [l2 [Heq Hnb]]]. apply snoc_split' in Heq. destruct Heq as [[H2 [H1 He]] | [l2' [H2 Hl]]].
    + left. exact He.
    + right. subst l2. split.
      * exists l1, l2'. split; [exact Hl|]. intro Hin. apply Hnb. apply in_or_app. left. exact Hin.
      * intro He. apply Hnb. apply in_or_app. right. left. exact He.
  - intros [He | [[l1 [l2 [Heq Hnb]]] Hne]].
    + subst e. exists l, []. split; [reflexivity | intros []].
    + exists l1, (l2 ++ [e]). split.
      * subst l. rewrite <- app_assoc. reflexivity.
      * intro Hin. apply in_app_or in Hin. destruct Hin as [Hin | [He | []]]; [apply Hnb; exact Hin | apply Hne; exact He].
Qed.

Lemma last_consumed_here l i c : last_consumed (l ++ [EConsume i c]) i c.
Proof. exists l, []. split; [reflexivity | intros c' []]. Qed.

Lemma last_consumed_keep l e i c :
  last_consumed l i c -> (forall c', e <> EConsume i c') -> last_consumed (l ++ [e]) i c.
Proof.
  intros [l1 [l2 [Heq Hn]]] Hne. exists l1, (l2 ++ [e]). split.
  - subst l. rewrite <- app_assoc. reflexivity.
  - intros c' Hin. apply in_app_or in Hin. destruct Hin as [Hin | [He | []]].
    + exact (Hn c' Hin).
    + exact (Hne c' He).
Qed.

(* ---------- the tables ---------- *)

Lemma rl_geti_app_map (f : nat -> list nat) ts m i :
  rl_geti (map (fun t => (t, f t)) ts ++ m) i = if rl_mem i ts then f i else rl_geti m i.
Proof.
  induction ts as [|t r IH]; simpl.
  - reflexivity.
  - rewrite (Nat.eqb_sym i t). destruct (t =? i) eqn:E.
    + apply Nat.eqb_eq in E. subst. reflexivity.
    + simpl. exact IH.
Qed.

Record Inv (l : list event) (s : rstate) : Prop := mkInv {
  inv_created : forall i, In i (r_created s) <-> created_in l i;
  inv_hibs : forall i, In i (r_hibs s) <-> hibernated_in l i;
  inv_finals : forall i, In i (r_finals s) <-> finalized_in l i;
  inv_lastc : forall i c, rl_getc (r_lastc s) i = Some c -> last_consumed l i c;
  inv_incs : forall i c, In c (rl_geti (r_incs s) i) -> incorporated l i c
}.

Lemma inv_init : Inv [] rinit.
Proof.
  constructor; simpl.
  - intro i. split; [intros [] | intros [e [[] _]]].
  - intro i. split; [intros [] | intros [l1 [l2 [Heq _]]]]. destruct l1; discriminate.
  - intro i. split; intros [].
  - intros i c H. discriminate.
  - intros i c [].
Qed.

Lemma inv_step l s e : Inv l s -> Inv (l ++ [e]) (rl_apply s e).
Proof.
  intros [Hc Hh Hf Hl Hi]. constructor.
  - (* created *)
    intro i. rewrite created_in_snoc, <- Hc.
    destruct e; simpl; try (split; [intro H; left; exact H | intros [H | []]; exact H]).
    + split; [intros [H | H]; [right; left; exact H | left; exact H] | intros [H | [H | []]]; [right | left]; exact H].
    + rewrite in_app_iff. split; intros [H | H]; auto.
  - (* hibernated *)
    intro i. rewrite hibernated_in_snoc, <- Hh.
    destruct e as [j | src ts | j c | j os | j | j | j | j]; simpl;
      try (split; [intro H; right; split; [exact H | discriminate] | intros [H | [H _]]; [discriminate | exact H]]).
    + split.
      * intros [H | H]; [left; subst; reflexivity | right; split; [exact H | discriminate]].
      * intros [H | [H _]]; [left; injection H; auto | right; exact H].
    + rewrite filter_In. split.
      * intros [H Hne]. right. split; [exact H|]. intro He. injection He as He. subst j.
        rewrite Nat.eqb_refl in Hne. discriminate.
      * intros [H | [H Hne]]; [discriminate|]. split; [exact H|]. apply negb_true_iff. apply Nat.eqb_neq.
        intro He. apply Hne. subst. reflexivity.
  - (* finalized *)
    intro i. rewrite finalized_in_snoc, <- Hf.
    destruct e as [j | src ts | j c | j os | j | j | j | j]; simpl;
      try (split; [intro H; left; exact H | intros [H | H]; [exact H | discriminate]]).
    split.
    + intros [H | H]; [right; subst; reflexivity | left; exact H].
    + intros [H | H]; [right; exact H | left; injection H; auto].
  - (* last consumed *)
    intros i c.
    destruct e as [j | src ts | j c0 | j os | j | j | j | j]; simpl;
      try (intro H; apply last_consumed_keep; [apply Hl; exact H | intros c'; discriminate]).
    destruct (j =? i) eqn:E.
    + apply Nat.eqb_eq in E. subst j. intro H. injection H as H. subst c0. apply last_consumed_here.
    + intro H. apply last_consumed_keep; [apply Hl; exact H|]. intros c' He. injection He as He1 He2.
      apply Nat.eqb_neq in E. apply E. exact He1.
  - (* incorporated *)
    intros i c.
    destruct e as [j | src ts | j c0 | j os | j | j | j | j]; simpl;
      try (intro H; apply inc_keep; apply Hi; exact H).
    + (* fork *)
      rewrite (rl_geti_app_map (fun _ => rl_geti (r_incs s) src)).
      destruct (rl_mem i ts) eqn:E; intro H.
      * apply rl_mem_In in E. apply inc_fork; [exact E | apply Hi; exact H].
      * apply inc_keep. apply Hi. exact H.
    + (* consume *)
      destruct (j =? i) eqn:E.
      * apply Nat.eqb_eq in E. subst j. intros [H | H]; [subst; apply inc_consume | apply inc_keep; apply Hi; exact H].
      * intro H. apply inc_keep. apply Hi. exact H.
    + (* merge *)
      set (u := nodup Nat.eq_dec (flat_map (rl_geti (r_incs s)) (j :: os))).
      change (In c (rl_geti (map (fun k => (k, (fun _ => u) k)) (j :: os) ++ r_incs s) i) -> incorporated (l ++ [EMerge j os]) i c).
      rewrite (rl_geti_app_map (fun _ => u)).
      destruct (rl_mem i (j :: os)) eqn:E; intro H.
      * apply rl_mem_In in E. unfold u in H. apply nodup_In in H. apply in_flat_map in H.
        destruct H as [k [Hk Hck]]. apply inc_merge with (k := k); [exact E | exact Hk | apply Hi; exact Hck].
      * apply inc_keep. apply Hi. exact H.
Qed.

(* ---------- the fold ---------- *)

Lemma rl_exec_app s l1 l2 :
  rl_exec s (l1 ++ l2) = match rl_exec s l1 with Some s1 => rl_exec s1 l2 | None => None end.
Proof.
  revert s. induction l1 as [|e r IH]; intro s; simpl.
  - reflexivity.
  - destruct (rl_exec1 s e); [apply IH | reflexivity].
Qed.

Lemma rl_exec_snoc s l e s' :
  rl_exec s (l ++ [e]) = Some s' ->
  exists s1, rl_exec s l = Some s1 /\ rl_check s1 e = true /\ s' = rl_apply s1 e.
Proof.
  rewrite rl_exec_app. destruct (rl_exec s l) as [s1|]; [|discriminate].
  simpl. unfold rl_exec1. destruct (rl_check s1 e) eqn:E; [|discriminate].
  intro H. injection H as H. exists s1. auto.
Qed.

Lemma rl_exec_inv l s : rl_exec rinit l = Some s -> Inv l s.
Proof.
  revert s. induction l as [|e l IH] using rev_ind; intros s H.
  - simpl in H. injection H as H. subst. apply inv_init.
  - apply rl_exec_snoc in H. destruct H as [s1 [H1 [_ Hs]]]. subst s. apply inv_step. apply IH. exact H1.
Qed.

Lemma rl_exec_split l1 e l2 s :
  rl_exec rinit (l1 ++ e :: l2) = Some s ->
  exists s1, rl_exec rinit l1 = Some s1 /\ rl_check s1 e = true.
Proof.
  rewrite rl_exec_app. destruct (rl_exec rinit l1) as [s1|]; [|discriminate].
  simpl. unfold rl_exec1. destruct (rl_check s1 e) eqn:E; [|discriminate].
  intros _. exists s1. auto.
Qed.

(* ---------- one checked call ---------- *)

Lemma liveb_awake l s i : Inv l s -> rl_liveb s i = true -> awake_in l i.
Proof.
  intros [Hc Hh Hf _ _] H. unfold rl_liveb in H.
  apply andb_true_iff in H. destruct H as [H H3]. apply andb_true_iff in H. destruct H as [H1 H2].
  apply rl_mem_In in H1. apply negb_true_iff in H2, H3. apply rl_mem_false in H2, H3.
  split; [|split].
  - apply Hc. exact H1.
  - intro H. apply H2. apply Hh. exact H.
  - intro H. apply H3. apply Hf. exact H.
Qed.

Lemma check_event_ok l s e : Inv l s -> rl_check s e = true -> event_ok l e.
Proof.
  intros HI H. unfold rl_check in H.
  apply andb_true_iff in H. destruct H as [H H4]. apply andb_true_iff in H. destruct H as [H H3].
  apply andb_true_iff in H. destruct H as [H1 H2].
  rewrite forallb_forall in H1, H3.
  split; [|split; [|split]].
  - intros i Hin. apply (liveb_awake l s i HI). apply H1. exact Hin.
  - apply rl_nodupb_NoDup. exact H2.
  - intros i Hin Hcr. specialize (H3 i Hin). apply negb_true_iff in H3. apply rl_mem_false in H3.
    apply H3. apply (inv_created l s HI). exact Hcr.
  - destruct e as [j | src ts | j c0 | j os | j | j | j | j]; try exact I.
    + (* merge *)
      apply andb_true_iff in H4. destruct H4 as [Hnd Hc]. split; [apply rl_nodupb_NoDup; exact Hnd|].
      destruct (rl_getc (r_lastc s) j) as [c|] eqn:Ej; [|discriminate]. exists c.
      rewrite forallb_forall in Hc. intros k [Hk | Hk].
      * subst k. apply (inv_lastc l s HI). exact Ej.
      * specialize (Hc k Hk). destruct (rl_getc (r_lastc s) k) as [c'|] eqn:Ek; [|discriminate].
        apply Nat.eqb_eq in Hc. subst c'. apply (inv_lastc l s HI). exact Ek.
    + (* boot *)
      apply andb_true_iff in H4. destruct H4 as [H4 Hf]. apply andb_true_iff in H4. destruct H4 as [Hc Hh].
      apply rl_mem_In in Hc, Hh. apply negb_true_iff in Hf. apply rl_mem_false in Hf. split; [|split].
      * apply (inv_created l s HI). exact Hc.
      * apply (inv_hibs l s HI). exact Hh.
      * intro Hx. apply Hf. apply (inv_finals l s HI). exact Hx.
    + (* finalize *)
      apply andb_true_iff in H4. destruct H4 as [Hh Hf]. apply rl_is_nil_eq in Hh, Hf. split; intros k Hk.
      * apply (inv_hibs l s HI) in Hk. rewrite Hh in Hk. exact Hk.
      * apply (inv_finals l s HI) in Hk. rewrite Hf in Hk. exact Hk.
Qed.

(* ---------- the theorem ---------- *)

Theorem run_lifecycle_sound : forall (single : bool) (n : nat) (log : list event),
  run_okb single n log = true -> run_spec single n log.
Proof.
  intros single n log H. unfold run_okb in H.
  destruct (rl_exec rinit log) as [s|] eqn:E; [|discriminate].
  pose proof (rl_exec_inv log s E) as HI.
  unfold final_okb in H. apply andb_true_iff in H. destruct H as [Hh Hf].
  apply rl_is_nil_eq in Hh.
  split; [|split].
  - intros l1 e l2 Heq. subst log. destruct (rl_exec_split l1 e l2 s E) as [s1 [E1 Hc]].
    apply (check_event_ok l1 s1 e); [apply rl_exec_inv; exact E1 | exact Hc].
  - intros j Hj. apply (inv_hibs log s HI) in Hj. rewrite Hh in Hj. exact Hj.
  - destruct (r_finals s) as [|i [|i' r]] eqn:Ef; try discriminate.
    exists i. split.
    + apply (inv_finals log s HI). rewrite Ef. left. reflexivity.
    + intros Hs c Hlt. subst single. simpl in Hf. rewrite forallb_forall in Hf.
      apply (inv_incs log s HI). apply rl_mem_In. apply Hf. apply in_seq. lia.
Qed.

(* the plain-language consequences of [run_spec] that the C04 statement names *)

Lemma hibernated_in_split l1 i l2 :
  ~ In (EBoot i) l2 -> hibernated_in (l1 ++ EHibernate i :: l2) i.
Proof. intro H. exists l1, l2. auto. Qed.

(* between a Hibernate of i and a later call that uses i there is a Boot of i *)
Corollary run_spec_booted_before_use : forall single n log, run_spec single n log ->
  forall l1 i l2 e l3, log = l1 ++ EHibernate i :: l2 ++ e :: l3 -> In i (ev_uses e) -> In (EBoot i) l2.
Proof.
  intros single n log [Hev _] l1 i l2 e l3 Heq Hu.
  destruct (in_dec (fun a b : event => ltac:(repeat decide equality) : {a = b} + {a <> b}) (EBoot i) l2) as [Hin | Hnin];
    [exact Hin | exfalso].
  assert (Heq' : log = (l1 ++ EHibernate i :: l2) ++ e :: l3) by (rewrite Heq, <- app_assoc; reflexivity).
  destruct (Hev _ _ _ Heq') as [Huse _]. destruct (Huse i Hu) as [_ [Hnh _]].
  apply Hnh. apply hibernated_in_split. exact Hnin.
Qed.
