// Harness for C07, pipeline level: the real hercules pipeline (TreeDiff, RenameAnalysis, BlobCache, FileDiff,
// TicksSinceStart, IdentityDetector, BurndownAnalysis) runs over synthetic histories with merges; every real
// BurndownAnalysis.Merge call is observed from the outside: the analysis is deployed inside a wrapper item that
// forwards everything and, in Merge, reads all participating branches back before and after the real call.
//
// (case n (kind K) (nt b) (people b) (track b) (hib d)
//
//	(commits (c (p parent...) (t tick) (a author) (f path line... ) ...) ...)
//	(obs (run ok|error|panic ...) (npeople N) (merge ...)... (final (files ...))))
//
// A commit carries its complete tree: (f path ids...) is the text file "f<path>" whose lines are "L<id>\n";
// (r start count) inside the ids stands for count consecutive ids.  One merge record:
//
//	(merge (last commit-of-branch...) (prev the-commit-before...) (ismerge b...) (pre (b (files ..) (merged ..) (tick t) (author a)) ...)
//	       (day d) (hist0 ..) (res (ok)|(panic cls)) (post (b (files ..)) ...) (hist1 ..))
//
// the same shape as the analysis-level observation of harness c07, so the driver judges it with the same code.
package main

import (
	"fmt"
	"io"
	"log"
	"math/rand"
	"runtime/debug"
	"sort"
	"strings"
	"time"

	git "gopkg.in/src-d/go-git.v4"
	"gopkg.in/src-d/go-git.v4/plumbing"
	"gopkg.in/src-d/go-git.v4/plumbing/object"
	hercules "gopkg.in/src-d/hercules.v10"
	"gopkg.in/src-d/hercules.v10/leaves"
	. "verifharness/lib"
	"verifharness/synth"
)

type silent struct{}

func (silent) Info(...interface{})              {}
func (silent) Infof(string, ...interface{})     {}
func (silent) Warn(...interface{})              {}
func (silent) Warnf(string, ...interface{})     {}
func (silent) Error(...interface{})             {}
func (silent) Errorf(string, ...interface{})    {}
func (silent) Critical(...interface{})          {}
func (silent) Criticalf(string, ...interface{}) {}

// core.ConfigPipelineHibernationDistance is not re-exported by the root package.
const configHibernationDistance = "Pipeline.HibernationDistance"

// ---------------------------------------------------------------- the case

type fsnap struct {
	path  int
	lines []int
}

type pcommit struct {
	parents      []int
	tick, author int
	files        []fsnap // sorted by path
}

type pcase struct {
	kind          string
	nt            bool
	people, track bool
	hib           int
	commits       []pcommit
}

func pname(p int) string { return fmt.Sprintf("f%03d", p) }

func punname(s string) int {
	var p int
	fmt.Sscanf(s, "f%d", &p)
	return p
}

func idsSx(ids []int) []Sx {
	var xs []Sx
	for i := 0; i < len(ids); {
		e := i + 1
		for e < len(ids) && ids[e] == ids[e-1]+1 {
			e++
		}
		if e-i >= 4 {
			xs = append(xs, T("r", I(ids[i]), I(e-i)))
		} else {
			for k := i; k < e; k++ {
				xs = append(xs, I(ids[k]))
			}
		}
		i = e
	}
	return xs
}

func parseIds(xs []Sx) []int {
	ids := []int{}
	for _, x := range xs {
		if x.IsL {
			st, n := x.List[1].Int(), x.List[2].Int()
			for k := 0; k < n; k++ {
				ids = append(ids, st+k)
			}
		} else {
			ids = append(ids, x.Int())
		}
	}
	return ids
}

func (pc *pcase) fields() []Sx {
	cs := make([]Sx, len(pc.commits))
	for i, cm := range pc.commits {
		items := []Sx{T("p", Ints(cm.parents).List...), T("t", I(cm.tick)), T("a", I(cm.author))}
		for _, f := range cm.files {
			items = append(items, T("f", append([]Sx{I(f.path)}, idsSx(f.lines)...)...))
		}
		cs[i] = T("c", items...)
	}
	return []Sx{T("kind", A(pc.kind)), T("nt", B(pc.nt)), T("people", B(pc.people)), T("track", B(pc.track)),
		T("hib", I(pc.hib)), T("commits", cs...)}
}

func parsePcase(s Sx) *pcase {
	pc := &pcase{}
	get := func(name string) Sx { f, _ := s.Field(name); return f }
	pc.kind = get("kind").Args()[0].Atom
	pc.people = get("people").Args()[0].Int() != 0
	pc.track = get("track").Args()[0].Int() != 0
	pc.hib = get("hib").Args()[0].Int()
	for _, c := range get("commits").Args() {
		cm := pcommit{}
		for _, it := range c.Args() {
			switch it.Tag() {
			case "p":
				for _, x := range it.Args() {
					cm.parents = append(cm.parents, x.Int())
				}
			case "t":
				cm.tick = it.Args()[0].Int()
			case "a":
				cm.author = it.Args()[0].Int()
			case "f":
				cm.files = append(cm.files, fsnap{it.Args()[0].Int(), parseIds(it.Args()[1:])})
			}
		}
		pc.commits = append(pc.commits, cm)
	}
	return pc
}

func (pc *pcase) specs() []synth.CommitSpec {
	var cs []synth.CommitSpec
	for i, cm := range pc.commits {
		var files []synth.FileSpec
		for _, f := range cm.files {
			var sb strings.Builder
			for _, id := range f.lines {
				fmt.Fprintf(&sb, "L%d\n", id)
			}
			files = append(files, synth.FileSpec{Path: pname(f.path), Data: []byte(sb.String())})
		}
		au := fmt.Sprintf("dev%d", cm.author)
		when := time.Unix(synth.BaseTime+int64(cm.tick)*86400+int64(i), 0)
		cs = append(cs, synth.CommitSpec{Parents: cm.parents, AuthorName: au, AuthorEmail: au + "@x", AuthorWhen: when, Files: files})
	}
	return cs
}

// ---------------------------------------------------------------- the observing wrapper

type evlog struct {
	idx    map[plumbing.Hash]int
	merges []Sx
}

type wrap struct {
	*leaves.BurndownAnalysis
	lg        *evlog
	last      int // the commit consumed last by this branch (index in the case), -1 = none
	prev      int // the one before: the tree the last commit was compared with
	lastMerge bool
}

func (w *wrap) Consume(deps map[string]interface{}) (map[string]interface{}, error) {
	c := deps[hercules.DependencyCommit].(*object.Commit)
	w.prev = w.last
	w.last = w.lg.idx[c.Hash]
	w.lastMerge = deps[hercules.DependencyIsMerge].(bool)
	return w.BurndownAnalysis.Consume(deps)
}

func (w *wrap) Fork(n int) []hercules.PipelineItem {
	inner := w.BurndownAnalysis.Fork(n)
	res := make([]hercules.PipelineItem, n)
	for i, x := range inner {
		res[i] = &wrap{BurndownAnalysis: x.(*leaves.BurndownAnalysis), lg: w.lg, last: w.last, prev: w.prev, lastMerge: w.lastMerge}
	}
	return res
}

func branchSx(an *leaves.BurndownAnalysis) Sx {
	fl := an.VerifC07Flatten()
	names := make([]string, 0, len(fl))
	for n := range fl {
		names = append(names, n)
	}
	sort.Strings(names)
	fs := make([]Sx, len(names))
	for i, n := range names {
		fs[i] = L(append([]Sx{I(punname(n))}, Ints(fl[n]).List...)...)
	}
	return T("files", fs...)
}

func mergedSx(an *leaves.BurndownAnalysis) Sx {
	mf := an.VerifC07MergedFiles()
	names := make([]string, 0, len(mf))
	for n := range mf {
		names = append(names, n)
	}
	sort.Strings(names)
	xs := make([]Sx, len(names))
	for i, n := range names {
		xs[i] = L(I(punname(n)), B(mf[n]))
	}
	return T("merged", xs...)
}

func histSx(tag string, h [][3]int64) Sx {
	xs := make([]Sx, len(h))
	for i, e := range h {
		xs[i] = L(I64(e[0]), I64(e[1]), I64(e[2]))
	}
	return T(tag, xs...)
}

func panicClass(msg string) string {
	switch {
	case strings.Contains(msg, "nil file"):
		return "nil"
	case strings.Contains(msg, "lines number mismatch"):
		return "length"
	case strings.Contains(msg, "previousTime cannot be TreeMergeMark"):
		return "prevmark"
	case strings.Contains(msg, "hibernated"):
		return "hibernated"
	}
	return "other"
}

func (w *wrap) Merge(branches []hercules.PipelineItem) {
	all := []*wrap{w}
	inner := make([]hercules.PipelineItem, len(branches))
	for i, b := range branches {
		all = append(all, b.(*wrap))
		inner[i] = b.(*wrap).BurndownAnalysis
	}
	var lasts, prevs, ism []Sx
	pre := make([]Sx, len(all))
	for j, b := range all {
		lasts = append(lasts, I(b.last))
		prevs = append(prevs, I(b.prev))
		ism = append(ism, B(b.lastMerge))
		tick, author := b.VerifC07State()
		pre[j] = T("b", branchSx(b.BurndownAnalysis), mergedSx(b.BurndownAnalysis), T("tick", I(tick)), T("author", I(author)))
	}
	rec := []Sx{T("last", lasts...), T("prev", prevs...), T("ismerge", ism...), T("pre", pre...), T("day", I(w.VerifC07MergeTick())),
		histSx("hist0", w.VerifC07GlobalHistory())}
	msg, p := Catch(func() { w.BurndownAnalysis.Merge(inner) })
	if p {
		w.lg.merges = append(w.lg.merges, T("merge", append(rec, T("res", T("panic", A(panicClass(msg)))))...))
		panic(msg)
	}
	rec = append(rec, T("res", T("ok")))
	post := make([]Sx, len(all))
	_, p = Catch(func() {
		for j, b := range all {
			post[j] = T("b", branchSx(b.BurndownAnalysis))
		}
	})
	if p {
		rec = append(rec, T("post", T("observe-panic")))
	} else {
		rec = append(rec, T("post", post...), histSx("hist1", w.VerifC07GlobalHistory()))
	}
	w.lg.merges = append(w.lg.merges, T("merge", rec...))
}

func errorClass(msg string) string {
	for _, k := range []string{"internal integrity error", "already exists", "does not exist", "unexpectedly became binary",
		"DiffInsert may not", "DiffDelete may not"} {
		if strings.Contains(msg, k) {
			return strings.ReplaceAll(k, " ", "-")
		}
	}
	return "other"
}

func runPipeline(pc *pcase, repo *git.Repository, commits []*object.Commit) (obs []Sx) {
	defer debug.SetGCPercent(100) // Initialize lowers it when hibernation is on
	lg := &evlog{idx: map[plumbing.Hash]int{}}
	defer func() {
		if r := recover(); r != nil {
			obs = append([]Sx{T("run", A("panic"), A(panicClass(fmt.Sprint(r))))}, lg.merges...)
		}
	}()
	for i, c := range commits {
		lg.idx[c.Hash] = i
	}
	p := hercules.NewPipeline(repo)
	b := &wrap{BurndownAnalysis: &leaves.BurndownAnalysis{}, lg: lg, last: -1, prev: -1}
	p.DeployItem(b)
	facts := map[string]interface{}{
		hercules.ConfigLogger:            silent{},
		hercules.ConfigPipelineCommits:   commits,
		leaves.ConfigBurndownGranularity: 30,
		leaves.ConfigBurndownSampling:    30,
		leaves.ConfigBurndownTrackFiles:  pc.track,
		leaves.ConfigBurndownTrackPeople: pc.people,
	}
	if pc.hib > 0 {
		facts[configHibernationDistance] = pc.hib
	}
	if err := p.Initialize(facts); err != nil {
		return []Sx{T("run", A("error"), A("initialize"))}
	}
	npeople := leaves.VerifC01PeopleNumber(b.BurndownAnalysis)
	_, err := p.Run(commits)
	if err != nil {
		return append([]Sx{T("run", A("error"), A(errorClass(err.Error()))), T("npeople", I(npeople))}, lg.merges...)
	}
	obs = append([]Sx{T("run", A("ok")), T("npeople", I(npeople))}, lg.merges...)
	// the root item is the branch that survives
	var final Sx
	_, pn := Catch(func() { final = T("final", branchSx(b.BurndownAnalysis)) })
	if pn {
		final = T("final", T("observe-panic"))
	}
	return append(obs, final)
}

var hangs int

func emit(c *Config, pc *pcase) {
	if hangs >= 3 {
		return
	}
	// a replayed (shrunk) case may have lost commits: any list of trees is a history as long as the parents exist
	for i, cm := range pc.commits {
		seen := map[int]bool{}
		for _, p := range cm.parents {
			if p < 0 || p >= i || seen[p] {
				c.Emit(append(pc.fields(), T("obs", T("run", A("bad-case"))))...)
				return
			}
			seen[p] = true
		}
	}
	if len(pc.commits) == 0 {
		c.Emit(append(pc.fields(), T("obs", T("run", A("bad-case"))))...)
		return
	}
	repo, commits := synth.BuildRepo(pc.specs())
	ch := make(chan []Sx, 1)
	go func() { ch <- runPipeline(pc, repo, commits) }()
	var obs []Sx
	select {
	case obs = <-ch:
	case <-time.After(60 * time.Second):
		hangs++
		obs = []Sx{T("hang")}
	}
	c.Emit(append(pc.fields(), T("obs", obs...))...)
}

// ---------------------------------------------------------------- history generator
//
// Line identities in a global order per file (as in harness/synth, appendix D of DESIGN.md), plus: files are
// identities too (renamed by a chain of rename events, deleted, created on one branch only, a freed name reused
// by a new file), lines have a text that is not their identity (the same text inserted independently on two
// branches next to each other; a later merge commit usually drops one of the twins), merge commits that edit.

type gline struct {
	id, text, born, killer int
}

type gevent struct{ commit, name int }

type gfile struct {
	names   []gevent // names[0].commit = the creating commit; later entries = renames, each a descendant of the one before
	deletes []int
	seq     []*gline
}

type gen struct {
	rng      *rand.Rand
	parents  [][]int
	anc      []map[int]bool
	ticks    []int
	authors  []int
	files    []*gfile
	nextID   int
	nextName int
	freed    []int // names given up by a rename or a deletion (commit recorded alongside); each name at most once
	freedAt  []int
	everFree map[int]bool
	opts     genOpts
}

type genOpts struct {
	renamePr, deletePr, createPr, twinPr, mergeEditPr int // 1/x each (0 = never)
	initLines                                         int
	authors                                           int
	skew                                              bool
}

func (g *gen) exists(c int, f *gfile) bool {
	if !g.anc[c][f.names[0].commit] {
		return false
	}
	for _, d := range f.deletes {
		if g.anc[c][d] {
			return false
		}
	}
	return true
}

func (g *gen) nameAt(c int, f *gfile) int {
	n := f.names[0].name
	for _, e := range f.names[1:] {
		if g.anc[c][e.commit] {
			n = e.name
		}
	}
	return n
}

func (g *gen) alive(c int, l *gline) bool {
	return g.anc[c][l.born] && !(l.killer >= 0 && g.anc[c][l.killer])
}

func (g *gen) content(c int, f *gfile) []int {
	var ids []int
	for _, l := range f.seq {
		if g.alive(c, l) {
			ids = append(ids, l.text)
		}
	}
	return ids
}

func (g *gen) fresh(c, n int) []*gline {
	ls := make([]*gline, n)
	for i := range ls {
		ls[i] = &gline{g.nextID, g.nextID, c, -1}
		g.nextID++
	}
	return ls
}

func (g *gen) insertAt(f *gfile, pos int, ls []*gline) {
	s := append([]*gline{}, f.seq[:pos]...)
	s = append(s, ls...)
	f.seq = append(s, f.seq[pos:]...)
}

func (g *gen) newName(c int) int {
	// sometimes a name given up in an ancestor, each at most once
	for k := range g.freed {
		if g.freed[k] >= 0 && g.anc[c][g.freedAt[k]] && g.rng.Intn(2) == 0 {
			n := g.freed[k]
			g.freed[k] = -1
			return n
		}
	}
	g.nextName++
	return g.nextName - 1
}

// free records that commit c gives up a name; a name enters the list once in the whole history (the same name
// can be given up on two branches by different events: reusing it twice would put two files under one name)
func (g *gen) free(c, name int) {
	if g.everFree == nil {
		g.everFree = map[int]bool{}
	}
	if g.everFree[name] {
		return
	}
	g.everFree[name] = true
	g.freed = append(g.freed, name)
	g.freedAt = append(g.freedAt, c)
}

func (g *gen) createFile(c, lines int) *gfile {
	f := &gfile{names: []gevent{{c, g.newName(c)}}}
	f.seq = g.fresh(c, lines)
	g.files = append(g.files, f)
	return f
}

// editFile kills and inserts lines of f in commit c; light = at most a couple of lines (keeps a rename detectable)
func (g *gen) editFile(c int, f *gfile, light bool) {
	rng := g.rng
	var alive []int
	for i, l := range f.seq {
		if l.born != c && g.alive(c, l) {
			alive = append(alive, i)
		}
	}
	kills := rng.Intn(3)
	if !light && rng.Intn(3) == 0 {
		kills = rng.Intn(len(alive)/2 + 1)
	}
	for ; kills > 0 && len(alive) > 1; kills-- {
		k := rng.Intn(len(alive))
		if rng.Intn(3) == 0 {
			k = len(alive) - 1 // the tail is edited often
		}
		f.seq[alive[k]].killer = c
		alive = append(alive[:k], alive[k+1:]...)
	}
	ins := 1 + rng.Intn(2)
	if kills > 0 && rng.Intn(3) == 0 {
		ins = 0
	}
	for ; ins > 0; ins-- {
		pos := rng.Intn(len(f.seq) + 1)
		switch rng.Intn(4) {
		case 0:
			pos = len(f.seq) // appended lines
		case 1:
			pos = 0
		}
		g.insertAt(f, pos, g.fresh(c, 1+rng.Intn(3)))
	}
}

// twin inserts, next to a line born in a commit that is not an ancestor of c, a new line with the same text
func (g *gen) twin(c int) bool {
	type cand struct {
		f *gfile
		i int
	}
	var cs []cand
	for _, f := range g.files {
		if !g.exists(c, f) {
			continue
		}
		for i, l := range f.seq {
			if !g.anc[c][l.born] && l.born != c && l.id == l.text {
				// its neighbours must be visible here, otherwise the text would land somewhere else
				cs = append(cs, cand{f, i})
			}
		}
	}
	if len(cs) == 0 {
		return false
	}
	x := cs[g.rng.Intn(len(cs))]
	l := &gline{g.nextID, x.f.seq[x.i].text, c, -1}
	g.nextID++
	g.insertAt(x.f, x.i+1, []*gline{l})
	return true
}

func (g *gen) addCommit(ps []int) int {
	rng, o := g.rng, g.opts
	c := len(g.parents)
	g.parents = append(g.parents, ps)
	a := map[int]bool{c: true}
	for _, p := range ps {
		for x := range g.anc[p] {
			a[x] = true
		}
	}
	g.anc = append(g.anc, a)
	tick := 0
	for _, p := range ps {
		if g.ticks[p] > tick {
			tick = g.ticks[p]
		}
	}
	if c > 0 {
		tick += rng.Intn(3)
		if o.skew && rng.Intn(4) == 0 && tick > 0 {
			tick = rng.Intn(tick + 1) // a committer date before the parents' dates
		}
	}
	g.ticks = append(g.ticks, tick)
	g.authors = append(g.authors, rng.Intn(o.authors))
	merge := len(ps) > 1
	if c == 0 {
		for k := 1 + rng.Intn(3); k > 0; k-- {
			g.createFile(c, o.initLines+rng.Intn(o.initLines+1))
		}
		return c
	}
	if merge {
		// twins that meet here: usually one of them goes
		for _, f := range g.files {
			for i := 1; i < len(f.seq); i++ {
				x, y := f.seq[i-1], f.seq[i]
				if x.text == y.text && g.alive(c, x) && g.alive(c, y) && rng.Intn(3) > 0 {
					y.killer = c
				}
			}
		}
		if o.mergeEditPr == 0 || rng.Intn(o.mergeEditPr) > 0 {
			return c
		}
	}
	var live []*gfile
	for _, f := range g.files {
		if g.exists(c, f) {
			live = append(live, f)
		}
	}
	edited := false
	for _, f := range live {
		renamable := true
		for _, e := range f.names {
			if !a[e.commit] {
				renamable = false
			}
		}
		switch {
		case o.renamePr > 0 && renamable && rng.Intn(o.renamePr) == 0:
			g.free(c, g.nameAt(c, f))
			g.nextName++
			f.names = append(f.names, gevent{c, g.nextName - 1})
			if rng.Intn(4) > 0 {
				g.editFile(c, f, true)
			}
			edited = true
		case o.deletePr > 0 && len(live) > 1 && rng.Intn(o.deletePr) == 0:
			g.free(c, g.nameAt(c, f))
			f.deletes = append(f.deletes, c)
			edited = true
		case rng.Intn(2) == 0:
			g.editFile(c, f, false)
			edited = true
		}
	}
	if o.createPr > 0 && rng.Intn(o.createPr) == 0 {
		g.createFile(c, 1+rng.Intn(o.initLines+1))
		edited = true
	}
	if o.twinPr > 0 && rng.Intn(o.twinPr) == 0 && g.twin(c) {
		edited = true
	}
	if !edited && len(live) > 0 {
		g.editFile(c, live[rng.Intn(len(live))], false)
	}
	return c
}

func (g *gen) pcase(kind string) *pcase {
	pc := &pcase{kind: kind}
	for c := range g.parents {
		cm := pcommit{parents: g.parents[c], tick: g.ticks[c], author: g.authors[c]}
		for _, f := range g.files {
			if !g.exists(c, f) {
				continue
			}
			ids := g.content(c, f)
			if len(ids) == 0 {
				continue
			}
			cm.files = append(cm.files, fsnap{g.nameAt(c, f), ids})
		}
		sort.Slice(cm.files, func(i, j int) bool { return cm.files[i].path < cm.files[j].path })
		// two file identities under one name cannot happen: names are handed out once (a freed name is reused once)
		pc.commits = append(pc.commits, cm)
	}
	for _, ps := range g.parents {
		if len(ps) > 1 {
			pc.nt = true
		}
	}
	return pc
}

func newGen(rng *rand.Rand, o genOpts) *gen {
	if o.authors == 0 {
		o.authors = 3
	}
	if o.initLines == 0 {
		o.initLines = 6
	}
	return &gen{rng: rng, opts: o}
}

func (g *gen) heads() []int {
	isP := map[int]bool{}
	for _, ps := range g.parents {
		for _, p := range ps {
			isP[p] = true
		}
	}
	var r []int
	for c := range g.parents {
		if !isP[c] {
			r = append(r, c)
		}
	}
	return r
}

// random DAG with a single head (the rule of synth.GenHist)
func (g *gen) randomDag(maxCommits int) {
	rng := g.rng
	n := 3 + rng.Intn(maxCommits-2)
	for c := 0; c < n; c++ {
		var ps []int
		if c > 0 {
			k := 1
			if r := rng.Intn(10); r < 3 && c >= 2 {
				k = 2
			} else if r == 3 && c >= 3 {
				k = 3
			}
			seen := map[int]bool{}
			for len(ps) < k {
				w := c
				if w > 4 {
					w = 4
				}
				p := c - 1 - rng.Intn(w)
				if !seen[p] {
					seen[p] = true
					ps = append(ps, p)
				}
			}
		}
		g.addCommit(ps)
	}
	for {
		hs := g.heads()
		if len(hs) <= 1 {
			break
		}
		k := 2
		if len(hs) > 2 && rng.Intn(3) == 0 {
			k = 3
		}
		rng.Shuffle(len(hs), func(i, j int) { hs[i], hs[j] = hs[j], hs[i] })
		g.addCommit(append([]int{}, hs[:k]...))
	}
}

// fan: a trunk, nb branches of 1..3 commits each (interleaved), their merge, a tail; repeated
func (g *gen) fan(rounds int) {
	rng := g.rng
	tip := g.addCommit(nil)
	for i := rng.Intn(2); i > 0; i-- {
		tip = g.addCommit([]int{tip})
	}
	for ; rounds > 0; rounds-- {
		nb := 2
		if rng.Intn(4) == 0 {
			nb = 3 + rng.Intn(2)
		}
		tips := make([]int, nb)
		left := make([]int, nb)
		total := 0
		for j := range tips {
			tips[j] = tip
			left[j] = 1 + rng.Intn(3)
			if j > 0 && rng.Intn(5) == 0 {
				left[j] = 0 // a branch that stays at the fork point
			}
			total += left[j]
		}
		for total > 0 {
			j := rng.Intn(nb)
			if left[j] == 0 {
				continue
			}
			left[j]--
			total--
			tips[j] = g.addCommit([]int{tips[j]})
		}
		var ps []int
		seen := map[int]bool{}
		for _, t := range tips {
			if !seen[t] {
				seen[t] = true
				ps = append(ps, t)
			}
		}
		rng.Shuffle(len(ps), func(i, j int) { ps[i], ps[j] = ps[j], ps[i] })
		if len(ps) == 1 {
			tip = ps[0]
		} else {
			tip = g.addCommit(ps)
		}
		for i := rng.Intn(2); i > 0; i-- {
			tip = g.addCommit([]int{tip})
		}
	}
}

func params(rng *rand.Rand, pc *pcase) {
	pc.people = rng.Intn(3) > 0
	pc.track = rng.Intn(2) == 0
	pc.hib = []int{0, 0, 0, 1, 2, 3, 10}[rng.Intn(7)]
}

// bigFile: a file of n lines; one branch touches only its last lines (append / rewrite the last line), the other
// one its head or nothing; then the merge.  The replay of the merge commit in the other branch writes marks at
// the very end of a long file.
func bigFile(rng *rand.Rand, n int) *pcase {
	g := newGen(rng, genOpts{authors: 3})
	// by hand: the generator's random edits are not wanted here
	add := func(ps []int, tick int) int {
		c := len(g.parents)
		g.parents = append(g.parents, ps)
		a := map[int]bool{c: true}
		for _, p := range ps {
			for x := range g.anc[p] {
				a[x] = true
			}
		}
		g.anc = append(g.anc, a)
		g.ticks = append(g.ticks, tick)
		g.authors = append(g.authors, rng.Intn(3))
		return c
	}
	c0 := add(nil, 0)
	f := g.createFile(c0, n)
	small := g.createFile(c0, 5)
	// the receiver of the merge is decided by the planner (branch numbering): the tail-editing branch comes
	// first or second in the commit list
	var a1, b1 int
	if rng.Intn(2) == 0 {
		a1 = add([]int{c0}, 2)
		b1 = add([]int{c0}, 3+rng.Intn(3))
	} else {
		b1 = add([]int{c0}, 1+rng.Intn(3))
		a1 = add([]int{c0}, 2)
	}
	r := 1 + rng.Intn(7)
	if rng.Intn(2) == 0 {
		for _, l := range f.seq[n-r:] {
			l.killer = a1
		}
	}
	g.insertAt(f, len(f.seq), g.fresh(a1, r))
	switch rng.Intn(3) {
	case 0:
		g.insertAt(f, 0, g.fresh(b1, 2))
	case 1:
		g.insertAt(small, 2, g.fresh(b1, 2))
	default:
		f.seq[n/2].killer = b1
	}
	ps := []int{a1, b1}
	if rng.Intn(2) == 0 {
		ps = []int{b1, a1}
	}
	m := add(ps, 7)
	add([]int{m}, 8)
	g.insertAt(small, 0, g.fresh(m+1, 1))
	pc := g.pcase("pipe-bigfile")
	return pc
}

func main() {
	log.SetOutput(io.Discard)
	c := Setup()
	defer c.Close()
	if c.Replay != "" {
		for _, s := range c.ReplayCases() {
			if _, isPipe := s.Field("commits"); !isPipe {
				continue // a case of the file / analysis level stream (harness c07)
			}
			emit(c, parsePcase(s))
		}
		return
	}
	rng := c.Rng
	for i := c.Count(800, 12000); i > 0; i-- {
		g := newGen(rng, genOpts{renamePr: 5, deletePr: 25, createPr: 5, twinPr: 4, mergeEditPr: 4, initLines: 4 + rng.Intn(8), skew: rng.Intn(3) == 0})
		g.fan(1 + rng.Intn(2))
		pc := g.pcase("pipe-fan")
		params(rng, pc)
		emit(c, pc)
	}
	for i := c.Count(800, 12000); i > 0; i-- {
		g := newGen(rng, genOpts{renamePr: 8, deletePr: 30, createPr: 6, twinPr: 4, mergeEditPr: 3, initLines: 3 + rng.Intn(8), skew: rng.Intn(3) == 0})
		g.randomDag(10)
		pc := g.pcase("pipe-dag")
		params(rng, pc)
		emit(c, pc)
	}
	// renames only (with light edits): the shape of a refactoring branch
	for i := c.Count(300, 5000); i > 0; i-- {
		g := newGen(rng, genOpts{renamePr: 2, createPr: 10, initLines: 10 + rng.Intn(6)})
		g.fan(1)
		pc := g.pcase("pipe-rename")
		params(rng, pc)
		emit(c, pc)
	}
	sizes := []int{32771, 40009}
	if c.Thorough() {
		sizes = []int{1003, 32767, 32768, 32769, 32775, 40009, 65537, 100003}
	}
	for _, n := range sizes {
		// which branch receives the merge depends on the commit hashes: two histories per size
		for k := 0; k < 2; k++ {
			pc := bigFile(rng, n)
			params(rng, pc)
			emit(c, pc)
		}
	}
}
