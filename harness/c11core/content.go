// Round 4, class "content of the values": families of the stream c11 whose blobs are built from byte strings that a
// sanitiser, a normaliser or an "is this file empty / blank" shortcut would treat specially.  Everything here is
// deterministic except contentRand.
//
//	content-whole  WHOLE files that consist of one or two special byte strings (byte order marks and halves of one, the
//	               replacement character as real content, invalid / overlong / surrogate UTF-8, NBSP, U+2028/9, U+3000, NEL,
//	               lone CR, CRLF, VT, FF, tab, space, NUL, ...), against the empty file, a plain line, and the same file with
//	               something appended / prepended / a terminator added / doubled - in both directions
//	content-twin   pairs of lines that a normalisation would make EQUAL (invalid bytes vs U+FFFD, with / without BOM, upper /
//	               lower case, kinds of white space, trailing white space and CR, NFC / NFD) facing each other in the two
//	               versions and standing next to each other in one version: the script must keep them apart
//	content-eol    the same lines terminated by LF, CRLF, lone CR, LF CR, U+2028, U+2029, NEL, VT, FF, RS in the two versions
//	content-width  files of 9, 10, 11, 99, 100, 101, 999, 1000, 1001 lines (decimal widths) growing / shrinking by one
//	content-rand   random concatenations of three or more of the special strings
package c11core

import (
	"fmt"
	"math/rand"
	"strings"

	. "verifharness/lib"
)

const bom = "\xef\xbb\xbf"

var atoms = []string{
	bom, "\xef\xbb", "\xbb\xbf", "\xef\xbf\xbd", "\xff", "\xfe", "\xc3", "\xc0\x80", "\xed\xa0\x80", "\xf4\x90\x80\x80",
	"\xc2\xa0", "\xe2\x80\xa8", "\xe2\x80\xa9", "\xe3\x80\x80", "\xc2\x85", "\r", "\r\n", "\n", "\t", "\v", "\f", " ",
	"a", "A", "\xff\xfe", "\xfe\xff", "\x1a", "\x7f", "\x01", "\xc3\xa9", "e\xcc\x81", "\x00",
}

func emit4(c *Config, kind string, a, b string) {
	for cfg := 0; cfg < 4; cfg++ {
		emit(c, input{kind: kind, a: []byte(a), b: []byte(b), cleanup: cfg&1 != 0, ws: cfg&2 != 0})
	}
}

func contentWhole(c *Config) {
	blobs := []string{}
	blobs = append(blobs, atoms...)
	for _, x := range atoms {
		for _, y := range atoms {
			blobs = append(blobs, x+y)
		}
	}
	emit4(c, "content-whole", "", "")
	for _, x := range blobs {
		for _, y := range []string{"", "a\n", x + "a", "a\n" + x, x + "\n", x + x} {
			emit4(c, "content-whole", x, y)
			emit4(c, "content-whole", y, x)
		}
	}
	// every pair of single special strings as whole files
	for _, x := range atoms {
		for _, y := range atoms {
			if x != y {
				emit4(c, "content-whole", x, y)
			}
		}
	}
}

var twinClasses = [][]string{
	{"\xff", "\xfe", "\xc3", "\xc0\x80", "\xed\xa0\x80", "\xef\xbf\xbd", "?"},
	{"x\xff", "x\xef\xbf\xbd", "x\xef\xbf\xbd\xef\xbf\xbd", "x\xff\xff", "x\xe2\x82", "x"},
	{bom + "x", "x", bom + bom + "x", "\xff\xfex", "\xef\xbbx"},
	{bom, "", " ", "\t", "\xc2\xa0", "\r", "\xef\xbf\xbd"},
	{"abc", "Abc", "ABC", "aBc"},
	{"x y", "x\ty", "x\xc2\xa0y", "x\xe3\x80\x80y", "x  y", "xy", "x\xe2\x80\xa8y"},
	{"x", "x ", "x\t", " x", "x\r", "x\xc2\xa0", "\tx", "x  "},
	{"\xc3\xa9", "e\xcc\x81", "e", "\xc3\x89"},
}

func contentTwin(c *Config) {
	for _, cl := range twinClasses {
		for _, x := range cl {
			for _, y := range cl {
				if x == y {
					continue
				}
				emit4(c, "content-twin", x, y)
				emit4(c, "content-twin", x+"\n", y+"\n")
				emit4(c, "content-twin", "k\n"+x+"\nm\n", "k\n"+y+"\nm\n")
				emit4(c, "content-twin", x+"\n"+y+"\n", y+"\n"+x+"\n")
				emit4(c, "content-twin", "k\n"+x, "k\n"+y+"\n"+x)
				emit4(c, "content-twin", x+"\n"+x+"\n"+y+"\n", x+"\n"+y+"\n"+y+"\n")
			}
		}
	}
}

func contentEol(c *Config) {
	terms := []string{"\n", "\r\n", "\r", "\n\r", "\xe2\x80\xa8", "\xe2\x80\xa9", "\xc2\x85", "\v", "\f", "\x1e", "\r\r\n"}
	words := []string{"a", "b", "c"}
	mk := func(n int, t string, final bool) string {
		s := strings.Join(words[:n], t)
		if final {
			s += t
		}
		return s
	}
	for _, t1 := range terms {
		for _, t2 := range terms {
			for n := 1; n <= 3; n++ {
				for f := 0; f < 4; f++ {
					emit4(c, "content-eol", mk(n, t1, f&1 != 0), mk(n, t2, f&2 != 0))
				}
			}
		}
	}
}

func contentWidth(c *Config) {
	mk := func(n int, final bool, repl int) string {
		var sb strings.Builder
		for i := 1; i <= n; i++ {
			if i == repl {
				fmt.Fprintf(&sb, "changed %d", i)
			} else {
				fmt.Fprintf(&sb, "line %d", i)
			}
			if i < n || final {
				sb.WriteByte('\n')
			}
		}
		return sb.String()
	}
	for _, n := range []int{9, 10, 11, 99, 100, 101, 999, 1000, 1001} {
		for f := 0; f < 2; f++ {
			fin := f != 0
			emit4(c, "content-width", mk(n, fin, 0), mk(n+1, fin, 0))
			emit4(c, "content-width", mk(n, fin, 0), mk(n-1, fin, 0))
			emit4(c, "content-width", mk(n, fin, 0), mk(n, fin, n))
			emit4(c, "content-width", mk(n, fin, 0), mk(n, !fin, (n+1)/2))
			emit4(c, "content-width", mk(n, fin, 1), mk(n+1, fin, n+1))
		}
	}
}

func contentRand(c *Config, r *rand.Rand) {
	mk := func() string {
		n := 3 + r.Intn(4)
		var sb strings.Builder
		for i := 0; i < n; i++ {
			if r.Intn(3) == 0 {
				sb.WriteString("\n")
			} else {
				sb.WriteString(atoms[r.Intn(len(atoms)-1)]) // NUL only through the deterministic families
			}
		}
		return sb.String()
	}
	a := mk()
	b := mk()
	if r.Intn(2) == 0 {
		// an edited copy: one special string replaced / removed / inserted
		bs := []byte(a)
		p := r.Intn(len(bs) + 1)
		q := p
		if r.Intn(2) == 0 && p < len(bs) {
			q = p + 1
		}
		b = string(bs[:p]) + atoms[r.Intn(len(atoms)-1)] + string(bs[q:])
	}
	in := input{kind: "content-rand", a: []byte(a), b: []byte(b)}
	randomCfg(r, &in)
	emit(c, in)
}

func generateContent(c *Config) {
	contentWhole(c)
	contentTwin(c)
	contentEol(c)
	contentWidth(c)
	for i := c.Count(4000, 150000); i > 0; i-- {
		contentRand(c, c.Rng)
	}
}
