(* Basic facts about the abstract executor. *)
From Coq Require Import List ZArith Bool Arith Lia Permutation.
From Herc Require Import Plan.Syntax Plan.Exec.
Import ListNotations.
Open Scope Z_scope.

Lemma get_set s b v b' : get (set s b v) b' = if b =? b' then v else get s b'.
Proof. reflexivity. Qed.

Lemma get_set_eq s b v : get (set s b v) b = v.
Proof. rewrite get_set, Z.eqb_refl. reflexivity. Qed.

Lemma get_set_neq s b v b' : b <> b' -> get (set s b v) b' = get s b'.
Proof. intro H. rewrite get_set. apply Z.eqb_neq in H. rewrite H. reflexivity. Qed.

Lemma run_app s p q : run s (p ++ q) = run (run s p) q.
Proof. unfold run. apply fold_left_app. Qed.

Lemma run_cons s a p : run s (a :: p) = run (step s a) p.
Proof. reflexivity. Qed.

Lemma run_nil s : run s [] = s.
Proof. reflexivity. Qed.

Definition memzb (x : Z) (l : list Z) : bool := existsb (Z.eqb x) l.

Lemma memzb_In x l : memzb x l = true <-> In x l.
Proof.
  unfold memzb. rewrite existsb_exists. split.
  - intros [y [Hy He]]. apply Z.eqb_eq in He. subst. exact Hy.
  - intro H. exists x. split; [exact H | apply Z.eqb_refl].
Qed.

Lemma memzb_false x l : memzb x l = false <-> ~ In x l.
Proof.
  rewrite <- memzb_In. destruct (memzb x l); split; intro H.
  - discriminate H.
  - exfalso. apply H. reflexivity.
  - intro H'. discriminate H'.
  - reflexivity.
Qed.

(* setting a list of branches to values that do not depend on the intermediate states *)
Lemma get_fold_set (f : Z -> life) : forall ts s b,
    get (fold_left (fun s' t => set s' t (f t)) ts s) b = if memzb b ts then f b else get s b.
Proof.
  induction ts as [|t ts IH]; intros s b; simpl; [reflexivity|].
  rewrite IH. rewrite get_set. rewrite (Z.eqb_sym b t).
  destruct (memzb b ts); simpl.
  - rewrite orb_true_r. reflexivity.
  - rewrite orb_false_r. destruct (t =? b) eqn:E; [|reflexivity].
    apply Z.eqb_eq in E. subst. reflexivity.
Qed.

Definition hib_life (l : life) : life := match l with Live x => Hibernated x | o => o end.
Definition boot_life (l : life) : life := match l with Hibernated x => Live x | o => o end.

Lemma get_hibernate1 s t b : get (hibernate1 s t) b = if t =? b then hib_life (get s b) else get s b.
Proof.
  unfold hibernate1. destruct (get s t) eqn:G; rewrite ?get_set; destruct (t =? b) eqn:E; try reflexivity;
    apply Z.eqb_eq in E; subst; rewrite G; reflexivity.
Qed.

Lemma get_boot1 s t b : get (boot1 s t) b = if t =? b then boot_life (get s b) else get s b.
Proof.
  unfold boot1. destruct (get s t) eqn:G; rewrite ?get_set; destruct (t =? b) eqn:E; try reflexivity;
    apply Z.eqb_eq in E; subst; rewrite G; reflexivity.
Qed.

Lemma get_fold_hibernate : forall ts s b,
    get (fold_left hibernate1 ts s) b = if memzb b ts then hib_life (get s b) else get s b.
Proof.
  induction ts as [|t ts IH]; intros s b; simpl; [reflexivity|].
  rewrite IH, get_hibernate1, (Z.eqb_sym b t).
  destruct (t =? b); simpl; destruct (memzb b ts); try reflexivity.
  destruct (get s b); reflexivity.
Qed.

Lemma get_fold_boot : forall ts s b,
    get (fold_left boot1 ts s) b = if memzb b ts then boot_life (get s b) else get s b.
Proof.
  induction ts as [|t ts IH]; intros s b; simpl; [reflexivity|].
  rewrite IH, get_boot1, (Z.eqb_sym b t).
  destruct (t =? b); simpl; destruct (memzb b ts); try reflexivity.
  destruct (get s b); reflexivity.
Qed.

(* the state after each kind of well-shaped action *)
Lemma get_step_commit s c b b' :
  get (step s (commit_on c b)) b' =
  if b =? b' then upd (fun x => mkB (c :: inc x) (Some c)) (get s b) else get s b'.
Proof. reflexivity. Qed.

Lemma get_step_merge s m b :
  kind m = KMerge ->
  get (step s m) b =
  if memzb b (items m)
  then upd (fun x => mkB (flat_map (fun k => inc_of (get s k)) (items m)) (last x)) (get s b)
  else get s b.
Proof.
  intro K. unfold step. rewrite K.
  exact (get_fold_set (fun k => upd (fun x => mkB (flat_map (fun k0 => inc_of (get s k0)) (items m)) (last x)) (get s k)) (items m) s b).
Qed.

(* ---------- statements about "the state before every action" ---------- *)

Definition Forall_pre (F : state -> action -> Prop) (s : state) (p : plan) : Prop :=
  forall p1 a p2, p = p1 ++ a :: p2 -> F (run s p1) a.

Lemma Forall_pre_nil (F : state -> action -> Prop) s : Forall_pre F s [].
Proof. intros p1 a p2 H. destruct p1; discriminate. Qed.

Lemma Forall_pre_cons (F : state -> action -> Prop) s a p : F s a -> Forall_pre F (step s a) p -> Forall_pre F s (a :: p).
Proof.
  intros Ha Hp p1 x p2 E. destruct p1 as [|y p1]; simpl in E.
  - injection E as -> ->. exact Ha.
  - injection E as -> ->. rewrite run_cons. eapply Hp. reflexivity.
Qed.

Lemma Forall_pre_app (F : state -> action -> Prop) s p q : Forall_pre F s p -> Forall_pre F (run s p) q -> Forall_pre F s (p ++ q).
Proof.
  revert s. induction p as [|a p IH]; intros s Hp Hq; simpl; [exact Hq|].
  apply Forall_pre_cons.
  - apply (Hp [] a p). reflexivity.
  - apply IH; [|exact Hq]. intros p1 x p2 E. specialize (Hp (a :: p1) x p2).
    rewrite run_cons in Hp. apply Hp. rewrite E. reflexivity.
Qed.

Lemma Forall_pre_imp (F G : state -> action -> Prop) s p :
  (forall s a, F s a -> G s a) -> Forall_pre F s p -> Forall_pre G s p.
Proof. intros H Hp p1 a p2 E. apply H. eapply Hp. exact E. Qed.

Lemma analysed_app p q : analysed (p ++ q) = analysed p ++ analysed q.
Proof. unfold analysed. apply flat_map_app. Qed.
