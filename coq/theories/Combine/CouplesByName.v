(* C18 - CouplesAnalysis.MergeResults, final form: the index form of CouplesProofs.v with the file table
   replaced by what LiteralProofs.v proves about it, so that files are re-indexed BY NAME. *)
From Coq Require Import List ZArith Bool Lia.
From Herc Require Import Combine.Model Combine.Spec Combine.Facts Combine.CouplesProofs Combine.LiteralProofs.
Import ListNotations.
Open Scope Z_scope.

Lemma pf_members_ext pi fi fi' w pf : (forall x, fi x = fi' x) ->
  forall i, pf_members pi fi w pf i = pf_members pi fi' w pf i.
Proof.
  intros E. induction pf as [|fs r IH]; intros i; simpl; [reflexivity|].
  rewrite IH. f_equal. destruct (pi i =? w); [|reflexivity]. apply map_ext. assumption.
Qed.

Lemma lines_of_at mfiles fl name n v :
  NoDup mfiles -> nth_error mfiles n = Some name -> nth_error fl n = Some v -> lines_of mfiles fl name = v.
Proof.
  intros Hnd Hn Hv. unfold lines_of. rewrite (position_nth name mfiles 0 n Hn Hnd). simpl.
  unfold nthZ. destruct (Z.of_nat n <? 0) eqn:E; [apply Z.ltb_lt in E; lia|]. rewrite Nat2Z.id. apply nth_error_nth. assumption.
Qed.

Theorem couples_merge_by_name people merged r1 r2 m :
  NoDup (cr_files r1) -> NoDup (cr_files r2) ->
  couples_merge people merged r1 r2 = Ok m ->
  let mfiles := cr_files m in
  let fi1 := name_index mfiles (cr_files r1) in
  let fi2 := name_index mfiles (cr_files r2) in
  let pi1 := pidx0 people (cr_people r1) merged in
  let pi2 := pidx0 people (cr_people r2) merged in
  cr_people m = merged /\
  (* the merged file list is the duplicate-free union *)
  NoDup mfiles /\ (forall s, In s mfiles <-> In s (cr_files r1) \/ In s (cr_files r2)) /\
  (* line counts by name *)
  length (cr_fl m) = length mfiles /\
  (forall name, In name mfiles ->
     lines_of mfiles (cr_fl m) name =
     lines_of (cr_files r1) (cr_fl r1) name + lines_of (cr_files r2) (cr_fl r2) name) /\
  (* files matrix: rows and columns re-indexed by name *)
  length (cr_fm m) = length mfiles /\ forallb (keys_nodup Z.eqb) (cr_fm m) = true /\
  (forall a b, out_get (cr_fm m) a b = rows_sum fi1 a b (cr_fm r1) 0 + rows_sum fi2 a b (cr_fm r2) 0) /\
  (* people matrix: rows and columns re-indexed by merged identity (last row/column: unmatched developer) *)
  length (cr_pm m) = S (length merged) /\ forallb (keys_nodup Z.eqb) (cr_pm m) = true /\
  (forall a b, out_get (cr_pm m) a b = rows_sum pi1 a b (cr_pm r1) 0 + rows_sum pi2 a b (cr_pm r2) 0) /\
  (* people files: sorted duplicate-free union *)
  length (cr_pf m) = length merged /\
  (forall w, strictly_sorted (nthZ (cr_pf m) w []) = true) /\
  (forall w x, In x (nthZ (cr_pf m) w []) <->
               In x (pf_members (pfidx0 people (cr_people r1)) fi1 w (cr_pf r1) 0) \/
               In x (pf_members (pfidx0 people (cr_people r2)) fi2 w (cr_pf r2) 0)).
Proof.
  intros Hnd1 Hnd2 H. cbv zeta.
  destruct (couples_merge_index _ _ _ _ _ H)
    as (ftab & Hlit & Hpeople & Lfl & Nfl & Lfm & NDfm & Sfm & Lpm & NDpm & Spm & Lpf & SSpf & Upf).
  destruct (literal_merge_spec (cr_files r1) (cr_files r2) Hnd1)
    as (tab & mrd & Hlit' & Hmrd & NDm & Hin & Hlook & Hall).
  assert (ftab = tab /\ cr_files m = mrd) as [<- <-] by (rewrite Hlit in Hlit'; inversion Hlit'; auto).
  clear Hlit'.
  (* the table's Final index of a name is its position in the merged list *)
  assert (Hidx : forall files, (forall s, In s files -> In s (cr_files r1) \/ In s (cr_files r2)) ->
                 forall f, fidx0 ftab files f = name_index (cr_files m) files f).
  { intros files Hsub f. unfold fidx0, name_index, file_index. destruct (idx files f) as [s| |] eqn:Ei; simpl; try reflexivity.
    assert (Hs : In s files) by (apply idx_ok in Ei; destruct Ei as [_ Ei]; eapply nth_error_In; eassumption).
    destruct (Hall s (Hsub s Hs)) as (m0 & Hm0). unfold lookup0. rewrite Hm0. simpl.
    destruct (Hlook s m0 Hm0) as (Hn & H0 & _ & _).
    rewrite (position_nth s (cr_files m) 0 _ Hn NDm). simpl. lia. }
  assert (Hidx1 := Hidx (cr_files r1) (fun s Hs => or_introl Hs)).
  assert (Hidx2 := Hidx (cr_files r2) (fun s Hs => or_intror Hs)).
  split; [assumption|]. split; [assumption|]. split; [assumption|]. split; [assumption|]. split.
  { (* lines *)
    intros name Hname. apply In_nth_error in Hname. destruct Hname as (n & Hn).
    destruct (Nfl n name Hn) as (v & Hv & Hfl).
    rewrite (lines_of_at _ _ _ _ _ NDm Hn Hv).
    assert (Hinn : In name (cr_files m)) by (eapply nth_error_In; eassumption).
    destruct (Hall name (proj1 (Hin name) Hinn)) as (m0 & Hm0).
    destruct (Hlook name m0 Hm0) as (_ & _ & Hf & Hs).
    unfold files_lines in Hfl. unfold lookup0 in Hfl. rewrite Hm0 in Hfl. simpl in Hfl.
    inv_bind Hfl. inv_bind Hfl. inversion Hfl; subst; clear Hfl.
    assert (A : v0 = lines_of (cr_files r1) (cr_fl r1) name).
    { destruct Hf as [[Hf1 Hf2]|[Hf1 Hf2]].
      - rewrite Hf1 in Hv0. simpl in Hv0. inversion Hv0; subst.
        unfold lines_of. rewrite position_none by assumption. reflexivity.
      - destruct (First m0 >=? 0) eqn:E; [|lia].
        unfold lines_of. rewrite (position_nth name _ 0 _ Hf2 Hnd1). simpl. rewrite Z2Nat.id by lia.
        symmetry. apply idx_nthZ. assumption. }
    assert (B : v1 = lines_of (cr_files r2) (cr_fl r2) name).
    { destruct Hs as [[Hs1 Hs2]|[Hs1 Hs2]].
      - rewrite Hs1 in Hv1. simpl in Hv1. inversion Hv1; subst.
        unfold lines_of. rewrite position_none by assumption. reflexivity.
      - destruct (Second m0 >=? 0) eqn:E; [|lia].
        unfold lines_of. rewrite (position_nth name _ 0 _ Hs2 Hnd2). simpl. rewrite Z2Nat.id by lia.
        symmetry. apply idx_nthZ. assumption. }
    rewrite A, B. reflexivity. }
  split; [assumption|]. split; [assumption|]. split.
  { intros a b. rewrite Sfm.
    rewrite (rows_sum_ext _ _ a b (cr_fm r1) Hidx1), (rows_sum_ext _ _ a b (cr_fm r2) Hidx2). reflexivity. }
  split; [assumption|]. split; [assumption|]. split; [assumption|]. split; [assumption|]. split; [assumption|].
  intros w x. rewrite Upf.
  rewrite (pf_members_ext _ _ _ w (cr_pf r1) Hidx1), (pf_members_ext _ _ _ w (cr_pf r2) Hidx2). reflexivity.
Qed.
