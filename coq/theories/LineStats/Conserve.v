(* C12, first half: the removedPending loop of LinesStatsCalculator.Consume conserves lines, and the
   per-language figures of DevsAnalysis sum to the totals. *)
From Coq Require Import List NArith Bool Lia ZArith.
From Herc Require Import LineStats.Model.
Import ListNotations.
Open Scope N_scope.

(* ---------- the loop ---------- *)
Definition head_not_del (ds : list (op * N)) : bool :=
  match ds with (ODel, _) :: _ => false | _ => true end.

Lemma no_del_del_cons : forall e r, no_del_del (e :: r) = true ->
  no_del_del r = true /\ (fst e = ODel -> head_not_del r = true).
Proof.
  intros [o k] r H. destruct o; cbn [fst].
  - cbn in H. split; [exact H | discriminate].
  - cbn in H. split; [exact H | discriminate].
  - destruct r as [|[o2 k2] r2].
    + split; [reflexivity | reflexivity].
    + destruct o2; cbn in H |- *; try discriminate; (split; [exact H | reflexivity]).
Qed.

(* invariant of the loop, from an arbitrary state *)
Lemma ls_loop_conserves : forall ds s,
  no_del_del ds = true ->
  (acc_pending s = 0 \/ head_not_del ds = true) ->
  let st := ls_finish (fold_left ls_step ds s) in
  added st + changed st = acc_added s + acc_changed s + inserted ds /\
  removed st + changed st = acc_removed s + acc_changed s + acc_pending s + deleted ds.
Proof.
  induction ds as [|[o k] r IH]; intros s Hnd Hp.
  - cbn [fold_left ls_finish inserted deleted added removed changed].
    destruct (N.ltb_spec 0 (acc_pending s)); lia.
  - apply no_del_del_cons in Hnd. destruct Hnd as [Hr Hhd]. cbn [fst] in Hhd.
    cbn [fold_left].
    destruct o.
    + (* equal *)
      specialize (IH (ls_step s (OEq, k)) Hr (or_introl eq_refl)).
      cbn [ls_step acc_added acc_removed acc_changed acc_pending inserted deleted] in IH |- *.
      destruct IH as [IH1 IH2]. rewrite IH1, IH2.
      destruct (N.ltb_spec 0 (acc_pending s)); cbn [acc_added acc_removed acc_changed acc_pending]; lia.
    + (* insert *)
      specialize (IH (ls_step s (OIns, k)) Hr).
      cbn [ls_step inserted deleted] in IH |- *.
      destruct (N.ltb_spec k (acc_pending s)) as [Hlt|Hge];
        cbn [acc_added acc_removed acc_changed acc_pending] in IH;
        destruct (IH (or_introl eq_refl)) as [IH1 IH2]; rewrite IH1, IH2; lia.
    + (* delete: nothing may be pending *)
      assert (Hp0 : acc_pending s = 0) by (destruct Hp as [Hp|Hp]; [exact Hp | discriminate Hp]).
      specialize (IH (ls_step s (ODel, k)) Hr (or_intror (Hhd eq_refl))).
      cbn [ls_step acc_added acc_removed acc_changed acc_pending inserted deleted] in IH |- *.
      destruct IH as [IH1 IH2]. rewrite IH1, IH2. lia.
Qed.

Theorem line_stats_conserves : forall ds, no_del_del ds = true ->
  added (line_stats ds) + changed (line_stats ds) = inserted ds /\
  removed (line_stats ds) + changed (line_stats ds) = deleted ds /\
  (Z.of_N (added (line_stats ds)) - Z.of_N (removed (line_stats ds)) = Z.of_N (inserted ds) - Z.of_N (deleted ds))%Z.
Proof.
  intros ds H. unfold line_stats.
  destruct (ls_loop_conserves ds acc0 H (or_introl eq_refl)) as [H1 H2].
  cbn [acc0 acc_added acc_removed acc_changed acc_pending] in H1, H2.
  repeat split; lia.
Qed.

Lemma canonical_no_del_del : forall ds, canonical ds = true -> no_del_del ds = true.
Proof.
  induction ds as [|[o k] r IH]; intro H; [reflexivity|].
  destruct r as [|[o2 k2] r2]; [destruct o; reflexivity|].
  cbn [canonical] in H. apply andb_true_iff in H. destruct H as [H Hc].
  apply andb_true_iff in H. destruct H as [Hne _].
  specialize (IH Hc).
  destruct o, o2; cbn in Hne; try discriminate; cbn [no_del_del]; exact IH.
Qed.

Corollary line_stats_conserves_canonical : forall ds, canonical ds = true ->
  added (line_stats ds) + changed (line_stats ds) = inserted ds /\
  removed (line_stats ds) + changed (line_stats ds) = deleted ds /\
  (Z.of_N (added (line_stats ds)) - Z.of_N (removed (line_stats ds)) = Z.of_N (inserted ds) - Z.of_N (deleted ds))%Z.
Proof. intros ds H. apply line_stats_conserves, canonical_no_del_del, H. Qed.

(* without the hypothesis the first of two neighbouring deletions is forgotten *)
Theorem line_stats_refuted_without_canonical :
  exists ds, removed (line_stats ds) + changed (line_stats ds) <> deleted ds.
Proof. exists [(ODel, 2); (ODel, 3)]. vm_compute. discriminate. Qed.

(* the executable oracle says what it should *)
Lemma conserve_ok_spec : forall st i d, conserve_ok st i d = true <->
  added st + changed st = i /\ removed st + changed st = d.
Proof.
  intros. unfold conserve_ok. rewrite andb_true_iff, !N.eqb_eq. tauto.
Qed.

(* ---------- one commit: the loop over the tree changes ---------- *)
Definition ch_inserted (c : change) : N :=
  match c with
  | ChInsert _ _ (Some n) => n
  | ChModify _ _ ds => inserted ds
  | _ => 0
  end.
Definition ch_deleted (c : change) : N :=
  match c with
  | ChDelete _ _ (Some n) => n
  | ChModify _ _ ds => deleted ds
  | _ => 0
  end.
(* the entry a change writes, if any *)
Definition ch_key (c : change) : option (bool * N) :=
  match c with
  | ChInsert f _ (Some _) => Some (true, f)
  | ChInsert _ _ None => None
  | ChDelete f _ (Some _) => Some (false, f)
  | ChDelete _ _ None => None
  | ChModify f _ _ => Some (true, f)
  end.
Definition ch_ok (c : change) : bool :=
  match c with ChModify _ _ ds => no_del_del ds | _ => true end.

Definition sum_ins (l : list ((bool * N) * (N * stats))) : N :=
  fold_right (fun e a => added (snd (snd e)) + changed (snd (snd e)) + a) 0 l.
Definition sum_del (l : list ((bool * N) * (N * stats))) : N :=
  fold_right (fun e a => removed (snd (snd e)) + changed (snd (snd e)) + a) 0 l.

Lemma sum_ins_cons : forall e l, sum_ins (e :: l) = added (snd (snd e)) + changed (snd (snd e)) + sum_ins l.
Proof. reflexivity. Qed.
Lemma sum_del_cons : forall e l, sum_del (e :: l) = removed (snd (snd e)) + changed (snd (snd e)) + sum_del l.
Proof. reflexivity. Qed.

Fixpoint has_key (l : list ((bool * N) * (N * stats))) (k : bool * N) : bool :=
  match l with [] => false | (k', _) :: r => key_eqb k' k || has_key r k end.

(* tree changes name every entry once (paths of one tree are unique; the two sides differ) *)
Fixpoint keys_distinct (seen : list (bool * N)) (cs : list change) : bool :=
  match cs with
  | [] => true
  | c :: r =>
      match ch_key c with
      | None => keys_distinct seen r
      | Some k => negb (existsb (key_eqb k) seen) && keys_distinct (k :: seen) r
      end
  end.

Lemma key_eqb_sym : forall a b, key_eqb a b = key_eqb b a.
Proof.
  intros [a1 a2] [b1 b2]. unfold key_eqb. cbn [fst snd].
  rewrite (N.eqb_sym a2 b2). destruct a1, b1; reflexivity.
Qed.

Lemma fset_fresh : forall l k v, has_key l k = false ->
  sum_ins (fset l k v) = sum_ins l + (added (snd v) + changed (snd v)) /\
  sum_del (fset l k v) = sum_del l + (removed (snd v) + changed (snd v)) /\
  (forall k', has_key (fset l k v) k' = has_key l k' || key_eqb k k').
Proof.
  induction l as [|[k0 v0] r IH]; intros k v H.
  - cbn. repeat split; try lia. intro k'. rewrite orb_false_r. reflexivity.
  - cbn [has_key] in H. apply orb_false_iff in H. destruct H as [H0 Hr].
    cbn [fset]. rewrite H0. destruct (IH k v Hr) as [I1 [I2 I3]].
    rewrite !sum_ins_cons, !sum_del_cons, I1, I2. repeat split; try lia.
    intro k'. cbn [has_key]. rewrite I3. rewrite orb_assoc. reflexivity.
Qed.

Lemma lsc_loop_conserves : forall cs res seen,
  forallb ch_ok cs = true ->
  keys_distinct seen cs = true ->
  (forall k, has_key res k = existsb (key_eqb k) seen) ->
  sum_ins (fold_left lsc_change cs res) = sum_ins res + fold_right (fun c a => ch_inserted c + a) 0 cs /\
  sum_del (fold_left lsc_change cs res) = sum_del res + fold_right (fun c a => ch_deleted c + a) 0 cs.
Proof.
  induction cs as [|c r IH]; intros res seen Hok Hd Hseen.
  - cbn [fold_left fold_right]. split; lia.
  - cbn [forallb] in Hok. apply andb_true_iff in Hok. destruct Hok as [Hc Hok].
    cbn [fold_left fold_right keys_distinct] in *.
    assert (Hstep : forall k v, ch_key c = Some k -> lsc_change res c = fset res k v ->
              added (snd v) + changed (snd v) = ch_inserted c ->
              removed (snd v) + changed (snd v) = ch_deleted c ->
              sum_ins (fold_left lsc_change r (lsc_change res c)) = sum_ins res + (ch_inserted c + fold_right (fun c a => ch_inserted c + a) 0 r) /\
              sum_del (fold_left lsc_change r (lsc_change res c)) = sum_del res + (ch_deleted c + fold_right (fun c a => ch_deleted c + a) 0 r)).
    { intros k v Hk Hl Hi Hdl. rewrite Hk in Hd. apply andb_true_iff in Hd. destruct Hd as [Hfresh Hd].
      apply negb_true_iff in Hfresh.
      assert (Hf : has_key res k = false) by (rewrite Hseen; exact Hfresh).
      destruct (fset_fresh res k v Hf) as [F1 [F2 F3]].
      rewrite Hl.
      destruct (IH (fset res k v) (k :: seen) Hok Hd) as [J1 J2].
      { intro k'. rewrite F3, Hseen. cbn [existsb]. rewrite (key_eqb_sym k k'). apply orb_comm. }
      rewrite J1, J2, F1, F2. split; lia. }
    destruct c as [f lang [n|] | f lang [n|] | f lang ds].
    + apply (Hstep (true, f) (lang, mkStats n 0 0)); try reflexivity; cbn; lia.
    + cbn [ch_key] in Hd. cbn [lsc_change ch_inserted ch_deleted]. destruct (IH res seen Hok Hd Hseen) as [J1 J2]. rewrite J1, J2. split; lia.
    + apply (Hstep (false, f) (lang, mkStats 0 n 0)); try reflexivity; cbn; lia.
    + cbn [ch_key] in Hd. cbn [lsc_change ch_inserted ch_deleted]. destruct (IH res seen Hok Hd Hseen) as [J1 J2]. rewrite J1, J2. split; lia.
    + cbn [ch_ok] in Hc. destruct (line_stats_conserves ds Hc) as [L1 [L2 _]].
      apply (Hstep (true, f) (lang, line_stats ds)); try reflexivity; cbn [snd ch_inserted ch_deleted]; assumption.
Qed.

(* One non-merge step: summed over the files of the commit, added + changed is the number of inserted
   lines and removed + changed the number of deleted lines of its diff. *)
Theorem lsc_consume_conserves : forall cs,
  forallb ch_ok cs = true -> keys_distinct [] cs = true ->
  sum_ins (lsc_consume false cs) = fold_right (fun c a => ch_inserted c + a) 0 cs /\
  sum_del (lsc_consume false cs) = fold_right (fun c a => ch_deleted c + a) 0 cs.
Proof.
  intros cs Hok Hd. unfold lsc_consume.
  destruct (lsc_loop_conserves cs [] [] Hok Hd) as [H1 H2]; [intro k; reflexivity|].
  cbn [sum_ins sum_del fold_right] in H1, H2. split; lia.
Qed.

(* ---------- language sums ---------- *)
Lemma stats_eq : forall x y, added x = added y -> removed x = removed y -> changed x = changed y -> x = y.
Proof. intros [a r c] [a' r' c']; cbn; intros; subst; reflexivity. Qed.

Lemma langs_total_set : forall l k st,
  langs_total (lang_set l k (stats_add (lang_get l k) st)) = stats_add (langs_total l) st.
Proof.
  induction l as [|[k0 v0] r IH]; intros k st.
  - cbn. apply stats_eq; cbn; lia.
  - cbn [lang_set lang_get]. destruct (k0 =? k) eqn:E.
    + cbn [langs_total fold_right snd]. apply stats_eq; cbn; lia.
    + cbn [langs_total fold_right snd]. fold (langs_total (lang_set r k (stats_add (lang_get r k) st))).
      rewrite IH. fold (langs_total r). apply stats_eq; cbn; lia.
Qed.

Definition dt_inv (dd : devtick) : Prop := langs_total (dt_langs dd) = dt_stats dd.

Lemma devs_add_file_inv : forall dd e, dt_inv dd -> dt_inv (devs_add_file dd e).
Proof.
  intros dd [k [lang st]] H. unfold dt_inv in *. cbn [devs_add_file dt_langs dt_stats].
  rewrite langs_total_set, H. reflexivity.
Qed.

Lemma devs_add_files_inv : forall fs dd, dt_inv dd -> dt_inv (fold_left devs_add_file fs dd).
Proof. induction fs as [|e r IH]; intros dd H; [exact H|]. cbn [fold_left]. apply IH, devs_add_file_inv, H. Qed.

Definition ticks_inv (l : list ((N * N) * devtick)) : Prop := Forall (fun e => dt_inv (snd e)) l.

Lemma tick_get_inv : forall l k d, ticks_inv l -> tick_get l k = Some d -> dt_inv d.
Proof.
  induction l as [|[k0 v0] r IH]; intros k d H G; [discriminate|].
  inversion H; subst. cbn [tick_get] in G. destruct (tkey_eqb k0 k).
  - inversion G; subst. assumption.
  - eapply IH; eassumption.
Qed.

Lemma tick_set_inv : forall l k d, ticks_inv l -> dt_inv d -> ticks_inv (tick_set l k d).
Proof.
  induction l as [|[k0 v0] r IH]; intros k d H Hd.
  - constructor; [exact Hd | constructor].
  - inversion H; subst. cbn [tick_set]. destruct (tkey_eqb k0 k).
    + constructor; assumption.
    + constructor; [assumption | apply IH; assumption].
Qed.

Lemma devs_consume_inv : forall cec st s, ticks_inv (ds_ticks st) -> ticks_inv (ds_ticks (fst (devs_consume cec st s))).
Proof.
  intros cec st s H. unfold devs_consume.
  destruct (should_consume (ds_merges st) s) as [ok merges].
  destruct (negb ok); [exact H|].
  destruct ((N.of_nat (length (s_changes s)) =? 0) && negb cec); [exact H|].
  cbn [fst ds_ticks]. apply tick_set_inv; [exact H|].
  assert (D : dt_inv (match tick_get (ds_ticks st) (s_tick s, s_author s) with Some d => d | None => devtick0 end)).
  { destruct (tick_get (ds_ticks st) (s_tick s, s_author s)) eqn:G.
    - eapply tick_get_inv; eassumption.
    - reflexivity. }
  set (dd := match tick_get (ds_ticks st) (s_tick s, s_author s) with Some d => d | None => devtick0 end) in *.
  assert (D1 : dt_inv (mkDevTick (dt_commits dd + 1) (dt_stats dd) (dt_langs dd))) by exact D.
  destruct (s_ismerge s); [exact D1 | apply devs_add_files_inv, D1].
Qed.

Lemma devs_run_from_inv : forall cec l st, ticks_inv (ds_ticks st) -> ticks_inv (ds_ticks (fst (devs_run_from cec st l))).
Proof.
  induction l as [|s r IH]; intros st H; [exact H|].
  cbn [devs_run_from].
  pose proof (devs_consume_inv cec st s H) as H1.
  destruct (devs_consume cec st s) as [st1 b]. cbn [fst] in H1.
  specialize (IH st1 H1). destruct (devs_run_from cec st1 r) as [st2 bs]. exact IH.
Qed.

(* every developer tick of the result, for every replay sequence whatsoever *)
Theorem language_sums : forall cec l k dd, In (k, dd) (devs_result cec l) ->
  langs_total (dt_langs dd) = dt_stats dd.
Proof.
  intros cec l k dd HIn. unfold devs_result, devs_run in HIn.
  pose proof (devs_run_from_inv cec l devs0 (Forall_nil _)) as H.
  unfold ticks_inv in H. rewrite Forall_forall in H. apply (H (k, dd) HIn).
Qed.

Lemma langs_sum_ok_spec : forall dd, langs_sum_ok dd = true <-> langs_total (dt_langs dd) = dt_stats dd.
Proof.
  intro dd. unfold langs_sum_ok, stats_eqb. rewrite !andb_true_iff, !N.eqb_eq. split.
  - intros [[A B] C]. apply stats_eq; assumption.
  - intro H. rewrite H. auto.
Qed.
