CONFIG = dict(
        level='proof',
        streams=[dict(harness='c12', driver='c12', shrink_field='items')],
        rule='two kinds of cases in one stream.  pipe: a declared history (commits with parents, author, tick, complete file contents) is written '
             'into an in-memory git repository and analysed by the REAL pipeline (hercules.NewPipeline, DeployItem DevsAnalysis + CommitsAnalysis + a '
             'recording item, Initialize, Run) with ConsiderEmptyCommits on/off and the rename threshold set/unset; generators: conflict-free '
             'histories with merges incl. octopus merges and several heads (synth.GenHist), the same closed to one head, the same with commits that '
             'repeat a parent tree or have an empty tree (empty commits, merges equal to one side), linear histories with arbitrary edits (repeated '
             'lines, deletions, renames, binary flips, missing final newline; synth.GenLinear).  direct: LinesStatsCalculator.Consume on fabricated '
             'tree changes / blobs / diff scripts: every script of <=4 edits with counts 1..3 and of <=3 edits with counts {0,1,2,5} (thorough: <=5 '
             'and <=4), random arbitrary and canonical change lists incl. binary blobs, files without final newline, multi-byte runes, large counts, '
             'repeated entries, merge steps.  Non-trivial = pipe case with >=3 commits or direct case with a script of >=2 edits; distinct = distinct '
             'declared input (history / change list + options).',
        exhaustive_note='diff scripts over {equal, insert, delete} x counts {1,2,3} up to length 4 (quick) / 5 (thorough) and x counts {0,1,2,5} up to length 3 / 4 '
                        'enumerated completely through LinesStatsCalculator.Consume; histories are sampled, not enumerated',
        assumptions=[
            'replay_ok (coq/theories/LineStats/Model.v): the merge flag of a replay step says exactly whether its commit is replayed more than once, and a commit '
            'is replayed at most once per parent.  This is what C02 (plan) and C14 (run loop, isMerge) provide; it is derived in Coq from C02\'s specification and C14_is_merge for every '
            'completed model run on a validated plan (C12_replay_ok_composed, docs/COMPOSITION.md) and is evaluated on the '
            'replay sequence of every real run of the harness (real plan from verifapi.PrepareRunPlan and the steps a recording item saw) and a failure is reported',
            'C12_linestats needs a script without two neighbouring deletions (C11: FileDiff output is canonical); every script the real FileDiff produced in the '
            'harness runs is checked against the extracted predicate; C12_linestats_composed derives the hypothesis from C11\'s validator script_ok',
            'author index, tick, tree changes, diff scripts, blob line counts and languages are inputs of the model (observed per replay step); they belong to C16, C19, C20, C11',
            '"changes files relative to a parent" is judged on the parent the commit was replayed on; a root commit is compared with the empty tree',
        ],
        trusted_base=[
            'hand-written Gallina model coq/theories/LineStats/Model.v of LinesStatsCalculator.Consume, OneShotMergeProcessor.ShouldConsumeCommit, '
            'DevsAnalysis.Consume/Finalize and CommitsAnalysis.Consume/Finalize, tied to the code by the replay of every harness case',
            'the recording pipeline item of harness/cmd/c12 (reads the dependencies of every replay step) and the ground truth computed by the harness from the '
            'declared file contents (line split, LCS) and from the run plan',
            'hook file /repo/verifapi/c12/c12.go (type aliases and constants only)',
        ],
        level_text='Coq theorems over the model: C12_linestats (all diff scripts without two neighbouring deletions: added+changed = inserted, removed+changed = deleted, '
                   'added-removed = growth), C12_linestats_refuted_without_canonical, C12_commit_conservation (whole commit), C12_language_sums (every run), '
                   'C12_once + C12_once_counters (all replay sequences satisfying replay_ok: at most once, exactly once when every replay changes files or empty commits '
                   'are counted, the counters are the attributions), C12_listing (listing = commits replayed once, no duplicates).  The model is tied to the Go code by '
                   'replaying every harness case (direct LinesStatsCalculator calls and real pipeline runs) through the extracted model with zero mismatches, and the '
                   'implementation outputs are judged by independent oracles (declared contents, plan).',
        level_note='Proved about the Gallina model, not about the Go text; the tie is the per-run correspondence replay (sampled histories, exhaustive small diff scripts). '
                   'replay_ok is an assumption discharged by C02/C14 and checked at run time on every generated history, not proved from the planner here. Upstream items '
                   '(identity, ticks, tree diff, file diff, languages, blob cache) are inputs of the model, not modelled.',
        technique='machine-checked proof in Coq over a Gallina model + model/implementation correspondence replay on real pipeline runs',
    )
