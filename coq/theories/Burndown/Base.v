(* Shared small definitions of the Burndown development (C01). *)
From Coq Require Import List ZArith Lia Bool.
Import ListNotations.
Open Scope Z_scope.

(* a Go panic / returned error is a result, never a totalised default *)
Inductive pclass := PEmptyHistory | PTicksCorruption | PIndex | PMark | PNilFile | PExists | PIntegrity | PUnmodelled | POther.
Inductive result (A : Type) := Ok (a : A) | Panic (c : pclass) | Err (c : pclass).
Arguments Ok {A} a.
Arguments Panic {A} c.
Arguments Err {A} c.

Definition sum_z (l : list Z) : Z := fold_right Z.add 0 l.

Definition znth {A} (d : A) (l : list A) (i : Z) : A :=
  if i <? 0 then d else nth (Z.to_nat i) l d.

Fixpoint zrange_from (a : Z) (n : nat) : list Z :=
  match n with O => [] | S n' => a :: zrange_from (a + 1) n' end.
Definition zrange (n : Z) : list Z := zrange_from 0 (Z.to_nat n).

Fixpoint nodup_zb (l : list Z) : bool :=
  match l with [] => true | x :: r => negb (existsb (Z.eqb x) r) && nodup_zb r end.

Definition count {A} (f : A -> bool) (l : list A) : Z := Z.of_nat (length (filter f l)).
