// Blobs with long repetitive regions (zero padding, fill bytes, repeated records, repeated lines) from which chunks
// are removed or into which chunks are inserted: the inputs on which a "trim the common head and tail first" or a
// "compare block-wise" variant of blobsAreClose goes wrong, in both directions (the longer version deleted / added).
package main

import (
	. "verifharness/lib"
)

// A blob described by segments is the concatenation of (type, length, parameter) triples:
//
//	0  pseudo-random bytes from the seed `parameter` (a 64-bit LCG; NUL bytes occur)
//	1  `length` copies of the byte `parameter` (0 = zero padding)
//	2  a 16-byte pseudo-random record from the seed `parameter`, repeated up to `length` bytes
//	3  the text line "pad<parameter>\n" repeated up to `length` bytes (cut at `length`)
//	4  pseudo-random printable text lines of 8..40 characters from the seed `parameter`, `length` bytes
func segData(segs []int) []byte {
	var out []byte
	for i := 0; i+2 < len(segs); i += 3 {
		t, n, p := segs[i], segs[i+1], segs[i+2]
		if n < 0 {
			n = 0
		}
		if n > 1<<22 {
			n = 1 << 22
		}
		x := uint64(p)*2862933555777941757 + 3037000493
		next := func() byte {
			x = x*6364136223846793005 + 1442695040888963407
			return byte(x >> 56)
		}
		switch t {
		case 1:
			for k := 0; k < n; k++ {
				out = append(out, byte(p))
			}
		case 2:
			var rec [16]byte
			for k := range rec {
				rec[k] = next()
			}
			for k := 0; k < n; k++ {
				out = append(out, rec[k%16])
			}
		case 3:
			line := []byte("pad" + itoa(p) + "\n")
			for k := 0; k < n; k++ {
				out = append(out, line[k%len(line)])
			}
		case 4:
			col, width := 0, 8+int(next())%33
			for k := 0; k < n; k++ {
				if col == width || k == n-1 {
					out = append(out, '\n')
					col, width = 0, 8+int(next())%33
				} else {
					out = append(out, 'a'+next()%26)
					col++
				}
			}
		default:
			for k := 0; k < n; k++ {
				out = append(out, next())
			}
		}
	}
	return out
}

func itoa(i int) string { return I(i).Atom }

// resize returns the segment list with the length of segment k changed by delta (never below 0)
func resize(segs []int, k, delta int) []int {
	r := append([]int{}, segs...)
	r[3*k+1] += delta
	if r[3*k+1] < 0 {
		r[3*k+1] = 0
	}
	return r
}

// padding: 1..3 "assets" are moved; each is head ++ repetitive region ++ tail, and the new version differs from the
// old one by
//
//	0 the region shrinks   1 the region grows   2 the file is truncated inside the region (the shorter version ends in
//	the region)   3 a chunk of the region is appended   4 a chunk is cut out of the head (distinct data)
//	5 same length, a few bytes of the tail patched   6 the region is replaced by another fill byte
//	7 the head is dropped entirely (the file starts in the region)
//
// so that common prefix + common suffix of the two versions exceed the shorter one (0..3, 7) or do not (4..6).  The
// amounts straddle what sizesAreClose admits at the threshold.  The direction (which version is deleted) is drawn per
// asset; half of the assets are binary (random head / zero or record padding), half text (lines / a repeated line).
// Unrelated small files and an exact rename keep stage 1 and the small list busy.
func padding(c *Config) *tcase {
	r := c.Rng
	tc := &tcase{kind: "padding", thr: []int{80, 80, 80, 50, 90, 95, 30, 0, 100}[r.Intn(9)], timeout: hour, procs: 1 + 15*r.Intn(2), spin: r.Intn(2)}
	if r.Intn(6) == 0 {
		tc.timeout = 0
	}
	names := r.Perm(64)
	next := func() int { n := names[0]; names = names[1:]; return n }
	eff := tc.thr
	for a, na := 0, 1+r.Intn(3); a < na; a++ {
		text := r.Intn(2) == 0
		headLen := []int{0, 1, 31, 32, 33, 200, 200, 600}[r.Intn(8)]
		tailLen := []int{0, 1, 32, 100, 600, 600}[r.Intn(6)]
		padLen := []int{16, 64, 128, 192, 256, 256, 500, 1000}[r.Intn(8)]
		if r.Intn(40) == 0 {
			padLen = 4096
		}
		var segs []int
		if text {
			segs = []int{4, headLen, r.Intn(1000), 3, padLen, r.Intn(3), 4, tailLen, r.Intn(1000)}
		} else {
			padT, padP := 1, 0
			switch r.Intn(4) {
			case 0:
				padT, padP = 2, r.Intn(1000)
			case 1:
				padP = 0xff
			}
			segs = []int{0, headLen, r.Intn(1000), padT, padLen, padP, 0, tailLen, r.Intn(1000)}
			if headLen+tailLen < 40 && padP != 0 {
				// make sure the blob is binary for CountLines
				segs = append([]int{1, 1, 0}, segs...)
			}
		}
		base := len(segs)/3 - 2 // index of the repetitive segment
		total := len(segData(segs))
		// the change of length: small, around the limit of sizesAreClose ((100-thr) % of the larger size), or large
		amount := 1 + r.Intn(8)
		switch r.Intn(4) {
		case 0:
			amount = total*(100-eff)/100 + r.Intn(3) - 1
		case 1:
			amount = padLen / 2
		case 2:
			amount = 8 * (1 + r.Intn(8))
		}
		if amount < 1 {
			amount = 1
		}
		var other []int
		switch r.Intn(8) {
		case 0:
			other = resize(segs, base, -amount)
		case 1:
			other = resize(segs, base, amount)
		case 2:
			other = append([]int{}, segs[:3*(base+1)]...)
			other = resize(other, base, -amount)
		case 3:
			other = append(append([]int{}, segs...), segs[3*base], amount, segs[3*base+2])
		case 4:
			other = resize(segs, 0, -amount)
		case 5:
			other = append(append([]int{}, segs...), 0, 4, r.Intn(1000))
			other = resize(other, base+1, -4)
		case 6:
			other = append([]int{}, segs...)
			other[3*base+2] = segs[3*base+2] + 1
		default:
			other = append([]int{}, segs[3*base:]...)
		}
		b1, b2 := len(tc.blobs), len(tc.blobs)+1
		tc.blobs = append(tc.blobs, blob{randHash(c), blobDesc{segs: segs}}, blob{randHash(c), blobDesc{segs: other}})
		if r.Intn(2) == 0 {
			b1, b2 = b2, b1
		}
		tc.changes = append(tc.changes, change{kind: "d", name: next(), from: b1}, change{kind: "a", name: next(), to: b2})
		if r.Intn(4) == 0 {
			// a second copy of one side: more candidates, both matchers have work
			if r.Intn(2) == 0 {
				tc.changes = append(tc.changes, change{kind: "d", name: next(), from: b2})
			} else {
				tc.changes = append(tc.changes, change{kind: "a", name: next(), to: b1})
			}
		}
	}
	// company: a small file, an exact rename, a modification
	if r.Intn(2) == 0 {
		tc.blobs = append(tc.blobs, blob{randHash(c), tinyDesc(r.Intn(20))})
		tc.changes = append(tc.changes, change{kind: "a", name: next(), to: len(tc.blobs) - 1})
	}
	if r.Intn(3) == 0 {
		tc.blobs = append(tc.blobs, blob{randHash(c), blobDesc{segs: []int{0, 100, r.Intn(1000)}}})
		tc.changes = append(tc.changes, change{kind: "d", name: next(), from: len(tc.blobs) - 1}, change{kind: "a", name: next(), to: len(tc.blobs) - 1})
	}
	if r.Intn(3) == 0 {
		tc.changes = append(tc.changes, change{kind: "m", name: next(), from: 0, to: 1})
	}
	r.Shuffle(len(tc.changes), func(i, j int) { tc.changes[i], tc.changes[j] = tc.changes[j], tc.changes[i] })
	assignModes(c, tc)
	return tc
}
