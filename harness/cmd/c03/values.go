// Round-4 streams of the C03 harness: the CONTENT of the values and pairs of features in one case.
//
// The only thing File.Update may read of a value is "does it carry the merge mark" (low 14 bits all ones); every
// other normalisation - the tick without the author (v & 16383), the author without the tick (v >> 14), "both
// carry the mark", the low 16 / 31 bits - makes DIFFERENT values equal.  The streams of this file put values that
// such a normalisation would collapse next to each other in one file, and combine merge mode x several packed
// authors x requests whose two ends both fall on interval starts:
//
//	exval  every sequence of <= 3 requests (ins 0..1) on a one-line file over an alphabet of three confusable values
//	align  random sequences over such an alphabet whose requests start AND end at interval starts (a few one off),
//	       stamped with the value of the interval before / behind the range or a confusable of it
//
// and (scale.go) merge-marked stamps of several authors and boundary-aligned replacements in the scale-* and
// hugemany families.
package main

import (
	. "verifharness/lib"
)

func pk(author, tick int) int { return author<<14 | tick }

// alphabets of values that some normalisation would make equal (all below 2^32-1)
var alphabets = [][]int{
	{pk(1, 0), pk(2, mark), pk(3, mark)},                // a regular value, two merge-mode authors
	{pk(1, 0), mark, pk(3, mark)},                       // the bare merge mark next to a packed one
	{5, pk(2, 5), pk(3, 5)},                             // one tick: no author, two authors
	{pk(2, 5), pk(2, 6), pk(3, 6)},                      // one author with two ticks, one tick with two authors
	{mark, mark - 1, pk(1, mark-1)},                     // the mark and the largest regular tick
	{43, 1<<16 | 43, 1<<31 | 43},                        // equal in the low 16 / 31 bits
	{pk(2, mark), 1<<31 | pk(2, mark), pk(2, mark) - 1}, // marks equal in the low 31 bits, the regular value below
	{pk(1, mark), pk(2, mark), pk(0x3ffff, mark-1)},     // two merge authors and the largest admissible value 2^32-2
}

// exhaustiveValues: every sequence of at most depth requests with pos 0..len, del 0..len-pos, ins 0..maxIns and the
// value drawn from vals.  A shadow array is kept only to prune: a request that deletes a marked line carrying another
// value panics by design (updateTime), it is emitted once and not extended.
func exhaustiveValues(c *Config, vals []int, t0, n0, depth, maxIns int) {
	var rec func(a []int, prefix []op)
	rec = func(a []int, prefix []op) {
		if len(prefix) > 0 {
			runCase(c, "exval", t0, n0, prefix)
		}
		if len(prefix) == depth {
			return
		}
		n := len(a)
		for _, t := range vals {
			for pos := 0; pos <= n; pos++ {
				for del := 0; pos+del <= n; del++ {
					conflict := false
					for i := pos; i < pos+del; i++ {
						if a[i]&mark == mark && a[i] != t {
							conflict = true
						}
					}
					for ins := 0; ins <= maxIns; ins++ {
						if ins == 0 && del == 0 {
							continue
						}
						next := append(append([]op{}, prefix...), op{t, pos, ins, del})
						if conflict {
							if ins == 0 {
								runCase(c, "exval", t0, n0, next)
							}
							continue
						}
						b := make([]int, 0, n+ins-del)
						b = append(b, a[:pos]...)
						for i := 0; i < ins; i++ {
							b = append(b, t)
						}
						b = append(b, a[pos+del:]...)
						rec(b, next)
					}
				}
			}
		}
	}
	a := make([]int, n0)
	for i := range a {
		a[i] = t0
	}
	rec(a, nil)
}

// randomAlphabet: 1..2 ticks (one of them may be the merge mark) x 2..3 authors (one of them may be "none"),
// sometimes with a high bit set on one value
func randomAlphabet(c *Config) []int {
	r := c.Rng
	if r.Intn(3) == 0 {
		return alphabets[r.Intn(len(alphabets))]
	}
	ticks := []int{r.Intn(40)}
	switch r.Intn(4) {
	case 0:
		ticks = append(ticks, mark)
	case 1:
		ticks = []int{mark}
	case 2:
		ticks = append(ticks, ticks[0]+1)
	}
	authors := []int{1 + r.Intn(5), 6 + r.Intn(5)}
	switch r.Intn(3) {
	case 0:
		authors = append(authors, 0)
	case 1:
		authors = append(authors, authors[0]|1<<uint(3+r.Intn(8))) // an author that shares its low bits with another one
	}
	var vals []int
	for _, t := range ticks {
		for _, a := range authors {
			vals = append(vals, pk(a, t))
		}
	}
	if len(ticks) == 1 { // something that is not a merge-mode value as well
		vals = append(vals, pk(authors[0], (ticks[0]+7)&(mark-1)))
	}
	return vals
}

// alignedOp: a request whose range starts and ends at interval starts of a (one in six: one line off), stamped with
// the value in front of / behind the range or any value of the alphabet
func alignedOp(c *Config, a []int, vals []int) op {
	r := c.Rng
	n := len(a)
	bounds := []int{0}
	for i := 1; i < n; i++ {
		if a[i] != a[i-1] {
			bounds = append(bounds, i)
		}
	}
	if n > 0 {
		bounds = append(bounds, n)
	}
	bi := r.Intn(len(bounds))
	ei := bi
	switch r.Intn(5) {
	case 0: // insertion at a boundary
	case 1, 2:
		ei = bi + 1
	case 3:
		ei = bi + 2
	default:
		ei = bi + r.Intn(len(bounds)-bi)
	}
	if ei >= len(bounds) {
		ei = len(bounds) - 1
	}
	pos, end := bounds[bi], bounds[ei]
	if r.Intn(4) == 0 || len(bounds) <= 2 { // the file still is one interval (or for variety): anywhere
		if r.Intn(2) == 0 {
			pos = r.Intn(n + 1)
			end = pos + r.Intn(n-pos+1)
		}
	}
	switch r.Intn(12) { // controls: one line off at one end
	case 0:
		if pos > 0 {
			pos--
		}
	case 1:
		if end < n {
			end++
		}
	case 2:
		if pos < end {
			pos++
		}
	case 3:
		if end > pos {
			end--
		}
	}
	del := end - pos
	ins := r.Intn(4)
	if r.Intn(4) == 0 {
		ins = del
	}
	if r.Intn(6) == 0 {
		ins = 0
	}
	t := vals[r.Intn(len(vals))]
	var cands []int
	if pos > 0 {
		cands = append(cands, a[pos-1])
	}
	if end < n {
		cands = append(cands, a[end], a[end])
	}
	if len(cands) > 0 && r.Intn(2) == 0 {
		t = cands[r.Intn(len(cands))]
	}
	// the mark protocol: a deleted marked line must carry the request's value (one in 25 requests breaks it on purpose)
	if r.Intn(25) != 0 {
		for i := pos; i < pos+del; i++ {
			if a[i]&mark == mark && a[i] != t {
				if i == pos {
					t = a[i]
				} else {
					del = i - pos
					break
				}
			}
		}
	}
	if ins == 0 && del == 0 {
		ins = 1
	}
	return op{t, pos, ins, del}
}

func alignedCase(c *Config) {
	r := c.Rng
	vals := randomAlphabet(c)
	n0 := r.Intn(9)
	t0 := vals[r.Intn(len(vals))]
	tr, _ := newTracked(t0, n0)
	if tr == nil {
		runCase(c, "align", t0, n0, nil)
		return
	}
	var ops []op
	for k := 3 + r.Intn(14); k > 0; k-- {
		o := alignedOp(c, tr.file.VerifFlatten(), vals)
		ops = append(ops, o)
		if _, ok := tr.step(o); !ok {
			break
		}
	}
	runCase(c, "align", t0, n0, ops)
}

// valueFamily: the round-4 streams of one run
func valueFamily(c *Config) {
	r := c.Rng
	// exhaustive: the two merge-mode alphabets always, two further alphabets per run (all of them in the thorough tier)
	e1 := 2 + r.Intn(len(alphabets)-2)
	e2 := 2 + (e1-2+1+r.Intn(len(alphabets)-3))%(len(alphabets)-2)
	for ai, vals := range alphabets {
		if !(ai < 2 || ai == e1 || ai == e2 || c.Tier == "thorough") {
			continue
		}
		for _, t0 := range vals {
			exhaustiveValues(c, vals, t0, 1, 3, 1)
			exhaustiveValues(c, vals, t0, 2, 2, 2)
			if c.Tier == "thorough" {
				exhaustiveValues(c, vals, t0, 0, 3, 2)
			}
		}
	}
	for i := c.Count(4000, 60000); i > 0; i-- {
		alignedCase(c)
	}
}
