(* C13 - rename detection only re-pairs changes and never misses identical content.
   Only statements closed by [exact] and their assumptions; the proofs are in
   theories/Plumbing/RenamesProofs.v and theories/Plumbing/RenamesChan.v.

   Quantified in every theorem about [consume] (the model of RenameAnalysis.Consume):
     sort_hash, sort_size  sort.Sort of Go's standard library; assumed: returns a permutation, and (for
                           C13_exact) no later element is Less than an earlier one when Less is a strict
                           total order on the elements - which C13_less_total proves for 20-byte hashes;
     cand_order            sortRenameCandidates (sort.Slice by Levenshtein distance): ANY function;
     blobs_close           blobsAreClose (diffmatchpatch / bsdiff similarity): ANY predicate;
     thr0                  the configured similarity threshold: any integer;
     winner_b              which goroutine's result the final select takes: any;
     cut_a, cut_b          after how many outer-loop iterations the timeout stops matchA / matchB: any. *)
From Coq Require Import List ZArith NArith Bool Permutation Sorting.Sorted.
From Herc Require Import Plumbing.Renames Plumbing.RenamesProofs Plumbing.RenamesChan Plumbing.RenamesFast
  Plumbing.RenamesFastComplete.
Import ListNotations.

(* ---- the output is a re-pairing of the input ---- *)
Theorem C13_repairing :
  forall (sort_hash sort_size : list entry -> list entry)
         (cand_order : entry -> list (nat * entry) -> list nat)
         (blobs_close : entry -> entry -> bool),
  (forall l, Permutation (sort_hash l) l) ->
  (forall l, Permutation (sort_size l) l) ->
  forall (thr0 : Z) (winner_b : bool) (cut_a cut_b : nat) (cs out : list (option entry * option entry)),
  consume sort_hash sort_size cand_order blobs_close thr0 winner_b cut_a cut_b cs = Ok out ->
  exists rest,
    (* every modification passes through unchanged; the rest ... *)
    Permutation out (mods cs ++ rest) /\
    (* ... holds every deleted entry exactly once, as a deletion or as the source of a rename, *)
    Permutation (froms rest) (dels cs) /\
    (* every added entry exactly once, as an addition or as the target of a rename, *)
    Permutation (tos rest) (adds cs) /\
    (* and nothing else *)
    Forall (fun c => nonempty c = true) rest.
Proof. exact consume_repairing. Qed.
Print Assumptions C13_repairing.

(* Consume returns an error exactly on a malformed change (both sides empty, go-git's Action() fails) and
   never panics when sortRenameCandidates only reorders the candidates it is given *)
Theorem C13_total :
  forall (sort_hash sort_size : list entry -> list entry)
         (cand_order : entry -> list (nat * entry) -> list nat)
         (blobs_close : entry -> entry -> bool),
  (forall me l a, In a (cand_order me l) -> In a (map fst l)) ->
  forall (thr0 : Z) (winner_b : bool) (cut_a cut_b : nat) (cs : list (option entry * option entry)),
  consume sort_hash sort_size cand_order blobs_close thr0 winner_b cut_a cut_b cs <> Panic /\
  (consume sort_hash sort_size cand_order blobs_close thr0 winner_b cut_a cut_b cs = Err <-> malformed cs = true).
Proof.
  intros sh ss co bc H thr0 w ca cb cs. split.
  - exact (consume_no_panic sh ss co bc H thr0 w ca cb cs).
  - exact (consume_err_iff sh ss co bc thr0 w ca cb cs).
Qed.
Print Assumptions C13_total.

(* ---- identical content is never missed ---- *)
Theorem C13_exact :
  forall (sort_hash sort_size : list entry -> list entry)
         (cand_order : entry -> list (nat * entry) -> list nat)
         (blobs_close : entry -> entry -> bool),
  (forall l, Permutation (sort_hash l) l) ->
  (forall l, Permutation (sort_size l) l) ->
  (forall l, (forall e, In e l -> length (e_hash e) = 20%nat) ->
             StronglySorted (fun x y => less (e_hash y) (e_hash x) = false) (sort_hash l)) ->
  forall (thr0 : Z) (winner_b : bool) (cut_a cut_b : nat) (cs out : list (option entry * option entry)),
  (forall e, In e (adds cs) -> length (e_hash e) = 20%nat) /\
  (forall e, In e (dels cs) -> length (e_hash e) = 20%nat) ->
  consume sort_hash sort_size cand_order blobs_close thr0 winner_b cut_a cut_b cs = Ok out ->
  forall h : list N,
    (* renames whose two sides both carry h = modifications that keep h + min(#added h, #deleted h) *)
    count_same h out =
    (count_same h (mods cs) + Nat.min (count_hash h (adds cs)) (count_hash h (dels cs)))%nat.
Proof. exact consume_exact. Qed.
Print Assumptions C13_exact.

(* ---- the comparison of stage 1 ---- *)
Theorem C13_less_total :
  (forall a, less a a = false) /\
  (forall a b c, less a b = true -> less b c = true -> less a c = true) /\
  (forall a b, length a = 20%nat -> length b = 20%nat -> less a b = false -> less b a = false -> a = b).
Proof. exact less_strict_total. Qed.
Print Assumptions C13_less_total.

(* The comparison before the repair (defect F4, fixed in /repo by "fix: sortableChange.Less was not a
   strict order") was not asymmetric: two hashes each "less" than the other. *)
Theorem C13_old_less_not_total :
  exists a b : list N, length a = 20%nat /\ length b = 20%nat /\ old_less a b = true /\ old_less b a = true.
Proof.
  exists (1 :: 0 :: repeat 0 18)%N, (0 :: 1 :: repeat 0 18)%N. vm_compute. repeat split.
Qed.
Print Assumptions C13_old_less_not_total.

(* ... and with it the merge scan missed identical content: one added and one deleted file with the same
   hash, a second deleted file; the deletions in an order that insertion sort leaves alone under the old
   comparison (each of the two hashes is "less" than the other); no exact rename is found, whereas the
   repaired comparison finds it *)
Example C13_old_less_misses_identical :
  let h0 := (1 :: 0 :: repeat 0 18)%N in
  let h1 := (0 :: 1 :: repeat 0 18)%N in
  let added := [mkEntry 0 h0 0] in
  let deleted := [mkEntry 42 h1 1; mkEntry 41 h0 0] in
  isort_by (fun x y => old_less (e_hash x) (e_hash y)) deleted = [mkEntry 42 h1 1; mkEntry 41 h0 0] /\
  scan_with old_less 3 added (isort_by (fun x y => old_less (e_hash x) (e_hash y)) deleted)
    = ([], added, [mkEntry 42 h1 1; mkEntry 41 h0 0]) /\
  scan_with less 3 (isort_by lt_hash added) (isort_by lt_hash deleted)
    = ([(mkEntry 41 h0 0, mkEntry 0 h0 0)], [], [mkEntry 42 h1 1]).
Proof. vm_compute. repeat split. Qed.

(* ---- the channel protocol of the two goroutines (error-free: blobsAreClose has no error return) ---- *)

(* every run is finite ... *)
Theorem C13_runs_finite : forall can_err r s, is_run can_err s r -> (length r <= measure s)%nat.
Proof. exact run_bounded. Qed.
Print Assumptions C13_runs_finite.

(* ... and every maximal run ends with main holding a result that was really published and both
   goroutines returned: no deadlock *)
Theorem C13_no_deadlock : forall na nb r,
  is_run false (init na nb) r -> next false (last r (init na nb)) = [] ->
  final_ok (last r (init na nb)) = true.
Proof. exact maximal_run_ok. Qed.
Print Assumptions C13_no_deadlock.

(* the "Impossible happened" branch of the final select is unreachable: a result is always available *)
Theorem C13_result_available : forall na nb s, reach false (init na nb) s -> mn s <> Impossible.
Proof. exact impossible_unreachable. Qed.
Print Assumptions C13_result_available.

(* both outcomes of the race exist, so the winner is a genuine choice (what C13_repairing quantifies over) *)
Theorem C13_both_winners : forall na nb,
  (exists s, reach false (init na nb) s /\ mn s = ResA) /\
  (exists s, reach false (init na nb) s /\ mn s = ResB).
Proof. exact both_winners. Qed.
Print Assumptions C13_both_winners.

(* latent: were blobsAreClose ever to return an error, the goroutine would block on the unbuffered errs
   channel while main blocks in wg.Wait *)
Theorem C13_errs_would_deadlock : exists s, reach true (init 1 1) s /\ next true s = [] /\ mn s = Wait.
Proof. exact errs_would_deadlock. Qed.
Print Assumptions C13_errs_would_deadlock.

(* ---- the executable oracles that judge the implementation's output are sound ---- *)
Theorem C13_repairing_oracle_sound : forall inp out, repairing_b inp out = true ->
  exists rest, Permutation out (mods inp ++ rest) /\ Permutation (froms rest) (dels inp) /\
               Permutation (tos rest) (adds inp) /\ Forall (fun c => nonempty c = true) rest.
Proof. exact repairing_b_sound. Qed.
Print Assumptions C13_repairing_oracle_sound.

Theorem C13_exact_oracle_sound : forall inp out, exact_b inp out = true ->
  forall h, count_same h out =
            (count_same h (mods inp) + Nat.min (count_hash h (adds inp)) (count_hash h (dels inp)))%nat.
Proof. exact exact_b_sound. Qed.
Print Assumptions C13_exact_oracle_sound.

(* the fast variants the driver uses on large change sets (theories/Plumbing/RenamesFast.v): the re-pairing oracle
   with merge sort instead of repeated removal (the modifications expected first, in input order, as Consume
   emits them) ... *)
Theorem C13_repairing_fast_oracle_sound : forall inp out, repairing_fast_b inp out = true ->
  exists rest, Permutation out (mods inp ++ rest) /\ Permutation (froms rest) (dels inp) /\
               Permutation (tos rest) (adds inp) /\ Forall (fun c => nonempty c = true) rest.
Proof. exact repairing_fast_sound. Qed.
Print Assumptions C13_repairing_fast_oracle_sound.

(* ... which rejects nothing but violations when the output begins with the modifications in input order (the order
   used for sorting is a total order, so the sorted permutation of a list is unique) *)
Theorem C13_repairing_fast_oracle_complete : forall inp out,
  firstn (length (mods inp)) out = mods inp ->
  (exists rest, Permutation out (mods inp ++ rest) /\ Permutation (froms rest) (dels inp) /\
                Permutation (tos rest) (adds inp) /\ Forall (fun c => nonempty c = true) rest) ->
  repairing_fast_b inp out = true.
Proof. exact repairing_fast_complete. Qed.
Print Assumptions C13_repairing_fast_oracle_complete.

(* ... and the count clause evaluated hash by hash on the changes that carry the hash on some side *)
Theorem C13_exact_by_buckets_sound : forall inp out,
  (forall h, In h (hashes_of inp out) ->
             exact_at (filter (touches h) inp) (filter (touches h) out) h = true) ->
  forall h, count_same h out =
            (count_same h (mods inp) + Nat.min (count_hash h (adds inp)) (count_hash h (dels inp)))%nat.
Proof. exact exact_by_buckets_sound. Qed.
Print Assumptions C13_exact_by_buckets_sound.

(* ---- non-vacuity ---- *)
(* the assumptions on sort.Sort are satisfiable (insertion sort, which is what sort.Sort runs on up to
   12 elements, has them) *)
Example C13_sort_assumptions_satisfiable :
  (forall l, Permutation (isort_by lt_hash l) l) /\
  (forall l, Permutation (isort_by lt_size l) l) /\
  (forall l, (forall e, In e l -> length (e_hash e) = 20%nat) ->
             StronglySorted (fun x y => less (e_hash y) (e_hash x) = false) (isort_by lt_hash l)).
Proof.
  split; [exact (isort_by_perm lt_hash)|]. split; [exact (isort_by_perm lt_size)|].
  intros l _. exact (isort_hash_sorted l).
Qed.

(* a concrete run: two modifications, one exact rename (two deleted and one added file with hash hA), one
   similarity rename found by matchA, one small file, leftovers; both oracles accept the model's output
   and reject an output that drops the leftover deletion *)
Definition ex_hash (k : N) : list N := k :: (255 - k)%N :: repeat 7%N 18.
Definition ex_input : list (option entry * option entry) :=
  [ (Some (mkEntry 1 (ex_hash 1) 100), Some (mkEntry 1 (ex_hash 2) 120));     (* modify 1 *)
    (None, Some (mkEntry 2 (ex_hash 9) 10));                                   (* add 2, hash 9, small *)
    (Some (mkEntry 3 (ex_hash 9) 10), None);                                   (* delete 3, hash 9 *)
    (Some (mkEntry 4 (ex_hash 9) 10), None);                                   (* delete 4, hash 9 *)
    (Some (mkEntry 5 (ex_hash 3) 200), None);                                  (* delete 5, 200 bytes *)
    (None, Some (mkEntry 6 (ex_hash 4) 210));                                  (* add 6, 210 bytes *)
    (None, Some (mkEntry 7 (ex_hash 5) 10));                                   (* add 7, small *)
    (Some (mkEntry 8 (ex_hash 6) 8), Some (mkEntry 8 (ex_hash 6) 8)) ].        (* modify 8, same content *)
Definition ex_run (winner_b : bool) (cut : nat) :=
  consume (isort_by lt_hash) (isort_by lt_size) (fun _ l => map fst l) (fun _ _ => true) 80 winner_b cut cut ex_input.

Example C13_example_run :
  ex_run false 5 = Ok
    [ (Some (mkEntry 1 (ex_hash 1) 100), Some (mkEntry 1 (ex_hash 2) 120));
      (Some (mkEntry 8 (ex_hash 6) 8), Some (mkEntry 8 (ex_hash 6) 8));
      (Some (mkEntry 4 (ex_hash 9) 10), Some (mkEntry 2 (ex_hash 9) 10));      (* exact rename *)
      (Some (mkEntry 5 (ex_hash 3) 200), Some (mkEntry 6 (ex_hash 4) 210));    (* similarity rename *)
      (None, Some (mkEntry 7 (ex_hash 5) 10));
      (Some (mkEntry 3 (ex_hash 9) 10), None) ] /\
  (* a timeout before the first iteration: no similarity rename, still a re-pairing with the exact rename *)
  ex_run true 0 = Ok
    [ (Some (mkEntry 1 (ex_hash 1) 100), Some (mkEntry 1 (ex_hash 2) 120));
      (Some (mkEntry 8 (ex_hash 6) 8), Some (mkEntry 8 (ex_hash 6) 8));
      (Some (mkEntry 4 (ex_hash 9) 10), Some (mkEntry 2 (ex_hash 9) 10));
      (None, Some (mkEntry 6 (ex_hash 4) 210));
      (Some (mkEntry 5 (ex_hash 3) 200), None);
      (None, Some (mkEntry 7 (ex_hash 5) 10));
      (Some (mkEntry 3 (ex_hash 9) 10), None) ] /\
  wf_hashes_b ex_input = true /\
  (forall w c, In w [true; false] -> In c [0; 1; 5]%nat ->
     match ex_run w c with Ok out => repairing_b ex_input out && exact_b ex_input out | _ => false end = true) /\
  (* the oracles are not trivially true *)
  repairing_b ex_input (removelast (match ex_run true 0 with Ok out => out | _ => [] end)) = false /\
  exact_b ex_input [ (Some (mkEntry 3 (ex_hash 9) 10), None); (None, Some (mkEntry 2 (ex_hash 9) 10)) ] = false.
Proof.
  split; [vm_compute; reflexivity|]. split; [vm_compute; reflexivity|]. split; [vm_compute; reflexivity|].
  split.
  - intros w c [<-|[<-|[]]] [<-|[<-|[<-|[]]]]; vm_compute; reflexivity.
  - split; vm_compute; reflexivity.
Qed.

(* the fast oracles accept the same runs and reject the same wrong outputs *)
Example C13_example_fast_oracles :
  (forall w c, In w [true; false] -> In c [0; 1; 5]%nat ->
     match ex_run w c with
     | Ok out => repairing_fast_b ex_input out
                 && forallb (fun h => exact_at (filter (touches h) ex_input) (filter (touches h) out) h) (hashes_of ex_input out)
     | _ => false end = true) /\
  repairing_fast_b ex_input (removelast (match ex_run true 0 with Ok out => out | _ => [] end)) = false /\
  (let out := [ (Some (mkEntry 3 (ex_hash 9) 10), None); (None, Some (mkEntry 2 (ex_hash 9) 10)) ] in
   exact_at (filter (touches (ex_hash 9)) ex_input) (filter (touches (ex_hash 9)) out) (ex_hash 9)) = false.
Proof.
  split.
  - intros w c [<-|[<-|[]]] [<-|[<-|[<-|[]]]]; vm_compute; reflexivity.
  - split; vm_compute; reflexivity.
Qed.

(* the protocol: a maximal run in which matchB is interrupted and matchA's result is taken *)
Example C13_example_protocol_run :
  let r := [ mkSt (Run 0) (Run 2) 0 false false Wait;   (* matchA's loop ends *)
             mkSt Pub (Run 2) 0 true false Wait;        (* finishedA <- true *)
             mkSt DoneP (Run 2) 1 true false Wait;      (* deferred finished <- true; wg.Done *)
             mkSt DoneP Intr 0 true false Wait;         (* matchB: case <-finished: return *)
             mkSt DoneP DoneI 1 true false Wait;        (* deferred finished <- true; wg.Done *)
             mkSt DoneP DoneI 1 false false ResA ] in   (* wg.Wait returns; select takes finishedA *)
  is_run false (init 1 2) r /\ next false (last r (init 1 2)) = [] /\ final_ok (last r (init 1 2)) = true.
Proof. vm_compute. intuition. Qed.
