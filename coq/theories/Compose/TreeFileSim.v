(* Composition C03 on C05, part 5: the simulation.  File.Update run through the tree primitives
   (Compose/TreeFileModel.v: tupdate) computes, on a red-black search tree whose entry list projects to
   the tracker state s, what C03's list model (File/Model.v: update) computes on s - provided the state
   the list model returns has strictly increasing keys (which C03 proves for well-formed states and valid
   requests: WF s').  The in-place key rewrites are the only place where the search-tree order could
   break; it is recovered from the sortedness of the final state (a sorted insertion into an unsorted list
   cannot give a sorted list: inc_insert_inv). *)
From Coq Require Import List ZArith Lia Bool.
Import ListNotations.
From Herc Require Import RBTree.Model RBTree.Spec RBTree.Arena RBTree.InsertProofs RBTree.DeleteProofs
  RBTree.MapProofs RBTree.LookupProofs RBTree.SeqProofs.
From Herc Require Import File.Model File.Spec File.NodeLists File.Locate.
From Herc Require Import Compose.TreeFileKeys Compose.TreeFileModel Compose.TreeFileLists Compose.TreeFileLoops.
Open Scope Z_scope.

(* the allocator's choice: on every tree of at most n nodes, alloc returns a valid index that is not live *)
Definition alloc_ok (alloc : tree -> Z) (n : nat) : Prop :=
  forall tr', (length (ids tr') <= n)%nat -> fresh_for (alloc tr') tr'.

Lemma alloc_ok_le alloc n m : (m <= n)%nat -> alloc_ok alloc n -> alloc_ok alloc m.
Proof. intros H Ha tr' Hl. apply Ha. lia. Qed.

(* tr is a red-black tree with valid distinct node ids and at most n nodes whose items are s
   (the search-tree order is kept apart: it is what the key rewrites suspend) *)
Definition rep (n : nat) (tr : tree) (s : list (Z * Z)) : Prop :=
  is_redblack tr /\ okl (elems tr) /\ map kv (elems tr) = s /\ (length (elems tr) <= n)%nat.

Lemma length_ids tr : length (ids tr) = length (elems tr).
Proof. rewrite ids_eids. apply map_length. Qed.

Lemma rep_weaken n m tr s : (n <= m)%nat -> rep n tr s -> rep m tr s.
Proof. intros H (H1 & H2 & H3 & H4). unfold rep. spl; auto. lia. Qed.

Lemma rep_bst n tr s : rep n tr s -> ssorted s -> bst tr.
Proof. intros (_ & _ & H3 & _) Hs. apply bst_sorted, sorted_ssorted. rewrite H3. exact Hs. Qed.

Lemma rep_insert alloc n tr s k v : rep n tr s -> ssorted s -> alloc_ok alloc n ->
  rep (S n) (fst (t_insert alloc k v tr)) (File.Model.insert k v s) /\ bst (fst (t_insert alloc k v tr)).
Proof.
  intros Hr Hs Ha. pose proof (rep_bst _ _ _ Hr Hs) as Hb. destruct Hr as (H1 & H2 & H3 & H4).
  assert (Hf : fresh_for (alloc tr) tr) by (apply Ha; rewrite length_ids; exact H4).
  destruct (t_insert_ok alloc k v tr Hb H1 H2 Hf) as (B1 & B2 & B3).
  split; [|exact B1]. split; [exact B2|]. split; [exact B3|]. split.
  - rewrite t_insert_kvs by exact Hb. rewrite H3. reflexivity.
  - rewrite t_insert_elems by exact Hb. pose proof (s_insert_length (alloc tr) k v (elems tr)). lia.
Qed.

Lemma insert_or_not alloc n tr s (c : bool) k v s' : rep n tr s -> alloc_ok alloc n ->
  (if c then File.Model.insert k v s else s) = s' -> ssorted s' ->
  exists tr', (if c then TOk (fst (t_insert alloc k v tr)) else TOk tr) = TOk tr' /\ rep (S n) tr' s' /\ bst tr'.
Proof.
  intros Hr Ha E Hs. destruct c; subst s'.
  - assert (Hs0 : ssorted s) by (eapply ssorted_insert_inv; eauto).
    destruct (rep_insert alloc n tr s k v Hr Hs0 Ha) as [R B]. eauto.
  - exists tr. split; [reflexivity|]. split; [eapply rep_weaken; [|exact Hr]; lia|eapply rep_bst; eauto].
Qed.

(* ---------- small list facts ---------- *)
Lemma list_last_cases {A} (l : list A) : l = [] \/ exists l' x, l = l' ++ [x].
Proof. destruct l as [|y l] using rev_ind; [left; reflexivity|right; eauto]. Qed.

Lemma last_opt_nil : last_opt [] = None.
Proof. reflexivity. Qed.

Lemma last_opt_snoc l x : last_opt (l ++ [x]) = Some x.
Proof. unfold last_opt. rewrite rev_app_distr. reflexivity. Qed.

Lemma klast_snoc k l a b : klast k (l ++ [(a, b)]) = a.
Proof. rewrite klast_app. reflexivity. Qed.

(* the iterator that stands on the last entry of the left part (NegativeLimit when it is empty) *)
Lemma it_item_last tr EB EA : elems tr = EB ++ EA -> okl (elems tr) ->
  it_item (pos_bwd (s_max EB)) tr = TOk (last_opt (map kv EB)).
Proof.
  intros He Hok. destruct (list_last_cases EB) as [->|(EB' & p & ->)].
  - reflexivity.
  - rewrite s_max_snoc, map_app. cbn [map]. rewrite last_opt_snoc. cbn [pos_bwd]. rewrite <- app_assoc in He.
    apply (it_item_at _ _ _ _ He Hok).
Qed.

Lemma it_next_last tr EB EA : elems tr = EB ++ EA -> okl (elems tr) ->
  it_next (pos_bwd (s_max EB)) tr = TOk (pos_fwd (s_min EA)).
Proof.
  intros He Hok. destruct (list_last_cases EB) as [->|(EB' & p & ->)].
  - cbn [s_max pos_bwd]. rewrite it_next_neg, He. reflexivity.
  - rewrite s_max_snoc. cbn [pos_bwd]. rewrite <- app_assoc in He. apply (it_next_at _ _ _ _ He Hok).
Qed.

Lemma okl_last_not_neg EB EA : okl (EB ++ EA) -> EB <> [] -> (pos_bwd (s_max EB) =? neg_limit) = false.
Proof.
  intros Hok Hne. destruct (list_last_cases EB) as [->|(EB' & p & ->)]; [congruence|].
  rewrite s_max_snoc. cbn [pos_bwd]. rewrite <- app_assoc in Hok. apply (eid_not_limits _ _ _ Hok).
Qed.

(* ---------- the "simple case with insertions only" ---------- *)
Lemma tins_only_sim alloc t pos ins a e b tr n s' :
  elems tr = a ++ e :: b -> is_redblack tr -> okl (elems tr) -> (length (elems tr) <= n)%nat ->
  alloc_ok alloc (S n) ->
  ins_only t pos ins (map kv a) (kv e) (map kv b) = s' -> ssorted s' ->
  exists tr', tins_only alloc t pos ins (kv e) (eid e) tr = TOk tr' /\ rep (S (S n)) tr' s' /\ bst tr'.
Proof.
  intros He Hrb Hok Hlen Ha E Hs. unfold ins_only in E. unfold tins_only.
  set (adv := (fst (kv e) <? u32 pos) || ((snd (kv e) =? u32 t) && ((pos =? 0) || (u32 pos =? fst (kv e))))) in *.
  set (base := if adv then map kv a ++ kv e :: shift32 (u32 ins) (map kv b)
               else map kv a ++ shift32 (u32 ins) (kv e :: map kv b)) in *.
  assert (Hfuel : (length (e :: b) < loop_fuel tr)%nat).
  { unfold loop_fuel. rewrite length_ids, He, app_length. lia. }
  assert (H1 : exists it1 tr1, (if adv then it_next (eid e) tr else TOk (eid e)) = TOk it1 /\
                            tshift_loop (loop_fuel tr) (u32 ins) it1 tr = TOk tr1 /\ rep n tr1 base).
  { destruct adv.
    - rewrite (it_next_at _ _ _ _ He Hok). eexists. cbn [bind].
      destruct (tshift_loop_sim (u32 ins) b (a ++ [e]) tr (loop_fuel tr)) as (tr1 & E1 & E2 & E3 & E4).
      + cbn [length] in Hfuel. lia.
      + rewrite <- app_assoc. exact He.
      + exact Hok.
      + exists tr1. split; [reflexivity|]. split; [exact E1|]. split; [auto|]. split; [exact E3|]. split.
        * rewrite E2, <- app_assoc, map_app. cbn [map app]. rewrite kv_shift. reflexivity.
        * rewrite E2, <- app_assoc, app_length. cbn [app length]. rewrite map_length.
          rewrite He, app_length in Hlen. cbn [length] in Hlen. exact Hlen.
    - exists (eid e).
      destruct (tshift_loop_sim (u32 ins) (e :: b) a tr (loop_fuel tr) Hfuel He Hok) as (tr1 & E1 & E2 & E3 & E4).
      exists tr1. split; [reflexivity|]. split; [exact E1|]. split; [auto|]. split; [exact E3|]. split.
      + rewrite E2, map_app, kv_shift. reflexivity.
      + rewrite E2, app_length, map_length. rewrite He, app_length in Hlen. exact Hlen. }
  destruct H1 as (it1 & tr1 & E0 & E1 & R1).
  rewrite E0. cbn [bind]. rewrite E1. cbn [bind].
  destruct (negb (snd (kv e) =? u32 t)).
  - cbn zeta in E. destruct (fst (kv e) <? u32 pos).
    + assert (Hs2 : ssorted (File.Model.insert (u32 pos) (u32 t) base))
        by (rewrite <- E in Hs; eapply ssorted_insert_inv; eauto).
      assert (Hs1 : ssorted base) by (eapply ssorted_insert_inv; eauto).
      destruct (rep_insert alloc n tr1 base (u32 pos) (u32 t) R1 Hs1) as [R2 B2].
      { eapply alloc_ok_le; [|exact Ha]. lia. }
      destruct (rep_insert alloc (S n) _ _ (u32 (pos + ins)) (snd (kv e)) R2 Hs2 Ha) as [R3 B3].
      eexists. split; [reflexivity|]. rewrite <- E. split; assumption.
    + assert (Hs1 : ssorted base) by (rewrite <- E in Hs; eapply ssorted_insert_inv; eauto).
      destruct (rep_insert alloc n tr1 base (u32 pos) (u32 t) R1 Hs1) as [R2 B2].
      { eapply alloc_ok_le; [|exact Ha]. lia. }
      eexists. split; [reflexivity|]. rewrite <- E. split; [eapply rep_weaken; [|exact R2]; lia|exact B2].
  - exists tr1. split; [reflexivity|]. rewrite <- E. rewrite <- E in Hs.
    split; [eapply rep_weaken; [|exact R1]; lia|eapply rep_bst; eauto].
Qed.

(* ---------- "prepare for the keys update" ---------- *)
Lemma sorted_snoc_all_lt a x : sorted (a ++ [x]) -> all_lt a (ekey x).
Proof. intros H. apply sorted_app in H. tauto. Qed.

Lemma tprepare_sim alloc t pos ins del origin1 EL1 er ER1 tr1 n before after origin2 :
  elems tr1 = EL1 ++ er :: ER1 -> bst tr1 -> is_redblack tr1 -> okl (elems tr1) ->
  (length (elems tr1) <= n)%nat -> alloc_ok alloc n ->
  u32 pos < ekey er ->
  prepare t pos ins del origin1 (map kv EL1) (kv er) (map kv ER1) = (before, after, origin2) ->
  ssorted before ->
  exists tr2 EB EA pv,
    tprepare alloc t pos ins del origin1 (eid er) tr1 = TOk (pos_bwd (s_max EB), tr2, origin2, pv) /\
    elems tr2 = EB ++ EA /\ map kv EB = before /\ map kv EA = after /\
    is_redblack tr2 /\ okl (elems tr2) /\ (length (elems tr2) <= S n)%nat /\
    (if (ins >? 0) && (negb (snd origin1 =? u32 t) || (fst origin1 >=? u32 pos))
     then pv = None else pv = Some (pos_bwd (s_max EB))).
Proof.
  intros He Hb Hrb Hok Hlen Ha Hgt E Hsb. unfold prepare in E. unfold tprepare.
  assert (Hs : sorted (EL1 ++ er :: ER1)) by (rewrite <- He; apply bst_sorted; exact Hb).
  destruct ((ins >? 0) && (negb (snd origin1 =? u32 t) || (fst origin1 >=? u32 pos))).
  - rewrite (deref_at _ _ _ _ He Hok). cbn [bind].
    destruct ((snd (kv er) =? u32 t) && (fst (kv er) - del =? pos)).
    + rewrite (it_prev_at _ _ _ _ He Hok). cbn [bind].
      destruct (list_last_cases EL1) as [->|(EL' & p & ->)].
      * cbn [map] in E. rewrite last_opt_nil in E. inversion E; subst. clear E.
        cbn [s_max pos_bwd]. change (neg_limit =? neg_limit) with true. cbn [bind].
        exists (set_key (eid er) (u32 pos) tr1), [(eid er, u32 pos, eval er)], ER1, None.
        split; [reflexivity|]. split; [apply (set_key_at tr1 [] er ER1); auto|].
        split; [reflexivity|]. split; [reflexivity|]. split; [apply map_keys_redblack; exact Hrb|].
        split; [eapply set_key_ok; eauto|]. split; [|reflexivity].
        rewrite (set_key_at tr1 [] er ER1) by auto. rewrite He in Hlen. cbn [app length] in *. lia.
      * rewrite map_app in E. cbn [map] in E. rewrite last_opt_snoc in E.
        rewrite s_max_snoc. cbn [pos_bwd].
        assert (He' : elems tr1 = EL' ++ p :: er :: ER1) by (rewrite He, <- app_assoc; reflexivity).
        pose proof Hok as Hok'. rewrite He' in Hok'. destruct (eid_not_limits _ _ _ Hok') as [_ Hn]. rewrite Hn.
        rewrite (deref_at _ _ _ _ He' Hok). cbn [bind].
        destruct (negb (snd (kv p) =? u32 t)).
        -- inversion E; subst. clear E.
           exists (set_key (eid er) (u32 pos) tr1), ((EL' ++ [p]) ++ [(eid er, u32 pos, eval er)]), ER1, None.
           split; [rewrite s_max_snoc; reflexivity|].
           split; [rewrite <- app_assoc with (n := ER1); apply (set_key_at tr1 (EL' ++ [p]) er ER1); auto|].
           split; [rewrite !map_app; reflexivity|]. split; [reflexivity|].
           split; [apply map_keys_redblack; exact Hrb|]. split; [eapply set_key_ok; eauto|]. split; [|reflexivity].
           rewrite (set_key_at tr1 (EL' ++ [p]) er ER1) by auto. rewrite He in Hlen.
           rewrite !app_length in *. cbn [length] in *. lia.
        -- inversion E; subst. clear E.
           destruct (t_delete_at _ _ _ _ He Hok Hb Hrb) as (tr' & D1 & D2 & D3 & D4 & D5).
           rewrite D1. cbn [bind]. exists tr', (EL' ++ [p]), ER1, None.
           split; [rewrite s_max_snoc; reflexivity|]. split; [exact D2|].
           split; [rewrite map_app; reflexivity|]. split; [reflexivity|]. split; [exact D4|]. split; [exact D5|].
           split; [|reflexivity]. rewrite D2. rewrite He in Hlen. rewrite !app_length in *. cbn [length] in *. lia.
    + inversion E; subst. clear E.
      set (ni := alloc tr1). set (new := (ni, u32 pos, u32 t)).
      assert (Hsb' : sorted (EL1 ++ [new])).
      { apply sorted_ssorted. rewrite map_app. exact Hsb. }
      pose proof (sorted_snoc_all_lt _ _ Hsb') as Hlt. cbn [new ekey fst snd] in Hlt.
      apply sorted_app in Hs. destruct Hs as (S1 & S2 & L1 & G1).
      assert (Hf : fresh_for ni tr1) by (apply Ha; rewrite length_ids; exact Hlen).
      pose proof (t_insert_elems alloc (u32 pos) (u32 t) tr1 Hb) as IE.
      pose proof (t_insert_it alloc (u32 pos) (u32 t) tr1 Hb) as II.
      destruct (t_insert_ok alloc (u32 pos) (u32 t) tr1 Hb Hrb Hok Hf) as (B1 & B2 & B3).
      rewrite He, s_mem_absent_between in II by auto. fold ni in II.
      rewrite He, s_insert_between in IE by auto. fold ni in IE.
      destruct (t_insert alloc (u32 pos) (u32 t) tr1) as [tr' it']. cbn [fst snd] in *. subst it'.
      exists tr', (EL1 ++ [new]), (er :: ER1), None.
      split; [rewrite s_max_snoc; reflexivity|].
      split; [rewrite IE, <- app_assoc; reflexivity|]. split; [rewrite map_app; reflexivity|].
      split; [reflexivity|]. split; [exact B2|]. split; [exact B3|]. split; [|reflexivity].
      rewrite IE. rewrite He in Hlen. rewrite !app_length in *. cbn [length] in *. lia.
  - inversion E; subst. clear E. rewrite (it_prev_at _ _ _ _ He Hok). cbn [bind].
    exists tr1, EL1, (er :: ER1), (Some (pos_bwd (s_max EL1))).
    split; [reflexivity|]. split; [exact He|]. split; [reflexivity|]. split; [reflexivity|].
    split; [exact Hrb|]. split; [exact Hok|]. split; [lia|reflexivity].
Qed.

(* ---------- the key shift and the final conditional Insert ---------- *)
Lemma finish_before_sorted t pos ins del prevOrigin previous before after origin2 :
  ssorted (finish t pos ins del prevOrigin previous before after origin2) -> ssorted before.
Proof.
  unfold finish. set (s3 := if ins - del =? 0 then before ++ after else before ++ shift32 (ins - del) after).
  assert (H3 : ssorted s3 -> ssorted before) by (unfold s3; destruct (ins - del =? 0); apply ssorted_app_l).
  intros H. apply H3. clear H3.
  repeat match type of H with
         | ssorted (if ?c then _ else _) => destruct c
         | ssorted (File.Model.insert _ _ _) => apply ssorted_insert_inv in H
         end; exact H.
Qed.

Lemma tfinish_sim alloc t pos ins del prevOrigin previous pv tr2 EB EA n origin2 s' :
  elems tr2 = EB ++ EA -> is_redblack tr2 -> okl (elems tr2) -> (length (elems tr2) <= n)%nat ->
  alloc_ok alloc n ->
  (pv = None /\ previous = None \/ pv = Some (pos_bwd (s_max EB)) /\ previous = last_opt (map kv EB)) ->
  finish t pos ins del prevOrigin previous (map kv EB) (map kv EA) origin2 = s' -> ssorted s' ->
  exists tr3, tfinish alloc t pos ins del prevOrigin pv (pos_bwd (s_max EB)) tr2 origin2 = TOk tr3 /\
    rep (S n) tr3 s' /\ bst tr3.
Proof.
  intros He Hrb Hok Hlen Ha Hpv E Hs. unfold finish in E. unfold tfinish.
  set (delta := ins - del) in *.
  set (s3 := if delta =? 0 then map kv EB ++ map kv EA else map kv EB ++ shift32 delta (map kv EA)) in *.
  assert (H3 : exists tr3 EA', (if delta =? 0 then TOk tr2
                 else nx <- it_next (pos_bwd (s_max EB)) tr2 ;; tshift_loop (loop_fuel tr2) delta nx tr2) = TOk tr3 /\
               rep n tr3 s3 /\ elems tr3 = EB ++ EA').
  { unfold s3. destruct (delta =? 0).
    - exists tr2, EA. split; [reflexivity|]. split; [|exact He]. unfold rep. spl; auto. rewrite He, map_app. reflexivity.
    - rewrite (it_next_last _ _ _ He Hok). cbn [bind].
      destruct (tshift_loop_sim delta EA EB tr2 (loop_fuel tr2)) as (tr3 & E1 & E2 & E3 & E4); auto.
      { unfold loop_fuel. rewrite length_ids, He, app_length. lia. }
      exists tr3, (map (shift_entry delta) EA). split; [exact E1|]. split; [|exact E2].
      unfold rep. spl; auto.
      + rewrite E2, map_app, kv_shift. reflexivity.
      + rewrite E2, app_length, map_length. rewrite He, app_length in Hlen. exact Hlen. }
  destruct H3 as (tr3 & EA' & E3 & R3 & He3). rewrite E3. cbn [bind].
  set (okey := if negb (delta =? 0) && (fst origin2 >? u32 pos) then fst origin2 + delta else fst origin2) in *.
  destruct (ins >? 0).
  - destruct (negb (snd origin2 =? u32 t)).
    + apply (insert_or_not alloc n tr3 s3 true _ _ s' R3 Ha E Hs).
    + apply (insert_or_not alloc n tr3 s3 (pos =? 0) _ _ s' R3 Ha E Hs).
  - assert (Hpvb : (match pv with
                    | None => TOk false
                    | Some p => o <- it_item p tr3 ;;
                                TOk (match o with Some n0 => negb (snd n0 =? snd origin2) | None => false end)
                    end) = TOk (match previous with Some p => negb (snd p =? snd origin2) | None => false end)).
    { destruct Hpv as [[-> ->]|[-> ->]]; [reflexivity|].
      destruct R3 as (_ & Hok3 & _ & _). rewrite (it_item_last _ _ _ He3 Hok3). reflexivity. }
    rewrite Hpvb. cbn [bind].
    match type of E with (if ?c then _ else _) = _ =>
      apply (insert_or_not alloc n tr3 s3 c _ _ s' R3 Ha E Hs) end.
Qed.

(* ---------- everything after FindLE ---------- *)
Lemma tupdate_body_sim alloc t pos ins del a e b tr s' ds :
  elems tr = a ++ e :: b -> bst tr -> is_redblack tr -> okl (elems tr) ->
  alloc_ok alloc (S (length (elems tr))) ->
  0 <= pos <= MaxU32 -> 0 <= del -> ekey e <= u32 pos ->
  match b with [] => True | e2 :: _ => u32 pos < ekey e2 end ->
  update_body t pos ins del (map kv a) (kv e) (map kv b) = Ok (s', ds) -> ssorted s' ->
  exists tr', tupdate_body alloc t pos ins del (eid e) (kv e)
                (match last_opt (map kv a) with Some p => p | None => kv e end) tr = TOk (tr', ds) /\
    rep (S (S (length (elems tr)))) tr' s' /\ bst tr'.
Proof.
  intros He Hb Hrb Hok Ha Hpos Hdel Hle Hgt E Hs. unfold update_body in E. unfold tupdate_body.
  set (prevOrigin := match last_opt (map kv a) with Some p => p | None => kv e end) in *.
  destruct (if ins >? 0 then update_time t t ins else Ok []) as [reps0|c]; [|discriminate].
  destruct (Z.eqb_spec del 0) as [Hd0|Hd0].
  - inversion E; subst s' ds. clear E.
    destruct (tins_only_sim alloc t pos ins a e b tr (length (elems tr)) _ He Hrb Hok (le_n _) Ha eq_refl Hs)
      as (tr' & E1 & R & B).
    rewrite E1. cbn [bind]. eauto.
  - assert (Hfuel : (length b < loop_fuel tr)%nat).
    { unfold loop_fuel. rewrite length_ids, He, app_length. cbn [length]. lia. }
    pose proof (tdel_loop_sim t pos ins del prevOrigin b a e tr (kv e) reps0 (loop_fuel tr) Hfuel Hb Hrb Hok He) as HL.
    destruct (del_loop t pos ins del (kv e) prevOrigin (map kv a) (kv e) (map kv b) reps0)
      as [[[[o1 L1] right1] reps1]|c] eqn:EL; [|discriminate].
    destruct HL as (tr1 & EL1 & er & ER1 & I1 & I2 & I3 & I4 & I5 & I6 & I7 & I8).
    rewrite I1. cbn [bind].
    (* the node under the iterator lies beyond pos *)
    assert (Hu : u32 pos = pos) by (apply u32_id; exact Hpos).
    assert (Hs0 : sorted (a ++ e :: b)) by (rewrite <- He; apply bst_sorted; exact Hb).
    apply sorted_app in Hs0. destruct Hs0 as (_ & Sb & _ & Gb).
    assert (Hgt1 : first_gt pos right1).
    { change (kv e) with (ekey e, eval e) in EL.
      eapply (del_loop_first_gt t pos ins del prevOrigin (map kv b) (ekey e) (eval e)); [| | | |exact EL].
      - lia.
      - lia.
      - apply inc_kv. split; assumption.
      - destruct b as [|e2 b]; [exact I|]. cbn [map first_gt kv fst snd]. rewrite Hu in Hgt. exact Hgt. }
    rewrite <- I4 in E, Hgt1. cbn [map] in E, Hgt1. rewrite kv_eq in Hgt1. cbn [first_gt] in Hgt1.
    destruct (prepare t pos ins del o1 L1 (kv er) (map kv ER1)) as [[before after] origin2] eqn:EP.
    inversion E; subst s' ds. clear E.
    pose proof (finish_before_sorted _ _ _ _ _ _ _ _ _ Hs) as Hsb.
    rewrite <- I3 in EP.
    destruct (tprepare_sim alloc t pos ins del o1 EL1 er ER1 tr1 (length (elems tr)) before after origin2
                I2 I5 I6 I7 I8) as (tr2 & EB & EA & pv & P1 & P2 & P3 & P4 & P5 & P6 & P7 & P8); auto.
    { eapply alloc_ok_le; [|exact Ha]. lia. }
    { rewrite Hu. exact Hgt1. }
    rewrite P1. cbn [bind].
    set (previous := if (ins >? 0) && (negb (snd o1 =? u32 t) || (fst o1 >=? u32 pos)) then None else last_opt L1) in *.
    assert (Hpv : pv = None /\ previous = None \/
                  pv = Some (pos_bwd (s_max EB)) /\ previous = last_opt (map kv EB)).
    { unfold previous. unfold prepare in EP.
      destruct ((ins >? 0) && (negb (snd o1 =? u32 t) || (fst o1 >=? u32 pos))).
      - left. auto.
      - right. split; [exact P8|]. injection EP as Q1 Q2 Q3. rewrite P3, <- Q1, I3. reflexivity. }
    rewrite <- P3, <- P4 in Hs.
    destruct (tfinish_sim alloc t pos ins del prevOrigin previous pv tr2 EB EA (S (length (elems tr))) origin2 _
                P2 P5 P6 P7 Ha Hpv eq_refl Hs) as (tr3 & F1 & F2 & F3).
    rewrite F1. cbn [bind]. exists tr3. rewrite <- P3, <- P4. auto.
Qed.

(* ---------- the state-dependent guards and FindLE ---------- *)
Lemma klast_kv_snoc k l x : klast k (map kv (l ++ [x])) = ekey x.
Proof. rewrite map_app, klast_app. reflexivity. Qed.

Lemma tupdate_core_sim alloc t pos ins del tr s' ds :
  bst tr -> is_redblack tr -> okl (elems tr) -> alloc_ok alloc (S (length (elems tr))) ->
  0 <= pos <= MaxU32 -> 0 <= del ->
  update_core t pos ins del (map kv (elems tr)) = Ok (s', ds) -> ssorted s' ->
  exists tr', tupdate_core alloc t pos ins del tr = TOk (tr', ds) /\
    rep (S (S (length (elems tr)))) tr' s' /\ bst tr'.
Proof.
  intros Hb Hrb Hok Ha Hpos Hdel E Hs. unfold update_core in E. unfold tupdate_core.
  destruct (okl_tree _ Hok) as [Hnd Hio].
  destruct (elems tr) as [|e0 tl] eqn:He; [discriminate|]. cbn [map] in E.
  (* tree.Len() < 2 && tree.Min().Item().Key != 0 *)
  assert (Hmin : deref (min_id tr) tr = TOk (kv e0)).
  { rewrite min_id_spec, He. cbn [s_min pos_fwd]. apply (deref_at tr [] e0 tl); [exact He|rewrite He; exact Hok]. }
  assert (G1 : (bad <- (if tsize tr <? 2 then m <- deref (min_id tr) tr ;; TOk (negb (fst m =? 0)) else TOk false) ;;
                TOk bad) =
               TOk ((match map kv tl with [] => true | _ :: _ => false end) && negb (fst (kv e0) =? 0))).
  { rewrite tsize_spec, He. destruct tl as [|e1 tl'].
    - cbn [length map]. change (Z.of_nat 1 <? 2) with true. cbn iota. rewrite Hmin. reflexivity.
    - cbn [length map]. destruct (Z.ltb_spec (Z.of_nat (S (S (length tl')))) 2); [lia|]. reflexivity. }
  destruct ((match map kv tl with [] => true | _ :: _ => false end) && negb (fst (kv e0) =? 0)); [discriminate|].
  destruct (if tsize tr <? 2 then m <- deref (min_id tr) tr ;; TOk (negb (fst m =? 0)) else TOk false)
    as [bad| | |]; try discriminate.
  cbn [bind] in G1. inversion G1; subst bad. cbn [bind].
  (* uint32(pos) > tree.Max().Item().Key *)
  destruct (list_last_cases (e0 :: tl)) as [Hnil|(l' & x & Hl)]; [discriminate|].
  assert (Hmax : deref (it_max tr) tr = TOk (kv x)).
  { rewrite it_max_spec by exact Hio. rewrite He, Hl, s_max_snoc. cbn [pos_bwd].
    apply (deref_at tr l' x []); [rewrite He; exact Hl|rewrite He; exact Hok]. }
  rewrite Hmax. cbn [bind]. change (kv e0 :: map kv tl) with (map kv (e0 :: tl)) in E.
  rewrite Hl, klast_kv_snoc, <- Hl in E. rewrite kv_eq. cbn [fst].
  destruct (u32 pos >? ekey x); [discriminate|].
  destruct (Z.ltb_spec (u32 pos) (fst (kv e0))) as [Hlt|Hge]; [discriminate|].
  (* FindLE, origin, prevOrigin *)
  destruct (find_le (u32 pos) [] (map kv (e0 :: tl))) as [[[L o] R]|] eqn:EF; [|discriminate].
  destruct (find_le_at (u32 pos) (e0 :: tl) L o R Hge EF) as (a & e & b & E1 & E2 & E3 & E4 & E5 & E6 & E7).
  unfold t_find_le. rewrite it_find_le_spec by auto. rewrite He, E5. cbn [pos_bwd bind].
  assert (He' : elems tr = a ++ e :: b) by (rewrite He; exact E1).
  assert (Hok' : okl (elems tr)) by (rewrite He; exact Hok).
  rewrite (deref_at _ _ _ _ He' Hok'). cbn [bind].
  rewrite (it_prev_at _ _ _ _ He' Hok'). cbn [bind].
  rewrite (it_item_last _ _ _ He' Hok'). cbn [bind].
  subst L o R.
  destruct (tupdate_body_sim alloc t pos ins del a e b tr s' ds He' Hb Hrb Hok') as (tr' & B1 & B2 & B3); auto.
  - rewrite He. exact Ha.
  - exists tr'. rewrite He in B2. auto.
Qed.

(* ---------- File.Update ---------- *)
Theorem tupdate_sim alloc t pos ins del tr s' ds :
  bst tr -> is_redblack tr -> okl (elems tr) -> alloc_ok alloc (S (length (elems tr))) ->
  update t pos ins del (map kv (elems tr)) = Ok (s', ds) -> ssorted s' ->
  exists tr', tupdate alloc t pos ins del tr = TOk (tr', ds) /\
    rep (S (S (length (elems tr)))) tr' s' /\ bst tr'.
Proof.
  intros Hb Hrb Hok Ha E Hs. unfold update in E. unfold tupdate.
  destruct (t <? 0); [discriminate|]. destruct (t >=? MaxU32); [discriminate|].
  destruct (Z.ltb_spec pos 0); [discriminate|]. destruct (Z.gtb_spec pos MaxU32); [discriminate|].
  destruct (Z.ltb_spec ins 0); [discriminate|]. destruct (Z.ltb_spec del 0); [discriminate|]. cbn [orb] in *.
  destruct ((ins >? MaxU32) || (del >? MaxU32)); [discriminate|].
  destruct (Z.lor ins del =? 0).
  - inversion E; subst s' ds. exists tr. split; [reflexivity|]. split; [|exact Hb].
    unfold rep. spl; auto.
  - apply tupdate_core_sim; auto.
Qed.

(* ---------- rejections: the tree-level Update panics exactly where the list model does ----------
   (every panic of Update happens before the first key rewrite, so no sortedness condition is needed) *)
Lemma tupdate_body_panic alloc t pos ins del a e b tr c :
  elems tr = a ++ e :: b -> bst tr -> is_redblack tr -> okl (elems tr) ->
  update_body t pos ins del (map kv a) (kv e) (map kv b) = Panic c ->
  tupdate_body alloc t pos ins del (eid e) (kv e)
    (match last_opt (map kv a) with Some p => p | None => kv e end) tr = TPanic c.
Proof.
  intros He Hb Hrb Hok E. unfold update_body in E. unfold tupdate_body.
  set (prevOrigin := match last_opt (map kv a) with Some p => p | None => kv e end) in *.
  destruct (if ins >? 0 then update_time t t ins else Ok []) as [reps0|c0]; [|inversion E; reflexivity].
  destruct (del =? 0); [discriminate|].
  assert (Hfuel : (length b < loop_fuel tr)%nat).
  { unfold loop_fuel. rewrite length_ids, He, app_length. cbn [length]. lia. }
  pose proof (tdel_loop_sim t pos ins del prevOrigin b a e tr (kv e) reps0 (loop_fuel tr) Hfuel Hb Hrb Hok He) as HL.
  destruct (del_loop t pos ins del (kv e) prevOrigin (map kv a) (kv e) (map kv b) reps0)
    as [[[[o1 L1] right1] reps1]|c1] eqn:EL.
  - destruct HL as (tr1 & EL1 & er & ER1 & I1 & I2 & I3 & I4 & _). rewrite <- I4 in E. cbn [map] in E.
    destruct (prepare t pos ins del o1 L1 (kv er) (map kv ER1)) as [[before after] origin2]. discriminate.
  - inversion E; subst c1. rewrite HL. reflexivity.
Qed.

Lemma tupdate_core_panic alloc t pos ins del tr c :
  bst tr -> is_redblack tr -> okl (elems tr) ->
  update_core t pos ins del (map kv (elems tr)) = Panic c ->
  tupdate_core alloc t pos ins del tr = TPanic c.
Proof.
  intros Hb Hrb Hok E. unfold update_core in E. unfold tupdate_core.
  destruct (okl_tree _ Hok) as [Hnd Hio].
  destruct (elems tr) as [|e0 tl] eqn:He.
  - cbn [map] in E. inversion E; subst c. rewrite tsize_spec, He. cbn [length]. change (Z.of_nat 0 <? 2) with true.
    cbn iota. rewrite min_id_spec, He. reflexivity.
  - cbn [map] in E.
    assert (Hmin : deref (min_id tr) tr = TOk (kv e0)).
    { rewrite min_id_spec, He. cbn [s_min pos_fwd]. apply (deref_at tr [] e0 tl); [exact He|rewrite He; exact Hok]. }
    assert (G1 : (if tsize tr <? 2 then m <- deref (min_id tr) tr ;; TOk (negb (fst m =? 0)) else TOk false) =
                 TOk ((match map kv tl with [] => true | _ :: _ => false end) && negb (fst (kv e0) =? 0))).
    { rewrite tsize_spec, He. destruct tl as [|e1 tl'].
      - cbn [length map]. change (Z.of_nat 1 <? 2) with true. cbn iota. rewrite Hmin. reflexivity.
      - cbn [length map]. destruct (Z.ltb_spec (Z.of_nat (S (S (length tl')))) 2); [lia|]. reflexivity. }
    rewrite G1. cbn [bind].
    destruct ((match map kv tl with [] => true | _ :: _ => false end) && negb (fst (kv e0) =? 0));
      [inversion E; reflexivity|].
    destruct (list_last_cases (e0 :: tl)) as [Hnil|(l' & x & Hl)]; [discriminate|].
    assert (Hmax : deref (it_max tr) tr = TOk (kv x)).
    { rewrite it_max_spec by exact Hio. rewrite He, Hl, s_max_snoc. cbn [pos_bwd].
      apply (deref_at tr l' x []); [rewrite He; exact Hl|rewrite He; exact Hok]. }
    rewrite Hmax. cbn [bind]. change (kv e0 :: map kv tl) with (map kv (e0 :: tl)) in E.
    rewrite Hl, klast_kv_snoc, <- Hl in E. rewrite kv_eq. cbn [fst].
    destruct (u32 pos >? ekey x); [inversion E; reflexivity|].
    unfold t_find_le. rewrite it_find_le_spec by auto. rewrite He.
    destruct (Z.ltb_spec (u32 pos) (fst (kv e0))) as [Hlt|Hge].
    + inversion E; subst c. unfold s_find_le. destruct e0 as [[i0 k0] v0]. cbn [s_find_le_aux kv fst snd] in *.
      destruct (Z.leb_spec k0 (u32 pos)); [lia|]. reflexivity.
    + destruct (find_le (u32 pos) [] (map kv (e0 :: tl))) as [[[L o] R]|] eqn:EF.
      * destruct (find_le_at (u32 pos) (e0 :: tl) L o R Hge EF) as (a & e & b & E1 & E2 & E3 & E4 & E5 & E6 & E7).
        rewrite E5. cbn [pos_bwd bind].
        assert (He' : elems tr = a ++ e :: b) by (rewrite He; exact E1).
        assert (Hok' : okl (elems tr)) by (rewrite He; exact Hok).
        rewrite (deref_at _ _ _ _ He' Hok'). cbn [bind].
        rewrite (it_prev_at _ _ _ _ He' Hok'). cbn [bind].
        rewrite (it_item_last _ _ _ He' Hok'). cbn [bind].
        subst L o R. apply (tupdate_body_panic alloc t pos ins del a e b tr c); auto.
      * exfalso. cbn [map] in EF.
        destruct (find_le_spec (map kv tl) (kv e0) [] (u32 pos) Hge) as (A & o & R & EF' & _). congruence.
Qed.

Theorem tupdate_panic alloc t pos ins del tr c :
  bst tr -> is_redblack tr -> okl (elems tr) ->
  update t pos ins del (map kv (elems tr)) = Panic c -> tupdate alloc t pos ins del tr = TPanic c.
Proof.
  intros Hb Hrb Hok E. unfold update in E. unfold tupdate.
  destruct (t <? 0); [inversion E; reflexivity|]. destruct (t >=? MaxU32); [inversion E; reflexivity|].
  destruct (pos <? 0); [inversion E; reflexivity|]. destruct (pos >? MaxU32); [inversion E; reflexivity|].
  destruct ((ins <? 0) || (del <? 0)); [inversion E; reflexivity|].
  destruct ((ins >? MaxU32) || (del >? MaxU32)); [inversion E; reflexivity|].
  destruct (Z.lor ins del =? 0); [discriminate|].
  apply tupdate_core_panic; auto.
Qed.
