(* Relational frame lemmas for the abstract analysis: any reflexive-transitive relation on the shared state
   that is established by one tracker report (update_time), by the bookkeeping of the deletions map and by
   the creation of a file-history object is established by every operation of the analysis (File.Update,
   the loop of handleModification, handleInsertion/Modification, Consume, File.Merge, BurndownAnalysis.Merge).
   Instances: the names map only grows and stays injective (NI), every tracked file carries the history
   handle its path has in fileHistories (hgood).  handleDeletion is excluded: it never runs on a conflict-free
   history (a path that exists in an ancestor exists in the descendant). *)
From Coq Require Import List ZArith Lia Bool.
From Herc Require Import Burndown.Base Burndown.Dense Burndown.Analysis Burndown.SparseFacts Burndown.AnalysisFacts
  Burndown.LinearProofs.
Import ListNotations.
Open Scope Z_scope.

(* fileHistories[name] = a fresh history object (handleInsertion when the name is not yet known) *)
Definition create (s : shared) (p : Z) : shared :=
  with_fhs (with_names s (aset (s_names s) p (s_next s)) (s_next s + 1)) (aset (s_fhs s) (s_next s) []).

Definition no_delete (chs : list change) : Prop :=
  forall ch, In ch chs -> match ch with CDelete _ _ => False | _ => True end.

Lemma no_delete_app l1 l2 : no_delete l1 -> no_delete l2 -> no_delete (l1 ++ l2).
Proof. intros H1 H2 ch Hin. apply in_app_or in Hin. destruct Hin; [apply H1|apply H2]; assumption. Qed.

Definition ch_path (ch : change) : Z :=
  match ch with CInsert p _ => p | CDelete p _ => p | CModify p _ _ _ => p end.

Section Frame.
  Variable cf : cfg.
  Variable R : shared -> shared -> Prop.
  Variable Allowed : Z -> Prop.          (* the paths whose history object may be created *)
  Hypothesis R_refl : forall s, R s s.
  Hypothesis R_trans : forall a b c, R a b -> R b c -> R a c.
  Hypothesis R_ut : forall hd s cur prev d s', update_time cf hd s cur prev d = Ok s' -> R s s'.

  Lemma report_deleted_R hd t vs : forall s s', report_deleted cf hd s t vs = Ok s' -> R s s'.
  Proof.
    induction vs as [|v r IH]; intros s s' E; cbn [report_deleted] in E.
    - injection E as <-. apply R_refl.
    - destruct (update_time cf hd s t v (-1)) as [s1| |] eqn:E1; try discriminate.
      eapply R_trans; [eapply R_ut; eauto|eapply IH; eauto].
  Qed.

  Lemma arr_update_R f s t pos ins del f' s' : arr_update cf f s t pos ins del = Ok (f', s') ->
    f_hist f' = f_hist f /\ R s s'.
  Proof.
    unfold arr_update. intros E.
    destruct ((pos <? 0) || (ins <? 0) || (del <? 0)); [discriminate|].
    destruct ((ins =? 0) && (del =? 0)); [injection E as <- <-; split; [reflexivity|apply R_refl]|].
    destruct ((Z.of_nat (length (f_vals f)) <? pos) || (Z.of_nat (length (f_vals f)) <? pos + del)); [discriminate|].
    set (r1 := if 0 <? ins then update_time cf (f_hist f) s t t ins else Ok s) in *.
    destruct r1 as [s1| |] eqn:E1; try discriminate.
    destruct (report_deleted cf (f_hist f) s1 t _) as [s2| |] eqn:E2; try discriminate.
    injection E as <- <-. split; [reflexivity|].
    eapply R_trans; [|eapply report_deleted_R; eauto].
    unfold r1 in E1. destruct (0 <? ins); [eapply R_ut; eauto|injection E1 as <-; apply R_refl].
  Qed.

  Definition Rf (x y : file * shared) : Prop := f_hist (fst y) = f_hist (fst x) /\ R (snd x) (snd y).
  Lemma Rf_refl x : Rf x x. Proof. split; [reflexivity|apply R_refl]. Qed.
  Lemma Rf_trans x y z : Rf x y -> Rf y z -> Rf x z.
  Proof. intros [A1 A2] [B1 B2]. split; [congruence|eapply R_trans; eauto]. Qed.
  Lemma Rf_update f s t pos ins del f' s' : arr_update cf f s t pos ins del = Ok (f', s') -> Rf (f, s) (f', s').
  Proof. intros E. apply arr_update_R in E. exact E. Qed.

  Lemma hm_loop_R t : forall diffs pos pending f s f' s',
    hm_loop cf t diffs pos pending f s = Ok (f', s') -> Rf (f, s) (f', s').
  Proof.
    induction diffs as [|[op len] rest IH]; intros pos pending f s f' s' E; cbn [hm_loop] in E.
    - destruct (0 <? snd pending).
      + destruct (fst pending).
        * destruct (arr_update cf f s t pos 0 (snd pending)) as [[f1 s1]| |] eqn:E1; try discriminate.
          inversion E; subst. eapply Rf_update; eauto.
        * destruct (arr_update cf f s t pos (snd pending) 0) as [[f1 s1]| |] eqn:E1; try discriminate.
          inversion E; subst. eapply Rf_update; eauto.
        * destruct (arr_update cf f s t pos 0 (snd pending)) as [[f1 s1]| |] eqn:E1; try discriminate.
          inversion E; subst. eapply Rf_update; eauto.
      + inversion E; subst. apply Rf_refl.
    - destruct op.
      + destruct (0 <? snd pending).
        * destruct (fst pending).
          -- destruct (arr_update cf f s t pos 0 (snd pending)) as [[f1 s1]| |] eqn:E1; try discriminate.
             eapply Rf_trans; [eapply Rf_update; eauto|eapply IH; eauto].
          -- destruct (arr_update cf f s t pos (snd pending) 0) as [[f1 s1]| |] eqn:E1; try discriminate.
             eapply Rf_trans; [eapply Rf_update; eauto|eapply IH; eauto].
          -- destruct (arr_update cf f s t pos 0 (snd pending)) as [[f1 s1]| |] eqn:E1; try discriminate.
             eapply Rf_trans; [eapply Rf_update; eauto|eapply IH; eauto].
        * eapply IH; eauto.
      + destruct (0 <? snd pending).
        * destruct (fst pending); try discriminate.
          -- destruct (arr_update cf f s t pos len (snd pending)) as [[f1 s1]| |] eqn:E1; try discriminate.
             eapply Rf_trans; [eapply Rf_update; eauto|eapply IH; eauto].
          -- destruct (arr_update cf f s t pos len (snd pending)) as [[f1 s1]| |] eqn:E1; try discriminate.
             eapply Rf_trans; [eapply Rf_update; eauto|eapply IH; eauto].
        * eapply IH; eauto.
      + destruct (0 <? snd pending); [discriminate|]. eapply IH; eauto.
  Qed.

  (* ---------- File.Merge / BurndownAnalysis.Merge: only reports ---------- *)
  Lemma resolve_marks_R hd day : forall vals s r s', resolve_marks cf hd day vals s = Ok (r, s') -> R s s'.
  Proof.
    induction vals as [|v vals IH]; intros s r s' E; cbn [resolve_marks] in E.
    - injection E as <- <-. apply R_refl.
    - destruct (is_mark v).
      + destruct (update_time cf hd s day day 1) as [s1| |] eqn:E1; try discriminate.
        destruct (resolve_marks cf hd day vals s1) as [[r1 s2]| |] eqn:E2; try discriminate.
        injection E as <- <-. eapply R_trans; [eapply R_ut; eauto|eapply IH; eauto].
      + destruct (resolve_marks cf hd day vals s) as [[r1 s2]| |] eqn:E2; try discriminate.
        injection E as <- <-. eapply IH; eauto.
  Qed.

  Lemma file_merge_R day f others s f' s' : file_merge cf day f others s = Ok (f', s') ->
    f_hist f' = f_hist f /\ R s s'.
  Proof.
    unfold file_merge. intros E. destruct (merge_others (f_vals f) (map f_vals others)) as [vals| |]; try discriminate.
    destruct (resolve_marks cf (f_hist f) day vals s) as [[r s1]| |] eqn:E1; try discriminate.
    injection E as <- <-. split; [reflexivity|]. eapply resolve_marks_R; eauto.
  Qed.

  Lemma merge_keys_R day : forall keys all s all' s', merge_keys cf day keys all s = Ok (all', s') -> R s s'.
  Proof.
    induction keys as [|[k v] keys IH]; intros all s all' s' E; cbn [merge_keys] in E.
    - injection E as <- <-. apply R_refl.
    - destruct v.
      + destruct (some_files (map (fun b => aget (b_files b) k) all)) as [|f0 others]; [eapply IH; eauto|].
        destruct (file_merge cf day f0 others s) as [[f1 s1]| |] eqn:E1; try discriminate.
        eapply R_trans; [eapply file_merge_R; eauto|eapply IH; eauto].
      + eapply IH; eauto.
  Qed.

  Lemma analysis_merge_R all s all' s' : analysis_merge cf all s = Ok (all', s') -> R s s'.
  Proof.
    unfold analysis_merge. intros E. destruct all as [|me rest]; [injection E as <- <-; apply R_refl|].
    destruct (merge_keys cf _ _ (me :: rest) s) as [[all1 s1]| |] eqn:E1; try discriminate.
    assert (s' = s1) by (destruct all1; injection E as _ <-; reflexivity). subst.
    eapply merge_keys_R; eauto.
  Qed.

  (* ---------- Consume without deletions ---------- *)
  Hypothesis R_dels : forall s x, R s (with_dels s x).
  Hypothesis R_create : forall s p, Allowed p -> c_files cf = true -> aget (s_names s) p = None -> R s (create s p).

  Lemma handle_insertion_R author b s path lines b' s' : Allowed path ->
    handle_insertion cf author b s path lines = Ok (b', s') -> R s s'.
  Proof.
    unfold handle_insertion. intros Hal E. destruct (aget (b_files b) path); [discriminate|].
    set (hs := if c_files cf then match aget (s_names s) path with
                 | Some h => (Some h, s)
                 | None => (Some (s_next s), with_fhs (with_names s (aset (s_names s) path (s_next s)) (s_next s + 1)) (aset (s_fhs s) (s_next s) []))
                 end else (None, s)) in *.
    assert (Hhs : R s (snd hs)).
    { unfold hs. destruct (c_files cf) eqn:Ef; [|apply R_refl]. destruct (aget (s_names s) path) eqn:En; [apply R_refl|].
      apply R_create; auto. }
    destruct hs as [hd s0]. cbn [snd] in Hhs.
    destruct (update_time cf hd s0 _ _ lines) as [s2| |] eqn:E2; try discriminate.
    eapply R_trans; [exact Hhs|]. eapply R_trans; [eapply R_ut; eauto|].
    destruct (b_tick b =? mark); injection E as _ <-; apply R_dels.
  Qed.

  Lemma handle_modification_R author b s path o n diffs b' s' : Allowed path ->
    handle_modification cf author b s path o n diffs = Ok (b', s') -> R s s'.
  Proof.
    unfold handle_modification. intros Hal E.
    set (b0 := if b_tick b =? mark then with_merged b (aset (b_merged b) path true) else b) in *.
    destruct (aget (b_files b0) path) as [f|]; [|eapply handle_insertion_R; eauto].
    destruct (negb (Z.of_nat (length (f_vals f)) =? o)); [discriminate|].
    destruct (hm_loop cf _ diffs 0 (DEq, 0) f s) as [[f1 s1]| |] eqn:E1; try discriminate.
    destruct (negb (Z.of_nat (length (f_vals f1)) =? n)); [discriminate|].
    injection E as _ <-. apply hm_loop_R in E1. exact (proj2 E1).
  Qed.

  Lemma handle_changes_R author : forall chs b s b' s', no_delete chs -> (forall ch, In ch chs -> Allowed (ch_path ch)) ->
    handle_changes cf author chs b s = Ok (b', s') -> R s s'.
  Proof.
    induction chs as [|ch chs IH]; intros b s b' s' Hnd Hal E; cbn [handle_changes] in E.
    - injection E as _ <-. apply R_refl.
    - assert (Hnd' : no_delete chs) by (intros x Hx; apply Hnd; right; exact Hx).
      assert (Hal' : forall ch0, In ch0 chs -> Allowed (ch_path ch0)) by (intros x Hx; apply Hal; right; exact Hx).
      pose proof (Hal ch (or_introl eq_refl)) as Hal0.
      pose proof (Hnd ch (or_introl eq_refl)) as Hch. destruct ch as [p n|p n|p o n d]; [|destruct Hch|]; cbn [ch_path] in Hal0.
      + destruct (handle_insertion cf author b s p n) as [[b1 s1]| |] eqn:E1; try discriminate.
        eapply R_trans; [eapply handle_insertion_R; eauto|eapply IH; eauto].
      + destruct (handle_modification cf author b s p o n d) as [[b1 s1]| |] eqn:E1; try discriminate.
        eapply R_trans; [eapply handle_modification_R; eauto|eapply IH; eauto].
  Qed.

  Lemma consume_R author tick im chs b s b' s' : no_delete chs -> (forall ch, In ch chs -> Allowed (ch_path ch)) ->
    consume cf author tick im chs b s = Ok (b', s') -> R s s'.
  Proof.
    unfold consume. intros Hnd Hal E.
    destruct (handle_changes cf author chs _ s) as [[b2 s2]| |] eqn:E2; try discriminate.
    injection E as _ <-. eapply handle_changes_R; eauto.
  Qed.
End Frame.

(* ---------- instance 1: one report changes neither fileHistories' names nor the handle counter ---------- *)
Lemma update_time_names cf hd s cur prev d s' : update_time cf hd s cur prev d = Ok s' ->
  s_names s' = s_names s /\ s_next s' = s_next s.
Proof.
  unfold update_time. destruct (is_mark prev).
  - destruct (cur =? prev); [|discriminate]. intros E; injection E as <-; auto.
  - destruct (is_mark cur); [intros E; injection E as <-; auto|].
    set (s1 := update_global cf s cur prev d).
    set (s2 := match hd with Some h => update_file cf h s1 cur prev d | None => s1 end).
    assert (E2 : s_names s2 = s_names s /\ s_next s2 = s_next s) by (unfold s2; destruct hd; split; reflexivity).
    destruct (c_people cf =? 0); [intros E; injection E as <-; exact E2|].
    unfold update_author, update_matrix.
    destruct (unpack cf prev) as [pa pt]. cbn [fst].
    destruct (pa =? author_missing).
    { intros E; injection E as <-; exact E2. }
    destruct ((pa <? 0) || (c_people cf <=? pa)); [discriminate|].
    intros E; injection E as <-; exact E2.
Qed.

Definition same_names (s s' : shared) : Prop := s_names s' = s_names s /\ s_next s' = s_next s.
Lemma same_names_refl s : same_names s s. Proof. split; reflexivity. Qed.
Lemma same_names_trans a b c : same_names a b -> same_names b c -> same_names a c.
Proof. intros [A1 A2] [B1 B2]. split; congruence. Qed.

(* ---------- instance 2: the names map grows, handles stay below the counter and injective ---------- *)
Definition NI (s : shared) : Prop :=
  (forall p k, aget (s_names s) p = Some k -> k < s_next s) /\
  (forall p p' k, aget (s_names s) p = Some k -> aget (s_names s) p' = Some k -> p = p') /\
  NoDup (map fst (s_names s)).

Definition nm_ext (s s' : shared) : Prop :=
  (forall p k, aget (s_names s) p = Some k -> aget (s_names s') p = Some k) /\ (NI s -> NI s').

Lemma nm_ext_refl s : nm_ext s s. Proof. split; auto. Qed.
Lemma nm_ext_trans a b c : nm_ext a b -> nm_ext b c -> nm_ext a c.
Proof. intros [A1 A2] [B1 B2]. split; auto. Qed.
Lemma same_names_ext s s' : same_names s s' -> nm_ext s s'.
Proof. intros [E1 E2]. unfold nm_ext, NI. rewrite E1, E2. auto. Qed.

Lemma nm_ext_ut cf hd s cur prev d s' : update_time cf hd s cur prev d = Ok s' -> nm_ext s s'.
Proof. intros E. apply same_names_ext. eapply update_time_names; eauto. Qed.
Lemma nm_ext_dels s x : nm_ext s (with_dels s x).
Proof. apply same_names_ext. split; reflexivity. Qed.
Lemma nm_ext_create s p : aget (s_names s) p = None -> nm_ext s (create s p).
Proof.
  intros En. unfold nm_ext, NI, create. cbn [s_names s_next with_fhs with_names]. split.
  - intros q k Eq. rewrite aget_aset. destruct (Z.eqb_spec p q); [congruence|exact Eq].
  - intros (N1 & N2 & N3). split; [|split].
    + intros q k. rewrite aget_aset. destruct (Z.eqb_spec p q).
      * intros E; injection E as <-. lia.
      * intros E. specialize (N1 q k E). lia.
    + intros q q' k. rewrite !aget_aset. destruct (Z.eqb_spec p q), (Z.eqb_spec p q'); try congruence.
      * intros E1 E2. injection E1 as <-. specialize (N1 _ _ E2). lia.
      * intros E1 E2. injection E2 as <-. specialize (N1 _ _ E1). lia.
      * apply N2.
    + apply nodup_aset. exact N3.
Qed.

(* ---------- every tracked file carries the handle of its path ---------- *)
Definition hgood (cf : cfg) (s : shared) (files : list (Z * file)) : Prop :=
  forall p f, In (p, f) files ->
    f_hist f = (if c_files cf then aget (s_names s) p else None) /\
    (c_files cf = true -> aget (s_names s) p <> None).

Lemma hgood_get cf s files p f : hgood cf s files -> aget files p = Some f ->
  f_hist f = (if c_files cf then aget (s_names s) p else None) /\ (c_files cf = true -> aget (s_names s) p <> None).
Proof. intros Hg E. apply (Hg p f). apply aget_in. exact E. Qed.

Lemma hgood_ext cf s s' files : nm_ext s s' -> hgood cf s files -> hgood cf s' files.
Proof.
  intros [He _] Hg p f Ef. destruct (Hg p f Ef) as [H1 H2]. destruct (c_files cf) eqn:Ec.
  - destruct (aget (s_names s) p) as [k|] eqn:En; [|exfalso; apply H2; auto].
    rewrite (He p k En). split; [exact H1|intros _; discriminate].
  - split; [exact H1|discriminate].
Qed.

Lemma hgood_nil cf s : hgood cf s [].
Proof. intros p f []. Qed.

Section HGood.
  Variable cf : cfg.

  Lemma handle_insertion_hgood author b s path lines b' s' :
    handle_insertion cf author b s path lines = Ok (b', s') -> hgood cf s (b_files b) ->
    nm_ext s s' /\ hgood cf s' (b_files b').
  Proof.
    intros E Hg.
    assert (Hext : nm_ext s s').
    { eapply (handle_insertion_R cf nm_ext (fun _ => True) nm_ext_refl nm_ext_trans (nm_ext_ut cf) nm_ext_dels); eauto.
      intros; apply nm_ext_create; auto. }
    split; [exact Hext|].
    unfold handle_insertion in E. destruct (aget (b_files b) path) eqn:Eold; [discriminate|].
    set (hs := if c_files cf then match aget (s_names s) path with
                 | Some h => (Some h, s)
                 | None => (Some (s_next s), with_fhs (with_names s (aset (s_names s) path (s_next s)) (s_next s + 1)) (aset (s_fhs s) (s_next s) []))
                 end else (None, s)) in *.
    assert (Hhd : fst hs = (if c_files cf then aget (s_names (snd hs)) path else None) /\
                  (c_files cf = true -> aget (s_names (snd hs)) path <> None)).
    { unfold hs. destruct (c_files cf); [|split; [reflexivity|discriminate]].
      destruct (aget (s_names s) path) as [k|] eqn:En; cbn [fst snd].
      - rewrite En. split; [reflexivity|discriminate].
      - cbn [s_names with_fhs with_names]. rewrite aget_aset, Z.eqb_refl. split; [reflexivity|discriminate]. }
    destruct hs as [hd s0]. cbn [fst snd] in Hhd.
    destruct (update_time cf hd s0 _ _ lines) as [s2| |] eqn:E2; try discriminate.
    destruct (update_time_names _ _ _ _ _ _ _ E2) as [En2 _].
    assert (Hfiles : b_files b' = aset (b_files b) path (mkFile (repeat (if c_people cf =? 0 then b_tick b else pack cf author (b_tick b)) (Z.to_nat lines)) hd) /\
                     s_names s' = s_names s0).
    { destruct (b_tick b =? mark); injection E as <- <-; cbn [b_files with_files with_merged s_names with_dels]; auto. }
    destruct Hfiles as [-> Hn']. intros p f Hin. apply in_aset in Hin. destruct Hin as [Ef|Hin].
    - injection Ef as -> ->. cbn [f_hist]. rewrite Hn'. exact Hhd.
    - apply (hgood_ext cf s s' (b_files b) Hext Hg p f Hin).
  Qed.

  Lemma handle_modification_hgood author b s path o n diffs b' s' :
    handle_modification cf author b s path o n diffs = Ok (b', s') -> hgood cf s (b_files b) ->
    nm_ext s s' /\ hgood cf s' (b_files b').
  Proof.
    unfold handle_modification. intros E Hg.
    set (b0 := if b_tick b =? mark then with_merged b (aset (b_merged b) path true) else b) in *.
    assert (Hb0 : b_files b0 = b_files b) by (unfold b0; destruct (b_tick b =? mark); reflexivity).
    destruct (aget (b_files b0) path) as [f|] eqn:Ef.
    2:{ eapply handle_insertion_hgood; eauto. rewrite Hb0. exact Hg. }
    destruct (negb (Z.of_nat (length (f_vals f)) =? o)); [discriminate|].
    destruct (hm_loop cf _ diffs 0 (DEq, 0) f s) as [[f1 s1]| |] eqn:E1; try discriminate.
    destruct (negb (Z.of_nat (length (f_vals f1)) =? n)); [discriminate|].
    injection E as <- <-.
    destruct (hm_loop_R cf same_names same_names_refl same_names_trans (update_time_names cf) _ _ _ _ _ _ _ _ E1) as [Hh Hs].
    cbn [fst snd] in Hh, Hs. pose proof (same_names_ext _ _ Hs) as Hext. split; [exact Hext|].
    cbn [b_files with_files]. rewrite Hb0 in *. intros p f2 Hin. apply in_aset in Hin. destruct Hin as [E2|Hin].
    - injection E2 as -> ->. rewrite Hh. apply (hgood_ext cf s s1 (b_files b) Hext Hg path f). apply aget_in. exact Ef.
    - apply (hgood_ext cf s s1 (b_files b) Hext Hg p f2 Hin).
  Qed.

  Lemma handle_changes_hgood author : forall chs b s b' s', no_delete chs ->
    handle_changes cf author chs b s = Ok (b', s') -> hgood cf s (b_files b) ->
    nm_ext s s' /\ hgood cf s' (b_files b').
  Proof.
    induction chs as [|ch chs IH]; intros b s b' s' Hnd E Hg; cbn [handle_changes] in E.
    - injection E as <- <-. split; [apply nm_ext_refl|exact Hg].
    - assert (Hnd' : no_delete chs) by (intros x Hx; apply Hnd; right; exact Hx).
      pose proof (Hnd ch (or_introl eq_refl)) as Hch. destruct ch as [p n|p n|p o n d]; [|destruct Hch|].
      + destruct (handle_insertion cf author b s p n) as [[b1 s1]| |] eqn:E1; try discriminate.
        destruct (handle_insertion_hgood _ _ _ _ _ _ _ E1 Hg) as [X1 G1].
        destruct (IH _ _ _ _ Hnd' E G1) as [X2 G2]. split; [eapply nm_ext_trans; eauto|exact G2].
      + destruct (handle_modification cf author b s p o n d) as [[b1 s1]| |] eqn:E1; try discriminate.
        destruct (handle_modification_hgood _ _ _ _ _ _ _ _ _ E1 Hg) as [X1 G1].
        destruct (IH _ _ _ _ Hnd' E G1) as [X2 G2]. split; [eapply nm_ext_trans; eauto|exact G2].
  Qed.

  Lemma consume_hgood author tick im chs b s b' s' : no_delete chs ->
    consume cf author tick im chs b s = Ok (b', s') -> hgood cf s (b_files b) ->
    nm_ext s s' /\ hgood cf s' (b_files b').
  Proof.
    unfold consume. intros Hnd E Hg.
    destruct (handle_changes cf author chs _ s) as [[b2 s2]| |] eqn:E2; try discriminate.
    injection E as <- <-. cbn [b_files].
    eapply handle_changes_hgood; eauto. destruct im; exact Hg.
  Qed.

  (* BurndownAnalysis.Merge keeps the handles: the merged file is the first copy with new values *)
  Lemma some_files_in : forall (l : list (option file)) f, In f (some_files l) -> In (Some f) l.
  Proof.
    induction l as [|[x|] l IH]; intros f Hin; cbn [some_files] in Hin; [destruct Hin| |right; auto].
    destruct Hin as [->|Hin]; [left; reflexivity|right; auto].
  Qed.

  Lemma merge_keys_hgood day : forall keys all s all' s', merge_keys cf day keys all s = Ok (all', s') ->
    (forall b, In b all -> hgood cf s (b_files b)) ->
    same_names s s' /\ (forall b, In b all' -> hgood cf s' (b_files b)).
  Proof.
    induction keys as [|[k v] keys IH]; intros all s all' s' E Hg; cbn [merge_keys] in E.
    - injection E as <- <-. split; [apply same_names_refl|exact Hg].
    - destruct v.
      + destruct (some_files (map (fun b => aget (b_files b) k) all)) as [|f0 others] eqn:Esf; [eapply IH; eauto|].
        destruct (file_merge cf day f0 others s) as [[f1 s1]| |] eqn:E1; try discriminate.
        destruct (file_merge_R cf same_names same_names_refl same_names_trans (update_time_names cf) _ _ _ _ _ _ E1) as [Hh Hs].
        assert (Hf0 : exists b0, In b0 all /\ aget (b_files b0) k = Some f0).
        { assert (Hin : In (Some f0) (map (fun b => aget (b_files b) k) all)) by (apply some_files_in; rewrite Esf; left; reflexivity).
          apply in_map_iff in Hin. destruct Hin as (b0 & E0 & Hb0). eauto. }
        destruct Hf0 as (b0 & Hb0 & Ef0).
        destruct (IH _ _ _ _ E) as [X G].
        { intros b Hb. apply in_map_iff in Hb. destruct Hb as (b1 & <- & Hb1). cbn [b_files with_files].
          intros p f Hin. apply in_aset in Hin. destruct Hin as [E2|Hin].
          - injection E2 as -> ->. rewrite Hh.
            apply (hgood_ext cf s s1 (b_files b0) (same_names_ext _ _ Hs) (Hg b0 Hb0) k f0). apply aget_in. exact Ef0.
          - apply (hgood_ext cf s s1 (b_files b1) (same_names_ext _ _ Hs) (Hg b1 Hb1) p f Hin). }
        split; [eapply same_names_trans; eauto|exact G].
      + eapply IH; eauto. intros b Hb. apply in_map_iff in Hb. destruct Hb as (b1 & <- & Hb1). cbn [b_files with_files].
        intros p f Hin. apply (Hg b1 Hb1 p f). eapply in_adel; eauto.
  Qed.

  Lemma analysis_merge_hgood all s all' s' : analysis_merge cf all s = Ok (all', s') ->
    (forall b, In b all -> hgood cf s (b_files b)) ->
    same_names s s' /\ (forall b, In b all' -> hgood cf s' (b_files b)).
  Proof.
    unfold analysis_merge. intros E Hg. destruct all as [|me rest]; [injection E as <- <-; split; [apply same_names_refl|exact Hg]|].
    destruct (merge_keys cf _ _ (me :: rest) s) as [[all1 s1]| |] eqn:E1; try discriminate.
    destruct (merge_keys_hgood _ _ _ _ _ _ E1 Hg) as [X G].
    destruct all1 as [|me1 rest1]; injection E as <- <-; split; auto.
    intros b [<-|Hb]; [apply (G me1); left; reflexivity|apply G; right; exact Hb].
  Qed.
End HGood.
