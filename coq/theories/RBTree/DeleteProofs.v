(* Red-black invariants are preserved by doDelete (DeleteWithKey / DeleteWithIterator). *)
From Coq Require Import List ZArith Lia Bool.
Import ListNotations.
From Herc Require Import RBTree.Model RBTree.InsertProofs.
Open Scope Z_scope.

#[local] Hint Constructors RB nearRB : core.
#[local] Hint Resolve RB_weaken : core.

Definition post (c : color) (m : nat) (t' : tree) (d : bool) : Prop :=
  if d then c = Black /\ RB t' Black (S m)
  else (c = Red -> RB t' Black (S m)) /\ (c = Black -> forall ctx, RB t' ctx (S (S m))).

Lemma fixL2_spec c l i k v s m :
  RB l Black m -> RB s Red (S m) ->
  exists t' d, fixL2 c l i k v s = Some (t', d) /\ post c m t' d.
Proof.
  intros Hl Hs. inv Hs. unfold fixL2.
  destruct (is_red l0) eqn:E1; destruct (is_red r) eqn:E2; cbn [negb andb].
  - (* both nephews red: case 6 *)
    eexists _, _. split; [reflexivity|]. unfold post.
    split; intros; subst; [apply RB_r|apply RB_b]; eauto using blacken_red.
  - (* near nephew red, far black: case 5 *)
    destruct l0 as [|[] a xi xk xv b]; simpl in *; try discriminate. invRB.
    eexists _, _. split; [reflexivity|]. unfold post.
    split; intros; subst; [apply RB_r|apply RB_b]; eauto using not_red_RB.
  - eexists _, _. split; [reflexivity|]. unfold post.
    split; intros; subst; [apply RB_r|apply RB_b]; eauto using blacken_red.
  - (* both black: cases 3 / 4 *)
    eexists _, _. split; [reflexivity|]. unfold post. destruct c.
    + split; intros; try discriminate. apply RB_b; auto. apply RB_r; auto using not_red_RB.
    + split; auto. apply RB_b; auto. apply RB_r; auto using not_red_RB.
Qed.

Lemma fixL_spec c l i k v s m :
  RB l Black m -> RB s c (S m) ->
  exists t' d, fixL c l i k v s = Some (t', d) /\ post c m t' d.
Proof.
  intros Hl Hs. unfold fixL. destruct s as [|[] sl si sk sv sr].
  - inv Hs.
  - (* red sibling: case 2 *)
    inv Hs. match goal with H : RB sl Red _ |- _ => destruct (fixL2_spec Red l i k v sl m Hl H) as (np & d & E & P) end.
    rewrite E. unfold post in P. destruct d.
    + destruct P; discriminate.
    + destruct P as [P _]. eexists _, _. split; [reflexivity|]. unfold post.
      split; intros; try discriminate. apply RB_b; auto.
  - apply fixL2_spec; auto. inv Hs; auto.
Qed.

Lemma fixR2_spec c s i k v r m :
  RB r Black m -> RB s Red (S m) ->
  exists t' d, fixR2 c s i k v r = Some (t', d) /\ post c m t' d.
Proof.
  intros Hl Hs. inv Hs. unfold fixR2.
  destruct (is_red l) eqn:E1; destruct (is_red r0) eqn:E2; cbn [negb andb].
  - eexists _, _. split; [reflexivity|]. unfold post.
    split; intros; subst; [apply RB_r|apply RB_b]; eauto using blacken_red.
  - eexists _, _. split; [reflexivity|]. unfold post.
    split; intros; subst; [apply RB_r|apply RB_b]; eauto using blacken_red.
  - destruct r0 as [|[] a xi xk xv b]; simpl in *; try discriminate. invRB.
    eexists _, _. split; [reflexivity|]. unfold post.
    split; intros; subst; [apply RB_r|apply RB_b]; eauto using not_red_RB.
  - eexists _, _. split; [reflexivity|]. unfold post. destruct c.
    + split; intros; try discriminate. apply RB_b; auto. apply RB_r; auto using not_red_RB.
    + split; auto. apply RB_b; auto. apply RB_r; auto using not_red_RB.
Qed.

Lemma fixR_spec c s i k v r m :
  RB r Black m -> RB s c (S m) ->
  exists t' d, fixR c s i k v r = Some (t', d) /\ post c m t' d.
Proof.
  intros Hl Hs. unfold fixR. destruct s as [|[] sl si sk sv sr].
  - inv Hs.
  - inv Hs. match goal with H : RB sr Red _ |- _ => destruct (fixR2_spec Red sr i k v r m Hl H) as (np & d & E & P) end.
    rewrite E. unfold post in P. destruct d.
    + destruct P; discriminate.
    + destruct P as [P _]. eexists _, _. split; [reflexivity|]. unfold post.
      split; intros; try discriminate. apply RB_b; auto.
  - apply fixR2_spec; auto. inv Hs; auto.
Qed.

Definition dpost (c : color) (n : nat) (t' : tree) (d : bool) : Prop :=
  if d then exists m, n = S m /\ RB t' Black m else RB t' c n.

(* from the fix-up postcondition at a node of colour c0 (children of height S m) to the
   deletion postcondition of that node in its context c *)
Lemma post_dpost c0 c n m t' d :
  (c0 = Black -> n = S (S m)) -> (c0 = Red -> c = Black /\ n = S m) ->
  post c0 m t' d -> dpost c n t' d.
Proof.
  intros Hb Hr P. unfold post, dpost in *. destruct d.
  - destruct P as [-> P]. exists (S m). split; auto.
  - destruct P as [P1 P2]. destruct c0.
    + destruct (Hr eq_refl) as [-> ->]. auto.
    + rewrite (Hb eq_refl). auto.
Qed.

Lemma RB_red_zero t : RB t Red 0%nat -> t = E.
Proof. intros H. inv H; auto. Qed.

Lemma remove_here_spec c0 l i k v r c n :
  RB (T c0 l i k v r) c n -> (l = E \/ r = E) ->
  let '(t', d) := remove_here c0 l r in dpost c n t' d.
Proof.
  intros H Hor. unfold remove_here, dpost. inv H.
  - (* red node: both children are leaves *)
    assert (n = 0%nat /\ l = E /\ r = E).
    { destruct Hor; subst.
      - match goal with H : RB E Red _ |- _ => inv H end.
        match goal with H : RB r Red 0 |- _ => apply RB_red_zero in H end. auto.
      - match goal with H : RB E Red _ |- _ => inv H end.
        match goal with H : RB l Red 0 |- _ => apply RB_red_zero in H end. auto. }
    destruct H as (-> & -> & ->). auto.
  - destruct Hor; subst.
    + match goal with H : RB E Black _ |- _ => inv H end. destruct r; eauto.
    + match goal with H : RB E Black _ |- _ => inv H end. destruct l; eauto.
Qed.

(* children of a valid node: heights and contexts *)
Lemma RB_children c0 l i k v r c n : RB (T c0 l i k v r) c n ->
  exists nc, RB l c0 nc /\ RB r c0 nc /\ (c0 = Black -> n = S nc) /\ (c0 = Red -> c = Black /\ n = nc).
Proof. intros H. inv H; eexists; repeat split; eauto; intros; try discriminate. Qed.

Lemma del_max_spec : forall t c n, RB t c n -> t <> E ->
  exists t' d p, del_max t = Some (t', d, p) /\ dpost c n t' d.
Proof.
  induction t as [|c0 l IHl i k v r IHr]; intros c n H Hne; [congruence|].
  destruct r as [|rc rl ri rk rv rr] eqn:Er.
  - simpl. pose proof (remove_here_spec c0 l i k v E c n H (or_intror eq_refl)) as Hs.
    unfold remove_here in *. simpl in *. eexists _, _, _. split; [reflexivity|]. exact Hs.
  - rewrite <- Er in *. destruct (RB_children _ _ _ _ _ _ _ _ H) as (nc & Hl & Hr & Hb & Hrd).
    destruct (IHr c0 nc Hr ltac:(subst; congruence)) as (r' & d & p & E & P).
    assert (Eq : del_max (T c0 l i k v r) =
      if d then match fixR c0 l i k v r' with Some (t', d') => Some (t', d', p) | None => None end
      else Some (T c0 l i k v r', false, p)).
    { subst r. cbn [del_max]. cbn [del_max] in E. rewrite E. reflexivity. }
    rewrite Eq. destruct d.
    + destruct P as (m & -> & P).
      destruct (fixR_spec c0 l i k v r' m P Hl) as (t' & d' & E' & P').
      rewrite E'. eexists _, _, _. split; [reflexivity|].
      apply (post_dpost c0 c n m); auto; intros Hc; destruct (Hrd Hc); auto.
    + eexists _, _, _. split; [reflexivity|]. unfold dpost in *.
      destruct c0.
      * destruct (Hrd eq_refl) as [-> ->]. auto.
      * rewrite (Hb eq_refl). auto.
Qed.

Lemma del_spec x : forall t c n, RB t c n -> forall t' d, del x t = Some (t', d) -> dpost c n t' d.
Proof.
  induction t as [|c0 l IHl i k v r IHr]; intros c n H t' d E; [discriminate|].
  destruct (RB_children _ _ _ _ _ _ _ _ H) as (nc & Hl & Hr & Hb & Hrd).
  cbn [del] in E. destruct (x <? k).
  - destruct (del x l) as [[l' dl]|] eqn:El; [|discriminate].
    specialize (IHl c0 nc Hl l' dl eq_refl). destruct dl.
    + destruct IHl as (m & -> & P).
      destruct (fixL_spec c0 l' i k v r m P Hr) as (t2 & d2 & E2 & P2).
      rewrite E2 in E. inv E. apply (post_dpost c0 c n m); auto; intros Hc; destruct (Hrd Hc); auto.
    + inv E. unfold dpost in *. destruct c0.
      * destruct (Hrd eq_refl) as [-> ->]. auto.
      * rewrite (Hb eq_refl). auto.
  - destruct (k <? x).
    + destruct (del x r) as [[r' dr]|] eqn:Er; [|discriminate].
      specialize (IHr c0 nc Hr r' dr eq_refl). destruct dr.
      * destruct IHr as (m & -> & P).
        destruct (fixR_spec c0 l i k v r' m P Hl) as (t2 & d2 & E2 & P2).
        rewrite E2 in E. inv E. apply (post_dpost c0 c n m); auto; intros Hc; destruct (Hrd Hc); auto.
      * inv E. unfold dpost in *. destruct c0.
        -- destruct (Hrd eq_refl) as [-> ->]. auto.
        -- rewrite (Hb eq_refl). auto.
    + (* the node itself *)
      destruct l as [|lc ll li lk lv lr] eqn:Eql.
      * inv E. apply (remove_here_spec c0 E i k v r c n H). auto.
      * destruct r as [|rc rl ri rk rv rr] eqn:Eqr.
        -- inv E. apply (remove_here_spec c0 _ i k v E c n H). auto.
        -- rewrite <- Eql in *. rewrite <- Eqr in *.
           destruct (del_max_spec l c0 nc Hl ltac:(subst; congruence)) as (l' & dl & [[pi pk] pv] & Em & Pm).
           assert (Eq : Some (t', d) = if dl then fixL c0 l' pi pk pv r else Some (T c0 l' pi pk pv r, false)).
           { subst l r. rewrite <- E. cbn [del_max] in Em |- *. rewrite Em. reflexivity. }
           clear E. destruct dl.
           ++ destruct Pm as (m & -> & P).
              destruct (fixL_spec c0 l' pi pk pv r m P Hr) as (t2 & d2 & E2 & P2).
              rewrite E2 in Eq. inv Eq. apply (post_dpost c0 c n m); auto; intros Hc; destruct (Hrd Hc); auto.
           ++ inv Eq. unfold dpost in *. destruct c0.
              ** destruct (Hrd eq_refl) as [-> ->]. auto.
              ** rewrite (Hb eq_refl). auto.
Qed.


(* ---------- the fix-up functions never meet a nil sibling: deletion of a present key succeeds ---------- *)

Lemma del_some x : forall t c n, RB t c n -> mem x t = true -> exists t' d, del x t = Some (t', d).
Proof.
  induction t as [|c0 l IHl i k v r IHr]; intros c n H Hm; [discriminate|].
  destruct (RB_children _ _ _ _ _ _ _ _ H) as (nc & Hl & Hr & Hb & Hrd).
  cbn [mem] in Hm. cbn [del]. destruct (x <? k).
  - destruct (IHl c0 nc Hl Hm) as (l' & dl & El). rewrite El.
    pose proof (del_spec x l c0 nc Hl l' dl El) as P. destruct dl; [|eauto].
    destruct P as (m & -> & P).
    destruct (fixL_spec c0 l' i k v r m P Hr) as (t2 & d2 & E2 & _). eauto.
  - destruct (k <? x).
    + destruct (IHr c0 nc Hr Hm) as (r' & dr & Er). rewrite Er.
      pose proof (del_spec x r c0 nc Hr r' dr Er) as P. destruct dr; [|eauto].
      destruct P as (m & -> & P).
      destruct (fixR_spec c0 l i k v r' m P Hl) as (t2 & d2 & E2 & _). eauto.
    + destruct l as [|lc ll li lk lv lr]; [unfold remove_here; eauto|].
      destruct r as [|rc rl ri rk rv rr]; [unfold remove_here; eauto|].
      destruct (del_max_spec (T lc ll li lk lv lr) c0 nc Hl ltac:(intro; discriminate)) as (l' & dl & [[pi pk] pv] & Em & Pm).
      rewrite Em. destruct dl; [|eauto].
      destruct Pm as (m & -> & P).
      destruct (fixL_spec c0 l' pi pk pv _ m P Hr) as (t2 & d2 & E2 & _). eauto.
Qed.

(* ---------- the root ---------- *)

Lemma fixL2_deficit_black c l i k v s t' : fixL2 c l i k v s = Some (t', true) -> is_red t' = false.
Proof.
  unfold fixL2. destruct s as [|[] sl si sk sv sr]; try discriminate.
  destruct (negb (is_red sl) && negb (is_red sr)); [intros H; inv H; reflexivity|].
  destruct (is_red sr); [discriminate|]. destruct sl as [|[] ? ? ? ? ?]; discriminate.
Qed.
Lemma fixL_deficit_black c l i k v s t' : fixL c l i k v s = Some (t', true) -> is_red t' = false.
Proof.
  unfold fixL. destruct s as [|[] sl si sk sv sr]; try apply fixL2_deficit_black.
  destruct (fixL2 Red l i k v sl) as [[np []]|]; discriminate.
Qed.
Lemma fixR2_deficit_black c s i k v r t' : fixR2 c s i k v r = Some (t', true) -> is_red t' = false.
Proof.
  unfold fixR2. destruct s as [|[] sl si sk sv sr]; try discriminate.
  destruct (negb (is_red sl) && negb (is_red sr)); [intros H; inv H; reflexivity|].
  destruct (is_red sl); [discriminate|]. destruct sr as [|[] ? ? ? ? ?]; discriminate.
Qed.
Lemma fixR_deficit_black c s i k v r t' : fixR c s i k v r = Some (t', true) -> is_red t' = false.
Proof.
  unfold fixR. destruct s as [|[] sl si sk sv sr]; try apply fixR2_deficit_black.
  destruct (fixR2 Red sr i k v r) as [[np []]|]; discriminate.
Qed.

(* a deficit that arrives at the top comes out of a fix-up step (black root) unless the top node
   itself was spliced out *)
Lemma del_deficit_black x c l i k v r t' :
  del x (T c l i k v r) = Some (t', true) -> (x =? k) && (is_E l || is_E r) = false -> is_red t' = false.
Proof.
  cbn [del]. intros H Hc. destruct (Z.ltb_spec x k).
  - destruct (del x l) as [[l' []]|]; try discriminate. eapply fixL_deficit_black; eauto.
  - destruct (Z.ltb_spec k x).
    + destruct (del x r) as [[r' []]|]; try discriminate. eapply fixR_deficit_black; eauto.
    + assert (x = k) by lia. subst. rewrite Z.eqb_refl in Hc. cbn [andb] in Hc.
      destruct l as [|lc ll li lk lv lr]; [discriminate|].
      destruct r as [|rc rl ri rk rv rr]; [discriminate|].
      destruct (del_max (T lc ll li lk lv lr)) as [[[l' []] [[pi pk] pv]]|]; try discriminate.
      eapply fixL_deficit_black; eauto.
Qed.

Theorem delete_key_RB x t t' : is_redblack t -> delete_key x t = DDone t' -> is_redblack t'.
Proof.
  intros [n H] E. unfold delete_key in E. destruct (mem x t); [|discriminate].
  destruct (del x t) as [[t2 d]|] eqn:Ed; [|discriminate].
  pose proof (del_spec x t Red n H t2 d Ed) as P. unfold dpost in P.
  destruct t as [|c l i k v r]; [discriminate|].
  destruct ((x =? k) && (is_E l || is_E r)) eqn:Ec; inv E.
  - destruct d.
    + destruct P as (m & -> & P). inv P; simpl.
      * exists 0%nat. auto.
      * exists (S m). auto.
      * eexists. eauto.
    + exists n. inv P; simpl; auto.
  - destruct d.
    + destruct P as (m & -> & P). exists m. apply not_red_RB; auto.
      eapply del_deficit_black; eauto.
    + exists n. auto.
Qed.

(* a present key is always deleted: the model never reaches its "unspecified" answer on a red-black tree *)
Theorem delete_key_defined x t : is_redblack t ->
  if mem x t then exists t', delete_key x t = DDone t' else delete_key x t = DNotFound.
Proof.
  intros [n H]. unfold delete_key. destruct (mem x t) eqn:Hm; [|reflexivity].
  destruct (del_some x t Red n H Hm) as (t' & d & E). rewrite E. eauto.
Qed.
