(* Branch lifecycle at EXECUTION time (C04, stream c04run).  Definitions only.

   [Pipeline.Run] (internal/core/pipeline.go) interprets the plan on [branches map[int][]PipelineItem].  What a
   pipeline item can see of that is the sequence of calls it and its clones receive.  The harness deploys a
   recording leaf item that implements Hibernate/Boot and forks by copy with a fresh instance id per clone; the
   log of one run is the list of [event]s below, in the order of the calls (instance ids and commit numbers are
   naturals; the commit number is the position of the commit in the case's commit list).

       ERoot i          the deployed item itself (pipeline.items[k]); logged once by the harness before Run
       EFork s ts       s.Fork(len ts) returned the clones ts  (cloneItems: the fork action, the root clone and
                        the emerge of a second root)
       EConsume i c     i.Consume of commit c
       EMerge i os      i.Merge(os)  (mergeItems: i is the item of the first listed branch, os those of the others)
       EHibernate i / EBoot i
       EDispose i       i.Dispose()  (Run calls it on the items of the master branch just before Finalize)
       EFinalize i      i.Finalize()

   absent --ERoot / fork target--> live <--EHibernate / EBoot--> hibernated ;  live --EFinalize--> finalized.
   Deleting a branch from the map is not a call: a disposed instance is one that simply receives no later event. *)
From Coq Require Import List Bool Arith Lia.
Import ListNotations.

Inductive event :=
| ERoot (i : nat)
| EFork (s : nat) (ts : list nat)
| EConsume (i c : nat)
| EMerge (i : nat) (os : list nat)
| EHibernate (i : nat)
| EBoot (i : nat)
| EDispose (i : nat)
| EFinalize (i : nat).

(* instances the call needs live and awake / instances the call brings into existence *)
Definition ev_uses (e : event) : list nat :=
  match e with
  | ERoot _ | EBoot _ => []
  | EFork s _ => [s]
  | EConsume i _ | EHibernate i | EDispose i | EFinalize i => [i]
  | EMerge i os => i :: os
  end.
Definition ev_creates (e : event) : list nat :=
  match e with
  | ERoot i => [i]
  | EFork _ ts => ts
  | _ => []
  end.

(* ---------- the declarative statement: plain predicates over the log, no executor ---------- *)

(* i was r_created somewhere in l *)
Definition created_in (l : list event) (i : nat) : Prop := exists e, In e l /\ In i (ev_creates e).
(* i has received Finalize in l *)
Definition finalized_in (l : list event) (i : nat) : Prop := In (EFinalize i) l.
(* the last Hibernate of i in l has not been followed by a Boot of i *)
Definition hibernated_in (l : list event) (i : nat) : Prop :=
  exists l1 l2, l = l1 ++ EHibernate i :: l2 /\ ~ In (EBoot i) l2.
(* the commit i itself consumed last in l is c *)
Definition last_consumed (l : list event) (i c : nat) : Prop :=
  exists l1 l2, l = l1 ++ EConsume i c :: l2 /\ forall c', ~ In (EConsume i c') l2.
Definition awake_in (l : list event) (i : nat) : Prop :=
  created_in l i /\ ~ hibernated_in l i /\ ~ finalized_in l i.

(* commit c is part of what instance i stands for after the calls of l: consumed by i, inherited through the fork
   that r_created i, or received in a merge i took part in *)
Inductive incorporated : list event -> nat -> nat -> Prop :=
| inc_consume l i c : incorporated (l ++ [EConsume i c]) i c
| inc_fork l s ts t c : In t ts -> incorporated l s c -> incorporated (l ++ [EFork s ts]) t c
| inc_merge l i os j k c : In j (i :: os) -> In k (i :: os) -> incorporated l k c ->
    incorporated (l ++ [EMerge i os]) j c
| inc_keep l e i c : incorporated l i c -> incorporated (l ++ [e]) i c.

(* what must hold of the calls l1 made so far when the call e is made *)
Definition event_ok (l1 : list event) (e : event) : Prop :=
  (forall i, In i (ev_uses e) -> awake_in l1 i) /\
  NoDup (ev_creates e) /\
  (forall i, In i (ev_creates e) -> ~ created_in l1 i) /\
  match e with
  | EBoot i => created_in l1 i /\ hibernated_in l1 i /\ ~ finalized_in l1 i
  | EMerge i os => NoDup (i :: os) /\ exists c, forall j, In j (i :: os) -> last_consumed l1 j c
  | EFinalize _ => (forall j, ~ hibernated_in l1 j) /\ (forall j, ~ finalized_in l1 j)
  | _ => True
  end.

(* the log of a complete successful run on a history of n commits; [single] = the history has a single head *)
Definition run_spec (single : bool) (n : nat) (log : list event) : Prop :=
  (forall l1 e l2, log = l1 ++ e :: l2 -> event_ok l1 e) /\
  (forall j, ~ hibernated_in log j) /\
  exists i, finalized_in log i /\ (single = true -> forall c, c < n -> incorporated log i c).

(* ---------- the executable oracle ---------- *)

Record rstate := mkR {
  r_created : list nat;             (* instances that exist *)
  r_hibs : list nat;                (* currently hibernated *)
  r_finals : list nat;              (* have received Finalize *)
  r_lastc : list (nat * nat);       (* instance -> commit it consumed last (first entry wins) *)
  r_incs : list (nat * list nat)    (* instance -> incorporated commits (first entry wins) *)
}.

Definition rinit : rstate := mkR [] [] [] [] [].

Definition rl_mem (i : nat) (l : list nat) : bool := existsb (Nat.eqb i) l.

Fixpoint rl_nodupb (l : list nat) : bool :=
  match l with
  | [] => true
  | x :: r => negb (rl_mem x r) && rl_nodupb r
  end.

Fixpoint rl_getc (m : list (nat * nat)) (i : nat) : option nat :=
  match m with
  | [] => None
  | (k, v) :: r => if k =? i then Some v else rl_getc r i
  end.

Fixpoint rl_geti (m : list (nat * list nat)) (i : nat) : list nat :=
  match m with
  | [] => []
  | (k, v) :: r => if k =? i then v else rl_geti r i
  end.

Definition rl_liveb (s : rstate) (i : nat) : bool :=
  rl_mem i (r_created s) && negb (rl_mem i (r_hibs s)) && negb (rl_mem i (r_finals s)).

Definition rl_is_nil {A} (l : list A) : bool := match l with [] => true | _ => false end.

Definition rl_check (s : rstate) (e : event) : bool :=
  forallb (rl_liveb s) (ev_uses e) && rl_nodupb (ev_creates e) &&
  forallb (fun i => negb (rl_mem i (r_created s))) (ev_creates e) &&
  match e with
  | EBoot i => rl_mem i (r_created s) && rl_mem i (r_hibs s) && negb (rl_mem i (r_finals s))
  | EMerge i os =>
      rl_nodupb (i :: os) &&
      match rl_getc (r_lastc s) i with
      | Some c => forallb (fun j => match rl_getc (r_lastc s) j with Some c' => c' =? c | None => false end) os
      | None => false
      end
  | EFinalize _ => rl_is_nil (r_hibs s) && rl_is_nil (r_finals s)
  | _ => true
  end.

Definition rl_apply (s : rstate) (e : event) : rstate :=
  match e with
  | ERoot i => mkR (i :: r_created s) (r_hibs s) (r_finals s) (r_lastc s) (r_incs s)
  | EFork src ts =>
      mkR (ts ++ r_created s) (r_hibs s) (r_finals s) (r_lastc s)
          (map (fun t => (t, rl_geti (r_incs s) src)) ts ++ r_incs s)
  | EConsume i c => mkR (r_created s) (r_hibs s) (r_finals s) ((i, c) :: r_lastc s) ((i, c :: rl_geti (r_incs s) i) :: r_incs s)
  | EMerge i os =>
      let u := nodup Nat.eq_dec (flat_map (rl_geti (r_incs s)) (i :: os)) in
      mkR (r_created s) (r_hibs s) (r_finals s) (r_lastc s) (map (fun j => (j, u)) (i :: os) ++ r_incs s)
  | EHibernate i => mkR (r_created s) (i :: r_hibs s) (r_finals s) (r_lastc s) (r_incs s)
  | EBoot i => mkR (r_created s) (filter (fun k => negb (k =? i)) (r_hibs s)) (r_finals s) (r_lastc s) (r_incs s)
  | EDispose _ => s
  | EFinalize i => mkR (r_created s) (r_hibs s) (i :: r_finals s) (r_lastc s) (r_incs s)
  end.

(* one call: rejected, or the next state *)
Definition rl_exec1 (s : rstate) (e : event) : option rstate := if rl_check s e then Some (rl_apply s e) else None.

Fixpoint rl_exec (s : rstate) (l : list event) : option rstate :=
  match l with
  | [] => Some s
  | e :: r => match rl_exec1 s e with Some s' => rl_exec s' r | None => None end
  end.

Definition final_okb (single : bool) (n : nat) (s : rstate) : bool :=
  rl_is_nil (r_hibs s) &&
  match r_finals s with
  | [i] => negb single || forallb (fun c => rl_mem c (rl_geti (r_incs s) i)) (seq 0 n)
  | _ => false
  end.

Definition run_okb (single : bool) (n : nat) (log : list event) : bool :=
  match rl_exec rinit log with
  | Some s => final_okb single n s
  | None => false
  end.
