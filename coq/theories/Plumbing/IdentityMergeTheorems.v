(* The theorems about MergeReversedDictsIdentities in their final form (closed by coq/props/C16.v),
   the refutation outside the disjointness domain (finding F7), and the soundness of the replay oracles. *)
From Coq Require Import List ZArith Lia Bool Permutation Relations.
From Herc Require Import Plumbing.IdStr Plumbing.IdentityMerge Plumbing.IdentityMergeProofs Plumbing.IdentityMergeMain.
Import ListNotations.
Local Open Scope Z_scope.

Definition sel_ok (sel : list str -> list str) : Prop := forall l, Permutation (sel l) l.

Section Thms.
  Variable sel : list str -> list str.
  Hypothesis Hsel : sel_ok sel.
  Variables rd1 rd2 : list str.
  Hypothesis D : merge_domb rd1 rd2 = true.
  Variables (idx : list (str * mindex)) (merged : list str).
  Hypothesis Hm : merge_reversed_dicts_identities sel rd1 rd2 = Some (idx, merged).

  Lemma merge_facts : exists walks visited,
    MInv rd1 rd2 (rd1 ++ rd2) walks visited /\
    (forall s, sget idx s = if smem s rd1 || smem s rd2
                            then Some (Z.of_nat (W walks s), index_of s rd1 0, index_of s rd2 0) else None) /\
    merged = map (fun wk => join (sort_ids wk)) walks.
  Proof.
    destruct (merge_walks_inv sel Hsel rd1 rd2 D) as [walks [visited [E I]]].
    exists walks, visited. split; [assumption|].
    unfold merge_reversed_dicts_identities in Hm. rewrite E in Hm. injection Hm as Hm'.
    apply (final_index rd1 rd2 D walks visited I). assumption.
  Qed.

  Lemma smem_app s : smem s rd1 || smem s rd2 = true <-> In s (rd1 ++ rd2).
  Proof. rewrite orb_true_iff, !smem_In, in_app_iff. reflexivity. Qed.

  Theorem merge_total : forall s, In s (rd1 ++ rd2) ->
    exists mi, sget idx s = Some mi /\ 0 <= mi_final mi < Z.of_nat (length merged).
  Proof.
    intros s Hs. destruct merge_facts as [walks [visited [I [Hi ->]]]].
    rewrite Hi. apply smem_app in Hs. rewrite Hs. eexists. split; [reflexivity|].
    unfold mi_final. cbn [fst]. rewrite map_length.
    apply smem_app in Hs. pose proof (W_range rd1 rd2 walks visited I s Hs). lia.
  Qed.

  Theorem merge_keys : forall s mi, sget idx s = Some mi -> In s (rd1 ++ rd2).
  Proof.
    intros s mi H. destruct merge_facts as [walks [visited [I [Hi _]]]]. rewrite Hi in H.
    destruct (smem s rd1 || smem s rd2) eqn:E; [apply smem_app; assumption|discriminate].
  Qed.

  Theorem merge_pointers :
    (forall i, (i < length rd1)%nat -> exists mi, sget idx (nth i rd1 []) = Some mi /\ mi_first mi = Z.of_nat i) /\
    (forall j, (j < length rd2)%nat -> exists mi, sget idx (nth j rd2 []) = Some mi /\ mi_second mi = Z.of_nat j) /\
    (forall s mi, sget idx s = Some mi ->
       (~ In s rd1 -> mi_first mi = -1) /\ (~ In s rd2 -> mi_second mi = -1)).
  Proof.
    destruct merge_facts as [walks [visited [I [Hi _]]]].
    split; [|split].
    - intros i Hi1. rewrite Hi.
      assert (E : smem (nth i rd1 []) rd1 = true) by (apply smem_In, nth_In; assumption).
      rewrite E. cbn [orb]. eexists. split; [reflexivity|]. unfold mi_first. cbn [fst snd].
      rewrite index_of_nth by (apply (nodup1 rd1 rd2 D) || assumption). lia.
    - intros j Hj. rewrite Hi.
      assert (E : smem (nth j rd2 []) rd2 = true) by (apply smem_In, nth_In; assumption).
      rewrite E, orb_true_r. eexists. split; [reflexivity|]. unfold mi_second. cbn [fst snd].
      rewrite index_of_nth by (apply (nodup2 rd1 rd2 D) || assumption). lia.
    - intros s mi H. rewrite Hi in H. destruct (smem s rd1 || smem s rd2); [|discriminate].
      injection H as <-. unfold mi_first, mi_second. cbn [fst snd].
      split; intros Hn; apply index_of_absent; assumption.
  Qed.

  Theorem merge_components : forall s t mi mj, In s (rd1 ++ rd2) -> In t (rd1 ++ rd2) ->
    sget idx s = Some mi -> sget idx t = Some mj ->
    (mi_final mi = mi_final mj <-> connected (rd1 ++ rd2) s t).
  Proof.
    intros s t mi mj Hs Ht Es Et. destruct merge_facts as [walks [visited [I [Hi _]]]].
    rewrite Hi in Es, Et. apply smem_app in Hs, Ht. rewrite Hs in Es. rewrite Ht in Et.
    injection Es as <-. injection Et as <-. unfold mi_final. cbn [fst].
    apply smem_app in Hs, Ht.
    rewrite <- (W_connected rd1 rd2 walks visited I s t Hs Ht). lia.
  Qed.

  Theorem merge_union : forall w, (w < length merged)%nat ->
    NoDup (split (nth w merged [])) /\
    forall p, In p (split (nth w merged [])) <->
              exists s mi, In s (rd1 ++ rd2) /\ sget idx s = Some mi /\ mi_final mi = Z.of_nat w /\ In p (split s).
  Proof.
    intros w Hw. destruct merge_facts as [walks [visited [I [Hi ->]]]].
    rewrite map_length in Hw.
    assert (E : nth w (map (fun wk => join (sort_ids wk)) walks) [] = join (sort_ids (nth w walks []))).
    { rewrite (nth_indep _ [] ((fun wk => join (sort_ids wk)) [])) by (rewrite map_length; assumption).
      apply (map_nth (fun wk => join (sort_ids wk))). }
    rewrite E.
    destruct (m_comp _ _ _ _ _ I (nth w walks []) (nth_In _ _ Hw)) as [r [Hr [Hnd Hc]]].
    assert (Hsj : split (join (sort_ids (nth w walks []))) = sort_ids (nth w walks [])).
    { apply split_join.
      - intros E0. apply (walk_nonempty rd1 rd2 walks visited I w Hw).
        apply length_zero_iff_nil. rewrite <- (isort_length _ id_ltb). fold (sort_ids (nth w walks [])).
        rewrite E0. reflexivity.
      - apply Forall_forall. intros p Hp. apply (proj1 (sort_ids_In _ _)) in Hp.
        apply (proj1 (walk_parts rd1 rd2 walks visited I w p Hw)) in Hp. destruct Hp as [u [_ [_ Hp]]].
        pose proof (split_nobar u) as Hn. rewrite Forall_forall in Hn. apply Hn. assumption. }
    rewrite Hsj. split; [apply sort_ids_NoDup; assumption|].
    intros p. rewrite sort_ids_In, (walk_parts rd1 rd2 walks visited I w p Hw). split.
    - intros [s [Hs [HW Hp]]]. exists s. eexists. split; [assumption|]. rewrite Hi.
      apply smem_app in Hs. rewrite Hs. split; [reflexivity|]. unfold mi_final. cbn [fst]. split; [lia|assumption].
    - intros [s [mi [Hs [Es [Ef Hp]]]]]. exists s. split; [assumption|]. split; [|assumption].
      rewrite Hi in Es. apply smem_app in Hs. rewrite Hs in Es. injection Es as <-.
      unfold mi_final in Ef. cbn [fst] in Ef. lia.
  Qed.
End Thms.

Theorem merge_total_keys sel : sel_ok sel -> forall rd1 rd2, merge_domb rd1 rd2 = true ->
  forall idx merged, merge_reversed_dicts_identities sel rd1 rd2 = Some (idx, merged) ->
  (forall s, In s (rd1 ++ rd2) ->
     exists mi, sget idx s = Some mi /\ 0 <= mi_final mi < Z.of_nat (length merged)) /\
  (forall s mi, sget idx s = Some mi -> In s (rd1 ++ rd2)).
Proof.
  intros Hs rd1 rd2 D idx merged H. split.
  - exact (merge_total sel Hs rd1 rd2 D idx merged H).
  - exact (merge_keys sel Hs rd1 rd2 D idx merged H).
Qed.

(* the function always returns (the fuel of the model is never exhausted), inside or outside the domain *)
Theorem merge_returns sel rd1 rd2 : sel_ok sel ->
  exists idx merged, merge_reversed_dicts_identities sel rd1 rd2 = Some (idx, merged).
Proof.
  intros H. pose proof (merge_never_out_of_fuel sel H rd1 rd2) as N.
  destruct (merge_reversed_dicts_identities sel rd1 rd2) as [[idx merged]|]; [eauto|congruence].
Qed.

(* ---------- finding F7: outside the domain an identity is lost ---------- *)
(* "q|z", "a|p", "b|p"  +  "z|b" *)
Definition f7_rd1 : list str := [[113; 124; 122]; [97; 124; 112]; [98; 124; 112]].
Definition f7_rd2 : list str := [[122; 124; 98]].

Lemma f7_outside_domain : merge_domb f7_rd1 f7_rd2 = false.
Proof. vm_compute. reflexivity. Qed.

Theorem merge_total_refuted :
  exists rd1 rd2 s idx merged,
    In s (rd1 ++ rd2) /\
    merge_reversed_dicts_identities id_sel rd1 rd2 = Some (idx, merged) /\
    sget idx s = None.
Proof.
  exists f7_rd1, f7_rd2, [97; 124; 112]. eexists. eexists.
  split; [right; left; reflexivity|]. split; [vm_compute; reflexivity|]. vm_compute. reflexivity.
Qed.

(* duplicates inside one list: a pointer is lost *)
Theorem merge_pointers_refuted :
  exists rd1 rd2 idx merged mi,
    merge_reversed_dicts_identities id_sel rd1 rd2 = Some (idx, merged) /\
    sget idx (nth 0 rd1 []) = Some mi /\ mi_first mi <> 0.
Proof.
  exists [[97]; [97]], []. eexists. eexists. eexists.
  split; [vm_compute; reflexivity|]. split; [vm_compute; reflexivity|]. vm_compute. discriminate.
Qed.

(* ---------- the executable statements used by the replay are sound ---------- *)
Lemma forallb_i_spec {A} (f : Z -> A -> bool) (d : A) : forall l i,
  forallb_i f i l = true <-> forall n, (n < length l)%nat -> f (i + Z.of_nat n) (nth n l d) = true.
Proof.
  induction l as [|x r IH]; intros i; simpl.
  - split; [intros _ n Hn; lia|reflexivity].
  - rewrite andb_true_iff, IH. split.
    + intros [H1 H2] [|n] Hn; [rewrite Z.add_0_r; assumption|].
      replace (i + Z.of_nat (S n)) with (i + 1 + Z.of_nat n) by lia. apply H2. lia.
    + intros H. split; [specialize (H O); rewrite Z.add_0_r in H; apply H; lia|].
      intros n Hn. replace (i + 1 + Z.of_nat n) with (i + Z.of_nat (S n)) by lia. apply (H (S n)). lia.
Qed.

Theorem mtotal_okb_sound rd1 rd2 idx merged : mtotal_okb rd1 rd2 idx merged = true ->
  forall s, In s (rd1 ++ rd2) ->
  exists mi, sget idx s = Some mi /\ 0 <= mi_final mi < Z.of_nat (length merged).
Proof.
  unfold mtotal_okb. intros H s Hs. apply andb_true_iff in H. destruct H as [H _].
  rewrite forallb_forall in H. specialize (H s Hs). destruct (sget idx s) as [mi|]; [|discriminate].
  exists mi. split; [reflexivity|]. apply andb_true_iff in H. lia.
Qed.

Theorem mcomponents_okb_sound rd1 rd2 idx : mcomponents_okb rd1 rd2 idx = true ->
  forall s t, In s (rd1 ++ rd2) -> In t (rd1 ++ rd2) ->
  (final_of idx s = final_of idx t <-> connected (rd1 ++ rd2) s t).
Proof.
  unfold mcomponents_okb. intros H s t Hs Ht. rewrite forallb_forall in H. specialize (H s Hs).
  rewrite forallb_forall in H. specialize (H t Ht). apply eqb_prop in H.
  rewrite <- (connb_spec (rd1 ++ rd2) s t Hs Ht), <- H. apply iff_sym, Z.eqb_eq.
Qed.

Theorem mpointers_okb_sound rd1 rd2 idx : mpointers_okb rd1 rd2 idx = true ->
  (forall i, (i < length rd1)%nat -> exists mi, sget idx (nth i rd1 []) = Some mi /\ mi_first mi = Z.of_nat i) /\
  (forall j, (j < length rd2)%nat -> exists mi, sget idx (nth j rd2 []) = Some mi /\ mi_second mi = Z.of_nat j).
Proof.
  unfold mpointers_okb. intros H. apply andb_true_iff in H. destruct H as [H _].
  apply andb_true_iff in H. destruct H as [H1 H2].
  rewrite (forallb_i_spec _ []) in H1. rewrite (forallb_i_spec _ []) in H2. split.
  - intros i Hi. specialize (H1 i Hi). destruct (sget idx (nth i rd1 [])) as [mi|]; [|discriminate].
    exists mi. split; [reflexivity|]. apply Z.eqb_eq in H1. lia.
  - intros j Hj. specialize (H2 j Hj). destruct (sget idx (nth j rd2 [])) as [mi|]; [|discriminate].
    exists mi. split; [reflexivity|]. apply Z.eqb_eq in H2. lia.
Qed.

Theorem munion_okb_sound rd1 rd2 idx merged : munion_okb rd1 rd2 idx merged = true ->
  forall w, (w < length merged)%nat -> forall p,
  In p (split (nth w merged [])) <->
  exists s, In s (rd1 ++ rd2) /\ final_of idx s = Z.of_nat w /\ In p (split s).
Proof.
  unfold munion_okb. intros H w Hw p. rewrite (forallb_i_spec _ []) in H. specialize (H w Hw).
  cbn [Z.add] in H. apply andb_true_iff in H. destruct H as [H1 H2].
  rewrite forallb_forall in H1, H2.
  assert (Hp : forall q, In q (concat (map split (filter (fun s => final_of idx s =? Z.of_nat w) (rd1 ++ rd2)))) <->
                         exists s, In s (rd1 ++ rd2) /\ final_of idx s = Z.of_nat w /\ In q (split s)).
  { intros q. rewrite in_concat. split.
    - intros [v [Hv Hq]]. apply in_map_iff in Hv. destruct Hv as [s [<- Hs]]. apply filter_In in Hs.
      destruct Hs as [Hs Hf]. apply Z.eqb_eq in Hf. eauto.
    - intros [s [Hs [Hf Hq]]]. exists (split s). split; [|assumption]. apply in_map. apply filter_In.
      split; [assumption|apply Z.eqb_eq; assumption]. }
  rewrite <- Hp. split; intros Hin.
  - apply smem_In. apply H1. assumption.
  - apply smem_In. apply H2. assumption.
Qed.

