(* Composition C06 -> C09, item side.

   C09 (Hibernation/Model.v) is stated for an abstract analysis item [ops S H K R byte] and assumes of it
     boot_hibernate      : size s <> 0 -> decompress (compress s) = s
     file_roundtrip      : decode (strip h) (encode h) = Some h
     truncation_detected : j < length (encode h) -> decode (strip h) (firstn j (encode h)) = None.
   This file builds the instance whose hibernation-relevant state is the node allocator of C06
   (Alloc/Model.v) plus an arbitrary payload, with compress / decompress / encode / decode DEFINED by
   the allocator model's [hibernate] / [boot] / [serialize] / [deserialize], and proves the three
   assumptions from the lemmas behind C06_boot_hibernate ([hibernate_real], [boot_gen]),
   C06_file_roundtrip ([file_roundtrip]) and C06_truncated ([file_truncated]).

   LZ4 stays what it is in C06: the Section variables [lz4c] / [lz4d] with the hypotheses [lz4_ok] and
   [lz4_small].

   The assumptions of C09 are Leibniz equalities over ALL states, while Boot after Hibernate restores the
   arena, the gap set and the lengths but not the left-over buffers, and Deserialize returns nil buffers
   as empty ones.  The instance therefore carries the allocator through two views:
     awake      (cells, gaps)             with gaps strictly increasing and lengths < 2^63 (a boolean, so
                                          that the subset type has unique proofs without any axiom),
     hibernated (storage length, gaps length, the seven buffers as byte lists)  with lengths < 2^63.
   Allocator.Hibernate's own threshold test is the test [sz <? thr cfg] of C09's [hibernate_item]; the
   instance calls the allocator model with threshold 0, i.e. the part of Hibernate after the early
   return.  [compress] of an empty arena (never called by C09's model, which tests [sz =? 0] first) and
   [decompress] / [decode] of data the allocator model refuses fall back to a fixed dummy. *)
From Coq Require Import List NArith ZArith Bool Lia Sorted Eqdep_dec.
From Herc Require Hibernation.Model.
From Herc Require Import Alloc.Varint Alloc.Model Alloc.Serialize Alloc.Proofs Alloc.Hibernate Alloc.SerializeProofs.
Import ListNotations.

Module HM := Herc.Hibernation.Model.

(* ------------------------------------------------------------------------------------------ *)
(* subset types over a boolean predicate *)

Section Pack.
  Context {A : Type} (ok : A -> bool).
  Definition sub := { x : A | ok x = true }.

  Definition pack (dflt : sub) (x : A) : sub :=
    match ok x as b return ok x = b -> sub with
    | true => fun pf => exist _ x pf
    | false => fun _ => dflt
    end eq_refl.

  Lemma sub_eq (u v : sub) : proj1_sig u = proj1_sig v -> u = v.
  Proof.
    destruct u as [x px], v as [y py]. cbn. intro E. subst y. f_equal.
    apply UIP_dec. apply bool_dec.
  Qed.

  Lemma pack_val dflt x : ok x = true -> proj1_sig (pack dflt x) = x.
  Proof.
    intro H. unfold pack.
    generalize (@eq_refl bool (ok x)). generalize (ok x) at 2 3. intros b. destruct b; intro e.
    - reflexivity.
    - congruence.
  Qed.
End Pack.

Lemma if_true {A} (b : bool) (x y : A) : b = true -> (if b then x else y) = x.
Proof. intros ->. reflexivity. Qed.

Definition in_rangeb (z : Z) : bool := (0 <=? z)%Z && (z <? 2 ^ 63)%Z.
Lemma in_rangeb_spec z : in_rangeb z = true -> in_range z.
Proof. unfold in_rangeb, in_range. rewrite andb_true_iff, Z.leb_le, Z.ltb_lt. tauto. Qed.

Definition smallb (b : list N) : bool := (N.of_nat (length b) <? 2 ^ 63)%N.
(* arenas and gap sets have fewer than 2^32 entries (malloc refuses to grow beyond MaxUint32) *)
Definition small32 {A} (l : list A) : bool := (N.of_nat (length l) <? 2 ^ 32)%N.

Lemma sortedb_sorted : forall g, sortedb g = true -> StronglySorted N.lt g.
Proof.
  induction g as [|x r IH]; intro H; [constructor|].
  destruct r as [|y r'].
  - constructor; constructor.
  - cbn [sortedb] in H. apply andb_true_iff in H. destruct H as [Hxy Hr]. apply N.ltb_lt in Hxy.
    specialize (IH Hr). constructor; [exact IH|].
    inversion IH as [|? ? _ Hall]; subst. constructor; [exact Hxy|].
    eapply Forall_impl; [|exact Hall]. intros z Hz. cbn in *. lia.
Qed.

(* ------------------------------------------------------------------------------------------ *)
(* the two views of the allocator *)

Record aview := mkAV { av_cells : list cell; av_gaps : list N }.
Definition av_ok (v : aview) : bool :=
  sortedb (av_gaps v) && small32 (av_cells v) && small32 (av_gaps v).
Definition adummy : sub av_ok := exist _ (mkAV [] []) eq_refl.

Record hview := mkHV { hv_slen : Z; hv_glen : Z; hv_bufs : list (list N) }.
Definition hv_ok (h : hview) : bool :=
  in_rangeb (hv_slen h) && in_rangeb (hv_glen h) && Nat.eqb (length (hv_bufs h)) 7 && forallb smallb (hv_bufs h).
Definition hdummy : sub hv_ok := exist _ (mkHV 0 0 (repeat [] 7)) eq_refl.

(* the awake allocator behind a view: threshold 0 (the threshold test is C09's), no left-over buffers *)
Definition mk_awake (v : aview) : alloc := mkalloc 0 (Some (av_cells v)) (Some (av_gaps v)) (repeat None 7) 0 0.
(* the hibernated allocator behind a view *)
Definition alloc_of (h : hview) : alloc := mkalloc 0 None None (map Some (hv_bufs h)) (hv_slen h) (hv_glen h).
(* ... and the one that stays in memory after Serialize: the lengths, nil buffers *)
Definition alloc_of_k (k : Z * Z) : alloc := mkalloc 0 None None (repeat None 7) (fst k) (snd k).

Definition view_a (a : alloc) : aview := mkAV (slist a) (glist a).
Definition view_h (a : alloc) : hview := mkHV (hslen a) (hglen a) (map buf_bytes (hdata a)).

Section AllocItem.
  Variable lz4c : list N -> list N.             (* CompressUInt32Slice *)
  Variable lz4d : list N -> nat -> list N.      (* DecompressUInt32Slice *)
  Hypothesis lz4_ok : forall l, l <> [] -> lz4c l <> [] /\ lz4d (lz4c l) (length l) = l.
  (* weaker than C06's lz4_small (which has no bound on l): only blocks of fewer than 2^32 words are compressed *)
  Hypothesis lz4_small : forall l, (N.of_nat (length l) < 2 ^ 32)%N -> (N.of_nat (length (lz4c l)) < 2 ^ 63)%N.

  Variables P R : Type.     (* everything else the analysis holds; its result *)

  Definition S : Type := sub av_ok * P.
  Definition H : Type := sub hv_ok * P.
  Definition K : Type := (Z * Z) * P.

  Definition item_size (s : S) : Z := Z.of_nat (length (av_cells (proj1_sig (fst s)))).

  Definition item_compress (s : S) : H :=
    (match hibernate lz4c (mk_awake (proj1_sig (fst s))) with
     | Ok a' => match storage a' with
                | None => pack hv_ok hdummy (view_h a')
                | Some _ => hdummy
                end
     | _ => hdummy
     end, snd s).

  Definition item_decompress (h : H) : S :=
    (match boot lz4d (alloc_of (proj1_sig (fst h))) with
     | Ok a' => pack av_ok adummy (view_a a')
     | _ => adummy
     end, snd h).

  Definition item_strip (h : H) : K := ((hv_slen (proj1_sig (fst h)), hv_glen (proj1_sig (fst h))), snd h).

  Definition item_encode (h : H) : list N :=
    match serialize (alloc_of (proj1_sig (fst h))) with
    | Ok (_, bytes) => bytes
    | _ => []
    end.

  Definition item_decode (k : K) (bytes : list N) : option H :=
    match deserialize (alloc_of_k (fst k)) (Some bytes) with
    | Ok (a', None) => if hv_ok (view_h a') then Some (pack hv_ok hdummy (view_h a'), snd k) else None
    | _ => None
    end.

  (* the item: hibernation through the allocator model, everything else arbitrary *)
  Definition alloc_ops (cons : N -> N -> bool -> S -> HM.result S) (cl : S -> S)
             (mg : list S -> HM.result (list S)) (fin : S -> HM.result R) (ini : S) : HM.ops S H K R N :=
    {| HM.size := item_size; HM.compress := item_compress; HM.decompress := item_decompress;
       HM.strip := item_strip; HM.encode := item_encode; HM.decode := item_decode;
       HM.consume := cons; HM.clone := cl; HM.merge := mg; HM.finalize := fin; HM.init := ini |}.

  (* ---------------------------------------------------------------------------------------- *)
  (* boot after hibernate *)

  Lemma smallb_lz4 l : small32 l = true -> smallb (lz4c l) = true.
  Proof. unfold smallb, small32. intro H. apply N.ltb_lt. apply lz4_small. apply N.ltb_lt. exact H. Qed.

  Lemma deinterleave_len s b : In b (deinterleave s) -> length b = length s.
  Proof.
    unfold deinterleave. intros [<-|[<-|[<-|[<-|[<-|[<-|[]]]]]]]; apply map_length.
  Qed.

  Lemma view_hib_state v :
    view_h (hib_state lz4c (mk_awake v) (av_cells v) (av_gaps v)) =
    mkHV (Z.of_nat (length (av_cells v)))
         (match av_gaps v with [] => 0%Z | _ :: _ => Z.of_nat (length (av_gaps v)) end)
         (map lz4c (deinterleave (av_cells v)) ++ [match av_gaps v with [] => [] | _ :: _ => lz4c (av_gaps v) end]).
  Proof.
    unfold view_h, hib_state, mk_awake. cbn [hslen hglen hdata thr].
    f_equal.
    rewrite map_app, map_map. cbn [map buf_bytes]. f_equal. destruct (av_gaps v); reflexivity.
  Qed.

  Lemma in_rangeb_len {A} (l : list A) : small32 l = true -> in_rangeb (Z.of_nat (length l)) = true.
  Proof.
    unfold small32. intro H. apply N.ltb_lt in H. change (2 ^ 32)%N with 4294967296%N in H. unfold in_rangeb. apply andb_true_iff. split; [apply Z.leb_le; lia|].
    apply Z.ltb_lt. change (2 ^ 63)%Z with (Z.of_N (2 ^ 63)%N). lia.
  Qed.

  Theorem item_boot_hibernate : forall s : S, item_size s <> 0%Z -> item_decompress (item_compress s) = s.
  Proof.
    intros [[v pf] p] Hsz. unfold item_size in Hsz. cbn [fst proj1_sig] in Hsz.
    assert (Hne : av_cells v <> []) by (intro E; rewrite E in Hsz; apply Hsz; reflexivity).
    pose proof pf as pf'. unfold av_ok in pf'. rewrite !andb_true_iff in pf'. destruct pf' as [[Hsort Hcs] Hgs].
    assert (Hhib : hibernate lz4c (mk_awake v) = Ok (hib_state lz4c (mk_awake v) (av_cells v) (av_gaps v))).
    { apply hibernate_real; try reflexivity; try exact Hne; cbn [mk_awake hslen thr]; lia. }
    unfold item_compress, item_decompress. cbn [fst snd proj1_sig]. rewrite Hhib.
    change (storage (hib_state lz4c (mk_awake v) (av_cells v) (av_gaps v))) with (@None (list cell)).
    cbv iota. f_equal.
    set (hv := view_h (hib_state lz4c (mk_awake v) (av_cells v) (av_gaps v))).
    assert (Hok : hv_ok hv = true).
    { unfold hv. rewrite view_hib_state. unfold hv_ok. cbn [hv_slen hv_glen hv_bufs].
      rewrite (in_rangeb_len _ Hcs).
      assert (Hg : in_rangeb (match av_gaps v with [] => 0%Z | _ :: _ => Z.of_nat (length (av_gaps v)) end) = true).
      { destruct (av_gaps v) as [|g0 g'] eqn:E; [reflexivity|]. apply in_rangeb_len. exact Hgs. }
      rewrite Hg. cbn [andb]. apply andb_true_iff. split; [reflexivity|].
      rewrite forallb_app. apply andb_true_iff. split.
      - apply forallb_forall. intros b Hb. apply in_map_iff in Hb. destruct Hb as [x [<- Hx]]. apply smallb_lz4.
        unfold small32. rewrite (deinterleave_len _ _ Hx). exact Hcs.
      - cbn [forallb]. rewrite andb_true_r. destruct (av_gaps v) eqn:E; [reflexivity|apply smallb_lz4; exact Hgs]. }
    rewrite (pack_val hv_ok hdummy hv Hok). unfold hv. rewrite view_hib_state. unfold alloc_of.
    cbn [hv_slen hv_glen hv_bufs]. rewrite map_app, map_map. cbn [map].
    destruct (boot_gen lz4c lz4d lz4_ok 0%Z None (av_cells v) (av_gaps v)
                (Some (match av_gaps v with [] => [] | _ :: _ => lz4c (av_gaps v) end))
                (match av_gaps v with [] => 0%Z | _ :: _ => Z.of_nat (length (av_gaps v)) end)
                Hne (sortedb_sorted _ Hsort)) as [hd Hb].
    { destruct (av_gaps v); [reflexivity|split; reflexivity]. }
    rewrite Hb. apply sub_eq. cbn [proj1_sig].
    rewrite pack_val; unfold view_a; cbn [slist glist storage gaps]; destruct v; [reflexivity|exact pf].
  Qed.

  (* ---------------------------------------------------------------------------------------- *)
  (* the file *)

  Lemma file_ok_alloc_of hv : hv_ok hv = true -> file_ok (alloc_of hv).
  Proof.
    unfold hv_ok. rewrite !andb_true_iff. intros [[[H1 H2] H3] H4].
    unfold file_ok, alloc_of. cbn [hslen hglen hdata].
    split; [apply in_rangeb_spec; exact H1|]. split; [apply in_rangeb_spec; exact H2|].
    split; [rewrite map_length; apply Nat.eqb_eq; exact H3|].
    apply Forall_forall. intros d Hd. apply in_map_iff in Hd. destruct Hd as [b [<- Hb]].
    rewrite forallb_forall in H4. specialize (H4 b Hb). unfold smallb in H4. apply N.ltb_lt in H4.
    unfold len_ok. cbn [buf_bytes]. exact H4.
  Qed.

  Lemma bufs_reread bufs : map buf_bytes (reread (map Some bufs)) = bufs.
  Proof. unfold reread. rewrite !map_map. cbn [buf_bytes]. apply map_id. Qed.

  Theorem item_file_roundtrip : forall h : H, item_decode (item_strip h) (item_encode h) = Some h.
  Proof.
    intros [[hv pf] p]. unfold item_decode, item_strip, item_encode. cbn [fst snd proj1_sig].
    destruct (file_roundtrip (alloc_of hv) eq_refl (file_ok_alloc_of hv pf)) as [a1 [bytes [Hs [_ [_ [_ [_ [_ Hd]]]]]]]].
    rewrite Hs. specialize (Hd (alloc_of_k (hv_slen hv, hv_glen hv)) [] eq_refl eq_refl).
    rewrite app_nil_r in Hd. rewrite Hd.
    assert (Hv : view_h (mkalloc (thr (alloc_of_k (hv_slen hv, hv_glen hv))) None (gaps (alloc_of_k (hv_slen hv, hv_glen hv)))
                                 (reread (hdata (alloc_of hv))) (hslen (alloc_of hv)) (hglen (alloc_of hv))) = hv).
    { unfold view_h, alloc_of. cbn [hslen hglen hdata]. rewrite bufs_reread. destruct hv; reflexivity. }
    rewrite Hv, (if_true _ _ _ pf). f_equal. f_equal. apply sub_eq. cbn [proj1_sig]. apply pack_val. exact pf.
  Qed.

  Theorem item_truncation_detected : forall (h : H) (j : nat),
    (j < length (item_encode h))%nat -> item_decode (item_strip h) (firstn j (item_encode h)) = None.
  Proof.
    intros [[hv pf] p] j. unfold item_decode, item_strip, item_encode. cbn [fst snd proj1_sig].
    destruct (file_roundtrip (alloc_of hv) eq_refl (file_ok_alloc_of hv pf)) as [a1 [bytes [Hs _]]].
    rewrite Hs. intro Hj.
    destruct (file_truncated (alloc_of hv) eq_refl (file_ok_alloc_of hv pf) a1 bytes Hs j
                (alloc_of_k (hv_slen hv, hv_glen hv)) Hj eq_refl) as [ax' [e He]].
    rewrite He. reflexivity.
  Qed.

  (* the three assumptions of C09, for every behaviour of the rest of the item *)
  Theorem alloc_ops_assumptions cons cl mg fin ini :
    let o := alloc_ops cons cl mg fin ini in
    (forall s, HM.size o s <> 0%Z -> HM.decompress o (HM.compress o s) = s) /\
    (forall h, HM.decode o (HM.strip o h) (HM.encode o h) = Some h) /\
    (forall h j, (j < length (HM.encode o h))%nat -> HM.decode o (HM.strip o h) (firstn j (HM.encode o h)) = None).
  Proof.
    cbn zeta. split; [exact item_boot_hibernate|]. split; [exact item_file_roundtrip|exact item_truncation_detected].
  Qed.
End AllocItem.
