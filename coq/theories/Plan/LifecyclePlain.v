(* What [lifecycle_ok] says in plain terms, without the executor: a branch is created at most once, is
   created before it is mentioned by anything else, and is never mentioned after its disposal. *)
From Coq Require Import List ZArith Bool Arith Lia Permutation.
From Herc Require Import Plan.Syntax Plan.Exec Plan.Graph Plan.Checker Plan.Lifecycle Plan.GC Plan.Hibernate
  Plan.ExecProofs Plan.CheckerLemmas Plan.CheckerSound Plan.LifecycleProofs Plan.GCProofs Plan.HibernateProofs.
Import ListNotations.
Local Open Scope nat_scope.

Lemma items_cover a b : wf_action a -> In b (items a) -> In b (uses a) \/ In b (creates a) \/ In b (boots a).
Proof.
  unfold wf_action, uses, creates, boots. destruct (kind a); intros W Hb.
  - destruct W as [c [b0 [_ E]]]. rewrite E in *. left. exact Hb.
  - destruct W as [b0 [t1 [ts E]]]. rewrite E in *. destruct Hb as [<-|Hb]; [left; left; reflexivity | right; left; exact Hb].
  - left. destruct (items a); exact Hb.
  - destruct W as [b0 E]. rewrite E in *. right. left. exact Hb.
  - destruct W as [b0 E]. rewrite E in *. left. exact Hb.
  - left. destruct (items a); exact Hb.
  - right. right. exact Hb.
Qed.

(* a branch in state X (neither what a use, nor what a creation, nor what a boot needs) is not an item *)
Lemma mention_needs s a b :
  step_ok s a -> In b (items a) -> awake s b \/ get s b = Absent \/ hibernated s b.
Proof.
  intros [W [_ [U [C B]]]] Hb. destruct (items_cover a b W Hb) as [H|[H|H]]; auto.
Qed.

Lemma disposed_stays : forall p s b,
    lifecycle_from s p -> get s b = Disposed -> Forall (fun a => ~ In b (items a)) p.
Proof.
  induction p as [|a r IH]; intros s b L D; [constructor|].
  destruct (lifecycle_tail s a r L) as [SO L'].
  assert (Hn : ~ In b (items a)).
  { intro Hb. destruct (mention_needs s a b SO Hb) as [[x Hx]|[Hx|[x Hx]]]; congruence. }
  constructor; [exact Hn|]. apply (IH (step s a)); [exact L'|]. rewrite step_frame by exact Hn. exact D.
Qed.

Lemma lifecycle_suffix : forall p1 s p2, lifecycle_from s (p1 ++ p2) -> lifecycle_from (run s p1) p2.
Proof.
  induction p1 as [|a r IH]; intros s p2 L; [exact L|].
  simpl in L. destruct (lifecycle_tail s a (r ++ p2) L) as [_ L']. rewrite run_cons. apply IH. exact L'.
Qed.

(* never mentioned after its disposal *)
Theorem no_mention_after_delete : forall p p1 a p2 b,
    lifecycle_ok p -> p = p1 ++ a :: p2 -> kind a = KDelete -> items a = [b] ->
    Forall (fun a' => ~ In b (items a')) p2.
Proof.
  intros p p1 a p2 b L E K I. subst p.
  pose proof (lifecycle_suffix p1 init (a :: p2) L) as L1.
  destruct (lifecycle_tail _ a p2 L1) as [_ L2].
  apply (disposed_stays p2 (step (run init p1) a) b L2).
  unfold step. rewrite K, I. apply get_set_eq.
Qed.

Lemma absent_until_created : forall p s b,
    lifecycle_from s p -> get s b = Absent -> Forall (fun a => ~ In b (creates a)) p ->
    Forall (fun a => ~ In b (items a)) p.
Proof.
  induction p as [|a r IH]; intros s b L A F; [constructor|].
  destruct (lifecycle_tail s a r L) as [SO L']. inversion F as [|? ? Fa Fr]; subst.
  assert (Hn : ~ In b (items a)).
  { intro Hb. destruct SO as [W [_ [U [C B]]]]. destruct (items_cover a b W Hb) as [H|[H|H]].
    - destruct (U b H) as [x Hx]. congruence.
    - contradiction.
    - destruct (B b H) as [x Hx]. congruence. }
  constructor; [exact Hn|]. apply (IH (step s a)); [exact L' | | exact Fr]. rewrite step_frame by exact Hn. exact A.
Qed.

(* a branch that no action of p1 creates is not mentioned in p1: every use comes after the creation *)
Theorem created_before_mentioned : forall p, lifecycle_ok p ->
    forall b, Forall (fun a => ~ In b (creates a)) p -> Forall (fun a => ~ In b (items a)) p.
Proof. intros p L b F. apply (absent_until_created p init b L eq_refl F). Qed.

Lemma nonabsent_stays : forall p s b,
    lifecycle_from s p -> get s b <> Absent -> Forall (fun a => ~ In b (creates a)) p.
Proof.
  induction p as [|a r IH]; intros s b L A; [constructor|].
  destruct (lifecycle_tail s a r L) as [SO L'].
  constructor.
  - intro Hb. destruct SO as [_ [_ [_ [C _]]]]. apply A. apply C. exact Hb.
  - apply (IH (step s a)); [exact L'|]. apply nonabsent_step; assumption.
Qed.

(* created at most once *)
Theorem created_once : forall p p1 a p2 b,
    lifecycle_ok p -> p = p1 ++ a :: p2 -> In b (creates a) ->
    Forall (fun a' => ~ In b (creates a')) p2.
Proof.
  intros p p1 a p2 b L E Hb. subst p.
  pose proof (lifecycle_suffix p1 init (a :: p2) L) as L1.
  destruct (lifecycle_tail _ a p2 L1) as [SO L2].
  apply (nonabsent_stays p2 (step (run init p1) a) b L2).
  (* after its creation the branch is live *)
  destruct SO as [W [N [U [C B]]]]. unfold wf_action in W. unfold creates in Hb. unfold uses in U. unfold step.
  destruct a as [k co its]. cbn [kind items commit] in *.
  destruct k; try (destruct its as [|z zs]; simpl in Hb; contradiction).
  - destruct W as [b0 [t1 [ts ->]]]. rewrite (get_fold_set (fun _ => get (run init p1) b0)).
    apply memzb_In in Hb. rewrite Hb. destruct (U b0 (or_introl eq_refl)) as [x Hx]. rewrite Hx. discriminate.
  - destruct W as [b0 ->]. destruct Hb as [<-|[]]. rewrite get_set_eq. discriminate.
Qed.

Theorem lifecycle_plain : forall p : list action, lifecycle_ok p ->
  (* created at most once *)
  (forall p1 a p2 b, p = p1 ++ a :: p2 -> In b (creates a) -> Forall (fun a' => ~ In b (creates a')) p2) /\
  (* never mentioned (used, re-created, hibernated, booted, disposed again) after its disposal *)
  (forall p1 a p2 b, p = p1 ++ a :: p2 -> kind a = KDelete -> items a = [b] -> Forall (fun a' => ~ In b (items a')) p2) /\
  (* a branch that is never created is never mentioned; applied to a prefix: every mention comes after the creation *)
  (forall b, Forall (fun a => ~ In b (creates a)) p -> Forall (fun a => ~ In b (items a)) p).
Proof.
  intros p L. split; [|split].
  - intros p1 a p2 b E Hb. exact (created_once p p1 a p2 b L E Hb).
  - intros p1 a p2 b E K I. exact (no_mention_after_delete p p1 a p2 b L E K I).
  - exact (created_before_mentioned p L).
Qed.
