(* C03, files too long to be materialised line by line (2^31 .. 2^32-1 lines): the plain array of the
   specification in RUN-LENGTH form, with the lemmas that relate every run-length function to the function of
   Spec.v on the expanded array.  The replay driver judges huge files with the functions of this file
   (extracted); the lemmas say that this is the same judgement as the one of Spec.v on the expanded lines.

   A run is (value, count); runs with count <= 0 stand for no line. *)
From Coq Require Import List ZArith Bool Lia.
Import ListNotations.
From Herc Require Import File.Model File.Spec.
Open Scope Z_scope.

Notation run := (Z * Z)%type (only parsing).

Fixpoint expand (r : list run) : list Z :=
  match r with [] => [] | (v, c) :: r' => repeat v (Z.to_nat c) ++ expand r' end.

(* every count is positive *)
Fixpoint runs_okb (r : list run) : bool :=
  match r with [] => true | (_, c) :: r' => (0 <? c) && runs_okb r' end.

(* the first n lines *)
Fixpoint rle_take (n : Z) (r : list run) : list run :=
  match r with
  | [] => []
  | (v, c) :: r' => if n <=? 0 then [] else if n <? c then [(v, n)] else (v, c) :: rle_take (n - c) r'
  end.

(* all but the first n lines *)
Fixpoint rle_drop (n : Z) (r : list run) : list run :=
  match r with
  | [] => []
  | (v, c) :: r' => if n <=? 0 then r else if n <? c then (v, c - n) :: r' else rle_drop (n - c) r'
  end.

Fixpoint rle_len (r : list run) : Z :=
  match r with [] => 0 | (_, c) :: r' => c + rle_len r' end.

(* canonical form: no empty run, neighbouring runs carry different values *)
Fixpoint rle_norm (r : list run) : list run :=
  match r with
  | [] => []
  | (v, c) :: r' =>
      if c <=? 0 then rle_norm r' else
      match rle_norm r' with
      | (v', c') :: r'' => if v =? v' then (v, c + c') :: r'' else (v, c) :: (v', c') :: r''
      | [] => [(v, c)]
      end
  end.

(* arr_update on runs: delete the range, then insert ins lines stamped t *)
Definition rle_update (t pos ins del : Z) (r : list run) : list run :=
  rle_norm (rle_take pos r ++ (t, ins) :: rle_drop (pos + del) r).

(* Spec.flatten on runs: the node list of the tracker as runs (one run per node but the last) *)
Fixpoint rle_flat (k v : Z) (s : list node) : list run :=
  match s with [] => [] | (k', v') :: r => (v, k' - k) :: rle_flat k' v' r end.
Definition rle_flatten (s : list node) : list run :=
  rle_norm (match s with [] => [] | (k, v) :: r => rle_flat k v r end).

(* the domain predicates of Spec.v on runs *)
Definition rle_mark_okb (t pos del : Z) (r : list run) : bool :=
  forallb (fun vc => negb (is_mark (fst vc)) || (fst vc =? t)) (rle_take del (rle_drop pos r)).

Definition rle_in_rangeb (t pos ins del : Z) (r : list run) : bool :=
  (0 <=? t) && (t <? MaxU32) && (0 <=? pos) && (0 <=? ins) && (0 <=? del)
  && (pos + del <=? rle_len r) && (rle_len r + ins - del <=? MaxU32).

Definition rle_validb (t pos ins del : Z) (r : list run) : bool :=
  rle_in_rangeb t pos ins del r && rle_mark_okb t pos del r.

Definition rle_must_panicb (t pos ins del : Z) (r : list run) : bool :=
  (t <? 0) || (t >=? MaxU32) || (pos <? 0) || (pos >? MaxU32) || (ins <? 0) || (del <? 0)
  || (ins >? MaxU32) || (del >? MaxU32)
  || (negb ((ins =? 0) && (del =? 0)) && ((pos >? rle_len r) || (pos + del >? rle_len r))).

(* the lines of the deleted range, as runs (for the histogram the observers must keep) *)
Definition rle_slice (pos del : Z) (r : list run) : list run := rle_take del (rle_drop pos r).

(* ---------------------------------------------------------------------------------------------- *)

Lemma expand_app a b : expand (a ++ b) = expand a ++ expand b.
Proof.
  induction a as [|[v c] a IH]; cbn [expand app]; [reflexivity|].
  rewrite IH, app_assoc. reflexivity.
Qed.

Lemma firstn_repeat_le {A} (x : A) n m : (n <= m)%nat -> firstn n (repeat x m) = repeat x n.
Proof.
  revert m. induction n as [|n IH]; intros m H; [reflexivity|].
  destruct m as [|m]; [lia|]. cbn [repeat firstn]. rewrite IH by lia. reflexivity.
Qed.

Lemma skipn_repeat_le {A} (x : A) n m : (n <= m)%nat -> skipn n (repeat x m) = repeat x (m - n).
Proof.
  revert m. induction n as [|n IH]; intros m H; [rewrite Nat.sub_0_r; reflexivity|].
  destruct m as [|m]; [lia|]. cbn [repeat skipn]. rewrite IH by lia. reflexivity.
Qed.

Lemma rle_take_expand : forall r n, runs_okb r = true ->
  expand (rle_take n r) = firstn (Z.to_nat n) (expand r).
Proof.
  induction r as [|[v c] r IH]; intros n Hok; cbn [rle_take expand].
  - rewrite firstn_nil. reflexivity.
  - cbn [runs_okb] in Hok. apply andb_true_iff in Hok. destruct Hok as [Hc Hok]. apply Z.ltb_lt in Hc.
    destruct (n <=? 0) eqn:E0.
    + apply Z.leb_le in E0. replace (Z.to_nat n) with 0%nat by lia. reflexivity.
    + apply Z.leb_gt in E0. destruct (n <? c) eqn:E1.
      * apply Z.ltb_lt in E1. cbn [expand]. rewrite app_nil_r.
        rewrite firstn_app. rewrite repeat_length.
        replace (Z.to_nat n - Z.to_nat c)%nat with 0%nat by lia. cbn [firstn]. rewrite app_nil_r.
        rewrite firstn_repeat_le by lia. reflexivity.
      * apply Z.ltb_ge in E1. cbn [expand]. rewrite IH by exact Hok.
        rewrite firstn_app, repeat_length.
        rewrite (firstn_all2 (repeat v (Z.to_nat c))) by (rewrite repeat_length; lia).
        replace (Z.to_nat (n - c)) with (Z.to_nat n - Z.to_nat c)%nat by lia. reflexivity.
Qed.

Lemma rle_drop_expand : forall r n, runs_okb r = true ->
  expand (rle_drop n r) = skipn (Z.to_nat n) (expand r).
Proof.
  induction r as [|[v c] r IH]; intros n Hok; cbn [rle_drop expand].
  - rewrite skipn_nil. reflexivity.
  - cbn [runs_okb] in Hok. apply andb_true_iff in Hok. destruct Hok as [Hc Hok]. apply Z.ltb_lt in Hc.
    destruct (n <=? 0) eqn:E0.
    + apply Z.leb_le in E0. replace (Z.to_nat n) with 0%nat by lia. reflexivity.
    + apply Z.leb_gt in E0. destruct (n <? c) eqn:E1.
      * apply Z.ltb_lt in E1. cbn [expand]. rewrite skipn_app, repeat_length.
        replace (Z.to_nat n - Z.to_nat c)%nat with 0%nat by lia. cbn [skipn].
        rewrite skipn_repeat_le by lia.
        replace (Z.to_nat (c - n)) with (Z.to_nat c - Z.to_nat n)%nat by lia. reflexivity.
      * apply Z.ltb_ge in E1. rewrite IH by exact Hok. rewrite skipn_app, repeat_length.
        rewrite (skipn_all2 (repeat v (Z.to_nat c))) by (rewrite repeat_length; lia).
        replace (Z.to_nat (n - c)) with (Z.to_nat n - Z.to_nat c)%nat by lia. reflexivity.
Qed.

Lemma rle_len_expand : forall r, runs_okb r = true -> rle_len r = alen (expand r).
Proof.
  unfold alen. induction r as [|[v c] r IH]; intros Hok; cbn [rle_len expand]; [reflexivity|].
  cbn [runs_okb] in Hok. apply andb_true_iff in Hok. destruct Hok as [Hc Hok]. apply Z.ltb_lt in Hc.
  rewrite app_length, repeat_length, IH by exact Hok. lia.
Qed.

Lemma repeat_app_same {A} (x : A) n m : repeat x n ++ repeat x m = repeat x (n + m).
Proof. induction n as [|n IH]; [reflexivity|]. cbn [repeat app Nat.add]. rewrite IH. reflexivity. Qed.

Lemma rle_norm_expand : forall r, expand (rle_norm r) = expand r.
Proof.
  induction r as [|[v c] r IH]; cbn [rle_norm expand]; [reflexivity|].
  destruct (c <=? 0) eqn:E0.
  - apply Z.leb_le in E0. replace (Z.to_nat c) with 0%nat by lia. exact IH.
  - apply Z.leb_gt in E0. rewrite <- IH. destruct (rle_norm r) as [|[v' c'] r''] eqn:En.
    + reflexivity.
    + destruct (v =? v') eqn:Ev.
      * apply Z.eqb_eq in Ev. subst v'. cbn [expand].
        assert (Hc' : 0 < c').
        { clear - En. revert v c' r'' En. induction r as [|[w d] r IHr]; intros v c' r'' En; cbn [rle_norm] in En; [discriminate|].
          destruct (d <=? 0) eqn:Ed; [eapply IHr; exact En|]. apply Z.leb_gt in Ed.
          destruct (rle_norm r) as [|[w' d'] q] eqn:Eq.
          - inversion En; subst. exact Ed.
          - specialize (IHr _ _ _ eq_refl). destruct (w =? w'); inversion En; subst; lia. }
        rewrite app_assoc, repeat_app_same. replace (Z.to_nat (c + c')) with (Z.to_nat c + Z.to_nat c')%nat by lia.
        reflexivity.
      * reflexivity.
Qed.

Lemma rle_norm_ok : forall r, runs_okb (rle_norm r) = true.
Proof.
  induction r as [|[v c] r IH]; cbn [rle_norm runs_okb]; [reflexivity|].
  destruct (c <=? 0) eqn:E0; [exact IH|]. apply Z.leb_gt in E0.
  destruct (rle_norm r) as [|[v' c'] r''] eqn:En.
  - cbn [runs_okb]. rewrite andb_true_r. apply Z.ltb_lt. exact E0.
  - cbn [runs_okb] in IH. apply andb_true_iff in IH. destruct IH as [Hc' Hr]. apply Z.ltb_lt in Hc'.
    destruct (v =? v'); cbn [runs_okb]; rewrite Hr.
    + rewrite andb_true_r. apply Z.ltb_lt. lia.
    + rewrite andb_true_r. apply andb_true_iff. split; apply Z.ltb_lt; assumption.
Qed.

(* the canonical form is canonical: no two neighbouring runs of a normalised list carry the same value, so a
   normalised run list is determined by the lines it stands for *)
Fixpoint distinct_runsb (r : list run) : bool :=
  match r with
  | (v, _) :: (((v', _) :: _) as r') => negb (v =? v') && distinct_runsb r'
  | _ => true
  end.

Lemma rle_norm_distinct : forall r, distinct_runsb (rle_norm r) = true.
Proof.
  induction r as [|[v c] r IH]; cbn [rle_norm]; [reflexivity|].
  destruct (c <=? 0); [exact IH|].
  destruct (rle_norm r) as [|[v' c'] r''] eqn:En; [reflexivity|].
  destruct (v =? v') eqn:Ev.
  - cbn [distinct_runsb] in IH |- *. destruct r'' as [|[v2 c2] r3]; [reflexivity|].
    apply Z.eqb_eq in Ev. subst v'. exact IH.
  - cbn [distinct_runsb]. rewrite Ev. cbn [negb andb]. exact IH.
Qed.

Lemma expand_head v c r : 0 < c -> exists l, repeat v (Z.to_nat c) ++ expand r = v :: l.
Proof.
  intros Hc. destruct (Z.to_nat c) as [|n] eqn:E; [lia|]. cbn [repeat app]. eexists. reflexivity.
Qed.

Lemma repeat_app_split {A} (x y : A) : forall n m l l',
  x <> y -> repeat x n ++ y :: l = repeat x m ++ l' -> (m <= n)%nat.
Proof.
  induction n as [|n IH]; intros m l l' Hxy H.
  - destruct m as [|m]; [lia|]. cbn [repeat app] in H. inversion H. congruence.
  - destruct m as [|m]; [lia|]. cbn [repeat app] in H. inversion H. apply IH in H1; [lia|exact Hxy].
Qed.

Lemma canonical_unique : forall r1 r2,
  runs_okb r1 = true -> runs_okb r2 = true -> distinct_runsb r1 = true -> distinct_runsb r2 = true ->
  expand r1 = expand r2 -> r1 = r2.
Proof.
  induction r1 as [|[v1 c1] r1 IH]; intros r2 O1 O2 D1 D2 E.
  - destruct r2 as [|[v2 c2] r2]; [reflexivity|]. cbn [runs_okb] in O2. apply andb_true_iff in O2.
    destruct O2 as [Hc _]. apply Z.ltb_lt in Hc. cbn [expand] in E.
    destruct (expand_head v2 c2 r2 Hc) as [l Hl]. rewrite Hl in E. discriminate.
  - cbn [runs_okb] in O1. apply andb_true_iff in O1. destruct O1 as [Hc1 O1]. apply Z.ltb_lt in Hc1.
    destruct r2 as [|[v2 c2] r2].
    + cbn [expand] in E. destruct (expand_head v1 c1 r1 Hc1) as [l Hl]. rewrite Hl in E. discriminate.
    + cbn [runs_okb] in O2. apply andb_true_iff in O2. destruct O2 as [Hc2 O2]. apply Z.ltb_lt in Hc2.
      cbn [expand] in E.
      assert (Hv : v1 = v2).
      { destruct (expand_head v1 c1 r1 Hc1) as [l1 H1]. destruct (expand_head v2 c2 r2 Hc2) as [l2 H2].
        rewrite H1, H2 in E. inversion E. reflexivity. }
      subst v2.
      (* the next line after each head run carries a different value, so the two head runs have the same length *)
      assert (Hle : forall (ra rb : list run) ca cb, 0 < ca -> 0 < cb ->
                 runs_okb ra = true -> distinct_runsb ((v1, ca) :: ra) = true ->
                 repeat v1 (Z.to_nat ca) ++ expand ra = repeat v1 (Z.to_nat cb) ++ expand rb ->
                 (Z.to_nat cb <= Z.to_nat ca)%nat \/ ra = []).
      { intros ra rb ca cb Ha Hb Oa Da Eab. destruct ra as [|[w d] ra]; [right; reflexivity|]. left.
        cbn [distinct_runsb] in Da. apply andb_true_iff in Da. destruct Da as [Hw _].
        apply negb_true_iff in Hw. apply Z.eqb_neq in Hw.
        cbn [runs_okb] in Oa. apply andb_true_iff in Oa. destruct Oa as [Hd _]. apply Z.ltb_lt in Hd.
        cbn [expand] in Eab. destruct (expand_head w d ra Hd) as [l Hl]. rewrite Hl in Eab.
        eapply repeat_app_split; [exact Hw|exact Eab]. }
      assert (Hlen : Z.to_nat c1 = Z.to_nat c2).
      { destruct (Hle r1 r2 c1 c2 Hc1 Hc2 O1 D1 E) as [A|A];
        destruct (Hle r2 r1 c2 c1 Hc2 Hc1 O2 D2 (eq_sym E)) as [B|B]; try lia.
        - subst r2. cbn [expand] in E. rewrite app_nil_r in E. apply (f_equal (@length Z)) in E.
          rewrite app_length, !repeat_length in E. lia.
        - subst r1. cbn [expand] in E. rewrite app_nil_r in E. apply (f_equal (@length Z)) in E.
          rewrite app_length, !repeat_length in E. lia.
        - subst r1 r2. cbn [expand] in E. rewrite !app_nil_r in E. apply (f_equal (@length Z)) in E.
          rewrite !repeat_length in E. exact E. }
      assert (c1 = c2) by lia. subst c2. f_equal.
      apply app_inv_head in E. apply IH; try assumption.
      * destruct r1 as [|[w d] r1]; [reflexivity|]. cbn [distinct_runsb] in D1. apply andb_true_iff in D1. apply D1.
      * destruct r2 as [|[w d] r2]; [reflexivity|]. cbn [distinct_runsb] in D2. apply andb_true_iff in D2. apply D2.
Qed.

(* ---------- the theorems used by the driver ---------- *)

(* the run-length edit is the plain-array edit *)
Theorem rle_update_expand t pos ins del r : runs_okb r = true ->
  expand (rle_update t pos ins del r) = arr_update t pos ins del (expand r).
Proof.
  intros Hok. unfold rle_update, arr_update. rewrite rle_norm_expand, expand_app. cbn [expand].
  rewrite rle_take_expand, rle_drop_expand by exact Hok. reflexivity.
Qed.

Theorem rle_update_ok t pos ins del r : runs_okb (rle_update t pos ins del r) = true.
Proof. apply rle_norm_ok. Qed.

Theorem rle_update_spec t pos ins del r : runs_okb r = true ->
  expand (rle_update t pos ins del r) = arr_update t pos ins del (expand r) /\
  runs_okb (rle_update t pos ins del r) = true.
Proof. intros H. split; [apply rle_update_expand; exact H|apply rle_update_ok]. Qed.

(* comparing normalised run lists is comparing the expanded lines, in both directions *)
Theorem rle_norm_eq_iff r1 r2 : rle_norm r1 = rle_norm r2 <-> expand r1 = expand r2.
Proof.
  split; intros H.
  - rewrite <- (rle_norm_expand r1), <- (rle_norm_expand r2), H. reflexivity.
  - apply canonical_unique; try apply rle_norm_ok; try apply rle_norm_distinct.
    rewrite !rle_norm_expand. exact H.
Qed.

Lemma rle_norm_idem r : rle_norm (rle_norm r) = rle_norm r.
Proof. apply rle_norm_eq_iff. apply rle_norm_expand. Qed.

(* the runs read off the node list are the flattened lines of Spec.v *)
Lemma rle_flat_expand : forall s k v, expand (rle_flat k v s) = flat k v s.
Proof.
  induction s as [|[k' v'] s IH]; intros k v; cbn [rle_flat flat expand]; [reflexivity|].
  rewrite IH. reflexivity.
Qed.

Theorem rle_flatten_expand s : expand (rle_flatten s) = flatten s /\ runs_okb (rle_flatten s) = true.
Proof.
  split; [|apply rle_norm_ok]. unfold rle_flatten, flatten. rewrite rle_norm_expand.
  destruct s as [|[k v] r]; [reflexivity|]. apply rle_flat_expand.
Qed.

Lemma forallb_repeat {A} (f : A -> bool) x n : forallb f (repeat x n) = (n =? 0)%nat || f x.
Proof.
  induction n as [|n IH]; [reflexivity|]. cbn [repeat forallb]. rewrite IH.
  destruct (f x), n; reflexivity.
Qed.

Lemma forallb_expand (f : Z -> bool) : forall r, runs_okb r = true ->
  forallb f (expand r) = forallb (fun vc => f (fst vc)) r.
Proof.
  induction r as [|[v c] r IH]; intros Hok; cbn [expand forallb fst]; [reflexivity|].
  cbn [runs_okb] in Hok. apply andb_true_iff in Hok. destruct Hok as [Hc Hok]. apply Z.ltb_lt in Hc.
  rewrite forallb_app, forallb_repeat, IH by exact Hok.
  replace (Z.to_nat c =? 0)%nat with false by (symmetry; apply Nat.eqb_neq; lia). reflexivity.
Qed.

Lemma rle_take_ok : forall r n, runs_okb r = true -> runs_okb (rle_take n r) = true.
Proof.
  induction r as [|[v c] r IH]; intros n Hok; cbn [rle_take]; [reflexivity|].
  cbn [runs_okb] in Hok. apply andb_true_iff in Hok. destruct Hok as [Hc Hok].
  destruct (n <=? 0) eqn:E0; [reflexivity|]. apply Z.leb_gt in E0. destruct (n <? c).
  - cbn [runs_okb]. rewrite andb_true_r. apply Z.ltb_lt. exact E0.
  - cbn [runs_okb]. rewrite Hc, IH by exact Hok. reflexivity.
Qed.

Lemma rle_drop_ok : forall r n, runs_okb r = true -> runs_okb (rle_drop n r) = true.
Proof.
  induction r as [|[v c] r IH]; intros n Hok; cbn [rle_drop]; [reflexivity|].
  pose proof Hok as Hok'. cbn [runs_okb] in Hok. apply andb_true_iff in Hok. destruct Hok as [Hc Hok].
  destruct (n <=? 0) eqn:E0; [exact Hok'|]. apply Z.leb_gt in E0. destruct (n <? c) eqn:E1.
  - apply Z.ltb_lt in E1. cbn [runs_okb]. rewrite Hok, andb_true_r. apply Z.ltb_lt. lia.
  - apply IH. exact Hok.
Qed.

(* the domain of the property and the rejection predicate, on runs = on the expanded lines *)
Theorem rle_domain t pos ins del r : runs_okb r = true ->
  rle_validb t pos ins del r = validb t pos ins del (expand r) /\
  rle_in_rangeb t pos ins del r = in_rangeb t pos ins del (expand r) /\
  rle_must_panicb t pos ins del r = must_panicb t pos ins del (expand r) /\
  rle_len r = alen (expand r) /\
  expand (rle_slice pos del r) = firstn (Z.to_nat del) (skipn (Z.to_nat pos) (expand r)).
Proof.
  intros Hok.
  assert (Hin : rle_in_rangeb t pos ins del r = in_rangeb t pos ins del (expand r)).
  { unfold rle_in_rangeb, in_rangeb. rewrite rle_len_expand by exact Hok. reflexivity. }
  assert (Hsl : expand (rle_slice pos del r) = firstn (Z.to_nat del) (skipn (Z.to_nat pos) (expand r))).
  { unfold rle_slice. rewrite rle_take_expand by (apply rle_drop_ok; exact Hok).
    rewrite rle_drop_expand by exact Hok. reflexivity. }
  repeat split.
  - unfold rle_validb, validb. rewrite Hin. f_equal. unfold rle_mark_okb, mark_okb.
    fold (rle_slice pos del r). rewrite <- Hsl.
    rewrite (forallb_expand (fun v => negb (is_mark v) || (v =? t))); [reflexivity|].
    unfold rle_slice. apply rle_take_ok, rle_drop_ok, Hok.
  - exact Hin.
  - unfold rle_must_panicb, must_panicb. rewrite rle_len_expand by exact Hok. reflexivity.
  - apply rle_len_expand. exact Hok.
  - exact Hsl.
Qed.
