CONFIG = dict(
        level='proof',
        streams=[
            dict(harness='c11', driver='c11', shrink_field='text'),
            # large cases (id-space family around 55 296 .. 67 585 distinct lines, scale family 10^3 .. 10^6 lines; up to
            # megabytes per case): a stream of its own, not shrunk
            dict(harness='c11big', driver='c11'),
            # several changes per FileDiff.Consume call (2..6 files per commit colliding on the natural cache keys), several calls
            # on one FileDiff instance; shrunk by dropping changes
            dict(harness='c11multi', driver='c11', shrink_field='files'),
        ],
        search_scale=0.5,
        rule='pairs of blobs (old, new) run through the real FileDiff.Consume x cleanup on/off x whitespace-ignore on/off x timeout '
             '(none, 1, 2, 10, 100, 1000 ms), CachedBlob.CountLines of both, the real BurndownAnalysis consumer (insertion of the old blob, then '
             'the modification) and LinesStatsCalculator: all pairs of strings over small alphabets up to length 3-4 x 4 configurations, '
             'random line texts from a vocabulary with duplicates, CRLF, missing final newline, invalid UTF-8, tabs/spaces-only lines and '
             'their edited versions (block delete/insert/replace/move/duplicate, whitespace-only changes), random byte soups, blobs ending in '
             'whitespace-only lines, NUL bytes around the 8000-byte sniff window, 3000-line texts under 1-5 ms timeouts; the timeout option '
             'also given as 0 and -1 (warning path). Stream c11big, large pairs judged by the property oracle at the end of the case: '
             '(a) id-space family (kinds ids-*): files with N distinct lines, N straddling 0xD7FF/0xD800, 0xDFFF/0xE000, 0xE7FF/0xE800, '
             '0xFFFF/0x10000 (quick: a dozen pairs; thorough: N = c-1, c, c+1 for each constant), edited relative to the line-identifier '
             'space: single lines and runs of 2-3 replaced by / inserted before lines whose identifiers differ by exactly 0x800 or another '
             'power of two (fresh lines: position N+1-d; existing lines: first, middle, last position and every boundary of the '
             'identifier space), blocks of 1, 2, 0x400, 0x800, 0x1000 lines deleted at the first / middle / last line of the surrogate '
             'block, swapped neighbours, random edits; in every such case the identifiers FileDiff handed to the diff engine (read back '
             'from the texts of the runs) are compared with shift_id of the model; (b) scale family (kinds scale-*): 10^3, 10^4, 10^5 '
             '(thorough also 10^6) lines ascending / reversed / random / periodic with periods 2^k and 2^k+-1, 255-257, 1023-1025, '
             '2^15+-1, 2^16+-1 lines, single lines of 2^8+-1, 2^10+-1, 2^12+-1, 2^16+-1 (thorough 2^20+1) bytes, blobs of exactly '
             '2^10+-1, 2^12+-1, 2^16+-1 bytes; all x cleanup x whitespace-ignore x timeout (none, 0, 1, 100, 1000 ms) x final newline. '
             'Stream c11multi (round 3, several elements per call): ONE FileDiff.Consume call with 2..6 modifications whose blobs carry their '
             'real git hashes and collide on the natural cache keys - identical new blob reached from different old blobs (different and '
             'equal line counts), identical old blob to different new blobs, identical pairs with one deviating copy, contents swapped / '
             'rotated between paths, one copy catching up with another edited in the same commit, every side drawn from a pool of 2-4 '
             'blobs (incl. unchanged content = mode change), renames with edits (also crossing), insertions / deletions of the same blobs '
             'in the same commit, shuffled order; exhaustively every commit of two modifications over strings of length <=2 over {a,LF} '
             '(thorough: of three over length <=1 over {a,LF,space}); and 2-3 such commits on the SAME FileDiff instance (same paths with '
             'other contents, same pair / reverse pair / same new blob again, one option flipped by re-Configure, Initialize called again). '
             'Every file of every call is judged by the same oracles as a single pair (script validator, line counts, real burndown '
             'consumer per file and on the whole commit, line statistics). '
             'Round 4 (content of values, entry kinds, pairs of features). Stream c11, kinds content-*: WHOLE files that consist of one or two '
             'special byte strings (UTF-8 byte order mark, halves of it, two of them, UTF-16 marks, U+FFFD as real content, invalid / overlong / '
             'surrogate UTF-8, NBSP, U+2028/9, U+3000, NEL, lone CR, CRLF, VT, FF, tab, space, NUL, NFC/NFD) against the empty file, a plain line, '
             'themselves with something appended / prepended / terminated / doubled, both directions, and every pair of two such strings; lines '
             'that a normalisation would make equal (invalid bytes vs U+FFFD, with/without BOM, case, kinds of white space, trailing white space '
             'and CR, NFC vs NFD, blank-looking lines) facing each other in the two versions and next to each other in one; the same lines '
             'terminated by 11 candidate terminators (LF, CRLF, CR, LF CR, U+2028, U+2029, NEL, VT, FF, RS, CR CR LF) in either version; files of '
             '9, 10, 11, 99, 100, 101, 999, 1000, 1001 lines growing / shrinking / edited; random concatenations of the special strings; all x cleanup '
             'x whitespace-ignore. Stream c11multi, kinds multi-modes (every pair of entry modes 100644 / 100755 / 100664 / 120000 symbolic link / '
             '160000 submodule on the two sides of a modification: re-targeted link, chmod + edit, file <-> link, submodule bump with two hashes and '
             'empty dummy blobs, file <-> submodule; alone, next to a regular file with the same contents, next to a second entry of the same kind), '
             'multi-names (two files of one commit whose NAMES differ only in case, white space, BOM, invalid UTF-8 vs U+FFFD, NFC/NFD, doubled '
             'separators, or are prefixes / suffixes of each other; a rename to the twin name; the twin inserted in the same commit), multi-hashes '
             '(the colliding shapes with blob hashes that agree in their first / last 1, 2, 4, 8, 16 bytes), multi-twins (files of one commit whose '
             'CONTENTS are normalisation twins); modes, twin names and hash prefixes are also drawn inside the random shapes and the '
             'multi-commit sequences (x renames x insertions / deletions x re-Configure x Initialize). '
             'Non-trivial = both blobs non-empty and different (c11multi: a Consume call with at least two such modifications); '
             'distinct = distinct (configuration, old bytes, new bytes).',
        exhaustive_note='quick: all pairs of strings of length <=3 over {a,b,LF,space} and of length <=4 over {a,LF}, x cleanup x whitespace-ignore; '
                        'thorough: length <=4 over {a,b,LF,space} and length <=3 over {a,LF,space,CR,0xff}',
        assumptions=[
            'the diff engine of github.com/sergi/go-diff v1.0.0 (DiffMainRunes, DiffCleanupSemanticLossless, DiffCleanupMerge) is NOT modelled: '
            'every script it returns in the harness is judged by the extracted validator script_ok, which is proved sound and complete '
            '(C11_script_ok_iff); for inputs never generated, validity of the script is an assumption, and the consumer/count theorems are '
            'stated for every script the validator accepts',
            'burndown.File is the plain array of C03 (File.Update = delete a range, then insert); lengths stay below 2^32',
            'the diff under a timeout depends on wall-clock time: its output is validated, not reproduced',
        ],
        trusted_base=[
            'hand-written Gallina models coq/theories/Plumbing/LineCount.v (CachedBlob.CountLines, diffLinesToRunesMunge of go-diff, stripWhitespace, '
            'shift_id = the identifier shift of FileDiff.Consume, compared on every case through the texts of the diff runs) '
            'and Script.v (handleModification, LinesStatsCalculator.Consume/Modify), tied to the code by the replay of every harness case',
            'hook files /repo/internal/plumbing/verif_c11.go (exports stripWhitespace) and /repo/verifapi/c11/c11.go (type aliases)',
        ],
        level_text='Coq proofs: CountLines = number of lines the diff splits the same bytes into, for every non-binary byte string; the script '
                   'validator is sound and complete for "valid canonical edit script"; every validated script is accepted by the model of '
                   'handleModification (no integrity/shape error, no File.Update panic, result length = new count) and conserved by the model '
                   'of LinesStatsCalculator; the count FileDiff reports equals CountLines for both values of WhitespaceIgnore; before commit 3944bd2 '
                   'WhitespaceIgnore changed the count exactly for blobs whose last line is non-empty and all spaces '
                   '(finding F9, repaired: C11_strip_refuted_before_fix; the repaired function agrees on every blob: C11_counts_agree). Translation validation: each diff produced by the third-party engine is checked by the '
                   'extracted validator.',
        level_note='Modelled, not verified: the Go code (tie = replay of every case, zero mismatches required). Not modelled at all: the Myers/'
                   'cleanup engine of sergi/go-diff, whose outputs are validated case by case (so "for every pair of blobs the diff is valid" is '
                   'established only for the generated pairs; it was found false for pairs with more than 55 295 distinct lines, finding F15, repaired '
                   'by 742df3d, and the engine sometimes emits empty runs, which the property allows and the theorems cover). The '
                   'consumer is proved over the abstract array semantics of File.Update (C03 proves the tracker refines it).',
        technique='machine-checked proof in Coq over a Gallina model + model/implementation correspondence replay + proved-sound-and-complete '
                  'validator for the third-party diff output (translation validation)',
    )
