CONFIG = dict(
        level='proof',
        streams=[dict(harness='c17', driver='c17', shrink_field=None)],
        rule='result values of BurndownAnalysis / DevsAnalysis / CouplesAnalysis built through verif constructors, written with the real '
             'Serialize(result, true, w), re-read as a protobuf message, decoded with the real Deserialize, and printed with Serialize(result, false, w).',
        exhaustive_note='',
        assumptions=[],
        trusted_base=[],
        level_text='',
        level_note='',
        technique='',
    )
