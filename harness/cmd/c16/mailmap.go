// Mailmap streams of the C16 harness: commit lists whose LAST commit carries a .mailmap blob.
//
//	mm-exh1 / mm-exh2   every mailmap of one line over 81 lines (canonical name in {"", a, B}, canonical e-mail
//	                    in {"", e@, a}, commit name in {"", a, b}, commit e-mail in {e@, c@, A}) x commit lists of
//	                    length <= 2 over 6 signatures; every mailmap of two such lines (6561) x 2 commit lists
//	mm-forms            random mailmaps made of the four entry forms of gitmailmap(5) plus the e-mail-only form,
//	                    names and e-mails from the pools of the commit lists, ASCII case flips, comments, blank
//	                    lines, tabs / CR / repeated spaces around the fields
//	mm-homonym          several developers who share one NAME and differ by e-mail, e-mail-only entries
//	                    "<proper@x> <commit@x>" for some of them, some of the mapped addresses without any commit
//	mm-existing         entries whose canonical name / e-mail is the name / e-mail of an author of the list or of
//	                    another entry (mapping to existing developers), same-name forms "Jane <j@new> Jane <j@old>"
//	mm-attr             names and e-mails from the input-attribute pools ("|", "<", ">", "#", spaces, tabs, non-ASCII
//	                    upper/lower pairs) inside mailmap lines
//	mm-exact            the same mailmaps with ExactSignatures = true (the file must not be read)
//	mm-decoy            a .mailmap in every commit but the last (must be ignored)
//	mmx-overlap         a key that is also the canonical e-mail / name of an entry with another canonical pair, or
//	                    two keys that differ by case only (outside mm_domb: finding "mailmap-overlap")
//	mmp-malformed       lines cut, doubled or spliced at random positions, stray "<", ">", "#", lines ending in ">"
//	                    without "<" (ParseMailmap panicked on those before /repo commit 199beb1; now they are skipped)
//
// The name mmx- is given by construction; what counts is the verdict of the driver (extracted mm_domb).
package main

import (
	"fmt"
	"strings"

	. "verifharness/lib"
)

type mline struct{ toN, toE, fromN, fromE string }

// render writes the entry in the shortest form that holds its fields:
//
//	toN <fromE>   |   <toE> <fromE>   |   toN <toE> <fromE>   |   [toN] <toE> fromN <fromE>
func (l mline) render() string {
	var sb strings.Builder
	if l.toN != "" {
		sb.WriteString(l.toN + " ")
	}
	if l.toE != "" || l.fromN != "" {
		sb.WriteString("<" + l.toE + "> ")
	}
	if l.fromN != "" {
		sb.WriteString(l.fromN + " ")
	}
	sb.WriteString("<" + l.fromE + ">")
	return sb.String()
}

func decorate(c *Config, s string) string {
	switch c.Rng.Intn(10) {
	case 0:
		return "  " + s
	case 1:
		return "\t" + s + " \r"
	case 2:
		return strings.Replace(s, " <", "\t<", -1)
	case 3:
		return strings.Replace(s, " ", "  ", -1)
	case 4:
		return s + "\r"
	}
	return s
}

var commentPool = []string{"# comment", "", "   ", "#", " # <a@x> <b@y>", "\t", "# Bob <bob@z.org>"}

func pick(c *Config, pool []string, n int) string { return pool[c.Rng.Intn(n)] }

func mmText(c *Config, lines []string) string {
	var out []string
	for _, l := range lines {
		if c.Rng.Intn(6) == 0 {
			out = append(out, pick(c, commentPool, len(commentPool)))
		}
		out = append(out, l)
	}
	txt := strings.Join(out, "\n")
	if c.Rng.Intn(2) == 0 {
		txt += "\n"
	}
	return txt
}

func randomLine(c *Config, names, mails int) mline {
	l := mline{fromE: mixCase(c, pick(c, mailPool, mails))}
	switch c.Rng.Intn(6) {
	case 0: // Proper Name <commit@email>
		l.toN = mixCase(c, pick(c, namePool, names))
	case 1, 2: // <proper@email> <commit@email>
		l.toE = mixCase(c, pick(c, mailPool, mails))
	case 3: // Proper Name <proper@email> <commit@email>
		l.toN = mixCase(c, pick(c, namePool, names))
		l.toE = mixCase(c, pick(c, mailPool, mails))
	case 4: // Proper Name <proper@email> Commit Name <commit@email>
		l.toN = mixCase(c, pick(c, namePool, names))
		l.toE = mixCase(c, pick(c, mailPool, mails))
		l.fromN = mixCase(c, pick(c, namePool, names))
	default: // same-name form
		l.toN = mixCase(c, pick(c, namePool, names))
		l.toE = mixCase(c, pick(c, mailPool, mails))
		l.fromN = l.toN
	}
	return l
}

func emitMM(c *Config, kind string, exact bool, sigs []sig, txt string) {
	emitCase(c, kind, &gcase{exact: exact, sigs: sigs, mailmap: &txt, runs: 2})
}

func mmExhaustive(c *Config) {
	var lines []string
	for _, toN := range []string{"", "a", "B"} {
		for _, toE := range []string{"", "e@", "a"} {
			for _, fromN := range []string{"", "a", "b"} {
				for _, fromE := range []string{"e@", "c@", "A"} {
					lines = append(lines, mline{toN, toE, fromN, fromE}.render())
				}
			}
		}
	}
	alpha := []sig{{"a", "e@"}, {"b", "c@"}, {"A", "a"}, {"b", "E@"}, {"", "c@"}, {"e@", "x"}}
	for _, l := range lines {
		for _, s := range alpha {
			emitMM(c, "mm-exh1", false, []sig{s}, l)
			for _, t := range alpha {
				emitMM(c, "mm-exh1", false, []sig{s, t}, l)
			}
		}
	}
	k := 0
	for _, l1 := range lines {
		for _, l2 := range lines {
			k++
			emitMM(c, "mm-exh2", false, []sig{alpha[k%6], alpha[(k/6)%6]}, l1+"\n"+l2)
			if c.Thorough() {
				emitMM(c, "mm-exh2", false, []sig{alpha[(k+3)%6]}, l1+"\n"+l2)
				emitMM(c, "mm-exh2", false, []sig{alpha[(k+1)%6], alpha[(k/6+2)%6], alpha[(k/36)%6]}, l1+"\n"+l2)
			}
		}
	}
}

var junkLines = []string{"a>", "-->", ">", "N > <c@x>", "x", "A <a@x> B", "N <p@x> <c@x> # trailing", "<>", "N <p@x> <>", "> <c@x>",
	"<<p@x> <c@x>", "N <p@x>> <c@x>", "<a><b>", "N<p><c>", "a<b>", "x <y> <z> >", "<a> b> <c>", "N <p> M <c> <d>", "<", "# a>", "a> # b",
	"=> <c@x>", "Bob <bob@z.org", "Bob bob@z.org>", "<a@x> <", "<a@x> >", "> >", "< >", "<a@x> Bob> <b@y>", "Bob> <a@x> <b@y>"}

func mangle(c *Config, s string) string {
	b := []byte(s)
	for k := 1 + c.Rng.Intn(2); k > 0 && len(b) > 0; k-- {
		p := c.Rng.Intn(len(b) + 1)
		switch c.Rng.Intn(4) {
		case 0: // delete
			if p < len(b) {
				b = append(b[:p:p], b[p+1:]...)
			}
		case 1: // insert a delimiter
			ins := "<> #\t|"[c.Rng.Intn(6)]
			b = append(b[:p:p], append([]byte{ins}, b[p:]...)...)
		case 2: // cut
			b = b[:p]
		default: // double a piece
			b = append(b, b[p:]...)
		}
	}
	return string(b)
}

func mailmapStreams(c *Config) {
	mmExhaustive(c)
	n := c.Count(6000, 80000)
	for i := 0; i < n; i++ {
		switch c.Rng.Intn(9) {
		case 0, 1: // the entry forms over the small pools
			var lines []string
			for k := 1 + c.Rng.Intn(5); k > 0; k-- {
				lines = append(lines, decorate(c, randomLine(c, 7, 7).render()))
			}
			emitMM(c, "mm-forms", false, randomSigs(c, 1+c.Rng.Intn(8), 7, 7, false), mmText(c, lines))
		case 2: // homonyms: one name, several e-mails, e-mail-only entries
			name := pick(c, namePool, 6)
			var sigs []sig
			var lines []string
			nd := 2 + c.Rng.Intn(3)
			for d := 0; d < nd; d++ {
				em := fmt.Sprintf("u%d@x", d)
				if c.Rng.Intn(3) != 0 {
					sigs = append(sigs, sig{mixCase(c, name), mixCase(c, em)})
				}
				if c.Rng.Intn(2) == 0 {
					old := fmt.Sprintf("u%d@old", d)
					lines = append(lines, decorate(c, mline{toE: mixCase(c, em), fromE: mixCase(c, old)}.render()))
					if c.Rng.Intn(2) == 0 {
						sigs = append(sigs, sig{mixCase(c, name), old})
					}
				}
			}
			if len(sigs) == 0 {
				sigs = append(sigs, sig{name, "u0@x"})
			}
			c.Rng.Shuffle(len(sigs), func(i, j int) { sigs[i], sigs[j] = sigs[j], sigs[i] })
			c.Rng.Shuffle(len(lines), func(i, j int) { lines[i], lines[j] = lines[j], lines[i] })
			emitMM(c, "mm-homonym", false, sigs, mmText(c, lines))
		case 3: // entries mapping to existing developers
			sigs := randomSigs(c, 1+c.Rng.Intn(6), 6, 6, false)
			var lines []string
			for k := 1 + c.Rng.Intn(4); k > 0; k-- {
				s := sigs[c.Rng.Intn(len(sigs))]
				l := mline{fromE: fmt.Sprintf("old%d@x", c.Rng.Intn(3))}
				switch c.Rng.Intn(5) {
				case 0:
					l.toN, l.toE = s.name, s.email
				case 1:
					l.toE = s.email
				case 2:
					l.toN = s.name
				case 3:
					l.toN, l.toE, l.fromN = s.name, s.email, s.name
				default:
					l.toN, l.toE, l.fromN = s.name, fmt.Sprintf("new%d@x", c.Rng.Intn(2)), pick(c, namePool, 6)
				}
				if l.toN == "" && l.toE == "" {
					l.toE = "p@x"
				}
				lines = append(lines, decorate(c, l.render()))
			}
			emitMM(c, "mm-existing", false, sigs, mmText(c, lines))
		case 4: // input attributes inside the lines
			var lines []string
			for k := 1 + c.Rng.Intn(3); k > 0; k-- {
				lines = append(lines, randomLine(c, len(namePool), len(mailPool)).render())
			}
			emitMM(c, "mm-attr", false, attrSigs(c, 1+c.Rng.Intn(5)), mmText(c, lines))
		case 5: // exact mode / decoys
			var lines []string
			for k := 1 + c.Rng.Intn(3); k > 0; k-- {
				lines = append(lines, randomLine(c, 7, 7).render())
			}
			if c.Rng.Intn(4) == 0 {
				lines = append(lines, pick(c, junkLines, len(junkLines)))
			}
			txt := mmText(c, lines)
			sigs := randomSigs(c, 1+c.Rng.Intn(6), 7, 7, false)
			if c.Rng.Intn(2) == 0 {
				emitMM(c, "mm-exact", true, sigs, txt)
			} else {
				g := &gcase{exact: c.Rng.Intn(4) == 0, sigs: sigs, decoy: &txt}
				if c.Rng.Intn(3) == 0 {
					t2 := randomLine(c, 7, 7).render()
					g.mailmap, g.runs = &t2, 2
				}
				emitCase(c, "mm-decoy", g)
			}
		case 6: // overlapping entries
			a, k, o := pick(c, mailPool, 4), pick(c, mailPool, 4), fmt.Sprintf("old%d@x", c.Rng.Intn(2))
			lines := []string{mline{toN: pick(c, namePool, 6), toE: a, fromE: k}.render()}
			switch c.Rng.Intn(3) {
			case 0:
				lines = append(lines, mline{toN: pick(c, namePool, 6), toE: k, fromE: o}.render())
			case 1:
				lines = append(lines, mline{toE: mixCase(c, k), fromE: o}.render(), randomLine(c, 6, 6).render())
			default:
				lines = append(lines, mline{toN: pick(c, namePool, 6), toE: o, fromE: strings.ToUpper(k)}.render())
			}
			c.Rng.Shuffle(len(lines), func(i, j int) { lines[i], lines[j] = lines[j], lines[i] })
			emitMM(c, "mmx-overlap", false, randomSigs(c, 1+c.Rng.Intn(5), 6, 5, false), strings.Join(lines, "\n"))
		default: // malformed
			var lines []string
			for k := 1 + c.Rng.Intn(3); k > 0; k-- {
				switch c.Rng.Intn(3) {
				case 0:
					lines = append(lines, pick(c, junkLines, len(junkLines)))
				case 1:
					lines = append(lines, mangle(c, randomLine(c, 7, 7).render()))
				default:
					lines = append(lines, decorate(c, randomLine(c, 7, 7).render()))
				}
			}
			emitMM(c, "mmp-malformed", c.Rng.Intn(8) == 0, randomSigs(c, 1+c.Rng.Intn(5), 7, 7, false), mmText(c, lines))
		}
	}
}
