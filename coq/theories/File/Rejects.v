(* Out-of-range requests are rejected with a panic: the argument guards, a position beyond the end and a
   deletion running past the end (the latter through the end-of-file test of the deletion loop). *)
From Coq Require Import List ZArith Lia Bool.
Import ListNotations.
From Herc Require Import File.Model File.Spec File.NodeLists File.Locate File.DelLoop File.Values File.Refines.
Open Scope Z_scope.

Lemma drop_lt_nil q s k0 : inc k0 s -> klast k0 s < q -> drop_lt q s = [].
Proof.
  revert k0; induction s as [|[k v] r IH]; simpl; intros k0 H Hk; auto.
  destruct H as [H1 H2]. pose proof (klast_ge _ _ H2).
  destruct (Z.ltb_spec k q); [eapply IH; eauto|exfalso; lia].
Qed.

Lemma alen_flatten s : WF2 s -> alen (flatten s) = slen s.
Proof.
  intros W. rewrite (flatten_tab s W). unfold alen. rewrite map_length, zseq_length.
  pose proof (slen_nonneg s W). lia.
Qed.

(* an empty request changes nothing (whatever the position, once the guards are passed) *)
Lemma update_noop t P s :
  0 <= t < MaxU32 -> 0 <= P <= MaxU32 -> update t P 0 0 s = Ok (s, []).
Proof.
  intros Ht HP. unfold update.
  replace (t <? 0) with false by (symmetry; apply Z.ltb_ge; lia).
  replace (t >=? MaxU32) with false by (symmetry; rewrite Z.geb_leb; apply Z.leb_gt; lia).
  replace (P <? 0) with false by (symmetry; apply Z.ltb_ge; lia).
  replace (P >? MaxU32) with false by (symmetry; rewrite Z.gtb_ltb; apply Z.ltb_ge; lia).
  reflexivity.
Qed.

Theorem update_rejects t P ins del s :
  WF s -> must_panicb t P ins del (flatten s) = true -> exists c, update t P ins del s = Panic c.
Proof.
  intros HWF0 H. pose proof (WF_WF2 _ HWF0) as HWF.
  assert (Hs32 : slen s <= MaxU32) by (destruct HWF0 as (_ & _ & _ & H0); exact H0).
  unfold must_panicb in H. rewrite (alen_flatten s HWF) in H.
  unfold update.
  destruct (Z.ltb_spec t 0); [eexists; reflexivity|].
  destruct (Z.geb_spec t MaxU32); [eexists; reflexivity|].
  destruct (Z.ltb_spec P 0); [eexists; reflexivity|].
  destruct (Z.gtb_spec P MaxU32); [eexists; reflexivity|].
  destruct (Z.ltb_spec ins 0); [eexists; reflexivity|].
  destruct (Z.ltb_spec del 0); [eexists; reflexivity|]. cbn [orb] in *.
  destruct (Z.gtb_spec ins MaxU32); [eexists; reflexivity|].
  destruct (Z.gtb_spec del MaxU32); [eexists; reflexivity|]. cbn [orb] in *.
  apply andb_prop in H. destruct H as [Hne H].
  assert (Hne' : ins <> 0 \/ del <> 0).
  { apply negb_true_iff, andb_false_iff in Hne. destruct Hne as [E|E]; apply Z.eqb_neq in E; auto. }
  rewrite (lor_nonzero ins del ltac:(lia) ltac:(lia) Hne').
  destruct (Z.gtb_spec P (slen s)) as [Hbeyond|Hin].
  - (* position beyond the end *)
    destruct HWF as (Hinc & Hend & v0 & r & Es). subst s.
    unfold update_core. cbn [fst]. change (0 =? 0) with true. cbn [negb]. rewrite andb_false_r.
    rewrite (u32_id P) by lia.
    replace (P >? klast 0 ((0, v0) :: r)) with true
      by (symmetry; rewrite Z.gtb_ltb; apply Z.ltb_lt; unfold slen in *; lia).
    eexists; reflexivity.
  - (* deletion past the end *)
    cbn [orb] in H. apply Z.gtb_lt in H.
    pose proof (update_enter_gen s t P ins del HWF Hs32 ltac:(lia) ltac:(lia) ltac:(lia) ltac:(lia) Hne')
      as (L & ok & ov & R & Es & Hok & Hgt & Ef & E).
    unfold update in E.
    replace (t <? 0) with false in E by (symmetry; apply Z.ltb_ge; lia).
    replace (t >=? MaxU32) with false in E by (symmetry; rewrite Z.geb_leb; apply Z.leb_gt; lia).
    replace (P <? 0) with false in E by (symmetry; apply Z.ltb_ge; lia).
    replace (P >? MaxU32) with false in E by (symmetry; rewrite Z.gtb_ltb; apply Z.ltb_ge; lia).
    replace (ins <? 0) with false in E by (symmetry; apply Z.ltb_ge; lia).
    replace (del <? 0) with false in E by (symmetry; apply Z.ltb_ge; lia).
    replace (ins >? MaxU32) with false in E by (symmetry; rewrite Z.gtb_ltb; apply Z.ltb_ge; lia).
    replace (del >? MaxU32) with false in E by (symmetry; rewrite Z.gtb_ltb; apply Z.ltb_ge; lia).
    cbn [orb] in E. rewrite (lor_nonzero ins del ltac:(lia) ltac:(lia) Hne') in E. rewrite E.
    assert (Hdel : 0 < del) by lia.
    unfold update_body.
    destruct (ins >? 0); [rewrite update_time_self|];
      (replace (del =? 0) with false by (symmetry; apply Z.eqb_neq; lia));
      subst s; destruct HWF as (Hinc & _ & _);
      destruct (inc_decomp _ _ _ Hinc) as (HL & HLo & HR); cbn [fst] in *;
      match goal with |- context [del_loop t P ins del (ok, ov) ?po L (ok, ov) R ?reps] =>
        destruct (first_loop_panic t P ins del Hdel ltac:(lia) R ok ov po L reps Hok HR Hgt) as (c & Ec);
          [apply (drop_lt_nil _ _ ok); auto; unfold slen in *; rewrite klast_app in *; cbn [klast] in *; lia
          | rewrite Ec; eexists; reflexivity]
      end.
Qed.
