CONFIG = dict(
        level='proof',
        streams=[dict(harness='c03', driver='c03', shrink_field='ops')],
        rule='TODO',
        exhaustive_note='TODO',
        assumptions=[],
        trusted_base=['hand-written Gallina model coq/theories/File/Model.v of internal/burndown/file.go (NewFile, updateTime, Len, Update), tied to the code by the replay of every harness case'],
    )
