def _extra(stats, cov):
    # translation validation: programs = plans of the real planner validated by the proved-sound plan_ok
    return dict(programs=stats.get('plans_produced', 0),
                disagreements_checked=stats.get('plans_validated', 0),
                distinct_plans_validated=stats.get('plans_validated', 0),
                plans_rejected=stats.get('plans_validated', 0) - stats.get('plans_accepted', 0))


CONFIG = dict(
    level='translation_validation',
    streams=[dict(harness='c02', driver='c02', shrink_field='edges')],
    rule='stub',
    extra_coverage=_extra,
)
