(* C15: replay the harness trace through the extracted Gallina model of toposort.go *)
open C15_model
open Conv

let op_of_sx (s : sx) : op =
  let z i = z_of_int (int_of_sx (List.nth (args s) i)) in
  match tag s with
  | "addnode" -> OAddNode (z 0)
  | "addedge" -> OAddEdge (z 0, z 1)
  | "rmedge" -> ORemoveEdge (z 0, z 1)
  | "reindex" -> OReindex (z 0)
  | "sort" -> OSort
  | "children" -> OChildren (z 0)
  | "parents" -> OParents (z 0)
  | "cycle" -> OCycle (z 0)
  | t -> failwith ("unknown op " ^ t)

let show_ints l = "[" ^ String.concat ";" (List.map string_of_int l) ^ "]"

(* the property oracle for a successful sort, independent of the model's own answer:
   a permutation of the node set in which every edge points forward *)
let order_ok (nodes : int list) (edges : (int * int) list) (l : int list) : bool =
  List.sort compare l = List.sort compare nodes &&
  (let pos = Hashtbl.create 16 in
   List.iteri (fun i n -> Hashtbl.replace pos n i) l;
   List.for_all (fun (a, b) -> Hashtbl.mem pos a && Hashtbl.mem pos b && Hashtbl.find pos a < Hashtbl.find pos b) edges)

let () =
  iter_cases (fun id c ->
    let ops = List.map op_of_sx (args (field "ops" c)) in
    let obs = args (field "obs" c) in
    if List.length ops <> List.length obs then failwith "ops/obs length";
    (* step the model one operation at a time to have the state at every query *)
    let st = ref empty in
    List.iteri (fun i (o, ob) ->
      let (st', outs) = run !st [o] in
      let out = List.hd outs in
      let here = Printf.sprintf "op#%d %s" i (string_of_sx (List.nth (args (field "ops" c)) i)) in
      (match out, tag ob with
       | RBool b, "b" -> if b <> bool_of_sx (List.hd (args ob)) then mismatch id (here ^ " bool")
       | RInt z, "i" -> if int_of_z z <> int_of_sx (List.hd (args ob)) then mismatch id (here ^ " int")
       | RUnit, "u" -> ()
       | RList l, "l" ->
           if List.map int_of_z l <> ints_of_sx (List.hd (args ob)) then
             mismatch id (here ^ " list model=" ^ show_ints (List.map int_of_z l))
       | RSort r, ("sorted" | "panic" | "nondet") when not (wfb !st) ->
           (* outside the property's domain (duplicate edges, unknown endpoints, missing re-index):
              only the correspondence with the model is checked *)
           count "sorts_outside_domain";
           (match r, tag ob with
            | SortUnspec, _ -> count "sort_unspec"
            | SortPanic, "panic" -> count "sort_panic"
            | SortOk (ml, mok), "sorted" ->
                if bool_of_sx (List.nth (args ob) 0) <> mok || ints_of_sx (List.nth (args ob) 1) <> List.map int_of_z ml
                then mismatch id (here ^ " (outside domain) result differs: " ^ string_of_sx ob)
            | _, "nondet" -> count "sort_nondet_outside_domain"
            | _ -> mismatch id (here ^ " (outside domain) result kind differs: " ^ string_of_sx ob))
       | RCycleEmpty _, "cycle" when is_node !st nobody ->
           (* the empty name is FindCycle's sentinel; a graph that has it as a node is outside the domain *)
           count "cycles_outside_domain"
       | RSort r, ("sorted" | "panic" | "nondet") ->
           count "sorts";
           (* node and edge sets of the current model state, for the oracle *)
           let nodes = List.map (fun (n, _) -> int_of_z n) !st.outs in
           let edges = List.concat_map (fun (n, m) -> List.map (fun (ch, _) -> (int_of_z n, int_of_z ch)) m) !st.outs in
           (match r, tag ob with
            | SortOk _, "nondet" -> propfail id (here ^ " Toposort answers differ between runs on equal graphs: " ^ string_of_sx ob)
            | SortOk _, "panic" -> propfail id (here ^ " Toposort panics on a graph of the domain")
            | (SortUnspec | SortPanic | SortFuel), _ ->
                (* impossible by C15_refines_kahn (wfb holds here) *)
                mismatch id (here ^ " model result is not SortOk inside the domain")
            | SortOk (ml, mok), _ ->
                let gok = bool_of_sx (List.nth (args ob) 0) in
                let gl = ints_of_sx (List.nth (args ob) 1) in
                let ml = List.map int_of_z ml in
                if gok then count "sort_success" else count "sort_failure";
                (* coarse: property *)
                if gok && not (order_ok nodes edges gl) then
                  propfail id (here ^ " success reported but the order is not a topological order of all nodes: " ^ show_ints gl)
                else if gok <> mok then
                  propfail id (here ^ Printf.sprintf " success=%b but the graph is %s" gok (if mok then "acyclic" else "cyclic"))
                (* fine: the deterministic order *)
                else if gl <> ml then mismatch id (here ^ " order differs: impl=" ^ show_ints gl ^ " model=" ^ show_ints ml))
       | RCycleEmpty e, "cycle" ->
           (* C15_cycle_real / C15_cycle_found / C15_cycle_emptiness_any_order hold for every state in which
              the empty name is not a node (no rank condition), so the oracle is applied there *)
           count (if wfb !st then "cycles" else "cycles_dirty_state");
           let gc = ints_of_sx (List.hd (args ob)) in
           let seed = (match o with OCycle s -> s | _ -> failwith "cycle op") in
           if gc <> [] then begin
             count "cycle_nonempty";
             if not (cycle_ok !st seed (List.map z_of_int gc)) then
               propfail id (here ^ " FindCycle returned something that is not a cycle through the seed: " ^ show_ints gc)
             else if e then mismatch id (here ^ " model finds no cycle through the seed but the implementation returned a valid one (contradicts C15_cycle_emptiness_any_order: model unfaithful)")
           end else if not e then
             propfail id (here ^ " a cycle through the seed exists but FindCycle returned nothing")
       | _ -> mismatch id (here ^ " observation shape " ^ string_of_sx ob));
      st := st') (List.combine ops obs))
