(* C05 - red-black tree = ordered map, balanced, iterators stable (internal/rbtree/rbtree.go).
   Only statements closed by [exact] and their assumptions, plus non-vacuity examples.

   Vocabulary (definitions in coq/theories/RBTree):
     tree            recursive model of one RBTree; every node carries the arena index it occupies
     insert / delete_key / it_find_ge / it_find_le / get / min_id / it_max / next_in / prev_in / tsize
                     the model of Insert / doDelete / FindGE / FindLE / Get / Min / Max / Next / Prev / Len
     elems t         in-order list of (node id, key, value): the abstraction to the specification
     s_insert, s_delete, s_find_ge, ...   the sorted association list of Spec.v
     is_redblack t   := exists n, RB t Red n  (C05_rb_meaning spells it out); bst t: search-tree order
     cells 0 t       the arena image (key, value, parent, left, right, colour per node id)
     state, step, run, Inv, all_defined, spec_run, abs   several trees on one allocator (SeqProofs.v) *)
From Coq Require Import List ZArith Bool.
From Herc Require Import RBTree.Model RBTree.Spec RBTree.Arena RBTree.InsertProofs RBTree.DeleteProofs
  RBTree.MapProofs RBTree.LookupProofs RBTree.HeightProofs RBTree.ArenaProofs RBTree.SeqProofs RBTree.Main.
Import ListNotations.
Open Scope Z_scope.

(* ---------- the tree is a sorted map ---------- *)

(* Insert: the entry list becomes the sorted-list insertion (nothing happens when the key is present),
   the boolean tells whether the key was absent, the iterator is the new node (the empty iterator
   otherwise) *)
Theorem C05_insert_map : forall ni nk nv t, bst t ->
  let '(t', ok, it) := insert ni nk nv t in
  elems t' = s_insert ni nk nv (elems t) /\
  ok = negb (s_mem nk (elems t)) /\
  it = (if s_mem nk (elems t) then 0 else ni).
Proof. exact insert_map. Qed.
Print Assumptions C05_insert_map.

(* DeleteWithKey / DeleteWithIterator (doDelete): exactly the entry with that key disappears; all
   other entries keep their place AND their node id; the "unspecified" answer of the model does not
   occur on red-black trees *)
Theorem C05_delete_map : forall x t, bst t ->
  match delete_key x t with
  | DDone t' => s_mem x (elems t) = true /\ elems t' = s_delete x (elems t)
  | DNotFound => s_mem x (elems t) = false /\ s_delete x (elems t) = elems t
  | DUnspec => ~ is_redblack t
  end.
Proof. exact delete_map. Qed.
Print Assumptions C05_delete_map.

(* membership, Get, FindGE, FindLE, Min, Max, Len, the item behind an iterator, Next, Prev, and the
   complete forward and backward walks answer like the sorted list *)
Theorem C05_lookup_map : forall t, bst t -> NoDup (ids t) -> ids_ok t ->
  (forall x, mem x t = s_mem x (elems t)) /\
  (forall x, get x t = s_get x (elems t)) /\
  (forall x, it_find_ge x t = pos_fwd (s_find_ge x (elems t))) /\
  (forall x, it_find_le x t = Some (pos_bwd (s_find_le x (elems t)))) /\
  min_id t = pos_fwd (s_min (elems t)) /\
  it_max t = pos_bwd (s_max (elems t)) /\
  tsize t = Z.of_nat (length (elems t)) /\
  (forall m, item_of m t = s_item m (elems t)) /\
  (forall m, next_in m t limit = option_map pos_fwd (s_next m (elems t))) /\
  (forall m, prev_in m t neg_limit = option_map pos_bwd (s_prev m (elems t))) /\
  walk_fwd (S (length (elems t))) (min_id t) t = eids (elems t) /\
  walk_bwd (S (length (elems t))) (it_max t) t = rev (eids (elems t)).
Proof. exact lookup_map. Qed.
Print Assumptions C05_lookup_map.

(* ---------- red-black invariants ---------- *)

(* what is_redblack means: black root, no red node with a red child, the same number of black nodes
   on every path (bh computes it, None when two paths differ) *)
Theorem C05_rb_meaning : forall t,
  is_redblack t <-> is_red t = false /\ no_red_red t = true /\ exists n, bh t = Some n.
Proof. exact redblack_iff. Qed.
Print Assumptions C05_rb_meaning.

Theorem C05_insert_rb : forall ni nk nv t, is_redblack t /\ bst t ->
  is_redblack (fst (fst (insert ni nk nv t))) /\ bst (fst (fst (insert ni nk nv t))).
Proof. exact insert_rb. Qed.
Print Assumptions C05_insert_rb.

Theorem C05_delete_rb : forall x t t', is_redblack t /\ bst t -> delete_key x t = DDone t' ->
  is_redblack t' /\ bst t'.
Proof. exact delete_rb. Qed.
Print Assumptions C05_delete_rb.

(* depth: no path has more than 2*log2(size+1) nodes *)
Theorem C05_height : forall t, is_redblack t -> Z.of_nat (height t) <= 2 * Z.log2 (tsize t + 1).
Proof. exact redblack_height_log. Qed.
Print Assumptions C05_height.

(* the 2^bh form: n black nodes on every path, at most 2n nodes on a path, at least 2^n - 1 nodes *)
Theorem C05_height_pow : forall t, is_redblack t ->
  exists n, (height t <= 2 * n)%nat /\ 2 ^ Z.of_nat n <= tsize t + 1.
Proof. exact redblack_height_pow. Qed.
Print Assumptions C05_height_pow.

(* ---------- iterators ---------- *)

(* an iterator is a node id.  A node other than the inserted one shows the same key and value after
   an insertion; a node other than the deleted one shows the same key and value after a deletion -
   including the case where the deleted node has two children and its predecessor is moved into
   its place (swapNodes): the predecessor keeps its id *)
Theorem C05_iterators_stable : forall t, bst t ->
  (forall ni nk nv m, m <> ni -> item_of m (fst (fst (insert ni nk nv t))) = item_of m t) /\
  (forall x t' m, delete_key x t = DDone t' -> (forall v, item_of m t <> Some (x, v)) ->
                  item_of m t' = item_of m t).
Proof. exact iterators_stable. Qed.
Print Assumptions C05_iterators_stable.

(* the same across ANY operation on ANY tree of the allocator, in every state satisfying the
   invariant: the element (tree tj, node m) keeps its key and value unless this operation removes it
   (DeleteWithKey of its key, DeleteWithIterator at it, Erase of its tree) *)
Theorem C05_iterators_stable_step : forall s o tj m k v, Inv s -> defined s o ->
  item_of m (get_tree s tj) = Some (k, v) -> ~ removes o tj m k ->
  item_of m (get_tree (fst (step s o)) tj) = Some (k, v).
Proof. exact step_stable. Qed.
Print Assumptions C05_iterators_stable_step.

(* ---------- arena ---------- *)

(* the parent links of the arena image: children name their parent, every node but the root hangs
   below a node that names it as a child, only the root has parent 0; one cell per node id *)
Theorem C05_arena_links : forall t, ids_nonzero t ->
  links_consistent (root_id t) (cells 0 t) /\ map fst (cells 0 t) = ids t.
Proof. exact arena_links. Qed.
Print Assumptions C05_arena_links.

(* soundness of the oracle that judges a snapshot of the REAL arena (used by the replay driver):
   acceptance means the snapshot is the arena image of a red-black search tree of logarithmic depth
   whose entries, node ids included, are the specification's *)
Theorem C05_oracle_sound : forall a h spec,
  links_okb a h = true -> snapshot_rb_okb a h = true -> snapshot_map_okb a h spec = true ->
  exists t,
    (forall i c, In (i, c) (cells 0 t) -> a i = c) /\ h = header_of t /\
    is_redblack t /\ bst t /\ elems t = spec /\
    Z.of_nat (height t) <= 2 * Z.log2 (tsize t + 1).
Proof. exact snapshot_oracle_sound. Qed.
Print Assumptions C05_oracle_sound.

(* ---------- every reachable state of every operation sequence, several trees on one allocator ---------- *)

(* one step: the invariant is preserved and the step is a step of the specification with the same
   result.  "defined" excludes only what the Go API leaves undefined or cannot produce: iterators
   that do not point into the tree, node indexes malloc cannot return, the 2^32 limit. *)
Theorem C05_step : forall s o, Inv s -> defined s o ->
  Inv (fst (step s o)) /\ spec_step (abs s) o = (abs (fst (step s o)), snd (step s o)).
Proof. exact step_refines. Qed.
Print Assumptions C05_step.

(* "defined" is implied by the API-level preconditions: in a state satisfying the invariant the
   model is "unspecified" only for an iterator that points at no element of the tree (the Go code
   would touch a freed or foreign cell), a tree index out of range, a non-uint32 key/value, a node
   index malloc cannot hand out, or CloneDeep onto a non-empty slot; lookups, DeleteWithKey and
   operations on Limit / NegativeLimit are always defined *)
Theorem C05_defined : forall s o, Inv s ->
  match o with
  | OInsert ti k v id =>
      (ti < length (trees s))%nat /\ is_u32 k = true /\ is_u32 v = true /\
      (mem k (get_tree s ti) = true \/ exists sz', malloc (live s) (asize s) id = MOk sz')
  | ODeleteIt ti it | ONext ti it | OPrev ti it =>
      it = limit \/ it = neg_limit \/ item_of it (get_tree s ti) <> None
  | OClone src dst new =>
      (src < length (trees s))%nat /\ (dst < length (trees s))%nat /\ get_tree s dst = E /\
      Z.of_nat (length new) = tsize (get_tree s src) /\
      exists sz', malloc_seq (live s) (asize s) new = MOk sz'
  | _ => True
  end -> defined s o.
Proof. exact defined_if. Qed.
Print Assumptions C05_defined.

(* operations on one tree leave every other tree of the allocator untouched *)
Theorem C05_frame : forall s o tj,
  (match o with
   | OInsert ti _ _ _ | ODeleteKey ti _ | ODeleteIt ti _ | OErase ti => ti <> tj
   | OClone _ dst _ => dst <> tj
   | _ => True
   end) -> get_tree (fst (step s o)) tj = get_tree s tj.
Proof. exact step_frame. Qed.
Print Assumptions C05_frame.

(* any sequence from n empty trees, any choice of node indexes the allocator can make: the run is a
   run of n sorted maps with the same results, and in the state reached every tree is a red-black
   search tree of logarithmic depth with consistent links whose node ids are distinct, valid, and
   disjoint from the ids of every other tree *)
Theorem C05_sequences : forall n ops, all_defined (init n) ops ->
  let s := fst (run (init n) ops) in
  Inv s /\
  spec_run (repeat [] n) ops = (abs s, snd (run (init n) ops)) /\
  forall ti, let t := get_tree s ti in
    is_redblack t /\ bst t /\ NoDup (ids t) /\ ids_ok t /\
    Z.of_nat (height t) <= 2 * Z.log2 (tsize t + 1) /\
    links_consistent (root_id t) (cells 0 t) /\
    (forall tj i, tj <> ti -> In i (ids t) -> ~ In i (ids (get_tree s tj))).
Proof. exact sequences. Qed.
Print Assumptions C05_sequences.

(* ---------- non-vacuity ---------- *)

(* three trees on one allocator: a root with two children is deleted (predecessor swap), a node is
   deleted through an iterator, gaps are reused, a tree is cloned and one erased, both assertions fire *)
Definition ex_ops : list op :=
  [OInsert 0 50 500 1; OInsert 0 30 300 2; OInsert 0 70 700 3; OInsert 0 20 200 4; OInsert 0 40 400 5;
   OInsert 0 60 600 6; OInsert 0 80 800 7; OInsert 1 5 55 8; OInsert 0 40 1 9;
   ODeleteKey 0 50; ODeleteKey 0 51;
   OFindGE 0 45; OFindLE 0 45; OGet 0 60; OGet 0 61; OMin 0; OMax 0; ONext 0 5; OPrev 0 5; OLen 0;
   ODeleteIt 0 2; OInsert 0 55 1 1; OClone 0 2 [2; 9; 10; 11; 12; 13];
   OErase 1; ONext 0 0; OPrev 2 0; OMax 1; ODeleteIt 2 4294967295].

Example C05_ex_defined : all_defined (init 3) ex_ops.
Proof. vm_compute. repeat split. Qed.

Example C05_ex_results : snd (run (init 3) ex_ops) =
  [RIns true 1; RIns true 2; RIns true 3; RIns true 4; RIns true 5; RIns true 6; RIns true 7; RIns true 8;
   RIns false 0; RBool true; RBool false; RIt 6; RIt 5; RVal (Some 600); RVal None; RIt 4; RIt 7; RIt 6; RIt 2;
   RLen 6; RUnit; RIns true 1; RUnit; RUnit; RPanic; RIt 13; RIt 4294967295; RPanic].
Proof. vm_compute. reflexivity. Qed.

Example C05_ex_state : abs (fst (run (init 3) ex_ops)) =
  [[(4, 20, 200); (5, 40, 400); (1, 55, 1); (6, 60, 600); (3, 70, 700); (7, 80, 800)]; [];
   [(2, 20, 200); (9, 40, 400); (10, 55, 1); (11, 60, 600); (12, 70, 700); (13, 80, 800)]].
Proof. vm_compute. reflexivity. Qed.

(* the predecessor swap: node 5 (key 40) takes the place of the deleted root and keeps its id *)
Example C05_ex_swap :
  let s := fst (run (init 3) (firstn 10 ex_ops)) in
  root_id (get_tree s 0) = 5 /\ item_of 5 (get_tree s 0) = Some (40, 400) /\
  rb_okb (get_tree s 0) = true /\ height (get_tree s 0) = 3%nat.
Proof. vm_compute. repeat split. Qed.

(* the hypotheses of the single-tree theorems hold of a non-trivial tree, and the oracle accepts its
   arena image *)
Example C05_ex_tree :
  let t := get_tree (fst (run (init 3) ex_ops)) 0 in
  rb_okb t = true /\ tsize t = 6 /\
  (let a := fun i => match find (fun x => fst x =? i) (cells 0 t) with Some (_, c) => c | None => mkCell 0 0 0 0 0 false end in
   links_okb a (header_of t) = true /\ snapshot_rb_okb a (header_of t) = true /\
   snapshot_map_okb a (header_of t) (elems t) = true).
Proof. vm_compute. repeat split. Qed.

(* the oracle rejects a tree with a red-red violation and an unbalanced one *)
Example C05_ex_reject :
  rb_okb (T Black (T Red (T Red E 3 1 0 E) 2 2 0 E) 1 3 0 E) = false /\
  rb_okb (T Black (T Black E 2 2 0 E) 1 3 0 E) = false /\
  rb_okb (T Black (T Red E 2 5 0 E) 1 3 0 E) = false.
Proof. vm_compute. repeat split. Qed.
