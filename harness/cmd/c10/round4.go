// Round 4 (content of values, two features at once).
//
//   - Every earlier stream used the registry as the init() functions of hercules left it: the order of the
//     registrations, the names of the features and the bytes of the names were constants of the check.  The
//     kinds below give every case ITS OWN registry ("world"): the maps of hercules.Registry are emptied and
//     filled again through the public Registry.Register, in an order the generator chooses, with synthetic
//     item types (their Name / Provides / Requires / Features are read from a table the generator writes)
//     next to, before, or instead of the built-in ones.  DeployItem / Initialize are judged by the same model
//     (extracted deploy / closure_names / resolve): the registry table read back through Summon travels with
//     the case.
//   - Strings travel through the trace %-escaped (esc / unesc; the replay driver decodes them before it ranks
//     them), so names, entity keys and feature names may hold any bytes: invalid UTF-8, U+FFFD, BOM, NUL, CR/LF,
//     tabs, ASCII / Unicode blanks, case variants, the empty string.
package main

import (
	"fmt"
	"reflect"
	"sort"
	"strings"
	"unsafe"

	git "gopkg.in/src-d/go-git.v4"
	hercules "gopkg.in/src-d/hercules.v10"
	. "verifharness/lib"
)

// ---- string escaping of the trace format (atoms cannot hold blanks, parentheses or arbitrary bytes) ----

func esc(s string) string {
	if s == "" {
		return "%_"
	}
	clean := true
	for i := 0; i < len(s); i++ {
		b := s[i]
		if b <= 0x20 || b >= 0x7f || b == '(' || b == ')' || b == '%' {
			clean = false
			break
		}
	}
	if clean {
		return s
	}
	var sb strings.Builder
	for i := 0; i < len(s); i++ {
		b := s[i]
		if b <= 0x20 || b >= 0x7f || b == '(' || b == ')' || b == '%' {
			fmt.Fprintf(&sb, "%%%02X", b)
		} else {
			sb.WriteByte(b)
		}
	}
	return sb.String()
}

func unesc(s string) string {
	if !strings.Contains(s, "%") {
		return s
	}
	var sb strings.Builder
	for i := 0; i < len(s); i++ {
		if s[i] != '%' {
			sb.WriteByte(s[i])
			continue
		}
		if i+1 < len(s) && s[i+1] == '_' {
			i++
			continue
		}
		if i+2 < len(s) {
			var b int
			fmt.Sscanf(s[i+1:i+3], "%02X", &b)
			sb.WriteByte(byte(b))
			i += 2
		}
	}
	return sb.String()
}

// ---- registered synthetic item types ----
// Registry.Summon creates zero values through reflection, so what an item says about itself must follow from
// its TYPE: 12 + 12 generic instantiations, each reads its slot of a table.

type slot interface{ n() int }
type s0 struct{}
type s1 struct{}
type s2 struct{}
type s3 struct{}
type s4 struct{}
type s5 struct{}
type s6 struct{}
type s7 struct{}
type s8 struct{}
type s9 struct{}
type s10 struct{}
type s11 struct{}

func (s0) n() int  { return 0 }
func (s1) n() int  { return 1 }
func (s2) n() int  { return 2 }
func (s3) n() int  { return 3 }
func (s4) n() int  { return 4 }
func (s5) n() int  { return 5 }
func (s6) n() int  { return 6 }
func (s7) n() int  { return 7 }
func (s8) n() int  { return 8 }
func (s9) n() int  { return 9 }
func (s10) n() int { return 10 }
func (s11) n() int { return 11 }

const nSlots = 12

var plainTab, featTab [nSlots]spec

type wStub struct{ pad int } // not zero-sized: distinct instances must be distinct pointers

func (*wStub) ListConfigurationOptions() []hercules.ConfigurationOption { return nil }
func (*wStub) Configure(map[string]interface{}) error                   { return nil }
func (*wStub) Initialize(*git.Repository) error                         { return nil }
func (*wStub) Consume(map[string]interface{}) (map[string]interface{}, error) {
	return nil, nil
}
func (*wStub) Fork(n int) []hercules.PipelineItem { return nil }
func (*wStub) Merge([]hercules.PipelineItem)      {}

type wPlain[K slot] struct{ wStub }

func (*wPlain[K]) sp() *spec            { var k K; return &plainTab[k.n()] }
func (w *wPlain[K]) Name() string       { return w.sp().name }
func (w *wPlain[K]) Provides() []string { return w.sp().prov }
func (w *wPlain[K]) Requires() []string { return w.sp().req }

type wFeat[K slot] struct{ wStub }

func (*wFeat[K]) sp() *spec            { var k K; return &featTab[k.n()] }
func (w *wFeat[K]) Name() string       { return w.sp().name }
func (w *wFeat[K]) Provides() []string { return w.sp().prov }
func (w *wFeat[K]) Requires() []string { return w.sp().req }
func (w *wFeat[K]) Features() []string { return w.sp().feats }

var plainEx = []hercules.PipelineItem{&wPlain[s0]{}, &wPlain[s1]{}, &wPlain[s2]{}, &wPlain[s3]{}, &wPlain[s4]{}, &wPlain[s5]{},
	&wPlain[s6]{}, &wPlain[s7]{}, &wPlain[s8]{}, &wPlain[s9]{}, &wPlain[s10]{}, &wPlain[s11]{}}
var featEx = []hercules.PipelineItem{&wFeat[s0]{}, &wFeat[s1]{}, &wFeat[s2]{}, &wFeat[s3]{}, &wFeat[s4]{}, &wFeat[s5]{},
	&wFeat[s6]{}, &wFeat[s7]{}, &wFeat[s8]{}, &wFeat[s9]{}, &wFeat[s10]{}, &wFeat[s11]{}}

// ---- the maps of hercules.Registry (unexported; no hook in the repository: reached through reflect + unsafe) ----

func regField(name string) reflect.Value {
	v := reflect.ValueOf(hercules.Registry).Elem().FieldByName(name)
	if !v.IsValid() {
		panic("PipelineItemRegistry has no field " + name)
	}
	return reflect.NewAt(v.Type(), unsafe.Pointer(v.UnsafeAddr())).Elem()
}

var regFields = []string{"provided", "registered", "flags"}
var origMaps []reflect.Value
var origTypes map[string]reflect.Type
var origNames []string

func saveRegistry() {
	for _, f := range regFields {
		v := reflect.New(regField(f).Type()).Elem()
		v.Set(regField(f))
		origMaps = append(origMaps, v)
	}
	origTypes = regField("registered").Interface().(map[string]reflect.Type)
}

func restoreRegistry() {
	for i, f := range regFields {
		regField(f).Set(origMaps[i])
	}
}

// wentry: one registration of a world
type wentry struct {
	real bool // a built-in item (by name), else a synthetic type
	sp   spec
}

func worldSx(world []wentry) Sx {
	var l []Sx
	for _, w := range world {
		if w.real {
			l = append(l, T("w", A("real"), A(esc(w.sp.name))))
		} else {
			l = append(l, T("w", A("synth"), A(esc(w.sp.name)), T("p", atoms(w.sp.prov)...), T("r", atoms(w.sp.req)...), T("f", atoms(w.sp.feats)...), B(w.sp.featd)))
		}
	}
	return T("world", l...)
}

func parseWorld(f Sx) []wentry {
	var res []wentry
	for _, d := range f.Args() {
		a := d.Args()
		if a[0].Atom == "real" {
			res = append(res, wentry{real: true, sp: spec{name: unesc(a[1].Atom)}})
		} else {
			res = append(res, wentry{sp: spec{name: unesc(a[1].Atom), prov: parseStrings(a[2]), req: parseStrings(a[3]),
				feats: parseStrings(a[4]), featd: a[5].Atom == "1"}})
		}
	}
	return res
}

// installWorld empties the registry and registers the entries in their order through Registry.Register.
func installWorld(world []wentry) {
	for _, f := range regFields {
		regField(f).Set(reflect.MakeMap(regField(f).Type()))
	}
	np, nf := 0, 0
	for _, w := range world {
		if w.real {
			t, ok := origTypes[w.sp.name]
			if !ok {
				panic("no built-in item " + w.sp.name)
			}
			hercules.Registry.Register(reflect.New(t.Elem()).Interface().(hercules.PipelineItem))
			continue
		}
		if w.sp.featd {
			featTab[nf] = w.sp
			hercules.Registry.Register(featEx[nf])
			nf++
		} else {
			plainTab[np] = w.sp
			hercules.Registry.Register(plainEx[np])
			np++
		}
	}
}

// curWorld: the world the sequence kinds run in (nil: the built-in registry); it travels with the case
var curWorld []wentry

func worldField() []Sx {
	if curWorld == nil {
		return nil
	}
	return []Sx{worldSx(curWorld)}
}

// emitSeqWorld: a sequence of API calls (kinds of rounds 2 and 3) in its own registry.
func emitSeqWorld(c *Config, kind string, world []wentry, ops []op) {
	installWorld(world)
	curWorld = world
	defer func() { curWorld = nil; restoreRegistry() }()
	emitSeq(c, kind, readRegistry(), ops)
}

// emitWorld: a deployment case in its own registry.
func emitWorld(c *Config, kind string, world []wentry, feats []string, roots []spec) {
	installWorld(world)
	defer restoreRegistry()
	reg := readRegistry()
	obs, nitems, nreq := observeDeploy(feats, roots)
	// the known findings of the chaining block are matched on kinds that end in -chained
	var deployed []spec
	Catch(func() {
		p := hercules.NewPipeline(repo)
		for _, f := range feats {
			p.SetFeature(f)
		}
		for i, r := range roots {
			p.DeployItem(r.instantiate(2000 + i))
		}
		for _, it := range p.VerifItems() {
			deployed = append(deployed, specOf(it))
		}
	})
	if chained(deployed) {
		kind += "-chained"
	}
	ds := make([]Sx, len(roots))
	for i, r := range roots {
		ds[i] = r.deploySx()
	}
	c.Emit(T("kind", A(kind)), T("nt", B(nitems >= 2 && nreq > 0)), T("feats", atoms(feats)...), worldSx(world), reg.sx(),
		T("deploys", ds...), T("obs", obs...))
}

// ---- pools of strings: every group holds values that some normalisation (case folding, trimming, ToValidUTF8,
// BOM stripping, NFC) would make EQUAL; a case takes several members of one group ----

func variants(b string) []string {
	up, lo := strings.ToUpper(b), strings.ToLower(b)
	title := strings.ToUpper(b[:1]) + lo[1:]
	mid := len(b) / 2
	return []string{b, up, lo, title, b + " ", " " + b, b + "\t", b + "\n", b + "\r\n", b + "\r", b + "\x00", "\x00" + b, "\ufeff" + b,
		b + "\xff", b + "\ufffd", b + "\xc3", b[:mid] + "\xff" + b[mid:], b[:mid] + "\ufffd" + b[mid:], b[:mid] + " " + b[mid:], b[:mid] + "\u00a0" + b[mid:],
		b + "\u00a0", b + "\u3000", b + "\u2028", b + "\xc0\xaf", b + "\xed\xa0\x80", b + b, b[:len(b)-1], b + "2", "x" + b, b + "\u00e9", b + "e\u0301"}
}

var loneStrings = []string{"", " ", "\xff", "\ufffd", "\xc3", "\ufeff", "\x00", "\t", "\u00a0", "\u0130", "i", "I", "\u0131", "\u00df", "SS", "ss", "%", "%41", "A", "(", ")",
	"9", "10", "11", "99", "100", "101", "999", "1000", "1001"}

func poolFor(c *Config, bases []string, n int) []string {
	// n distinct strings: most of them variants of ONE base, the rest lone values / variants of another base
	b := bases[c.Rng.Intn(len(bases))]
	vs := variants(b)
	seen := map[string]bool{}
	var res []string
	add := func(s string) {
		if !seen[s] {
			seen[s] = true
			res = append(res, s)
		}
	}
	if c.Rng.Intn(3) > 0 {
		add(b)
	}
	for tries := 0; len(res) < n && tries < 100; tries++ {
		switch c.Rng.Intn(6) {
		case 0:
			add(loneStrings[c.Rng.Intn(len(loneStrings))])
		case 1:
			o := variants(bases[c.Rng.Intn(len(bases))])
			add(o[c.Rng.Intn(len(o))])
		default:
			add(vs[c.Rng.Intn(len(vs))])
		}
	}
	return res
}

var featBases = []string{"uast", "S8-AST", "RefineDiffs", "power", "UASTv2", "other"}
var nameBases = []string{"Diff", "TreeDiff", "Refiner", "Cache", "iD"}
var entBases = []string{"e", "file_diff", "changes", "Blob", "id"}

// names of items must not look like generated node names ("X_1", known finding C10-K5) or entity nodes ("[e]")
func nameOK(s string) bool {
	if s == "" || strings.HasPrefix(s, "[") {
		return false
	}
	if i := strings.LastIndex(s, "_"); i >= 0 {
		rest := s[i+1:]
		digits := rest != ""
		for _, r := range rest {
			digits = digits && r >= '0' && r <= '9'
		}
		return !digits
	}
	return true
}

func subset(c *Config, l []string, max int) []string {
	return pick(c, l, c.Rng.Intn(max+1))
}

// regOrder: EXHAUSTIVE small worlds.  One entity with 2 or 3 providers, each plain / gated by feature f / gated by
// feature g, in this order of registration (all gate patterns = all relative orders of gated and plain providers),
// x every subset of {f, g} switched on x the requirement sits in the deployed item / one level below it / the
// deployed item declares the features itself.
func regOrder(c *Config) {
	gate := func(k int) (bool, []string) {
		switch k {
		case 1:
			return true, []string{"f"}
		case 2:
			return true, []string{"g"}
		case 3:
			return true, []string{"f", "g"}
		case 4:
			return true, nil // implements FeaturedPipelineItem, no features
		}
		return false, nil
	}
	names := []string{"Pa", "Pb", "Pc"}
	for np := 2; np <= 3; np++ {
		ngate := 5
		if np == 3 {
			ngate = 3
		}
		total := 1
		for i := 0; i < np; i++ {
			total *= ngate
		}
		for code := 0; code < total; code++ {
			for refine := 0; refine < 2; refine++ { // 1: the FIRST registered provider also requires the entity (a refiner)
				var world []wentry
				x := code
				for i := 0; i < np; i++ {
					fd, fs := gate(x % ngate)
					x /= ngate
					sp := spec{name: names[i], prov: []string{"e"}, featd: fd, feats: fs}
					if refine == 1 && i == 0 {
						// the refiner is registered FIRST
						sp.req = []string{"e"}
					}
					world = append(world, wentry{sp: sp})
				}
				world = append(world, wentry{sp: spec{name: "Mid", prov: []string{"d"}, req: []string{"e"}}})
				world = append(world, wentry{sp: spec{name: "Top", req: []string{"e"}}})
				world = append(world, wentry{sp: spec{name: "Deep", req: []string{"d"}}})
				for fm := 0; fm < 4; fm++ {
					var feats []string
					if fm&1 != 0 {
						feats = append(feats, "f")
					}
					if fm&2 != 0 {
						feats = append(feats, "g")
					}
					emitWorld(c, "regorder", world, feats, []spec{{name: "Top", real: true}})
					emitWorld(c, "regorder", world, feats, []spec{{name: "Deep", real: true}})
					if refine == 0 {
						// the deployed (unregistered) item declares the features itself, nothing is switched on by the user
						emitWorld(c, "regorder", world, nil, []spec{{name: "Leaf", req: []string{"e"}, featd: true, feats: feats}})
					}
				}
			}
		}
	}
}

// featNames: EXHAUSTIVE pairs (feature the provider is gated by, feature that is switched on) over the variants of a
// base name: the provider is deployed iff the two are equal byte by byte.  A plain provider of the same entity is
// registered after the gated one; a second gated provider carries the OTHER spelling.
func featNames(c *Config) {
	bases := []string{"uast"}
	if c.Thorough() {
		bases = featBases
	}
	for bi, b := range bases {
		vs := append(variants(b), "", "\xff", "\ufffd", " ")
		if bi == 0 {
			vs = append(vs, "\u0130", "i", "\u0131", "I", "\u00df", "SS")
		}
		// distinct
		seen := map[string]bool{}
		var l []string
		for _, v := range vs {
			if !seen[v] {
				seen[v] = true
				l = append(l, v)
			}
		}
		for i, d := range l {
			for j, s := range l {
				if !c.Thorough() && i != j && i > 4 && j > 4 && (i+j)%3 != 0 {
					continue // quick: the whole diagonal, the rows / columns of the first five spellings, a third of the rest
				}
				world := []wentry{
					{sp: spec{name: "Gated", prov: []string{"ast"}, featd: true, feats: []string{d}}},
					{sp: spec{name: "Other", prov: []string{"ast"}, featd: true, feats: []string{s}}},
					{sp: spec{name: "Plain", prov: []string{"ast"}}},
					{sp: spec{name: "Report", req: []string{"ast"}}},
				}
				switch (i + j) % 3 {
				case 0:
					emitWorld(c, "featnames", world, []string{s}, []spec{{name: "Report", real: true}})
				case 1:
					emitWorld(c, "featnames", world[:1], []string{s}, []spec{{name: "Metrics", req: []string{"ast"}}})
				case 2:
					// the deployed item declares the feature (the Shotness pattern)
					emitWorld(c, "featnames", append([]wentry{}, world[0], world[2]), nil, []spec{{name: "Metrics", req: []string{"ast"}, featd: true, feats: []string{s}}})
				}
			}
		}
	}
}

// regWorld: random synthetic worlds.  Names, entity keys and features are drawn from pools of look-alike strings;
// 2..9 registered items (half of them feature-gated), entities with 1..4 providers in random registration order,
// requirements on entities and on item names, random features switched on, 1..3 deployments.
func genWorld(c *Config) (world []wentry, names, ents, feats []string) {
	plain := c.Rng.Intn(4) == 0 // a quarter of the worlds with plain ASCII names (the shape alone)
	if plain {
		names, ents, feats = pick(c, itemNames, 9), pick(c, entNames, 1+c.Rng.Intn(4)), []string{"f", "g", "F"}
	} else {
		for _, s := range poolFor(c, nameBases, 14) {
			if nameOK(s) && len(names) < 9 {
				names = append(names, s)
			}
		}
		ents = poolFor(c, entBases, 1+c.Rng.Intn(4))
		feats = poolFor(c, featBases, 2+c.Rng.Intn(3))
	}
	k := 2 + c.Rng.Intn(len(names)-1)
	if k > len(names) {
		k = len(names)
	}
	names = names[:k]
	for i := 0; i < k; i++ {
		sp := spec{name: names[i], prov: subset(c, ents, 2), req: subset(c, ents, 2)}
		if c.Rng.Intn(8) == 0 {
			sp.req = append(sp.req, names[c.Rng.Intn(k)]) // a requirement on an item NAME
		}
		if c.Rng.Intn(2) == 0 {
			sp.featd = true
			sp.feats = subset(c, feats, 2)
		}
		world = append(world, wentry{sp: sp})
	}
	return
}

func synthRoot(c *Config, name string, ents, feats []string) spec {
	s := spec{name: name, req: subset(c, ents, 2)}
	if len(s.req) == 0 {
		s.req = []string{ents[0]}
	}
	if c.Rng.Intn(2) == 0 {
		s.featd = true
		s.feats = subset(c, feats, 2)
	}
	return s
}

func regWorld(c *Config) {
	for n := c.Count(700, 7000); n > 0; n-- {
		world, names, ents, feats := genWorld(c)
		var roots []spec
		for r := 1 + c.Rng.Intn(3); r > 0; r-- {
			if c.Rng.Intn(2) == 0 {
				roots = append(roots, spec{name: names[c.Rng.Intn(len(names))], real: true})
				continue
			}
			roots = append(roots, synthRoot(c, "Synth"+fmt.Sprint(len(roots)), ents, feats))
		}
		emitWorld(c, "regworld", world, subset(c, feats, 3), roots)
	}
}

// seqWorld (R3 x R4): sequences of API calls in a random world: SetFeature of look-alike spellings BETWEEN the deployments,
// AddItem / DeployItem of registered items and unregistered roots, RemoveItem, re-deployment, restore, Initialize in the middle
// (every call compared with the model, every DeployItem judged by the closure oracle, every Initialize like a final one).
func seqWorld(c *Config) {
	for n := c.Count(500, 5000); n > 0; n-- {
		world, names, ents, feats := genWorld(c)
		var ops []op
		which := func() string { return []string{"first", "last"}[c.Rng.Intn(2)] }
		withInit := c.Rng.Intn(2) == 0
		for k, m := 0, 2+c.Rng.Intn(8); k < m; k++ {
			name := names[c.Rng.Intn(len(names))]
			switch x := c.Rng.Intn(20); {
			case x < 4:
				ops = append(ops, op{kind: "feat", name: feats[c.Rng.Intn(len(feats))]})
			case x < 11:
				kind := "deploy"
				if c.Rng.Intn(3) == 0 {
					kind = "add"
				}
				if c.Rng.Intn(3) == 0 {
					ops = append(ops, op{kind: kind, sp: synthRoot(c, "Synth"+fmt.Sprint(k%3), ents, feats)})
				} else {
					ops = append(ops, op{kind: kind, sp: spec{name: name, real: true}})
				}
			case x < 14:
				ops = append(ops, op{kind: "rm", name: name, which: which()})
			case x < 16:
				ops = append(ops, op{kind: "redeploy", name: name, which: which()})
			case x < 17:
				ops = append(ops, op{kind: "restore", name: name, which: which()})
			default:
				if withInit {
					ops = append(ops, op{kind: "init", name: "-", which: fmt.Sprint(c.Rng.Intn(4))})
				} else {
					ops = append(ops, op{kind: "feat", name: feats[c.Rng.Intn(len(feats))]})
				}
			}
		}
		if withInit {
			ops = append(ops, op{kind: "init", name: "-", which: "0"})
		}
		emitSeqWorld(c, "seqworld", world, ops)
	}
}

// regWorldReal: the built-in items registered in a RANDOM order (the order of the init() functions is an accident of
// file names and imports), with 0..3 synthetic items among them - gated or plain alternative providers / refiners of
// built-in entities, features spelled like "uast" - and leaf analyses deployed with spellings of uast switched on.
func regWorldReal(c *Config, builtin []string, leafNames []string, keys []string) {
	uasts := []string{"uast", "UAST", "Uast", "uast ", "uast\xff", "uast\ufffd", "\ufeffuast", "uast\x00", "extra"}
	for n := c.Count(300, 3000); n > 0; n-- {
		var world []wentry
		for _, i := range c.Rng.Perm(len(builtin)) {
			world = append(world, wentry{real: true, sp: spec{name: builtin[i]}})
		}
		extra := c.Rng.Intn(4)
		for i := 0; i < extra; i++ {
			k := keys[c.Rng.Intn(len(keys))]
			sp := spec{name: fmt.Sprintf("Extra%c", 'A'+i), prov: []string{k}}
			switch c.Rng.Intn(3) {
			case 0:
				sp.req = []string{k} // a refiner
			case 1:
				sp.req = []string{keys[c.Rng.Intn(len(keys))]}
			}
			if c.Rng.Intn(3) > 0 {
				sp.featd = true
				sp.feats = []string{uasts[c.Rng.Intn(len(uasts))]}
			}
			pos := c.Rng.Intn(len(world) + 1)
			world = append(world[:pos], append([]wentry{{sp: sp}}, world[pos:]...)...)
		}
		var roots []spec
		for _, l := range pick(c, leafNames, 1+c.Rng.Intn(3)) {
			roots = append(roots, spec{name: l, real: true})
		}
		if c.Rng.Intn(4) == 0 {
			roots = append(roots, spec{name: "Synth", req: []string{keys[c.Rng.Intn(len(keys))]}, featd: true, feats: subset(c, uasts, 1)})
		}
		kind := "regworldreal"
		if extra == 0 {
			kind = "regorderreal" // the built-in items alone, only the order of registration varies
		}
		emitWorld(c, kind, world, subset(c, uasts, 2), roots)
	}
}

// byteNames: the synthetic item sets of the earlier rounds (layered, second provider, arbitrary, same-named) with the
// names and the entity keys replaced by look-alike strings (AddItem + Initialize: resolve formats them into node
// names "[key]" and "name_k", sorts by name and keys its maps by them).
func byteNames(c *Config) {
	for n := c.Count(600, 6000); n > 0; n-- {
		var items []spec
		switch c.Rng.Intn(4) {
		case 0:
			items = genLayered(c, 2+c.Rng.Intn(9))
		case 1:
			items = addSecondProvider(c, genLayered(c, 2+c.Rng.Intn(8)))
		case 2:
			items = genRandom(c, 2+c.Rng.Intn(8), 2+c.Rng.Intn(5), 1+c.Rng.Intn(2))
		case 3:
			items = genLayered(c, 3+c.Rng.Intn(8))
			a, b := c.Rng.Intn(len(items)), c.Rng.Intn(len(items))
			items[a].name = items[b].name
		}
		var names []string
		for _, s := range poolFor(c, nameBases, 30) {
			if nameOK(s) {
				names = append(names, s)
			}
		}
		ents := poolFor(c, entBases, 12)
		nm, em := map[string]string{}, map[string]string{}
		ren := func(m map[string]string, pool []string, s string) string {
			if r, ok := m[s]; ok {
				return r
			}
			if len(m) >= len(pool) {
				return s
			}
			m[s] = pool[len(m)]
			return m[s]
		}
		for i := range items {
			items[i].name = ren(nm, names, items[i].name)
			p, r := make([]string, len(items[i].prov)), make([]string, len(items[i].req))
			for j, e := range items[i].prov {
				p[j] = ren(em, ents, e)
			}
			for j, e := range items[i].req {
				r[j] = ren(em, ents, e)
			}
			items[i].prov, items[i].req = p, r
		}
		emitSynth(c, "bytenames", shuffle(c, items))
	}
}

// widths: k same-named items around the decimal widths (graph nodes N_9, N_10, N_11, ... N_99, N_100, N_101; thorough
// N_999 ..), one requirement chain through them, generation and shuffled order.
func widths(c *Config) {
	sizes := []int{9, 10, 11, 99, 100, 101}
	if c.Thorough() {
		sizes = append(sizes, 999, 1000, 1001)
	}
	for _, k := range sizes {
		var items []spec
		for i := 1; i <= k; i++ {
			s := spec{name: "N", prov: []string{fmt.Sprintf("e%d", i)}}
			if i > 1 {
				s.req = []string{fmt.Sprintf("e%d", i-1)}
			}
			items = append(items, s)
		}
		items = append(items, spec{name: "Report", req: []string{fmt.Sprintf("e%d", k), "e1", "e9"}})
		emitSynth(c, "widths", items)
		emitSynth(c, "widths", shuffle(c, items))
	}
}

func round4(c *Config) {
	var builtin, leafNames []string
	keyset := map[string]bool{}
	for _, l := range hercules.Registry.GetLeaves() {
		leafNames = append(leafNames, l.Name())
		builtin = append(builtin, l.Name())
	}
	for _, it := range hercules.Registry.GetPlumbingItems() {
		builtin = append(builtin, it.Name())
		for _, k := range it.Provides() {
			keyset[k] = true
		}
	}
	var keys []string
	for k := range keyset {
		keys = append(keys, k)
	}
	sort.Strings(keys)
	regOrder(c)
	featNames(c)
	regWorld(c)
	regWorldReal(c, builtin, leafNames, keys)
	seqWorld(c)
	byteNames(c)
	widths(c)
	restoreRegistry()
}
