(* A view that has received the birth of a kept line is not empty, and never becomes empty again: the chain of
   ViewFacts / ViewStep / ViewMerge once more, for "some report was booked" instead of the weighted sums.
   Used for the coverage half of C01_files: every path with a line has a (non-empty) file history. *)
From Coq Require Import List ZArith Lia Bool.
From Herc Require Import Burndown.Base Burndown.Dense Burndown.Lifetimes Burndown.LifetimesFacts Burndown.AncFacts
  Burndown.Analysis Burndown.SparseFacts Burndown.AnalysisFacts Burndown.Replay Burndown.HunkProofs
  Burndown.LinearProofs Burndown.StepProofs Burndown.CommitProofs Burndown.MergeProofs
  Burndown.FrameFacts Burndown.ViewFacts Burndown.ViewStep Burndown.ViewMerge.
Import ListNotations.
Open Scope Z_scope.

Lemma sp_add_ne H t k d : sp_add H t k d <> [].
Proof. destruct H as [|[t' row] r]; cbn [sp_add]; [discriminate|]. destruct (t' =? t); discriminate. Qed.

Lemma hunks3_pos (o n : line -> bool) : forall r k d i, 0 <= d -> 0 <= i -> 0 < i + cntI o n r ->
  exists k' d' i', In (k', d', i') (hunks3 o n r k d i) /\ 0 < i'.
Proof.
  induction r as [|l r IH]; intros k d i Hd Hi Hpos; cbn [hunks3].
  - change (cntI o n []) with 0 in Hpos. exists k, d, i. split; [left; reflexivity|lia].
  - assert (Hc : 0 <= cntI o n r) by apply count_nonneg.
    unfold cntI in Hpos, Hc. rewrite count_cons in Hpos. fold (cntI o n r) in Hpos, Hc.
    destruct (o l), (n l); cbn [andb negb] in Hpos.
    + destruct (Z.ltb_spec 0 (d + i)).
      * destruct (Z.ltb_spec 0 i); [exists k, d, i; split; [left; reflexivity|lia]|].
        destruct (IH 1 0 0) as (k' & d' & i' & Hin & Hp); try lia. exists k', d', i'. split; [right; exact Hin|exact Hp].
      * apply IH; lia.
    + apply IH; lia.
    + apply IH; lia.
    + apply IH; lia.
Qed.

Section Pos.
  Variable cf : cfg.
  Variable vw : view cf.
  Notation V := (v_proj vw).
  Notation kp := (v_kp vw).

  (* names stay well-formed and a non-empty view stays non-empty *)
  Definition PR (s s' : shared) : Prop := NI s -> NI s' /\ (V s <> [] -> V s' <> []).
  Lemma PR_refl s : PR s s. Proof. unfold PR; auto. Qed.
  Lemma PR_trans a b c : PR a b -> PR b c -> PR a c.
  Proof. unfold PR. intros H1 H2 Ha. destruct (H1 Ha) as [Hb Hab]. destruct (H2 Hb) as [Hc Hbc]. auto. Qed.
  Lemma PR_ut hd s cur prev d s' : update_time cf hd s cur prev d = Ok s' -> PR s s'.
  Proof.
    intros E HNI. split; [apply (proj2 (nm_ext_ut _ _ _ _ _ _ _ E)); exact HNI|].
    destruct (v_law vw _ _ _ _ _ _ E) as (_ & L2 & L3). intros Hne.
    destruct (is_mark prev) eqn:Ep; [rewrite L2; auto|]. destruct (is_mark cur) eqn:Ec; [rewrite L2; auto|].
    rewrite L3 by auto. destruct (v_flt vw s hd prev); [apply sp_add_ne|exact Hne].
  Qed.
  Lemma PR_dels s x : PR s (with_dels s x).
  Proof. intros HNI. split; [apply (proj2 (nm_ext_dels s x)); exact HNI|]. rewrite (v_dels vw). auto. Qed.
  Lemma PR_create s p : True -> c_files cf = true -> aget (s_names s) p = None -> PR s (create s p).
  Proof.
    intros _ Ec En HNI. split; [apply (proj2 (nm_ext_create s p En)); exact HNI|]. rewrite (v_create vw s p HNI Ec En). auto.
  Qed.

  Lemma update_time_pos hd fl s cur prev d s' : update_time cf hd s cur prev d = Ok s' ->
    fok (v_flt vw) s hd fl -> fl prev = true -> is_mark prev = false -> is_mark cur = false -> V s' <> [].
  Proof.
    intros E Hf Hfl Hp Hc. destruct (v_law vw _ _ _ _ _ _ E) as (_ & _ & L3). rewrite L3 by auto.
    rewrite (Hf prev), Hfl. apply sp_add_ne.
  Qed.

  Lemma arr_update_pos fl f s t pos ins del f' s' : arr_update cf f s t pos ins del = Ok (f', s') ->
    NI s -> fok (v_flt vw) s (f_hist f) fl -> fl t = true -> is_mark t = false -> 0 < ins -> V s' <> [].
  Proof.
    unfold arr_update. intros E HNI Hf Hfl Hm Hi.
    destruct ((pos <? 0) || (ins <? 0) || (del <? 0)); [discriminate|].
    destruct ((ins =? 0) && (del =? 0)) eqn:Ez; [apply andb_prop in Ez; lia|].
    destruct ((Z.of_nat (length (f_vals f)) <? pos) || (Z.of_nat (length (f_vals f)) <? pos + del)); [discriminate|].
    destruct (Z.ltb_spec 0 ins); [|lia].
    destruct (update_time cf (f_hist f) s t t ins) as [s1| |] eqn:E1; try discriminate.
    destruct (report_deleted cf (f_hist f) s1 t _) as [s2| |] eqn:E2; try discriminate.
    injection E as _ <-.
    pose proof (update_time_pos _ _ _ _ _ _ _ E1 Hf Hfl Hm Hm) as Hne.
    destruct (PR_ut _ _ _ _ _ _ E1 HNI) as [HNI1 _].
    apply (proj2 (report_deleted_R cf PR PR_refl PR_trans PR_ut _ _ _ _ _ E2 HNI1) Hne).
  Qed.

  Lemma run_hunks_R t : forall ts pos f s f' s', run_hunks cf t ts pos f s = Ok (f', s') ->
    f_hist f' = f_hist f /\ PR s s'.
  Proof.
    induction ts as [|[[k d] i] ts IH]; intros pos f s f' s' E; cbn [run_hunks] in E.
    - injection E as <- <-. split; [reflexivity|apply PR_refl].
    - destruct (arr_update cf f s t (pos + k) i d) as [[f1 s1]| |] eqn:E1; try discriminate.
      destruct (arr_update_R cf PR PR_refl PR_trans PR_ut _ _ _ _ _ _ _ _ E1) as [Hh1 R1].
      destruct (IH _ _ _ _ _ E) as [Hh2 R2]. split; [congruence|eapply PR_trans; eauto].
  Qed.

  Lemma run_hunks_pos fl t : fl t = true -> is_mark t = false ->
    forall ts pos f s f' s', run_hunks cf t ts pos f s = Ok (f', s') ->
    NI s -> fok (v_flt vw) s (f_hist f) fl -> (exists k d i, In (k, d, i) ts /\ 0 < i) -> V s' <> [].
  Proof.
    intros Hfl Hm. induction ts as [|[[k d] i] ts IH]; intros pos f s f' s' E HNI Hf (k0 & d0 & i0 & Hin & Hp); [destruct Hin|].
    cbn [run_hunks] in E.
    destruct (arr_update cf f s t (pos + k) i d) as [[f1 s1]| |] eqn:E1; try discriminate.
    destruct (arr_update_R cf PR PR_refl PR_trans PR_ut _ _ _ _ _ _ _ _ E1) as [Hh1 R1].
    destruct (R1 HNI) as [HNI1 _].
    destruct (arr_update_spec_v cf V (v_flt vw) (v_law vw) fl _ _ _ _ _ _ _ _ E1 Hf) as [Hf1 _]. rewrite <- Hh1 in Hf1.
    destruct Hin as [E0|Hin].
    - injection E0 as -> -> ->.
      pose proof (arr_update_pos fl _ _ _ _ _ _ _ _ E1 HNI Hf Hfl Hm Hp) as Hne.
      destruct (run_hunks_R t _ _ _ _ _ _ E) as [_ R2]. apply (proj2 (R2 HNI1) Hne).
    - apply (IH _ _ _ _ _ E HNI1 Hf1). exists k0, d0, i0. split; auto.
  Qed.

  (* ---------- one path / all paths of a replay ---------- *)
  Section PPath.
    Variable A : list (list bool).
    Variable last : option Z.
    Variable c : Z.
    Notation o := (old_alive A last).
    Notation n := (aliveb A c).
    Variable ov : line -> Z.
    Variable author : Z.

    Lemma path_step_PR b s p seq b' s' :
      (old_exists A last seq = true -> path_exists A c seq = true) ->
      handle_changes cf author (change_of_path A last c p seq) b s = Ok (b', s') -> PR s s'.
    Proof.
      intros Hm E.
      apply (handle_changes_R cf PR (fun _ => True) PR_refl PR_trans PR_ut PR_dels PR_create author _ _ _ _ _
               (change_of_path_no_delete A last c p seq Hm) (fun _ _ => I) E).
    Qed.

    Lemma path_step_pos b s p seq b' s' :
      pgood (old_exists A last seq) o ov (b_files b) p seq ->
      (old_exists A last seq = true -> path_exists A c seq = true) ->
      handle_changes cf author (change_of_path A last c p seq) b s = Ok (b', s') ->
      NI s -> hgood cf s (b_files b) ->
      kp p (pack cf author (b_tick b)) = true -> is_mark (pack cf author (b_tick b)) = false -> 0 < cntI o n seq ->
      V s' <> [].
    Proof.
      set (t := pack cf author (b_tick b)).
      intros Hg Hmono E HNI Hhg Hk Hm Hpos. unfold change_of_path in E.
      destruct (old_exists A last seq) eqn:Eold, (path_exists A c seq) eqn:Enew.
      - destruct Hg as [hd Hf]. cbn [pgood] in *.
        destruct (forallb (fun l => match lstatus A last c l with LDel | LIns => false | _ => true end) seq) eqn:Esame.
        + exfalso.
          assert (Hon : forall l, In l seq -> o l = n l).
          { intros l Hin. rewrite forallb_forall in Esame. specialize (Esame l Hin). unfold lstatus in Esame.
            destruct (o l), (n l); auto; discriminate. }
          assert (Ec0 : cntI o n seq = 0) by (apply cntI_zero; intros l Hin; rewrite (Hon l Hin); destruct (n l); reflexivity).
          lia.
        + cbn [handle_changes] in E.
          destruct (handle_modification cf author b s p _ _ _) as [[b1 s1]| |] eqn:E1; try discriminate.
          injection E as <- <-. unfold handle_modification in E1.
          set (b0 := if b_tick b =? mark then with_merged b (aset (b_merged b) p true) else b) in *.
          assert (Hb0 : b_files b0 = b_files b /\ b_tick b0 = b_tick b) by (unfold b0; destruct (b_tick b =? mark); auto).
          destruct Hb0 as [Hb0f Hb0t]. rewrite Hb0f, Hf, Hb0t in E1.
          set (f0 := mkFile (map ov (filter o seq)) hd) in *. cbn [f_vals] in E1.
          destruct (negb (Z.of_nat (length (f_vals f0)) =? _)); [discriminate|].
          fold t in E1. unfold hunks in E1.
          rewrite hm_flat0 in E1 by (apply hunks3_ok; lia).
          destruct (run_hunks cf t (hunks3 o n seq 0 0 0) 0 f0 s) as [[f2 s2]| |] eqn:E2; try discriminate.
          destruct (negb (Z.of_nat (length (f_vals f2)) =? _)); [discriminate|].
          injection E1 as <- <-.
          destruct (hgood_get cf s _ p f0 Hhg Hf) as [Hh1 Hh2]. cbn [f_hist] in Hh1.
          assert (Hfok : fok (v_flt vw) s (f_hist f0) (kp p)) by (intros v; cbn [f_hist]; apply (v_link vw); auto).
          apply (run_hunks_pos (kp p) t Hk Hm _ _ _ _ _ _ E2 HNI Hfok).
          apply hunks3_pos; lia.
      - specialize (Hmono eq_refl). discriminate.
      - cbn [pgood] in Hg. cbn [handle_changes] in E.
        destruct (handle_insertion cf author b s p _) as [[b1 s1]| |] eqn:E1; try discriminate.
        injection E as <- <-. unfold handle_insertion in E1. rewrite Hg in E1.
        set (hs := if c_files cf then match aget (s_names s) p with
                     | Some h => (Some h, s)
                     | None => (Some (s_next s), with_fhs (with_names s (aset (s_names s) p (s_next s)) (s_next s + 1)) (aset (s_fhs s) (s_next s) []))
                     end else (None, s)) in *.
        assert (Hhs : NI (snd hs) /\ fst hs = (if c_files cf then aget (s_names (snd hs)) p else None) /\
                      (c_files cf = true -> aget (s_names (snd hs)) p <> None)).
        { unfold hs. destruct (c_files cf) eqn:Ecf; [|cbn [fst snd]; split; auto; split; [reflexivity|discriminate]].
          destruct (aget (s_names s) p) as [k|] eqn:En; cbn [fst snd].
          - rewrite En. split; auto. split; [reflexivity|discriminate].
          - split; [apply (proj2 (nm_ext_create s p En) HNI)|].
            cbn [s_names with_fhs with_names]. rewrite aget_aset, Z.eqb_refl. split; [reflexivity|discriminate]. }
        destruct hs as [hd s0]. cbn [fst snd] in Hhs. destruct Hhs as (HNI0 & Hhd1 & Hhd2).
        rewrite pack_tick in E1. fold t in E1.
        destruct (update_time cf hd s0 t t _) as [s2| |] eqn:E2; try discriminate.
        assert (Hfok : fok (v_flt vw) s0 hd (kp p)) by (intros v; apply (v_link vw); auto).
        pose proof (update_time_pos _ _ _ _ _ _ _ E2 Hfok Hk Hm Hm) as Hne.
        destruct (b_tick b =? mark); injection E1 as _ <-; rewrite (v_dels vw); exact Hne.
      - exfalso.
        assert (Hn : forall l, In l seq -> n l = false) by (apply new_not_exists; auto).
        rewrite cntI_zero in Hpos by (intros l Hin; rewrite (Hn l Hin); apply andb_false_r). lia.
    Qed.

    Lemma paths_step_pos : forall paths b s b' s',
      NoDup (map fst paths) ->
      (forall pl, In pl paths -> pgood (old_exists A last (snd pl)) o ov (b_files b) (fst pl) (snd pl)) ->
      (forall pl, In pl paths -> old_exists A last (snd pl) = true -> path_exists A c (snd pl) = true) ->
      handle_changes cf author (flat_map (fun pl => change_of_path A last c (fst pl) (snd pl)) paths) b s = Ok (b', s') ->
      NI s -> hgood cf s (b_files b) -> is_mark (pack cf author (b_tick b)) = false ->
      (exists pl, In pl paths /\ kp (fst pl) (pack cf author (b_tick b)) = true /\ 0 < cntI o n (snd pl)) ->
      V s' <> [].
    Proof.
      induction paths as [|[p seq] paths IH]; intros b s b' s' Hnd Hg Hmono E HNI Hhg Hm (pl & Hin & Hk & Hpos); [destruct Hin|].
      cbn [flat_map fst snd] in E. rewrite handle_changes_app in E.
      destruct (handle_changes cf author (change_of_path A last c p seq) b s) as [[b1 s1]| |] eqn:E1; try discriminate.
      inversion Hnd as [|? ? Hnotin Hnd']; subst.
      pose proof (Hg (p, seq) (or_introl eq_refl)) as Hg0. pose proof (Hmono (p, seq) (or_introl eq_refl)) as Hm0.
      cbn [fst snd] in Hg0, Hm0.
      destruct (path_step cf A last c ov author b s p seq b1 s1 Hg0 Hm0 E1) as (P1 & P2 & P3 & _).
      destruct (handle_changes_hgood cf author _ _ _ _ _ (change_of_path_no_delete A last c p seq Hm0) E1 Hhg) as [[_ HX] Hhg1].
      assert (Hg1 : forall pl, In pl paths -> pgood (old_exists A last (snd pl)) o ov (b_files b1) (fst pl) (snd pl)).
      { intros pl' Hin'. pose proof (Hg pl' (or_intror Hin')) as Hpl. unfold pgood in *.
        assert (Hne : fst pl' <> p).
        { intros Eq. apply Hnotin. rewrite <- Eq. apply in_map. exact Hin'. }
        rewrite (P2 (fst pl') Hne). exact Hpl. }
      assert (Hm1 : forall pl, In pl paths -> old_exists A last (snd pl) = true -> path_exists A c (snd pl) = true).
      { intros pl' Hin'. apply Hmono. right; auto. }
      destruct Hin as [<-|Hin].
      - cbn [fst snd] in Hk, Hpos.
        pose proof (path_step_pos b s p seq b1 s1 Hg0 Hm0 E1 HNI Hhg Hk Hm Hpos) as Hne.
        assert (Hnd2 : no_delete (flat_map (fun pl => change_of_path A last c (fst pl) (snd pl)) paths)).
        { clear - Hm1. induction paths as [|x r IHr]; [intros ch []|]. cbn [flat_map]. apply no_delete_app.
          - apply change_of_path_no_delete. apply Hm1. left; reflexivity.
          - apply IHr. intros pl Hin. apply Hm1. right; exact Hin. }
        apply (proj2 (handle_changes_R cf PR (fun _ => True) PR_refl PR_trans PR_ut PR_dels PR_create author _ _ _ _ _ Hnd2 (fun _ _ => I) E (HX HNI)) Hne).
      - apply (IH b1 s1 b' s' Hnd' Hg1 Hm1 E (HX HNI) Hhg1); [rewrite P3; exact Hm|].
        exists pl. rewrite P3. auto.
    Qed.
  End PPath.
End Pos.

(* ---------- a commit in normal mode, a merge ---------- *)
Section PCommit.
  Variable h : hist.
  Variable cf : cfg.
  Variable aidx : list Z.
  Hypothesis Hcf : conflict_free h = true.
  Hypothesis Hmark : forall c, 0 <= c < ncommits h -> tick_of h c < mark.
  Hypothesis Haidx : forall c, 0 <= znth 0 aidx c.
  Notation A := (ancs h).
  Notation valf := (val h cf aidx).
  Variable vw : view cf.
  Notation V := (v_proj vw).
  Notation kp := (v_kp vw).
  Variable keep : Z * line -> bool.
  Hypothesis link2 : forall p seq l, In (p, seq) (h_paths h) -> In l seq -> kp p (valf l) = keep (p, l).

  Lemma count_pos_in {X} (f : X -> bool) l x : In x l -> f x = true -> 0 < count f l.
  Proof.
    induction l as [|y l IH]; intros Hin Hf; [destruct Hin|]. rewrite count_cons. pose proof (count_nonneg f l).
    destruct Hin as [->|Hin]; [rewrite Hf; lia|]. specialize (IH Hin Hf). destruct (f y); lia.
  Qed.

  Theorem consume_pos last c b s b' s' p seq l :
    0 <= c < ncommits h -> match last with Some l0 => 0 <= l0 < ncommits h | None => True end ->
    (forall a, ancb A c a = (a =? c) || anc_last h last a) -> anc_last h last c = false ->
    bgood h cf aidx last b ->
    consume cf (znth 0 aidx c) (tick_of h c) false (changes_of h A last c) b s = Ok (b', s') ->
    NI s -> hgood cf s (b_files b) ->
    In (p, seq) (h_paths h) -> In l seq -> l_born l = c -> keep (p, l) = true -> V s' <> [].
  Proof.
    intros Hc Hlast H1 H2 Hg E HNI Hhg Hp Hl Hb Hk. unfold consume in E.
    set (b1 := on_new_tick (mkBranch (b_files b) (b_merged b) (b_mauthor b) (tick_of h c) (b_prev b))) in *.
    destruct (handle_changes cf (znth 0 aidx c) (changes_of h A last c) b1 s) as [[b2 s2]| |] eqn:E2; try discriminate.
    injection E as _ <-. unfold changes_of in E2.
    pose proof (tick_nonneg h Hcf c Hc) as Ht0. pose proof (Hmark c Hc) as Htm.
    set (t := pack cf (znth 0 aidx c) (tick_of h c)).
    assert (Htn : is_mark t = false).
    { unfold t. rewrite is_mark_pack by (auto; unfold mark in *; lia). apply Z.eqb_neq. lia. }
    apply (paths_step_pos cf vw A last c valf (znth 0 aidx c) (h_paths h) b1 s b2 s2 (paths_nodup h Hcf) Hg
             (fun pl _ => exists_mono h last c Hlast H1 (snd pl)) E2 HNI Hhg Htn).
    exists (p, seq). split; [exact Hp|]. cbn [fst snd]. change (b_tick b1) with (tick_of h c). fold t. split.
    - rewrite <- Hk, <- (link2 p seq l Hp Hl). unfold val. rewrite Hb. reflexivity.
    - unfold cntI. apply (count_pos_in _ seq l Hl). rewrite (ins_iff h Hcf last c Hc Hlast H1 H2 p seq l Hp Hl). apply Z.eqb_eq. exact Hb.
  Qed.

  (* ---------- merges ---------- *)
  Lemma resolve_marks_pos hd fl day : fl day = true -> is_mark day = false ->
    forall vals s r s', resolve_marks cf hd day vals s = Ok (r, s') -> NI s -> fok (v_flt vw) s hd fl ->
    0 < count (fun x : Z => is_mark x) vals -> V s' <> [].
  Proof.
    intros Hfl Hm. induction vals as [|v vals IH]; intros s r s' E HNI Hf Hpos; [unfold count in Hpos; cbn in Hpos; lia|].
    cbn [resolve_marks] in E. rewrite count_cons in Hpos. destruct (is_mark v) eqn:Ev.
    - destruct (update_time cf hd s day day 1) as [s1| |] eqn:E1; try discriminate.
      destruct (resolve_marks cf hd day vals s1) as [[r1 s2]| |] eqn:E2; try discriminate.
      injection E as _ <-.
      pose proof (update_time_pos cf vw _ _ _ _ _ _ _ E1 Hf Hfl Hm Hm) as Hne.
      destruct (PR_ut cf vw _ _ _ _ _ _ E1 HNI) as [HNI1 _].
      apply (proj2 (resolve_marks_R cf (PR cf vw) (PR_refl cf vw) (PR_trans cf vw) (PR_ut cf vw) _ _ _ _ _ _ E2 HNI1) Hne).
    - destruct (resolve_marks cf hd day vals s) as [[r1 s2]| |] eqn:E2; try discriminate.
      injection E as _ <-. apply (IH _ _ _ E2 HNI Hf). lia.
  Qed.

  Variable m : Z.
  Hypothesis Hm : 0 <= m < ncommits h.
  Variable ls : list Z.
  Hypothesis HU : forall a, ancb A m a = (a =? m) || existsb (fun l => ancb A l a) ls.
  Hypothesis Hnew : forall l, In l ls -> ancb A l m = false.
  Hypothesis Hrange : forall l, In l ls -> 0 <= l < ncommits h.
  Hypothesis Hkill : forall pl, In pl (all_lines h) -> l_killer (snd pl) <> m.
  Notation dayvf := (dayv h cf aidx m).
  Notation tMf := (tM cf aidx m).
  Notation born_m := (fun x : line => l_born x =? m).

  Lemma file_merge_pos p seq (fs : list file) s f' s' fl :
    In (p, seq) (h_paths h) -> ls <> [] ->
    Forall2 (fun l f => f_vals f = map (nv tMf (aliveb A l) valf) (filter (aliveb A m) seq)) ls fs ->
    match fs with f0 :: others => file_merge cf dayvf f0 others s | [] => Err POther end = Ok (f', s') ->
    NI s -> match fs with f0 :: _ => fok (v_flt vw) s (f_hist f0) fl | [] => True end ->
    fl dayvf = true -> 0 < count born_m seq -> V s' <> [].
  Proof.
    intros Hp Hne HF E HNI Hfok Hfl Hpos.
    destruct (file_merge_spec h cf aidx Hcf Hmark Haidx m Hm ls HU Hnew Hrange Hkill p seq fs s f' s' Hp Hne HF E) as (_ & M2 & _).
    destruct fs as [|f0 others]; [discriminate|]. unfold file_merge in E.
    destruct (merge_others (f_vals f0) (map f_vals others)) as [vals| |]; try discriminate.
    destruct (resolve_marks cf (f_hist f0) dayvf vals s) as [[r s1]| |] eqn:E1; try discriminate.
    injection E as _ <-.
    destruct (dayv_facts h cf aidx Hcf Hmark Haidx m Hm) as [Hdn Hdt].
    assert (Ecnt : count (fun x : Z => is_mark x) vals = count born_m seq).
    { pose proof E1 as E1'. rewrite <- (map_id vals) in E1'.
      destruct (resolve_marks_map cf _ _ (fun x : Z => x) vals s r s1 E1') as (_ & G2 & _).
      pose proof (G2 (fun _ _ => true)) as Ga. pose proof (M2 (fun _ _ => true)) as Ma. rewrite Ga in Ma.
      unfold eff in Ma. rewrite Hdn in Ma. lia. }
    apply (resolve_marks_pos _ fl dayvf Hfl Hdn _ _ _ _ E1 HNI Hfok). lia.
  Qed.

  Lemma merge_keys_pos : forall keys D all s all' s',
    NoDup (map fst keys) ->
    (forall kv, In kv keys -> memz (fst kv) D = false /\ snd kv = true /\
                 exists seq, In (fst kv, seq) (h_paths h) /\ path_exists A m seq = true) ->
    ls <> [] -> Forall2 (mid h cf aidx m D) ls all ->
    merge_keys cf dayvf keys all s = Ok (all', s') ->
    NI s -> (forall b, In b all -> hgood cf s (b_files b)) ->
    (exists kv, In kv keys /\ kp (fst kv) dayvf = true /\ 0 < count born_m (seq_of h (fst kv))) ->
    V s' <> [].
  Proof.
    induction keys as [|[p v] keys IH]; intros D all s all' s' Hnd Hk Hne HF E HNI Hhg (kv0 & Hin0 & Hk0 & Hp0); [destruct Hin0|].
    destruct (Hk (p, v) (or_introl eq_refl)) as (HD & Hv & seq & Hp & Hex). cbn [fst snd] in *. subst v.
    cbn [merge_keys] in E.
    pose proof (some_files_all h cf aidx m p seq D Hp HD Hex ls all HF) as HFs.
    inversion Hnd as [|? ? Hnotin Hnd']; subst.
    destruct (some_files (map (fun b => aget (b_files b) p) all)) as [|f0 others] eqn:Efs.
    { exfalso. apply Hne. remember ls as ls0 eqn:Els in HFs. remember (@nil file) as e eqn:Ee in HFs.
      destruct HFs; [congruence|discriminate]. }
    destruct (file_merge cf dayvf f0 others s) as [[f' s1]| |] eqn:Em; try discriminate.
    assert (Hf0 : exists b0, In b0 all /\ aget (b_files b0) p = Some f0).
    { assert (Hin : In (Some f0) (map (fun b => aget (b_files b) p) all)) by (apply some_files_in; rewrite Efs; left; reflexivity).
      apply in_map_iff in Hin. destruct Hin as (b0 & E0 & Hb0). eauto. }
    destruct Hf0 as (b0 & Hb0 & Ef0).
    destruct (hgood_get cf s _ p f0 (Hhg b0 Hb0) Ef0) as [Hh1 Hh2].
    assert (Hfok : fok (v_flt vw) s (f_hist f0) (kp p)) by (intros x; apply (v_link vw); auto).
    set (all1 := map (fun b => with_files b (aset (b_files b) p f')) all) in *.
    assert (E1k : merge_keys cf dayvf [(p, true)] all s = Ok (all1, s1)).
    { cbn [merge_keys]. rewrite Efs, Em. reflexivity. }
    assert (Hk1 : forall kv, In kv [(p, true)] -> memz (fst kv) D = false /\ snd kv = true /\
               exists seq, In (fst kv, seq) (h_paths h) /\ path_exists A m seq = true).
    { intros kv [<-|[]]. cbn [fst snd]. split; auto. split; auto. exists seq. auto. }
    assert (Hnd1 : NoDup (map fst [(p, true)])) by (cbn; constructor; [intros []|constructor]).
    destruct (merge_keys_spec h cf aidx Hcf Hmark Haidx m Hm ls HU Hnew Hrange Hkill [(p, true)] D all s all1 s1 Hnd1 Hk1 Hne HF E1k)
      as (HF1 & _).
    cbn [fold_left fst] in HF1.
    destruct (merge_keys_hgood cf _ _ _ _ _ _ E1k Hhg) as [Hsn Hhg1].
    assert (HNI1 : NI s1) by (apply (proj2 (same_names_ext _ _ Hsn)); exact HNI).
    assert (Hk' : forall kv, In kv keys -> memz (fst kv) (p :: D) = false /\ snd kv = true /\
               exists seq, In (fst kv, seq) (h_paths h) /\ path_exists A m seq = true).
    { intros kv Hin. destruct (Hk kv (or_intror Hin)) as (K1 & K2 & K3). split; [|auto].
      unfold memz in *. cbn [existsb]. rewrite K1, orb_false_r. apply Z.eqb_neq. intros Eq. apply Hnotin.
      rewrite <- Eq. apply in_map. exact Hin. }
    destruct Hin0 as [<-|Hin0].
    - cbn [fst] in Hk0, Hp0. rewrite (seq_of_in h Hcf p seq Hp) in Hp0.
      pose proof (file_merge_pos p seq (f0 :: others) s f' s1 (kp p) Hp Hne HFs Em HNI Hfok Hk0 Hp0) as Hne1.
      apply (proj2 (merge_keys_R cf (PR cf vw) (PR_refl cf vw) (PR_trans cf vw) (PR_ut cf vw) _ _ _ _ _ _ E HNI1) Hne1).
    - apply (IH (p :: D) all1 s1 all' s' Hnd' Hk' Hne HF1 E HNI1 Hhg1). exists kv0. auto.
  Qed.

  Hypothesis Hsub : forall l, In l ls -> forall seq, old_exists A (Some l) seq = true -> path_exists A m seq = true.

  Theorem analysis_merge_pos all s all' s' p seq x : ls <> [] -> Forall2 (replayed h cf aidx m) ls all ->
    analysis_merge cf all s = Ok (all', s') ->
    NI s -> (forall b, In b all -> hgood cf s (b_files b)) ->
    In (p, seq) (h_paths h) -> In x seq -> l_born x = m -> keep (p, x) = true -> V s' <> [].
  Proof.
    intros Hne HF E HNI Hhg Hp Hx Hb Hkx. unfold analysis_merge in E.
    destruct all as [|me rest]; [exfalso; apply Hne; remember ls as ls0 in HF; remember (@nil branch) as e in HF; destruct HF; [congruence|discriminate]|].
    set (keys := fold_left (fun ks b => merged_keys ks (b_merged b)) (me :: rest) []) in *.
    assert (Hday : pack cf (b_mauthor me) (b_tick me) = dayvf).
    { remember ls as ls0 in HF. remember (me :: rest) as al in HF. destruct HF as [|l0 b0 ? ? Hr _]; [discriminate|].
      injection Heqal as -> _. destruct Hr as (_ & _ & -> & ->). reflexivity. }
    rewrite Hday in E.
    destruct (keys_ok h m ls (me :: rest) [] (NoDup_nil _) (fun kv (H : In kv []) => match H with end)) as (K1 & K2 & K3).
    { intros b Hb0 kv Hkv. destruct (F2_in_r _ _ _ b HF Hb0) as (l & Hl & (_ & Em & _)).
      rewrite Em in Hkv. apply merged_after_in in Hkv. destruct Hkv as [[]|(Ev & seq0 & Hs & Ht)].
      split; auto. exists l, seq0. auto. }
    fold keys in K1, K2, K3.
    assert (Hcover : forall l p seq, In l ls -> In (p, seq) (h_paths h) -> touched A (Some l) m seq = true -> In p (map fst keys)).
    { intros l p0 seq0 Hl Hp0 Ht. destruct (F2_in_l _ _ _ l HF Hl) as (b & Hb0 & (_ & Em & _)).
      destruct (merged_after_cover h m l (h_paths h) [] p0 seq0 Hp0 Ht) as [v Hv]. rewrite <- Em in Hv.
      destruct (K3 p0) as [v' Hv']; [right; eauto|]. apply aget_in in Hv'. change p0 with (fst (p0, v')). apply in_map. exact Hv'. }
    destruct (merge_keys cf dayvf keys (me :: rest) s) as [[all1 s1]| |] eqn:Em; try discriminate.
    assert (Es' : s' = s1) by (destruct all1; injection E as _ <-; reflexivity). subst s'.
    assert (Hkc : forall kv, In kv keys -> memz (fst kv) [] = false /\ snd kv = true /\
                 exists seq, In (fst kv, seq) (h_paths h) /\ path_exists A m seq = true).
    { intros kv Hkv. split; [reflexivity|]. destruct (K2 kv Hkv) as (Ev & l & seq0 & Hl & Hp0 & Ht). split; auto.
      exists seq0. split; auto. eapply (touched_exists h m ls Hsub); eauto. }
    assert (HF0 : Forall2 (mid h cf aidx m []) ls (me :: rest)).
    { clear - HF. induction HF as [|l b ? ? Hr HF IH]; constructor; auto. destruct Hr as [Hg _]. intros pl Hin. cbn. apply Hg. exact Hin. }
    apply (merge_keys_pos keys [] (me :: rest) s all1 s1 K1 Hkc Hne HF0 Em HNI Hhg).
    destruct ls as [|l0 ls0] eqn:Els; [congruence|].
    assert (Hin0 : In l0 ls) by (rewrite Els; left; auto). rewrite <- Els in *.
    pose proof (born_touched h Hcf m Hm ls HU Hnew Hrange Hkill l0 p seq x Hin0 Hp Hx Hb) as Ht.
    pose proof (Hcover l0 p seq Hin0 Hp Ht) as Hk. apply in_map_iff in Hk. destruct Hk as (kv & Ek & Hkv).
    exists kv. split; [exact Hkv|]. rewrite Ek, (seq_of_in h Hcf p seq Hp). split.
    - rewrite <- Hkx, <- (link2 p seq x Hp Hx). unfold val, dayv. rewrite Hb. reflexivity.
    - apply (count_pos_in _ seq x Hx). apply Z.eqb_eq. exact Hb.
  Qed.
End PCommit.
