(* Executable model for property C12 (definitions only, no proofs).

   Modelled Go code, block for block:
     internal/plumbing/line_stats.go   LinesStatsCalculator.Consume   -> ls_step / line_stats / lsc_consume
     internal/core/forks.go            OneShotMergeProcessor.ShouldConsumeCommit -> should_consume
     leaves/devs.go                    DevsAnalysis.Consume / Finalize -> devs_consume / devs_run
     leaves/commits.go                 CommitsAnalysis.Consume / Finalize -> commits_consume / commits_run

   Every item involved forks with ForkSamePipelineItem (DevsAnalysis, CommitsAnalysis, LinesStatsCalculator)
   and merges with NoopMerger, so ONE instance sees every replay step of the run, in plan order: the model
   of a run is a left fold over the replay sequence.  In particular the map OneShotMergeProcessor.merges is
   shared by all branches.

   Numbers are N: Go's int is treated as unbounded and every quantity here is a count (rune counts of diff
   texts, line counts, map sizes).  Go maps are association lists; the only map iterations
   (over the line-stats map in devs.go and commits.go) accumulate commutative sums or build a listing that
   is compared as a set, so the model walks the association list in its own order.

   External code, taken as inputs of a step (observed by the harness with a recording pipeline item):
   the author index (identity.Detector), the tick (TicksSinceStart, C19), the tree changes (TreeDiff, C20),
   the per-file diff scripts (FileDiff = sergi/go-diff, C11), the line counts of inserted / deleted blobs
   (CachedBlob.CountLines, C11; None = ErrorBinary) and the language of an entry (enry). *)
From Coq Require Import List NArith Bool.
Import ListNotations.
Open Scope N_scope.

(* ---------- diff scripts ---------- *)
Inductive op := OEq | OIns | ODel.
(* one diffmatchpatch.Diff: its Type and utf8.RuneCountInString(Text) (one rune = one line) *)
Notation edit := (op * N)%type (only parsing).

Record stats := mkStats { added : N; removed : N; changed : N }.
Definition zero_stats : stats := mkStats 0 0 0.
Definition stats_add (x y : stats) : stats :=
  mkStats (added x + added y) (removed x + removed y) (changed x + changed y).
Definition stats_eqb (x y : stats) : bool :=
  (added x =? added y) && (removed x =? removed y) && (changed x =? changed y).

(* the four locals of the Modify case: added, removed, changed, removedPending *)
Record lsacc := mkAcc { acc_added : N; acc_removed : N; acc_changed : N; acc_pending : N }.
Definition acc0 : lsacc := mkAcc 0 0 0 0.

(* one iteration of  for _, edit := range thisDiffs.Diffs { switch edit.Type {...} }  *)
Definition ls_step (s : lsacc) (e : edit) : lsacc :=
  let '(o, delta) := e in
  match o with
  | OEq =>
      (* if removedPending > 0 { removed += removedPending }; removedPending = 0 *)
      mkAcc (acc_added s)
            (if 0 <? acc_pending s then acc_removed s + acc_pending s else acc_removed s)
            (acc_changed s) 0
  | OIns =>
      if delta <? acc_pending s then
        (* changed += delta; removed += removedPending - delta *)
        mkAcc (acc_added s) (acc_removed s + (acc_pending s - delta)) (acc_changed s + delta) 0
      else
        (* changed += removedPending; added += delta - removedPending *)
        mkAcc (acc_added s + (delta - acc_pending s)) (acc_removed s) (acc_changed s + acc_pending s) 0
  | ODel =>
      (* removedPending = RuneCount(text)   -- an assignment, not an accumulation *)
      mkAcc (acc_added s) (acc_removed s) (acc_changed s) delta
  end.

(* after the loop: if removedPending > 0 { removed += removedPending } *)
Definition ls_finish (s : lsacc) : stats :=
  mkStats (acc_added s)
          (if 0 <? acc_pending s then acc_removed s + acc_pending s else acc_removed s)
          (acc_changed s).

Definition line_stats (ds : list edit) : stats := ls_finish (fold_left ls_step ds acc0).

(* what a script says about the two texts *)
Fixpoint inserted (ds : list edit) : N :=
  match ds with
  | [] => 0
  | (OIns, n) :: r => n + inserted r
  | _ :: r => inserted r
  end.
Fixpoint deleted (ds : list edit) : N :=
  match ds with
  | [] => 0
  | (ODel, n) :: r => n + deleted r
  | _ :: r => deleted r
  end.

(* hypothesis of the conservation theorem: a deletion is never directly followed by a deletion *)
Fixpoint no_del_del (ds : list edit) : bool :=
  match ds with
  | (ODel, _) :: (((ODel, _) :: _) as r) => false
  | _ :: r => no_del_del r
  | [] => true
  end.

(* the canonical shape of C11 (what diffmatchpatch's cleanup-merge produces): neighbouring edits have
   different types, and inside a change block the deletion comes before the insertion *)
Definition op_eqb (a b : op) : bool :=
  match a, b with OEq, OEq | OIns, OIns | ODel, ODel => true | _, _ => false end.
Fixpoint canonical (ds : list edit) : bool :=
  match ds with
  | (a, _) :: (((b, _) :: _) as r) =>
      negb (op_eqb a b) && negb (op_eqb a OIns && op_eqb b ODel) && canonical r
  | _ => true
  end.

(* ---------- LinesStatsCalculator.Consume on one commit ---------- *)
(* a ChangeEntry: the side of the change it belongs to (false = From, true = To; the two sides carry
   different *Tree pointers, so a From entry never equals a To entry) and the file (name + tree entry) *)
Notation key := (bool * N)%type (only parsing).
Definition key_eqb (a b : key) : bool := Bool.eqb (fst a) (fst b) && (snd a =? snd b).

Inductive change :=
| ChInsert (f : N) (lang : N) (lines : option N)   (* CountLines of the new blob; None = binary *)
| ChDelete (f : N) (lang : N) (lines : option N)   (* CountLines of the old blob; None = binary *)
| ChModify (f : N) (lang : N) (ds : list edit).    (* fileDiffs[change.To.Name].Diffs; [] when absent *)

(* one entry of map[object.ChangeEntry]LineStats together with langs[entry.TreeEntry.Hash] *)
Notation fentry := (key * (N * stats))%type (only parsing).

Fixpoint fset (l : list fentry) (k : key) (v : N * stats) : list fentry :=
  match l with
  | [] => [(k, v)]
  | (k', v') :: r => if key_eqb k' k then (k, v) :: r else (k', v') :: fset r k v
  end.

Definition lsc_change (res : list fentry) (c : change) : list fentry :=
  match c with
  | ChInsert f lang (Some n) => fset res (true, f) (lang, mkStats n 0 0)
  | ChInsert _ _ None => res                                   (* binary: continue *)
  | ChDelete f lang (Some n) => fset res (false, f) (lang, mkStats 0 n 0)
  | ChDelete _ _ None => res
  | ChModify f lang ds => fset res (true, f) (lang, line_stats ds)
  end.

(* if deps[IsMerge] { return empty }  else the loop over treeDiff *)
Definition lsc_consume (is_merge : bool) (cs : list change) : list fentry :=
  if is_merge then [] else fold_left lsc_change cs [].

(* ---------- the replay sequence ---------- *)
(* one runActionCommit step of the plan as the items see it *)
Record step := mkStep {
  s_commit : N;            (* the commit (its hash) *)
  s_nparents : N;          (* commit.NumParents() *)
  s_ismerge : bool;        (* deps[DependencyIsMerge] *)
  s_author : N;            (* deps[DependencyAuthor] *)
  s_tick : N;              (* deps[DependencyTick] *)
  s_changes : list change  (* deps[DependencyTreeChanges] with the upstream data of every change *)
}.

Definition step_stats (s : step) : list fentry := lsc_consume (s_ismerge s) (s_changes s).

Fixpoint count_commit (c : N) (l : list step) : N :=
  match l with
  | [] => 0
  | s :: r => (if s_commit s =? c then 1 else 0) + count_commit c r
  end.

(* What C12 needs from the planner and the run loop (implied by C02 / C14; evaluated by the harness on
   every real run): the merge flag of a step says exactly whether its commit is replayed more than once,
   and a commit is replayed at most once per parent (at most once when it has no or one parent). *)
Definition replay_ok (l : list step) : bool :=
  forallb (fun s =>
    let k := count_commit (s_commit s) l in
    Bool.eqb (s_ismerge s) (1 <? k) && (k <=? N.max 1 (s_nparents s))) l.

(* ---------- OneShotMergeProcessor.ShouldConsumeCommit ---------- *)
Fixpoint mem_n (c : N) (l : list N) : bool :=
  match l with [] => false | x :: r => (x =? c) || mem_n c r end.

Definition should_consume (merges : list N) (s : step) : bool * list N :=
  if s_nparents s <=? 1 then (true, merges)
  else if mem_n (s_commit s) merges then (false, merges)
  else (true, s_commit s :: merges).

(* ---------- DevsAnalysis ---------- *)
Record devtick := mkDevTick { dt_commits : N; dt_stats : stats; dt_langs : list (N * stats) }.
Definition devtick0 : devtick := mkDevTick 0 zero_stats [].

Fixpoint lang_get (l : list (N * stats)) (k : N) : stats :=
  match l with
  | [] => zero_stats          (* Go: the zero value of a missing map key *)
  | (k', v) :: r => if k' =? k then v else lang_get r k
  end.
Fixpoint lang_set (l : list (N * stats)) (k : N) (v : stats) : list (N * stats) :=
  match l with
  | [] => [(k, v)]
  | (k', v') :: r => if k' =? k then (k, v) :: r else (k', v') :: lang_set r k v
  end.

(* the body of  for changeEntry, stats := range lineStats  *)
Definition devs_add_file (dd : devtick) (e : fentry) : devtick :=
  let '(_, (lang, st)) := e in
  mkDevTick (dt_commits dd) (stats_add (dt_stats dd) st)
            (lang_set (dt_langs dd) lang (stats_add (lang_get (dt_langs dd) lang) st)).

Notation tkey := (N * N)%type (only parsing).   (* tick, author *)
Definition tkey_eqb (a b : tkey) : bool := (fst a =? fst b) && (snd a =? snd b).

Fixpoint tick_get (l : list (tkey * devtick)) (k : tkey) : option devtick :=
  match l with
  | [] => None
  | (k', v) :: r => if tkey_eqb k' k then Some v else tick_get r k
  end.
Fixpoint tick_set (l : list (tkey * devtick)) (k : tkey) (v : devtick) : list (tkey * devtick) :=
  match l with
  | [] => [(k, v)]
  | (k', v') :: r => if tkey_eqb k' k then (k, v) :: r else (k', v') :: tick_set r k v
  end.

Record devs_state := mkDevs { ds_merges : list N; ds_ticks : list (tkey * devtick) }.
Definition devs0 : devs_state := mkDevs [] [].

(* DevsAnalysis.Consume.  The boolean result is a ghost: it tells whether  dd.Commits++  was reached,
   i.e. whether this step attributed its commit to (tick, author). *)
Definition devs_consume (cec : bool) (st : devs_state) (s : step) : devs_state * bool :=
  let '(ok, merges) := should_consume (ds_merges st) s in
  if negb ok then (mkDevs merges (ds_ticks st), false)
  else if (N.of_nat (length (s_changes s)) =? 0) && negb cec then (mkDevs merges (ds_ticks st), false)
  else
    let k := (s_tick s, s_author s) in
    let dd := match tick_get (ds_ticks st) k with Some d => d | None => devtick0 end in
    let dd1 := mkDevTick (dt_commits dd + 1) (dt_stats dd) (dt_langs dd) in
    let dd2 := if s_ismerge s then dd1 else fold_left devs_add_file (step_stats s) dd1 in
    (mkDevs merges (tick_set (ds_ticks st) k dd2), true).

Fixpoint devs_run_from (cec : bool) (st : devs_state) (l : list step) : devs_state * list bool :=
  match l with
  | [] => (st, [])
  | s :: r =>
      let '(st1, b) := devs_consume cec st s in
      let '(st2, bs) := devs_run_from cec st1 r in
      (st2, b :: bs)
  end.
Definition devs_run (cec : bool) (l : list step) : devs_state * list bool := devs_run_from cec devs0 l.
(* DevsAnalysis.Finalize: the ticks map *)
Definition devs_result (cec : bool) (l : list step) : list (tkey * devtick) := ds_ticks (fst (devs_run cec l)).

(* ---------- CommitsAnalysis ---------- *)
Record commit_stat := mkCommitStat { cs_commit : N; cs_author : N; cs_files : list fentry }.

Definition commits_consume (acc : list commit_stat) (s : step) : list commit_stat :=
  if s_ismerge s then acc
  else acc ++ [mkCommitStat (s_commit s) (s_author s) (step_stats s)].

Definition commits_run (l : list step) : list commit_stat := fold_left commits_consume l [].

(* ---------- executable oracles on the implementation's outputs ---------- *)
(* language sums of one developer tick *)
Definition langs_total (l : list (N * stats)) : stats := fold_right (fun e a => stats_add (snd e) a) zero_stats l.
Definition langs_sum_ok (dd : devtick) : bool := stats_eqb (langs_total (dt_langs dd)) (dt_stats dd).

(* conservation for one file: stats against inserted / deleted line counts *)
Definition conserve_ok (st : stats) (ins del : N) : bool :=
  (added st + changed st =? ins) && (removed st + changed st =? del).

(* number of replays of the commits *)
Definition single_branch (l : list step) (c : N) : bool := count_commit c l =? 1.

(* "every commit counted at most once / exactly once when it must be", as a judgement of a table of
   Commits counters against a replay sequence alone (no reference to the one-shot filter).
   A commit MUST be counted when empty commits are counted or every replay of it changes files; it MAY be
   counted when empty commits are counted or some replay changes files.  The counter of (tick, developer)
   lies between the number of commits that must be counted and have all their replays at that key and the
   number of commits that may be counted and have some replay at that key. *)
Definition step_nonempty (s : step) : bool := negb (N.of_nat (length (s_changes s)) =? 0).
Definition key_of (s : step) : N * N := (s_tick s, s_author s).
Definition steps_of (c : N) (l : list step) : list step := filter (fun s => s_commit s =? c) l.
Fixpoint commits_of (l : list step) (seen : list N) : list N :=
  match l with
  | [] => []
  | s :: r => if mem_n (s_commit s) seen then commits_of r seen else s_commit s :: commits_of r (s_commit s :: seen)
  end.
Definition must_count (cec : bool) (l : list step) (c : N) : bool := cec || forallb step_nonempty (steps_of c l).
Definition may_count (cec : bool) (l : list step) (c : N) : bool := cec || existsb step_nonempty (steps_of c l).
Definition upper_at (cec : bool) (l : list step) (k : N * N) : N :=
  N.of_nat (length (filter (fun c => may_count cec l c && existsb (fun s => tkey_eqb (key_of s) k) (steps_of c l)) (commits_of l []))).
Definition lower_at (cec : bool) (l : list step) (k : N * N) : N :=
  N.of_nat (length (filter (fun c => must_count cec l c && forallb (fun s => tkey_eqb (key_of s) k) (steps_of c l)) (commits_of l []))).
Fixpoint table_get (t : list ((N * N) * N)) (k : N * N) : N :=
  match t with
  | [] => 0
  | (k', v) :: r => if tkey_eqb k' k then v else table_get r k
  end.
Definition table_total (t : list ((N * N) * N)) : N := fold_right (fun e a => snd e + a) 0 t.
(* ... and in total: at least the commits that must, at most the commits that may be counted *)
Definition once_ok (cec : bool) (l : list step) (table : list ((N * N) * N)) : bool :=
  forallb (fun k => (lower_at cec l k <=? table_get table k) && (table_get table k <=? upper_at cec l k))
          (map fst table ++ map key_of l) &&
  (N.of_nat (length (filter (must_count cec l) (commits_of l []))) <=? table_total table) &&
  (table_total table <=? N.of_nat (length (filter (may_count cec l) (commits_of l [])))).
(* the Commits counters of a result *)
Definition commits_table (ticks : list ((N * N) * devtick)) : list ((N * N) * N) :=
  map (fun e => (fst e, dt_commits (snd e))) ticks.
