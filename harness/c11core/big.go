package c11core

// Stream c11big: LARGE pairs, judged by the property oracle at the end of the case, not shrunk.
//
//   - the id-space family (kinds ids-*): files with N distinct lines, N around the constants of the line identifier
//     space of FileDiff.Consume (0xD800 first surrogate = first shifted id, 0xDFFF last surrogate, 0xE000 = first
//     shifted value, 0xE7FF/0xE800 = end of the image of the surrogate block, 0xFFFF/0x10000 = end of the BMP), with
//     edits placed RELATIVE TO THE ID SPACE: the identifiers of the removed and of the inserted line differ by exactly
//     0x800 (the shift distance) or by another power of two, at the first, a middle and the last position where that
//     is possible.  Lines are numbered by first appearance (old blob first), exactly like DiffLinesToRunes numbers
//     them; the generator asserts that numbering (checkDense).
//   - the scale family (kinds scale-*): 10^3 .. 10^5 (thorough: 10^6) lines, ascending / reversed / random /
//     periodic with periods 2^k and 2^k+-1, lengths that are no multiples of 8, 2^16+-1 lines, single lines of
//     2^10+-1, 2^12+-1, 2^16+-1 (thorough: 2^20+1) bytes, blobs of exactly 2^10+-1 and 2^12+-1 bytes.

import (
	"fmt"
	"math/rand"
	"sort"

	. "verifharness/lib"
)

// ---------------------------------------------------------------- line texts

// digits of the line texts: every byte except NUL (binary sniffing), LF and space (removed by WhitespaceIgnore)
var digits253 = func() []byte {
	var d []byte
	for b := 1; b < 256; b++ {
		if b != '\n' && b != ' ' {
			d = append(d, byte(b))
		}
	}
	return d
}()

// lineOf is the text (without the terminator) of the line number id >= 1: two digits below 64 010, three above (so
// a 66 000-line blob stays around 200 kB); every 11th line carries a space, so that WhitespaceIgnore really strips
// something at scale (the space depends on the number only: distinct numbers stay distinct with and without spaces)
func lineOf(id int) []byte {
	k := id - 1
	var out []byte
	if k < 253*253 {
		out = []byte{digits253[k/253], digits253[k%253]}
	} else {
		k -= 253 * 253
		out = []byte{digits253[(k/253/253)%253], digits253[(k/253)%253], digits253[k%253]}
	}
	if id%11 == 3 {
		out = append([]byte{out[0], ' '}, out[1:]...)
	}
	return out
}

func render(ids []int, finalNL bool) []byte {
	out := make([]byte, 0, 4*len(ids))
	for i, id := range ids {
		out = append(out, lineOf(id)...)
		if finalNL || i < len(ids)-1 {
			out = append(out, '\n')
		}
	}
	return out
}

// checkDense asserts that the numbers are the identifiers DiffLinesToRunes hands out: first appearances, old blob
// first, are 1, 2, 3, ...  Returns the number of distinct lines.
func checkDense(old, new []int) int {
	max := 0
	for _, seq := range [][]int{old, new} {
		for _, id := range seq {
			if id == max+1 {
				max++
			} else if id < 1 || id > max {
				panic(fmt.Sprintf("c11big generator: line %d appears before line %d", id, max+1))
			}
		}
	}
	return max
}

// ---------------------------------------------------------------- edit sites on the base 1..n

// site: the base line at position pos (= its identifier) is replaced by `old` in the old blob and by `new` in the
// new blob; 0 in `new` = the next fresh line (identifiers n+1, n+2, ... in order of appearance)
type site struct {
	pos      int
	old, new []int
}

func buildPair(n int, sites []site) (old, new []int) {
	sort.SliceStable(sites, func(i, j int) bool { return sites[i].pos < sites[j].pos })
	old = make([]int, 0, n+len(sites))
	new = make([]int, 0, n+len(sites))
	fresh := n
	k := 0
	for p := 1; p <= n; p++ {
		if k < len(sites) && sites[k].pos == p {
			old = append(old, sites[k].old...)
			for _, x := range sites[k].new {
				if x == 0 {
					fresh++
					x = fresh
				}
				new = append(new, x)
			}
			k++
			if k < len(sites) && sites[k].pos == p {
				panic("c11big generator: two sites at one position")
			}
			continue
		}
		old = append(old, p)
		new = append(new, p)
	}
	if k != len(sites) {
		panic("c11big generator: site outside the base")
	}
	checkDense(old, new)
	return old, new
}

type bigCfg struct {
	cleanup, ws bool
	timeout     int
	noFinalNL   bool
}

func (g bigCfg) String() string {
	return fmt.Sprintf("c%dw%dt%df%d", b2i(g.cleanup), b2i(g.ws), g.timeout, b2i(!g.noFinalNL))
}

func b2i(b bool) int {
	if b {
		return 1
	}
	return 0
}

func bigInput(kind, shape string, old, new []int, g bigCfg) input {
	return input{kind: kind, shape: shape, a: render(old, !g.noFinalNL), b: render(new, !g.noFinalNL),
		cleanup: g.cleanup, ws: g.ws, timeout: g.timeout}
}

// the configurations cycle deterministically: cleanup x whitespace-ignore x timeout (none / default 1000 ms, which
// also switches the half-match heuristic of the engine on / 1 ms = deadline path / option given as 0) x final newline
func cfgNo(k int) bigCfg {
	return bigCfg{cleanup: k&1 == 0, ws: k&2 != 0, timeout: []int{1000, 0, 1, 1000, -1, 0, 1000}[k%7], noFinalNL: k%5 == 3}
}

// ids-replace: r lines from position p = n+1-d on are replaced by fresh lines; the j-th removed line has identifier
// p+j, the line put in its place n+1+j: they differ by exactly d
func idsReplace(n, d, r int, g bigCfg) input {
	p := n + 1 - d
	var ss []site
	for j := 0; j < r; j++ {
		ss = append(ss, site{pos: p + j, old: []int{p + j}, new: []int{0}})
	}
	old, new := buildPair(n, ss)
	return bigInput("ids-replace", fmt.Sprintf("n%d.d%d.r%d.p%d.%s", n, d, r, p, g), old, new, g)
}

// ids-insert: r fresh lines (identifiers n+1..n+r) are inserted before the line with identifier p = n+1-d
func idsInsert(n, d, r int, g bigCfg) input {
	p := n + 1 - d
	nw := make([]int, r+1)
	nw[r] = p
	old, new := buildPair(n, []site{{pos: p, old: []int{p}, new: nw}})
	return bigInput("ids-insert", fmt.Sprintf("n%d.d%d.r%d.p%d.%s", n, d, r, p, g), old, new, g)
}

// ids-delete: the r lines p..p+r-1 are removed; the block that follows has identifiers larger by r (r = 0x800: the
// removed block and its successor are one shift apart)
func idsDelete(n, p, r int, g bigCfg) input {
	var ss []site
	for j := 0; j < r; j++ {
		ss = append(ss, site{pos: p + j, old: []int{p + j}, new: nil})
	}
	old, new := buildPair(n, ss)
	return bigInput("ids-delete", fmt.Sprintf("n%d.p%d.r%d.%s", n, p, r, g), old, new, g)
}

func powersOfTwoBelow(n int) []int {
	var ds []int
	for d := 1; d < n; d *= 2 {
		ds = append(ds, d)
	}
	return ds
}

// ids-multi: one single-line replacement by a fresh line for every power of two 32 <= d < n, the k-th fresh line
// (identifier n+k) at position n+k-d_k, largest distance first so that the positions ascend (the small distances
// are left to ids-dup: the k-th fresh line cannot be closer than k to the end)
func idsMulti(n int, g bigCfg) input {
	ds := powersOfTwoBelow(n)[5:]
	var ss []site
	for k := 1; k <= len(ds); k++ {
		d := ds[len(ds)-k]
		p := n + k - d
		if p < 1 || p > n || (len(ss) > 0 && p <= ss[len(ss)-1].pos) {
			panic("c11big generator: ids-multi positions")
		}
		ss = append(ss, site{pos: p, old: []int{p}, new: []int{0}})
	}
	old, new := buildPair(n, ss)
	return bigInput("ids-multi", fmt.Sprintf("n%d.%s", n, g), old, new, g)
}

// the constants of the identifier space (and their neighbours)
var idBoundaries = []int{0xD7FF, 0xD800, 0xD801, 0xDBFF, 0xDC00, 0xDFFF, 0xE000, 0xE001, 0xE7FF, 0xE800, 0xE801,
	0xF7FD, 0xF7FF, 0xF800, 0xFFFD, 0xFFFE, 0xFFFF, 0x10000, 0x10001, 0x107FF, 0x10800}

// ids-dup: edits with lines that EXIST already, so that every pair (x, x+d) of identifiers can be put against each
// other, whatever n is: at the first (x = 1), a middle and the last (x = n-d) position and at the boundaries of
// the identifier space, for every d of ds, in rotation
//
//	op 0: line x+d is replaced by a copy of line x        op 1: line x is replaced by a copy of line x+d
//	op 2: a copy of line x is inserted before line x+d    op 3: such a copy is there in the old blob and removed
//
// plus the pairs around U+FFFD (see below)
func idsDup(n int, ds []int, xsExtra []int, g bigCfg, tag string) input {
	used := map[int]bool{}
	var ss []site
	op := 0
	free := func(p int) bool { return !used[p-1] && !used[p] && !used[p+1] }
	var pairs [][2]int
	// the replacement character first: a surrogate handed to the engine comes back as U+FFFD, which is also the
	// shifted value of identifier 0xF7FD and the unshifted value of identifier 0xFFFD; the two ends of the
	// surrogate block; the identifiers next to it
	for _, x := range []int{0xD800, 0xDBFF, 0xDC01, 0xDFFF} {
		pairs = append(pairs, [2]int{x, 0xF7FD}, [2]int{x + 3, 0xFFFD})
	}
	pairs = append(pairs, [2]int{0xD806, 0xDFF9}, [2]int{0xD7FC, 0xE003})
	for _, d := range ds {
		xs := []int{1, (n - d + 1) / 2, n - d}
		for _, b := range xsExtra {
			xs = append(xs, b, b-d)
		}
		for _, x := range xs {
			pairs = append(pairs, [2]int{x, x + d})
		}
	}
	for _, xy := range pairs {
		x, y := xy[0], xy[1]
		if x < 1 || y > n {
			continue
		}
		k := op % 4
		if k != 1 && !free(y) {
			k = 1
		} else if k == 1 && !free(x) {
			k = 0
		}
		switch {
		case k == 1 && free(x):
			ss = append(ss, site{pos: x, old: []int{x}, new: []int{y}})
			used[x] = true
		case k == 0 && free(y):
			ss = append(ss, site{pos: y, old: []int{y}, new: []int{x}})
			used[y] = true
		case k == 2 && free(y):
			ss = append(ss, site{pos: y, old: []int{y}, new: []int{x, y}})
			used[y] = true
		case k == 3 && free(y):
			ss = append(ss, site{pos: y, old: []int{x, y}, new: []int{y}})
			used[y] = true
		default:
			continue
		}
		op++
	}
	old, new := buildPair(n, ss)
	return bigInput("ids-dup", fmt.Sprintf("n%d.%s.sites%d.%s", n, tag, len(ss), g), old, new, g)
}

// ids-swap / ids-rand: the shapes that found F15: neighbours swapped inside the shifted zone plus a deleted block;
// replacements all over the file
func idsSwap(r *rand.Rand, n int, g bigCfg) input {
	old := make([]int, n)
	for i := range old {
		old[i] = i + 1
	}
	new := append([]int{}, old...)
	lo := 0xD800
	if n < lo+40 {
		lo = n - 2000
	}
	for k := 0; k < 30; k++ {
		p := lo + r.Intn(n-lo-1)
		new[p-1], new[p] = new[p], new[p-1]
	}
	new = append(new[:100:100], new[130:]...)
	return bigInput("ids-swap", fmt.Sprintf("n%d.%s", n, g), old, new, g)
}

func idsRand(r *rand.Rand, n, edits int, g bigCfg) input {
	var ss []site
	used := map[int]bool{}
	for k := 0; k < edits; k++ {
		p := 1 + r.Intn(n)
		if used[p] {
			continue
		}
		used[p] = true
		switch r.Intn(4) {
		case 0:
			ss = append(ss, site{pos: p, old: []int{p}, new: []int{0}})
		case 1:
			ss = append(ss, site{pos: p, old: []int{p}, new: nil})
		case 2:
			ss = append(ss, site{pos: p, old: []int{p}, new: []int{0, p}})
		default:
			ss = append(ss, site{pos: p, old: []int{p}, new: []int{1 + r.Intn(n)}})
		}
	}
	old, new := buildPair(n, ss)
	return bigInput("ids-rand", fmt.Sprintf("n%d.edits%d.%s", n, len(ss), g), old, new, g)
}

// the sizes N straddling the constants of the identifier space
var idSizes = []int{0xD7FE, 0xD7FF, 0xD800, 0xD801, 0xDFFE, 0xDFFF, 0xE000, 0xE001, 0xE7FE, 0xE7FF, 0xE800, 0xE801,
	0xFFFE, 0xFFFF, 0x10000, 0x10001}

func generateIds(c *Config) {
	r := c.Rng
	if !c.Thorough() {
		// a dozen pairs; the first is the smallest input on which a shift narrowed to the surrogate block shows
		emit(c, idsReplace(0xDFFF, 0x800, 1, bigCfg{cleanup: true, timeout: 1000}))                         // first position: 0xD800 vs 0xE000
		emit(c, idsReplace(0xE3FF, 0x800, 3, bigCfg{ws: true}))                                             // middle
		emit(c, idsReplace(0xE7FE, 0x800, 1, bigCfg{cleanup: true, ws: true, timeout: 1, noFinalNL: true})) // last: 0xDFFF vs 0xE7FF
		emit(c, idsReplace(0x107FE, 0x800, 1, bigCfg{timeout: 1000, noFinalNL: true}))                      // 0xFFFF vs 0x107FF
		emit(c, idsDelete(60000, 0xD800, 0x800, bigCfg{timeout: 1000}))                                     // block = its successor - 0x800
		emit(c, idsInsert(0xE000, 0x800, 2, bigCfg{cleanup: true, timeout: -1}))                            // 0xE001 before 0xD801
		emit(c, idsMulti(0xDFFF, bigCfg{cleanup: true, noFinalNL: true}))                                   // every power of two
		emit(c, idsMulti(0x10000, bigCfg{ws: true, timeout: 1000}))
		emit(c, idsDup(0x10801, []int{0x800}, idBoundaries, bigCfg{cleanup: true, timeout: 1000}, "d2048"))
		emit(c, idsDup(0x10001, powersOfTwoBelow(0x10001), []int{0xD800, 0xDFFF, 0xE000, 0xFFFF}, bigCfg{}, "pow2"))
		emit(c, idsSwap(r, 57400, bigCfg{timeout: 0}))
		emit(c, idsRand(r, 0xD800, 40, bigCfg{cleanup: true, timeout: 1000}))
		return
	}
	k := 0
	next := func() bigCfg { k++; return cfgNo(k) }
	for _, n := range idSizes {
		for _, d := range []int{0x800, 0x400, 0x1000} {
			some(c, func() input { return idsReplace(n, d, 1, next()) })
		}
		some(c, func() input { return idsReplace(n, 0x800, 3, next()) })
		some(c, func() input { return idsInsert(n, 0x800, 1, next()) })
		some(c, func() input { return idsInsert(n, 0x800, 2, next()) })
		some(c, func() input { return idsMulti(n, next()) })
		some(c, func() input { return idsDup(n, []int{0x800}, idBoundaries, next(), "d2048") })
		some(c, func() input {
			return idsDup(n, powersOfTwoBelow(n), []int{0xD800, 0xDFFF, 0xE000, 0xFFFF}, next(), "pow2")
		})
	}
	// replacements whose identifiers are 0x800 apart at the first, middle and last position of the surrogate block
	// and of the last 0x800 identifiers of the BMP
	for _, p := range []int{0xD800, 0xD801, 0xDBFF, 0xDC00, 0xDFFE, 0xDFFF, 0xF800, 0xFBFF, 0xFFFE, 0xFFFF, 0x10000} {
		some(c, func() input { return idsReplace(p+0x7FF, 0x800, 1, next()) })
		some(c, func() input { return idsInsert(p+0x7FF, 0x800, 1, next()) })
	}
	// deleted blocks: 1, 2, 0x400, 0x800, 0x1000 lines from the first / middle / last line of the surrogate block
	for _, n := range []int{60000, 0x10801} {
		for _, p := range []int{0xD7FF, 0xD800, 0xDBFF, 0xDFFF, 0xE000} {
			for _, rr := range []int{1, 2, 0x400, 0x800, 0x1000} {
				if p+2*rr <= n {
					some(c, func() input { return idsDelete(n, p, rr, next()) })
				}
			}
		}
	}
	some(c, func() input { return idsDelete(0x10801, 0xF800, 0x800, next()) })
	some(c, func() input { return idsDelete(0x10801, 0xFFFF-0x800, 0x800, next()) })
	for i := 0; i < 6; i++ {
		some(c, func() input { return idsSwap(r, []int{57400, 66000, 0xE801}[i%3], next()) })
		some(c, func() input { return idsRand(r, idSizes[r.Intn(len(idSizes))], 40+r.Intn(200), next()) })
	}
	for i := c.Count(1, 10); i > 1; i-- {
		// random members of the family (search tier: other seeds)
		n := idSizes[r.Intn(len(idSizes))] + r.Intn(3000)
		d := powersOfTwoBelow(n)[r.Intn(len(powersOfTwoBelow(n)))]
		switch r.Intn(4) {
		case 0:
			some(c, func() input { return idsReplace(n, d, 1+r.Intn(3), next()) })
		case 1:
			some(c, func() input { return idsInsert(n, d, 1+r.Intn(3), next()) })
		case 2:
			some(c, func() input { return idsDelete(n, 1+r.Intn(n-2*d), d, next()) })
		default:
			some(c, func() input { return idsDup(n, []int{d, 0x800}, idBoundaries, next(), fmt.Sprintf("d%d", d)) })
		}
	}
}

// ---------------------------------------------------------------- scale family

func seqAsc(n int) []int {
	s := make([]int, n)
	for i := range s {
		s[i] = i + 1
	}
	return s
}

// scatter applies a few block edits (delete / insert fresh numbers / replace / duplicate) to a sequence
func scatter(r *rand.Rand, s []int, edits int, freshFrom int) []int {
	res := append([]int{}, s...)
	fresh := freshFrom
	for k := 0; k < edits; k++ {
		if len(res) == 0 {
			break
		}
		p := r.Intn(len(res))
		m := 1 + r.Intn(3)
		if r.Intn(4) == 0 {
			m = 1 + r.Intn(70)
		}
		end := p + m
		if end > len(res) {
			end = len(res)
		}
		switch r.Intn(4) {
		case 0:
			res = append(res[:p:p], res[end:]...)
		case 1:
			ins := make([]int, m)
			for i := range ins {
				fresh++
				ins[i] = fresh
			}
			res = append(res[:p:p], append(ins, res[p:]...)...)
		case 2:
			for i := p; i < end; i++ {
				fresh++
				res[i] = fresh
			}
		default:
			blk := append([]int{}, res[p:end]...)
			res = append(res[:end:end], append(blk, res[end:]...)...)
		}
	}
	return res
}

func scaleInput(shape string, n int, detail string, old, new []int, g bigCfg) input {
	return bigInput("scale-"+shape, fmt.Sprintf("n%d.%s.%s", n, detail, g), old, new, g)
}

func scaleAsc(r *rand.Rand, n int, g bigCfg) input {
	old := seqAsc(n)
	return scaleInput("asc", n, "edits8", old, scatter(r, old, 8, n), g)
}

// reversed file: no common line order at all; the worst case of the bisection (only affordable under a deadline
// from 10^4 lines on)
func scaleDesc(n int, g bigCfg) input {
	old := seqAsc(n)
	new := make([]int, n)
	for i := range new {
		new[i] = n - i
	}
	return scaleInput("desc", n, "reversed", old, new, g)
}

func scaleRand(r *rand.Rand, n int, g bigCfg) input {
	vocab := n/4 + 1
	old := make([]int, n)
	for i := range old {
		old[i] = 1 + r.Intn(vocab)
	}
	return scaleInput("rand", n, fmt.Sprintf("vocab%d", vocab), old, scatter(r, old, 12, vocab), g)
}

// periodic file: line i is number 1 + i mod period; the new version loses period-1 lines in the middle, gains
// period+1 lines at one third and has a few scattered edits: every alignment is ambiguous
func scalePeriodic(r *rand.Rand, n, period int, g bigCfg) input {
	old := make([]int, n)
	for i := range old {
		old[i] = 1 + i%period
	}
	new := append([]int{}, old...)
	m := n / 2
	cut := period - 1
	if cut < 1 {
		cut = 1
	}
	if m+cut <= len(new) {
		new = append(new[:m:m], new[m+cut:]...)
	}
	t := n / 3
	ins := make([]int, 0, period+1)
	for i := 0; i <= period && i < 70000; i++ {
		ins = append(ins, 1+(t+i)%period)
	}
	new = append(new[:t:t], append(ins, new[t:]...)...)
	new = scatter(r, new, 4, period)
	return scaleInput("periodic", n, fmt.Sprintf("period%d", period), old, new, g)
}

// one line of exactly `length` bytes (terminator included) between short lines; the new version changes one byte
// in the middle of it, or appends a byte to it
func scaleLongLine(r *rand.Rand, length int, variant int, g bigCfg) input {
	long := make([]byte, length-1)
	for i := range long {
		long[i] = digits253[r.Intn(len(digits253))]
		if i%97 == 5 {
			long[i] = ' '
		}
	}
	var a, b []byte
	a = append(a, "head\n"...)
	a = append(a, long...)
	a = append(a, "\ntail\n"...)
	switch variant % 3 {
	case 0:
		l2 := append([]byte{}, long...)
		l2[len(l2)/2] ^= 1
		if l2[len(l2)/2] == '\n' || l2[len(l2)/2] == 0 {
			l2[len(l2)/2] = 'x'
		}
		b = append(b, "head\n"...)
		b = append(b, l2...)
		b = append(b, "\ntail\n"...)
	case 1:
		b = append(b, "head\n"...)
		b = append(b, long...)
		b = append(b, "x\ntail\n"...)
	default:
		// the long line becomes the unterminated last line
		b = append(b, "head\ntail\n"...)
		b = append(b, long...)
	}
	if g.noFinalNL {
		a = a[:len(a)-1]
	}
	return input{kind: "scale-longline", shape: fmt.Sprintf("len%d.v%d.%s", length, variant%3, g), a: a, b: b,
		cleanup: g.cleanup, ws: g.ws, timeout: g.timeout}
}

// blobs of exactly `size` bytes made of short lines, the new version one byte longer / shorter / edited
func scaleSize(r *rand.Rand, size int, variant int, g bigCfg) input {
	a := make([]byte, 0, size+8)
	for len(a) < size {
		a = append(a, lineOf(1+r.Intn(40))...)
		a = append(a, '\n')
	}
	a = a[:size]
	b := append([]byte{}, a...)
	switch variant % 3 {
	case 0:
		b = append(b, 'z')
	case 1:
		b = b[:len(b)-1]
	default:
		b[len(b)/2] = 'z'
	}
	return input{kind: "scale-size", shape: fmt.Sprintf("bytes%d.v%d.%s", size, variant%3, g), a: a, b: b,
		cleanup: g.cleanup, ws: g.ws, timeout: g.timeout}
}

func generateScale(c *Config) {
	r := c.Rng
	k := 0
	next := func() bigCfg { k++; return cfgNo(k) }
	noDeadline := func(g bigCfg) bigCfg {
		if g.timeout == 1 {
			g.timeout = 0
		}
		return g
	}
	// 10^3 and 10^4 lines (lengths that are no multiples of 8 among them), every shape
	for _, n := range []int{255, 256, 257, 1000, 1023, 1024, 1025, 10007} {
		emit(c, scaleAsc(r, n, next()))
		emit(c, scaleRand(r, n, next()))
	}
	emit(c, scaleDesc(1001, noDeadline(next())))
	emit(c, scaleDesc(10000, bigCfg{cleanup: true, timeout: 100}))
	for _, pn := range [][2]int{{1000, 8}, {1001, 7}, {10007, 64}, {10000, 63}, {10001, 65}, {4099, 1024}, {4099, 1025}} {
		emit(c, scalePeriodic(r, pn[0], pn[1], noDeadline(next())))
	}
	// 2^16 +- 1 lines, few distinct ones
	for i, n := range []int{65535, 65536, 65537} {
		emit(c, scalePeriodic(r, n, []int{3, 256, 257}[i], noDeadline(next())))
	}
	// 2^15 and 10^5 lines
	emit(c, scaleAsc(r, 32768, bigCfg{ws: true, timeout: 1000}))
	emit(c, scaleAsc(r, 100003, bigCfg{cleanup: true, timeout: 1000}))
	// single long lines and exact blob sizes around 2^10, 2^12, 2^16
	v := 0
	for _, l := range []int{255, 256, 257, 1023, 1024, 1025, 4095, 4096, 4097, 65535, 65536, 65537} {
		emit(c, scaleLongLine(r, l, v, next()))
		v++
	}
	for _, s := range []int{1023, 1024, 1025, 4095, 4096, 4097} {
		emit(c, scaleSize(r, s, v, next()))
		v++
	}
	if !c.Thorough() {
		return
	}
	for _, n := range []int{32767, 32769, 100000, 100003} {
		some(c, func() input { return scaleAsc(r, n, next()) })
		some(c, func() input { return scaleRand(r, n, noDeadline(next())) })
	}
	some(c, func() input { return scaleDesc(100000, bigCfg{timeout: 1000}) })
	some(c, func() input { return scaleDesc(20000, bigCfg{cleanup: true, ws: true, timeout: 1000}) })
	for _, pn := range [][2]int{{100003, 2}, {100000, 16}, {100001, 255}, {100003, 4097}, {131073, 65535}, {131075, 65536}, {140001, 65537}} {
		some(c, func() input { return scalePeriodic(r, pn[0], pn[1], noDeadline(next())) })
	}
	for _, l := range []int{65535, 65536, 65537, 1<<20 + 1} {
		for j := 0; j < 3; j++ {
			some(c, func() input { return scaleLongLine(r, l, j, next()) })
		}
	}
	for _, s := range []int{1023, 1024, 1025, 4095, 4096, 4097, 65535, 65536, 65537} {
		for j := 0; j < 3; j++ {
			some(c, func() input { return scaleSize(r, s, j, next()) })
		}
	}
	// 10^6 lines: all distinct (identifiers up to 1 002 048 after the shift, still code points) and periodic
	if c.Tier == "thorough" {
		some(c, func() input { return scaleAsc(r, 1000003, bigCfg{cleanup: true, timeout: 1000}) })
		some(c, func() input { return scalePeriodic(r, 1000000, 65537, bigCfg{timeout: 1000}) })
	}
}

// some emits the case; the search tier (other seeds after a correspondence break) takes a random quarter of the
// deterministic thorough grid per run, so that one search run stays around a minute
func some(c *Config, f func() input) {
	if c.Tier == "search" && c.Rng.Intn(4) != 0 {
		return
	}
	emit(c, f())
}

func generateBig(c *Config) {
	generateIds(c)
	generateScale(c)
}
