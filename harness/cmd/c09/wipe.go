// Round-3 streams of the C09 harness.
//
// "View" histories: conflict-free line histories like harness/synth.Hist, generalised so that files can disappear and be
// binary - both decided by the set of alive lines, so every merge stays conflict free by construction:
//   - a line may have several killers (two branches may delete the same line independently);
//   - with emptyGone a path without an alive line is ABSENT from the tree (the file is deleted), without it the file
//     stays as an empty blob;
//   - a line may carry a NUL byte: a path with such a line alive is a binary blob (not tracked by the burndown analysis);
//     inserting / killing that line flips the file between text and binary.
//
// Kinds built on them:
//   - wipe: some commit removes every tracked (text) file of its branch - all files deleted, all text files deleted and
//     only binary files left, every text file flipped to binary, or a mixture - while the arena is not empty; the branch
//     then idles (a fork point with arms of different lengths, hibernation distances 1..4), and is used again by an
//     insertion, a binary-only commit followed by a fork / another hibernation, or a merge.  All hibernation settings.
//   - truncall: the temp file of ONE hibernated branch (chosen by the digest of its bytes, so independent of the branch
//     numbering of the planner) is truncated to EVERY length 0 .. size-1, one run each; victims are files whose arena has
//     free nodes (non-empty last section) when there are any.
package main

import (
	"crypto/sha1"
	"encoding/hex"
	"fmt"
	"io/ioutil"
	"math/rand"
	"os"
	"sort"
	"strings"
	"time"

	. "verifharness/lib"
	"verifharness/synth"
)

type vLine struct {
	id, born int
	nul      bool
	killers  []int
	// also: further commits that insert the very same line independently (a change that was cherry-picked to several
	// concurrent branches); the line exists once any of born / also is an ancestor
	also []int
}

type vHist struct {
	parents   [][]int
	tick      []int
	author    []int
	paths     []string
	seqs      map[string][]*vLine
	emptyGone bool
	anc       []map[int]bool
	note      string // generator features (development aid, not serialised)
}

// viewOf marks the placeholder synth.Hist values that stand for view histories (as scaleOf does for the scale family)
var viewOf = map[*synth.Hist]*vHist{}

func mkView(v *vHist) *synth.Hist {
	h := &synth.Hist{N: len(v.parents)}
	viewOf[h] = v
	return h
}

func (v *vHist) n() int { return len(v.parents) }

func (v *vHist) ancs() []map[int]bool {
	if len(v.anc) == v.n() {
		return v.anc
	}
	v.anc = nil
	for c := 0; c < v.n(); c++ {
		a := map[int]bool{c: true}
		for _, p := range v.parents[c] {
			for x := range v.anc[p] {
				a[x] = true
			}
		}
		v.anc = append(v.anc, a)
	}
	return v.anc
}

func (v *vHist) alive(c int, l *vLine) bool {
	a := v.ancs()[c]
	if !l.bornIn(a) {
		return false
	}
	for _, k := range l.killers {
		if a[k] {
			return false
		}
	}
	return true
}

func (l *vLine) bornIn(a map[int]bool) bool {
	if a[l.born] {
		return true
	}
	for _, b := range l.also {
		if a[b] {
			return true
		}
	}
	return false
}

// content returns the blob of path at commit c, whether the path is in the tree and whether it is a text file with at
// least one line.
func (v *vHist) content(c int, path string) (data []byte, exists, text bool) {
	var sb strings.Builder
	a := v.ancs()[c]
	born, any, nul := false, false, false
	for _, l := range v.seqs[path] {
		if l.bornIn(a) {
			born = true
		}
		if v.alive(c, l) {
			any = true
			if l.nul {
				nul = true
				fmt.Fprintf(&sb, "L%d\x00\n", l.id)
			} else {
				fmt.Fprintf(&sb, "L%d\n", l.id)
			}
		}
	}
	exists = born
	if v.emptyGone {
		exists = any
	}
	return []byte(sb.String()), exists, exists && !nul
}

// textFiles counts the text files (tracked by the burndown analysis) in the tree of commit c.
func (v *vHist) textFiles(c int) int {
	n := 0
	for _, p := range v.paths {
		if _, ex, text := v.content(c, p); ex && text {
			n++
		}
	}
	return n
}

func (v *vHist) specs() []synth.CommitSpec {
	var cs []synth.CommitSpec
	for c := 0; c < v.n(); c++ {
		var files []synth.FileSpec
		for _, p := range v.paths {
			if data, ok, _ := v.content(c, p); ok {
				files = append(files, synth.FileSpec{Path: p, Data: data})
			}
		}
		au := fmt.Sprintf("dev%d", v.author[c])
		when := time.Unix(synth.BaseTime+int64(v.tick[c])*86400+int64(c), 0)
		cs = append(cs, synth.CommitSpec{Parents: v.parents[c], AuthorName: au, AuthorEmail: au + "@x", AuthorWhen: when, Files: files})
	}
	return cs
}

// (hist (view (emptygone 0|1) (parents (..) ..) (ticks ..) (authors ..) (paths (a (id born nul killer...) ...) ...)))
func (v *vHist) sx() Sx {
	ps := make([]Sx, v.n())
	for i, p := range v.parents {
		ps[i] = Ints(p)
	}
	var paths []Sx
	for _, p := range v.paths {
		items := []Sx{A(p)}
		for _, l := range v.seqs[p] {
			f := []Sx{I(l.id), I(l.born), B(l.nul)}
			for _, k := range l.killers {
				f = append(f, I(k))
			}
			if len(l.also) > 0 {
				f = append(f, T("also", Ints(l.also).List...))
			}
			items = append(items, L(f...))
		}
		paths = append(paths, L(items...))
	}
	return T("hist", T("view", T("emptygone", B(v.emptyGone)), T("parents", ps...), T("ticks", Ints(v.tick).List...),
		T("authors", Ints(v.author).List...), T("paths", paths...)))
}

func viewFromSx(s Sx) (*vHist, bool) {
	vs, ok := s.Field("view")
	if !ok {
		return nil, false
	}
	get := func(t string) Sx {
		f, ok := vs.Field(t)
		if !ok {
			panic("replay: view history without " + t)
		}
		return f
	}
	v := &vHist{seqs: map[string][]*vLine{}}
	v.emptyGone = get("emptygone").Args()[0].Int() != 0
	for _, p := range get("parents").Args() {
		ps := []int{}
		for _, x := range p.List {
			ps = append(ps, x.Int())
		}
		v.parents = append(v.parents, ps)
	}
	for _, x := range get("ticks").Args() {
		v.tick = append(v.tick, x.Int())
	}
	for _, x := range get("authors").Args() {
		v.author = append(v.author, x.Int())
	}
	for _, p := range get("paths").Args() {
		name := p.List[0].Atom
		v.paths = append(v.paths, name)
		for _, l := range p.List[1:] {
			ln := &vLine{id: l.List[0].Int(), born: l.List[1].Int(), nul: l.List[2].Int() != 0}
			for _, k := range l.List[3:] {
				if k.Tag() == "also" {
					for _, b := range k.Args() {
						ln.also = append(ln.also, b.Int())
					}
					continue
				}
				ln.killers = append(ln.killers, k.Int())
			}
			v.seqs[name] = append(v.seqs[name], ln)
		}
	}
	return v, true
}

// ---------------------------------------------------------------------------------------------
// generator

type viewGen struct {
	rng    *rand.Rand
	v      *vHist
	nextID int
	tick   int
	// wiped[c]: commit c (or an ancestor on its first-parent chain with only binary-only commits in between) removed
	// every text file
	wiped []bool
}

func (g *viewGen) insert(c int, path string, run int, nul bool) {
	v := g.v
	pos := g.rng.Intn(len(v.seqs[path]) + 1)
	var ins []*vLine
	for j := 0; j < run; j++ {
		ins = append(ins, &vLine{id: g.nextID, born: c, nul: nul && j == 0})
		g.nextID++
	}
	s := append([]*vLine{}, v.seqs[path][:pos]...)
	s = append(s, ins...)
	s = append(s, v.seqs[path][pos:]...)
	v.seqs[path] = s
}

// binaryPaths / textPaths of the tree of commit c as it stands now (c itself may still be under construction)
func (g *viewGen) pathsBy(c int) (text, bin, absent []string) {
	for _, p := range g.v.paths {
		_, ex, tx := g.v.content(c, p)
		switch {
		case !ex:
			absent = append(absent, p)
		case tx:
			text = append(text, p)
		default:
			bin = append(bin, p)
		}
	}
	return
}

func (g *viewGen) killAll(c int, path string) {
	for _, l := range g.v.seqs[path] {
		if l.born != c && g.v.alive(c, l) {
			l.killers = append(l.killers, c)
		}
	}
}

// addCommit: kind "" = draw one.  Kinds: normal (kills 1/6 of the alive lines, 1-3 runs of fresh lines), wipe-all (every
// file deleted), wipe-text (every text file deleted, binary files stay; a binary file is created when there is none),
// wipe-flip (every text file gets a NUL line: all become binary), wipe-mix (each text file deleted or flipped), binonly
// (only a binary file changes or appears).
func (g *viewGen) addCommit(ps []int, kind string) {
	v, rng := g.v, g.rng
	c := v.n()
	v.parents = append(v.parents, append([]int{}, ps...))
	v.anc = nil
	if c > 0 && rng.Intn(3) > 0 {
		g.tick += rng.Intn(3)
	}
	v.tick = append(v.tick, g.tick)
	v.author = append(v.author, rng.Intn(3))
	merge := len(ps) > 1
	g.wiped = append(g.wiped, false)
	switch {
	case merge:
		if rng.Intn(3) == 0 {
			g.insert(c, v.paths[rng.Intn(len(v.paths))], 1+rng.Intn(3), false)
		}
		return
	case len(ps) == 0:
		if c == 0 && rng.Intn(8) == 0 {
			// the history starts with a binary file only: nothing is tracked and the arena is still empty
			g.insert(c, v.paths[len(v.paths)-1], 1+rng.Intn(2), true)
			return
		}
		for i := 0; i < 3; i++ {
			g.insert(c, v.paths[rng.Intn(len(v.paths)-1)], 1+rng.Intn(3), false)
		}
		if c == 0 && rng.Intn(2) == 0 {
			// a binary file from the start
			g.insert(c, v.paths[len(v.paths)-1], 1+rng.Intn(2), true)
		}
		return
	}
	binFile := func() {
		_, bin, absent := g.pathsBy(c)
		switch {
		case len(bin) > 0 && rng.Intn(3) > 0:
			g.insert(c, bin[rng.Intn(len(bin))], 1, false)
		case len(absent) > 0:
			g.insert(c, absent[rng.Intn(len(absent))], 1+rng.Intn(2), true)
		case len(bin) > 0:
			g.insert(c, bin[rng.Intn(len(bin))], 1, false)
		}
	}
	switch kind {
	case "wipe-all":
		for _, p := range v.paths {
			g.killAll(c, p)
		}
		g.wiped[c] = true
	case "wipe-text":
		text, bin, _ := g.pathsBy(c)
		for _, p := range text {
			g.killAll(c, p)
		}
		if len(bin) == 0 || rng.Intn(3) == 0 {
			binFile()
		}
		g.wiped[c] = true
	case "wipe-flip":
		text, _, _ := g.pathsBy(c)
		for _, p := range text {
			g.insert(c, p, 1, true)
		}
		g.wiped[c] = true
	case "wipe-mix":
		text, _, _ := g.pathsBy(c)
		for _, p := range text {
			if rng.Intn(2) == 0 {
				g.killAll(c, p)
			} else {
				g.insert(c, p, 1, true)
			}
		}
		g.wiped[c] = true
	case "binonly":
		binFile()
		g.wiped[c] = g.wiped[ps[0]]
	default:
		for _, p := range v.paths {
			for _, l := range v.seqs[p] {
				if l.born != c && v.alive(c, l) && rng.Intn(6) == 0 {
					l.killers = append(l.killers, c)
				}
			}
		}
		for i := 1 + rng.Intn(3); i > 0; i-- {
			g.insert(c, v.paths[rng.Intn(len(v.paths))], 1+rng.Intn(3), false)
		}
	}
}

var wipeKinds = []string{"wipe-all", "wipe-text", "wipe-text", "wipe-flip", "wipe-mix"}

// own: a commit of an arm touches only the arm's own file (created by the arm): a run of fresh lines, the first of them
// with a NUL byte when the file is to be binary.
func (g *viewGen) own(ps []int, path string, binary bool) int {
	v, rng := g.v, g.rng
	c := v.n()
	v.parents = append(v.parents, append([]int{}, ps...))
	v.anc = nil
	if rng.Intn(3) > 0 {
		g.tick += rng.Intn(3)
	}
	v.tick = append(v.tick, g.tick)
	v.author = append(v.author, rng.Intn(3))
	g.wiped = append(g.wiped, false)
	if len(ps) == 1 && path != "" {
		fresh := true
		for _, l := range v.seqs[path] {
			if v.alive(c, l) {
				fresh = false
			}
		}
		g.insert(c, path, 1+rng.Intn(3), binary && fresh)
		if !fresh && rng.Intn(3) == 0 {
			// and a line of the own file goes
			for _, l := range v.seqs[path] {
				if l.born != c && !l.nul && v.alive(c, l) {
					l.killers = append(l.killers, c)
					break
				}
			}
		}
	}
	return c
}

// genWipe draws a view history in which some branch tracks NO file while its arena is not empty, idles, and is used
// again.  To keep the result independent of the order in which the planner replays concurrent branches, concurrent
// commits never touch the same file: a trunk (commits comparable with every other commit) edits any file; at a fan of
// 2..4 arms every arm works on a file of its own; at most one arm of a fan removes the files that existed before the fan.
//
//	trunk of 1..2 commits; then 1..2 times: [the fork point removes every text file (mode T)] - fan - [the first commit of
//	one arm removes every file that exists (mode A)] - arm commits on own text / binary files (after a removal a binary
//	file with probability 1/2, so the branch keeps tracking nothing; an arm may split into two sub-arms that merge back:
//	the branch is forked while it tracks nothing) - merge of the arm tips - tail of 0..2 trunk commits.
func genWipe(rng *rand.Rand) *vHist {
	v := &vHist{seqs: map[string][]*vLine{}, emptyGone: true, paths: []string{"a", "b", "c", "z"}}
	g := &viewGen{rng: rng, v: v}
	g.addCommit(nil, "")
	tip := 0
	for i := rng.Intn(2); i > 0; i-- {
		g.addCommit([]int{tip}, "normal")
		tip = v.n() - 1
	}
	nfile := 0
	for sec := 1 + rng.Intn(2); sec > 0; sec-- {
		// (a removal inside ONE arm of files that the other arms keep makes the result of the analysis depend on the order
		// in which the planner replays and merges the arms - with or without hibernation -, so it is not generated: an arm
		// only ever removes its own file, mode O)
		mode := []string{"T", "T", "TO", "TO", "O", "N"}[rng.Intn(6)]
		v.note += " mode" + mode
		if strings.Contains(mode, "T") {
			wk := wipeKinds[rng.Intn(len(wipeKinds))]
			v.note += " " + wk
			g.addCommit([]int{tip}, wk)
			tip = v.n() - 1
		}
		k := 2 + rng.Intn(3)
		type arm struct {
			tip, left int
			file      string
			binary    bool
			wipe      bool // some commit of the arm removes the arm's own file again
			forky     bool
			empty     bool // tracks nothing so far
		}
		arms := make([]*arm, k)
		total := 0
		var subFiles []string
		for j := range arms {
			nfile++
			arms[j] = &arm{tip: tip, left: 1 + rng.Intn(4), file: fmt.Sprintf("x%d", nfile), forky: rng.Intn(4) == 0,
				empty: strings.Contains(mode, "T")}
			total += arms[j].left
		}
		if strings.Contains(mode, "O") {
			for _, a := range arms {
				a.wipe = rng.Intn(2) == 0
			}
		}
		for total > 0 {
			a := arms[rng.Intn(k)]
			if a.left == 0 {
				continue
			}
			a.left--
			total--
			switch {
			case a.wipe && a.tip != tip && !a.binary && len(v.seqs[a.file]) > 0 && rng.Intn(2) == 0:
				// the arm removes its own text file again: with mode T it tracks nothing once more, with a larger arena
				c := g.own([]int{a.tip}, "", false)
				for _, l := range v.seqs[a.file] {
					if v.alive(c, l) {
						l.killers = append(l.killers, c)
					}
				}
				a.tip = c
				a.wipe, a.empty = false, strings.Contains(mode, "T")
				v.note += " ownwipe"
			case a.forky && a.tip != tip:
				// two sub-arms of one commit each on files of their own, merged back
				nfile += 2
				subFiles = append(subFiles, fmt.Sprintf("x%d", nfile-1), fmt.Sprintf("x%d", nfile))
				s1 := g.own([]int{a.tip}, fmt.Sprintf("x%d", nfile-1), a.empty && rng.Intn(2) == 0)
				s2 := g.own([]int{a.tip}, fmt.Sprintf("x%d", nfile), a.empty && rng.Intn(2) == 0)
				a.tip = g.own([]int{s1, s2}, a.file, false)
				a.forky = false
				v.note += " forky"
			default:
				if a.empty && !a.binary && len(v.seqs[a.file]) == 0 && rng.Intn(2) == 0 {
					a.binary = true
					v.note += " bin"
				}
				a.tip = g.own([]int{a.tip}, a.file, a.binary)
				if !a.binary {
					a.empty = false
				}
			}
		}
		var tips []int
		for _, a := range arms {
			tips = append(tips, a.tip)
		}
		rng.Shuffle(len(tips), func(i, j int) { tips[i], tips[j] = tips[j], tips[i] })
		for _, a := range arms {
			v.paths = append(v.paths, a.file)
		}
		v.paths = append(v.paths, subFiles...)
		g.addCommit(tips, "")
		tip = v.n() - 1
		for i := rng.Intn(3); i > 0; i-- {
			g.addCommit([]int{tip}, "normal")
			tip = v.n() - 1
		}
	}
	return v
}

// hasWipe: some commit with a parent has no text file although an ancestor had one (so the arena of the branch is not
// empty while it tracks nothing) - a static property of the history, independent of the plan.
func (v *vHist) hasWipe() bool {
	for c := 0; c < v.n(); c++ {
		if len(v.parents[c]) != 1 || v.textFiles(c) > 0 {
			continue
		}
		for a := range v.ancs()[c] {
			if a != c && v.textFiles(a) > 0 {
				return true
			}
		}
	}
	return false
}

// stable: the run without hibernation gives one and the same result on several calls (the planner orders concurrent
// branches differently from call to call; a history whose result depends on that order belongs to C01 / C02).
func stable(h *synth.Hist, G, S int) bool { return stableN(h, G, S, 4) }

func stableN(h *synth.Hist, G, S, n int) bool {
	first := ""
	for i := 0; i < n; i++ {
		ro := doRun(h, G, S, runCfg{})
		d := ro.out.kind + ":" + ro.out.digest
		if i > 0 && d != first {
			return false
		}
		first = d
	}
	return true
}

// wipeCases: kinds wipe, wipevictim.
func wipeCases(c *Config) {
	nw := c.Count(12, 250)
	for i := 0; i < nw; i++ {
		var h *synth.Hist
		G := 1 + c.Rng.Intn(3)
		S := 1 + c.Rng.Intn(G)
		for try := 0; ; try++ {
			v := genWipe(c.Rng)
			h = mkView(v)
			if (v.hasWipe() || i%6 == 5) && (stable(h, G, S) || try > 20) {
				break
			}
			delete(viewOf, h)
		}
		seen := sizesSeen(h, G, S, 1)
		pick := c.Rng.Intn(1 << 20)
		s := 2
		if len(seen) > 0 {
			s = seen[pick%len(seen)]
		}
		for dist := 1; dist <= 4; dist++ {
			for _, thr := range []int{0, 1, s, 1 << 30, -1} {
				for _, disk := range []bool{false, true} {
					if (thr == 1<<30 || thr == -1) && dist > 1 {
						continue
					}
					emitCase(c, caseIn{"wipe", h, G, S, runCfg{dist: dist, thr: thr, disk: disk, fault: "none", wrap: c.Rng.Intn(4) != 0}})
				}
			}
		}
		// one damaged file: the arena of a branch that tracks nothing is all free nodes
		for _, mode := range []string{"remove", "minus1"} {
			emitCase(c, caseIn{"wipevictim", h, G, S, runCfg{dist: 1 + c.Rng.Intn(2), thr: 0, disk: true, fault: "tamper",
				tamper: &tamperSpec{mode: mode, skip: c.Rng.Intn(2), victim: 1 + c.Rng.Intn(3), minFiles: 1, at: "consume"}, wrap: c.Rng.Intn(3) != 0}})
		}
	}
}

// ---------------------------------------------------------------------------------------------
// truncall

// fileLayout parses the head of a hibernation file: arena length, number of free nodes, and the offset at which the
// payload of the last section (the free-node list) starts.  ok = false when the bytes do not parse.
func fileLayout(file []byte) (arena, gaps, lastPayload int, ok bool) {
	pos := 0
	varint := func() (int, bool) {
		if pos >= len(file) {
			return 0, false
		}
		v := int(file[pos] & 0x7f)
		for file[pos]&0x80 != 0 {
			pos++
			if pos >= len(file) {
				return 0, false
			}
			v = ((v + 1) << 7) + int(file[pos]&0x7f)
		}
		pos++
		return v, true
	}
	var good bool
	if arena, good = varint(); !good {
		return
	}
	if gaps, good = varint(); !good {
		return
	}
	for sec := 0; sec < 7; sec++ {
		n, good := varint()
		if !good {
			return
		}
		lastPayload = pos
		pos += n
	}
	ok = pos == len(file)
	return
}

type victimFile struct {
	digest                   string
	size, arena, gaps, last7 int
}

func digestOfFile(path string) (string, []byte) {
	data, err := ioutil.ReadFile(path)
	if err != nil {
		return "", nil
	}
	sum := sha1.Sum(data)
	return hex.EncodeToString(sum[:8]), data
}

// filesWritten: the distinct temp files a probing run wrote (the wrapper looks at every file right after Hibernate).
func filesWritten(ro runObs) []victimFile {
	seen := map[string]bool{}
	var res []victimFile
	for _, f := range ro.rec.written {
		if !seen[f.digest] {
			seen[f.digest] = true
			res = append(res, f)
		}
	}
	sort.Slice(res, func(i, j int) bool {
		if res[i].size != res[j].size {
			return res[i].size < res[j].size
		}
		return res[i].digest < res[j].digest
	})
	return res
}

// truncAllCases: kind truncall.  For a handful of small histories: one probing run (distance 1 or 2, threshold 0, on
// disk), up to maxVictims of the files it wrote (the smallest and the largest with free nodes, then one without), and
// for each of them one complete run per truncation length 0 .. size-1.
func truncAllCases(c *Config) {
	nh := c.Count(3, 40)
	maxSize := 260
	maxVictims := 2
	if c.Thorough() {
		maxSize, maxVictims = 2500, 3
	}
	for i := 0; i < nh; i++ {
		var h *synth.Hist
		var G, S, dist int
		var victims []victimFile
		for try := 0; try < 30; try++ {
			if i%2 == 0 {
				h = mkView(genWipe(c.Rng))
				G = 1 + c.Rng.Intn(3)
				S = 1 + c.Rng.Intn(G)
				if !stable(h, G, S) {
					continue
				}
			} else {
				h, G, S = genHist(c, 6+c.Rng.Intn(6))
			}
			dist = 1 + c.Rng.Intn(2)
			// the files that EVERY one of four probing runs writes: the planner numbers and orders concurrent branches
			// differently from call to call, a victim must not depend on that
			freq := map[string]int{}
			var all []victimFile
			const probes = 4
			for k := 0; k < probes; k++ {
				ro := doRun(h, G, S, runCfg{dist: dist, thr: 0, disk: true, fault: "none", wrap: true, spy: true})
				for _, f := range filesWritten(ro) {
					if freq[f.digest] == 0 {
						all = append(all, f)
					}
					freq[f.digest]++
				}
			}
			sort.Slice(all, func(i, j int) bool {
				if all[i].size != all[j].size {
					return all[i].size < all[j].size
				}
				return all[i].digest < all[j].digest
			})
			var gappy, plain []victimFile
			for _, f := range all {
				if f.size > maxSize || freq[f.digest] < probes {
					continue
				}
				if f.gaps > 0 {
					gappy = append(gappy, f)
				} else {
					plain = append(plain, f)
				}
			}
			if len(gappy) == 0 {
				continue
			}
			victims = []victimFile{gappy[0]}
			if len(gappy) > 1 {
				victims = append(victims, gappy[len(gappy)-1])
			}
			if len(plain) > 0 && (len(victims) < maxVictims || maxVictims > 2) {
				victims = append(victims, plain[0])
			}
			if len(victims) > maxVictims {
				victims = victims[:maxVictims]
			}
			break
		}
		for _, vf := range victims {
			for l := 0; l < vf.size; l++ {
				emitCase(c, caseIn{"truncall", h, G, S, runCfg{dist: dist, thr: 0, disk: true, fault: "tamper",
					tamper: &tamperSpec{mode: "to", toLen: l, digest: vf.digest, at: "step"}, wrap: l%3 != 2}})
			}
		}
	}
}

// ---------------------------------------------------------------------------------------------
// rerun (R3-1 object re-use, R3-2 error paths): the SAME deployed BurndownAnalysis instance - in every third case the SAME
// Pipeline object as well, otherwise a fresh Pipeline around it - goes through Initialize + Run twice; the prior run
// analyses the same history, a parent-closed prefix of it, or (fresh Pipeline) another history.  The prior run uses hibernation and succeeds, or fails (a temp file removed / truncated, a
// directory that does not exist) and leaves sleeping branches and their temp files behind; then the run of the case
// (another distance / threshold / memory or disk, a fresh directory, no fault) is judged like any other run: the result
// of the run without hibernation on a fresh instance, nothing left in its directory.
func rerunCases(c *Config) {
	nr := c.Count(5, 100)
	for i := 0; i < nr; i++ {
		var h *synth.Hist
		var G, S int
		if i%3 == 2 {
			G = 1 + c.Rng.Intn(3)
			S = 1 + c.Rng.Intn(G)
			for try := 0; try < 20; try++ {
				h = mkView(genWipe(c.Rng))
				if stable(h, G, S) {
					break
				}
			}
		} else {
			h, G, S = genHist(c, 6+c.Rng.Intn(8))
		}
		tam := func() *runCfg {
			return &runCfg{dist: 1 + c.Rng.Intn(2), thr: 0, disk: true, fault: "tamper", cleanDir: c.Rng.Intn(2) == 0,
				tamper: &tamperSpec{mode: []string{"remove", "minus1", "trunc0"}[c.Rng.Intn(3)], skip: c.Rng.Intn(3), victim: c.Rng.Intn(4), minFiles: 1, at: "consume"}}
		}
		priors := []*runCfg{
			{dist: 1 + c.Rng.Intn(3), thr: c.Rng.Intn(2), disk: false, fault: "none"},
			{dist: 1 + c.Rng.Intn(3), thr: c.Rng.Intn(2), disk: true, fault: "none"},
			{dist: 1 + c.Rng.Intn(3), thr: 0, disk: true, fault: "nodir"},
			tam(), tam(), tam(), tam(), tam(),
		}
		// every second prior run analyses ANOTHER history (same granularity and sampling)
		other, _, _ := genHist(c, 6+c.Rng.Intn(8))
		for k, pc := range priors {
			switch {
			case k%3 == 1:
				// the Pipeline object is used again as well
				pc.samePipe = true
			case k%2 == 1 || k == 0:
				pc.hist = other
			}
			if pc.hist == nil && c.Rng.Intn(2) == 0 {
				// the prior run analyses a prefix of the history only
				pc.upto = 2 + c.Rng.Intn(h.N)
			}
			cfg := runCfg{dist: 1 + c.Rng.Intn(3), thr: c.Rng.Intn(2), disk: k%2 == 0, fault: "none", wrap: c.Rng.Intn(4) != 0, prior: pc}
			if k == len(priors)-1 {
				cfg.dist = 0
			}
			emitCase(c, caseIn{"rerun", h, G, S, cfg})
		}
	}
}

// stabilityExperiment (C09_ONLY=stability): which generator features make the result depend on the planner's choices
func stabilityExperiment(c *Config) {
	for i := 0; i < 150; i++ {
		v := genWipe(c.Rng)
		if os.Getenv("C09_ONLY") == "pickstab" {
			v = genPicked(c.Rng)
		}
		h := mkView(v)
		res := map[string]int{}
		for k := 0; k < 12; k++ {
			ro := doRun(h, 1, 1, runCfg{})
			res[ro.out.kind+":"+ro.out.digest]++
		}
		fmt.Fprintf(os.Stderr, "stab %d results=%d n=%d%s\n", i, len(res), v.n(), v.note)
	}
}
