(* C18 - combining results.  Only statements closed by [exact] and their assumptions. *)
From Coq Require Import List ZArith Bool.
From Herc Require Import Combine.Model Combine.Spec Combine.DevsProofs Combine.CommonProofs.
Import ListNotations.
Open Scope Z_scope.

(* Developer statistics: whenever DevsAnalysis.MergeResults returns a result, every figure (commits, added,
   removed, changed lines, and the same per language) stored for tick t and developer k is the sum of the
   input figures whose tick, shifted by the offset of their result, is t and whose developer is sent to k by
   the identity table; the totals over all ticks and developers are the sums of the inputs' totals. *)
Theorem C18_devs_conserve : forall people merged r1 r2 c1 c2 m,
  devs_merge people merged r1 r2 c1 c2 = Ok m ->
  exists o1 o2,
    tick_offsets (c_begin c1) (c_begin c2) (dr_ticksize r1) = Ok (o1, o2) /\
    dr_ticksize r1 = dr_ticksize r2 /\ dr_ticksize m = dr_ticksize r1 /\ dr_people m = merged /\
    (forall f, dv_total f (dr_ticks m) = dv_total f (dr_ticks r1) + dv_total f (dr_ticks r2)) /\
    (forall f t k, out_cell f t k (dr_ticks m) =
                   in_sum f people (dr_people r1) o1 t k (dr_ticks r1) +
                   in_sum f people (dr_people r2) o2 t k (dr_ticks r2)) /\
    dv_maps_ok (dr_ticks m) = true.
Proof. exact devs_merge_conserve. Qed.
Print Assumptions C18_devs_conserve.
