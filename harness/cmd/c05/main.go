// Harness for C05: drives 1-3 real rbtree.RBTree on ONE real rbtree.Allocator with generated operation
// sequences and records, after every operation, the result, the change of the whole arena (all
// cells, gaps), the tree headers and what the live iterators point at.
//
// Input of a case: (ntrees N) (ops ...).  Iterators live in 4 registers; operations name registers,
// never node indexes (malloc takes an arbitrary gap, so indexes differ from run to run):
//
//	(ins t k v r)  Insert into tree t, the returned iterator goes to register r (r<0: dropped)
//	(delk t k)     DeleteWithKey
//	(deli r)       DeleteWithIterator(register r) on the register's tree
//	(fge t k r) (fle t k r) (min t r) (max t r)   FindGE / FindLE / Min / Max into register r
//	(next r) (prev r)                            register r = register r .Next() / .Prev()
//	(get t k) (len t) (erase t) (clone s d)      trees[d] = trees[s].CloneDeep(allocator), only when trees[d] is empty
//
// An operation on a register that is not valid (never set, or its element was deleted) is skipped
// and recorded as (skip); this keeps every sub-sequence of a case meaningful for shrinking.
package main

import (
	"fmt"
	"os"
	"sort"
	"sync"
	"time"

	"gopkg.in/src-d/hercules.v10/verifapi"
	. "verifharness/lib"
)

const nregs = 4
const negLimit = 4294967295

type op struct {
	kind       string
	t, k, v, r int
	a          []int // all arguments (replayed operations and the macro operations of scale.go)
}

func (o op) sx() Sx {
	if o.a != nil || macroKinds[o.kind] {
		l := make([]Sx, len(o.a))
		for i, x := range o.a {
			l[i] = I(x)
		}
		return T(o.kind, l...)
	}
	switch o.kind {
	case "ins":
		return T(o.kind, I(o.t), I(o.k), I(o.v), I(o.r))
	case "delk", "get":
		return T(o.kind, I(o.t), I(o.k))
	case "fge", "fle":
		return T(o.kind, I(o.t), I(o.k), I(o.r))
	case "min", "max":
		return T(o.kind, I(o.t), I(o.r))
	case "deli", "next", "prev":
		return T(o.kind, I(o.r))
	case "len", "erase", "fork", "hib":
		return T(o.kind, I(o.t))
	case "clone":
		return T(o.kind, I(o.t), I(o.k))
	}
	panic("bad op " + o.kind)
}

func parseOp(s Sx) op {
	a := s.Args()
	g := func(i int) int {
		if i < len(a) {
			return a[i].Int()
		}
		return 0
	}
	o := op{kind: s.Tag(), a: []int{}}
	for _, x := range a {
		o.a = append(o.a, x.Int())
	}
	if macroKinds[o.kind] {
		return o
	}
	switch o.kind {
	case "ins":
		o.t, o.k, o.v, o.r = g(0), g(1), g(2), g(3)
	case "delk", "get":
		o.t, o.k = g(0), g(1)
	case "fge", "fle":
		o.t, o.k, o.r = g(0), g(1), g(2)
	case "min", "max":
		o.t, o.r = g(0), g(1)
	case "deli", "next", "prev":
		o.r = g(0)
	case "len", "erase", "fork", "hib":
		o.t = g(0)
	case "clone":
		o.t, o.k = g(0), g(1)
	default:
		panic("unknown op " + o.kind)
	}
	return o
}

type reg struct {
	valid bool
	t     int
	it    verifapi.Iterator
	elem  bool // points at an element (not Limit / NegativeLimit)
	key   uint32
}

// A world is 1..maxArenas allocators ("arenas"); arena 0 is the allocator the case starts with, every
// (fork a) adds the arena Allocator.Clone() of arena a with the CloneShallow() of each of its trees.  Every
// arena owns nt trees: the trees of arena j have the (global) indexes j*nt .. j*nt+nt-1.
const maxArenas = 4

type world struct {
	nt     int
	allocs []*verifapi.Allocator
	trees  []*verifapi.RBTree
	regs   [nregs]reg
	prev   []verifapi.VerifAllocatorSnapshot
	first  []bool
	prevH  []verifapi.VerifTreeHeader
	seenH  []bool
	nIns   int
	nDel   int
	broken bool
}

func newWorld(n int) *world {
	w := &world{nt: n}
	w.addArena(verifapi.NewAllocator())
	for i := 0; i < n; i++ {
		w.trees = append(w.trees, verifapi.NewRBTree(w.allocs[0]))
	}
	return w
}

func (w *world) addArena(a *verifapi.Allocator) {
	w.allocs = append(w.allocs, a)
	w.prev = append(w.prev, verifapi.VerifAllocatorSnapshot{})
	w.first = append(w.first, true)
	w.prevH = append(w.prevH, make([]verifapi.VerifTreeHeader, w.nt)...)
	w.seenH = append(w.seenH, make([]bool, w.nt)...)
}

func (w *world) setReg(r, t int, it verifapi.Iterator) {
	if r < 0 || r >= nregs {
		return
	}
	x := reg{valid: true, t: t, it: it}
	if item := it.Item(); item != nil {
		x.elem = true
		x.key = item.Key
	}
	w.regs[r] = x
}

// delta of the arenas, the headers and the registers since the previous operation.  The fields of arena 0
// are fields of the observation itself; those of arena j > 0 are wrapped in (ar j ...), with (used n) = Used().
func (w *world) delta() []Sx {
	var out []Sx
	for a := range w.allocs {
		f := w.deltaArena(a)
		if a == 0 {
			out = append(out, f...)
		} else {
			out = append(out, T("ar", append([]Sx{I(a)}, f...)...))
		}
	}
	var rg []Sx
	for r := range w.regs {
		x := &w.regs[r]
		if x.valid && x.elem {
			item := x.it.Item()
			rg = append(rg, L(I(r), I(x.t), U64(uint64(x.it.VerifNode())), U64(uint64(item.Key)), U64(uint64(item.Value))))
		}
	}
	out = append(out, T("rg", rg...))
	return out
}

func (w *world) deltaArena(a int) []Sx {
	var out []Sx
	s := w.allocs[a].VerifSnapshot()
	prev := w.prev[a]
	out = append(out, T("sz", I(len(s.Storage))))
	var cells []Sx
	for i, c := range s.Storage {
		if i < len(prev.Storage) && prev.Storage[i] == c {
			continue
		}
		if i >= len(prev.Storage) && c == (verifapi.VerifNode{}) {
			continue
		}
		col := 0
		if c.Color {
			col = 1
		}
		cells = append(cells, L(I(i), U64(uint64(c.Key)), U64(uint64(c.Value)), U64(uint64(c.Parent)), U64(uint64(c.Left)), U64(uint64(c.Right)), I(col)))
	}
	out = append(out, T("d", cells...))
	same := !w.first[a] && len(s.Gaps) == len(prev.Gaps)
	if same {
		for i := range s.Gaps {
			if s.Gaps[i] != prev.Gaps[i] {
				same = false
				break
			}
		}
	}
	if !same {
		g := make([]Sx, len(s.Gaps))
		for i, x := range s.Gaps {
			g[i] = U64(uint64(x))
		}
		out = append(out, T("g", g...))
	}
	for t := a * w.nt; t < (a+1)*w.nt; t++ {
		h := w.trees[t].VerifHeader()
		if !w.seenH[t] || h != w.prevH[t] {
			out = append(out, T("h", I(t), U64(uint64(h.Root)), U64(uint64(h.MinNode)), U64(uint64(h.MaxNode)), I(int(h.Count))))
			w.prevH[t] = h
			w.seenH[t] = true
		}
	}
	if len(w.allocs) > 1 {
		out = append(out, T("used", I(w.allocs[a].Used())))
	}
	w.prev[a] = s
	w.first[a] = false
	return out
}

func (w *world) exec(o op) Sx {
	nt := len(w.trees)
	okT := func(t int) bool { return t >= 0 && t < nt }
	okR := func(r int) bool { return r >= 0 && r < nregs && w.regs[r].valid }
	switch o.kind {
	case "ins":
		if !okT(o.t) {
			return T("skip")
		}
		ok, it := w.trees[o.t].Insert(verifapi.Item{Key: uint32(o.k), Value: uint32(o.v)})
		if ok {
			w.nIns++
			w.setReg(o.r, o.t, it)
		}
		return T("ins", B(ok), U64(uint64(it.VerifNode())))
	case "delk":
		if !okT(o.t) {
			return T("skip")
		}
		ok := w.trees[o.t].DeleteWithKey(uint32(o.k))
		if ok {
			w.nDel++
			for r := range w.regs {
				x := &w.regs[r]
				if x.valid && x.elem && x.t == o.t && x.key == uint32(o.k) {
					x.valid = false
				}
			}
		}
		return T("b", B(ok))
	case "deli":
		if !okR(o.r) {
			return T("skip")
		}
		x := w.regs[o.r]
		node := x.it.VerifNode()
		if !x.elem {
			// REQUIRES violated: the assertion must fire before anything is touched
			_, p := Catch(func() { w.trees[x.t].DeleteWithIterator(x.it) })
			if p {
				return T("deli", I(x.t), U64(uint64(node)), A("panic"))
			}
			w.broken = true
			return T("deli", I(x.t), U64(uint64(node)), A("nopanic"))
		}
		w.trees[x.t].DeleteWithIterator(x.it)
		w.nDel++
		for r := range w.regs {
			y := &w.regs[r]
			if y.valid && y.elem && y.t == x.t && y.it.VerifNode() == node {
				y.valid = false
			}
		}
		return T("deli", I(x.t), U64(uint64(node)))
	case "fge", "fle", "min", "max":
		if !okT(o.t) {
			return T("skip")
		}
		var it verifapi.Iterator
		switch o.kind {
		case "fge":
			it = w.trees[o.t].FindGE(uint32(o.k))
		case "fle":
			it = w.trees[o.t].FindLE(uint32(o.k))
		case "min":
			it = w.trees[o.t].Min()
		case "max":
			it = w.trees[o.t].Max()
		}
		w.setReg(o.r, o.t, it)
		return T("it", U64(uint64(it.VerifNode())))
	case "next", "prev":
		if !okR(o.r) {
			return T("skip")
		}
		x := w.regs[o.r]
		before := x.it.VerifNode()
		var it verifapi.Iterator
		_, p := Catch(func() {
			if o.kind == "next" {
				it = x.it.Next()
			} else {
				it = x.it.Prev()
			}
		})
		if p {
			if (o.kind == "next" && before != 0) || (o.kind == "prev" && before != negLimit) {
				w.broken = true
			}
			return T("mv", I(x.t), U64(uint64(before)), A("panic"))
		}
		w.setReg(o.r, x.t, it)
		return T("mv", I(x.t), U64(uint64(before)), U64(uint64(it.VerifNode())))
	case "get":
		if !okT(o.t) {
			return T("skip")
		}
		p := w.trees[o.t].Get(uint32(o.k))
		if p == nil {
			return T("val")
		}
		return T("val", U64(uint64(*p)))
	case "len":
		if !okT(o.t) {
			return T("skip")
		}
		return T("len", I(w.trees[o.t].Len()))
	case "erase":
		if !okT(o.t) {
			return T("skip")
		}
		w.trees[o.t].Erase()
		for r := range w.regs {
			x := &w.regs[r]
			if x.valid && x.elem && x.t == o.t {
				x.valid = false
			}
		}
		return T("u")
	case "clone":
		s, d := o.t, o.k
		if !okT(s) || !okT(d) || s == d || s/w.nt != d/w.nt || w.trees[d].Len() != 0 || w.trees[d].VerifHeader().Root != 0 {
			return T("skip")
		}
		for r := range w.regs {
			if w.regs[r].t == d {
				w.regs[r].valid = false
			}
		}
		w.trees[d] = w.trees[s].CloneDeep(w.allocs[s/w.nt])
		// the indexes malloc handed out, in allocation (= in-order) order, read through the iterator API
		var ids []Sx
		n := 0
		for it := w.trees[d].Min(); !it.Limit() && n <= w.trees[s].Len(); it = it.Next() {
			ids = append(ids, U64(uint64(it.VerifNode())))
			n++
		}
		return T("clone", ids...)
	case "fork":
		// the fork idiom of leaves/burndown.go: Allocator.Clone(), then CloneShallow() of every tree
		a := o.t
		if a < 0 || a >= len(w.allocs) || len(w.allocs) >= maxArenas {
			return T("skip")
		}
		na := w.allocs[a].Clone()
		w.addArena(na)
		for t := a * w.nt; t < (a+1)*w.nt; t++ {
			w.trees = append(w.trees, w.trees[t].CloneShallow(na))
		}
		return T("fork", I(len(w.allocs)-1))
	case "hib":
		// Hibernate + Boot of the allocator under living trees and iterators: nothing may change
		a := o.t
		if a < 0 || a >= len(w.allocs) {
			return T("skip")
		}
		w.allocs[a].Hibernate()
		w.allocs[a].Boot()
		return T("u")
	}
	panic("unknown op " + o.kind)
}

// the observations of the case that is running (read by emit when an operation does not return)
type progress struct {
	mu  sync.Mutex
	obs []Sx
}

func (p *progress) put(o Sx) {
	p.mu.Lock()
	p.obs = append(p.obs, o)
	p.mu.Unlock()
}

func runCase(ntrees int, ops []op, pr *progress) (w *world) {
	w = newWorld(ntrees)
	for _, o := range ops {
		var res Sx
		msg, p := Catch(func() { res = w.exec(o) })
		if p {
			_ = msg
			pr.put(T("o", T("panic")))
			return
		}
		ob := []Sx{res}
		msg, p = Catch(func() { ob = append(ob, w.delta()...) })
		if p {
			pr.put(T("o", T("panic")))
			return
		}
		pr.put(T("o", ob...))
		if w.broken {
			return
		}
	}
	return
}

type result struct {
	obs []Sx
	w   *world
}

func emit(c *Config, kind string, ntrees int, ops []op) {
	ch := make(chan *world, 1)
	pr := &progress{}
	go func() {
		ch <- runCase(ntrees, ops, pr)
	}()
	var res result
	hang := false
	timer := time.NewTimer(15 * time.Second)
	select {
	case w := <-ch:
		timer.Stop()
		res = result{obs: pr.obs, w: w}
	case <-timer.C:
		// an operation does not terminate (a cycle in the links): report it - after the observations of
		// the operations before it - and stop: the runaway goroutine cannot be killed and may eat all
		// memory (Erase appends while it iterates)
		pr.mu.Lock()
		res = result{obs: append(append([]Sx{}, pr.obs...), T("o", T("hang"))), w: &world{}}
		pr.mu.Unlock()
		hang = true
	}
	sops := make([]Sx, len(ops))
	for i, o := range ops {
		sops[i] = o.sx()
	}
	c.Emit(T("kind", A(kind)), T("nt", B(res.w.nIns >= 3 && res.w.nDel >= 1)), T("ntrees", I(ntrees)), T("ops", sops...), T("obs", res.obs...))
	if hang {
		c.Close()
		closeSide()
		os.Exit(0)
	}
}

// ---------------------------------------------------------------------------------------------
// generators

// all sequences of exactly n insert/delete operations over nkeys keys (shorter sequences are their
// prefixes: the arena is compared after every operation)
func exhaustive(c *Config, nkeys, n int) {
	kinds := 2 * nkeys
	idx := make([]int, n)
	for {
		ops := make([]op, n)
		for i, x := range idx {
			k := 10 + 10*(x/2)
			if x%2 == 0 {
				ops[i] = op{kind: "ins", t: 0, k: k, v: k * 7, r: -1}
			} else {
				ops[i] = op{kind: "delk", t: 0, k: k}
			}
		}
		emit(c, fmt.Sprintf("ex%dk%d", n, nkeys), 1, ops)
		i := n - 1
		for i >= 0 {
			idx[i]++
			if idx[i] < kinds {
				break
			}
			idx[i] = 0
			i--
		}
		if i < 0 {
			return
		}
	}
}

type gen struct {
	c      *Config
	ntrees int
	uni    int
	mul    int
	tab    []int // when set: the universe is these keys (ascending), else i*mul
	ops    []op
}

// the i-th key of the universe
func (g *gen) kv(i int) int {
	if g.tab != nil {
		return g.tab[i]
	}
	return i * g.mul
}

func (g *gen) key() int { return g.kv(g.c.Rng.Intn(g.uni)) }

// keys at c-1, c, c+1 of the machine limits, and pairs exactly 2^31 apart
var straddlePool = []int{0, 1, 2, 5, 255, 256, 257, 32767, 32768, 32769, 65535, 65536, 65537, 1073741824,
	2147483646, 2147483647, 2147483648, 2147483649, 2147483650, 2147483653, 3221225472, 4294967291, 4294967292,
	4294967293, 4294967294, 4294967295}

func (g *gen) val() int {
	r := g.c.Rng
	switch r.Intn(8) {
	case 0:
		return negLimit - r.Intn(3)
	case 1:
		return 0
	default:
		return r.Intn(1000)
	}
}
func (g *gen) tree() int { return g.c.Rng.Intn(g.ntrees) }
func (g *gen) reg() int  { return g.c.Rng.Intn(nregs) }
func (g *gen) add(o op)  { g.ops = append(g.ops, o) }

// one random operation; insW/delW/qW weigh insertions, deletions and queries
func (g *gen) randomOp(insW, delW, qW int) {
	r := g.c.Rng
	x := r.Intn(insW + delW + qW)
	switch {
	case x < insW:
		rr := -1
		if r.Intn(4) == 0 {
			rr = g.reg()
		}
		g.add(op{kind: "ins", t: g.tree(), k: g.key(), v: g.val(), r: rr})
	case x < insW+delW:
		if r.Intn(3) == 0 {
			// position a register and delete through it
			rr := g.reg()
			t := g.tree()
			switch r.Intn(4) {
			case 0:
				g.add(op{kind: "fge", t: t, k: g.key(), r: rr})
			case 1:
				g.add(op{kind: "fle", t: t, k: g.key(), r: rr})
			case 2:
				g.add(op{kind: "min", t: t, r: rr})
			default:
				g.add(op{kind: "max", t: t, r: rr})
			}
			for j := r.Intn(4); j > 0; j-- {
				if r.Intn(2) == 0 {
					g.add(op{kind: "next", r: rr})
				} else {
					g.add(op{kind: "prev", r: rr})
				}
			}
			g.add(op{kind: "deli", r: rr})
		} else {
			g.add(op{kind: "delk", t: g.tree(), k: g.key()})
		}
	default:
		switch r.Intn(12) {
		case 0:
			g.add(op{kind: "fge", t: g.tree(), k: g.key(), r: g.reg()})
		case 1:
			g.add(op{kind: "fle", t: g.tree(), k: g.key(), r: g.reg()})
		case 2:
			g.add(op{kind: "get", t: g.tree(), k: g.key()})
		case 3:
			g.add(op{kind: "min", t: g.tree(), r: g.reg()})
		case 4:
			g.add(op{kind: "max", t: g.tree(), r: g.reg()})
		case 5, 6:
			g.add(op{kind: "next", r: g.reg()})
		case 7, 8:
			g.add(op{kind: "prev", r: g.reg()})
		case 9:
			g.add(op{kind: "len", t: g.tree()})
		case 10:
			if r.Intn(6) == 0 {
				g.add(op{kind: "erase", t: g.tree()})
			} else {
				g.add(op{kind: "deli", r: g.reg()})
			}
		case 11:
			if g.ntrees > 1 && r.Intn(3) == 0 {
				d := g.tree()
				if r.Intn(2) == 0 {
					g.add(op{kind: "erase", t: d})
				}
				g.add(op{kind: "clone", t: g.tree(), k: d})
			} else {
				// unsigned-range keys that are not in the universe
				k := []int{0, 1, negLimit, negLimit - 1, 2147483648, 2147483647}[r.Intn(6)]
				if r.Intn(2) == 0 {
					g.add(op{kind: "fge", t: g.tree(), k: k, r: g.reg()})
				} else {
					g.add(op{kind: "fle", t: g.tree(), k: k, r: g.reg()})
				}
			}
		}
	}
}

func newGen(c *Config) *gen {
	r := c.Rng
	g := &gen{c: c, ntrees: 1 + r.Intn(3), uni: 3 + r.Intn(58), mul: 1}
	switch r.Intn(8) {
	case 0, 1:
		g.mul = 71582788 // keys up to 2^32-16: comparisons must not be done in int32
	case 2, 3:
		// keys straddling 2^8, 2^15, 2^16, 2^31 and ending at 2^32-1
		if g.uni > len(straddlePool) {
			g.uni = len(straddlePool)
		}
		g.tab = append([]int{}, r.Perm(len(straddlePool))[:g.uni]...)
		for i := range g.tab {
			g.tab[i] = straddlePool[g.tab[i]]
		}
		sort.Ints(g.tab)
	}
	return g
}

// phases with different insert/delete weights so that trees grow and shrink
func random(c *Config) *gen {
	g := newGen(c)
	r := c.Rng
	n := 10 + r.Intn(391)
	if r.Intn(3) == 0 {
		n = 10 + r.Intn(60)
	}
	for len(g.ops) < n {
		insW, delW, qW := 1+r.Intn(8), 1+r.Intn(8), r.Intn(6)
		for j := 5 + r.Intn(60); j > 0 && len(g.ops) < n; j-- {
			g.randomOp(insW, delW, qW)
		}
	}
	return g
}

// fill one tree (ascending, descending or shuffled), walk it in one direction deleting elements
// through a second iterator while the first one has already moved on (the std::map idiom), then
// empty it by key
func walk(c *Config) *gen {
	g := newGen(c)
	r := c.Rng
	t := g.tree()
	n := 1 + r.Intn(g.uni)
	keys := r.Perm(g.uni)[:n]
	switch r.Intn(3) {
	case 0:
		sort.Ints(keys)
	case 1:
		sort.Sort(sort.Reverse(sort.IntSlice(keys)))
	}
	for _, k := range keys {
		g.add(op{kind: "ins", t: t, k: g.kv(k), v: g.val(), r: -1})
	}
	fwd := r.Intn(2) == 0
	step := "next"
	sort.Ints(keys)
	if fwd {
		g.add(op{kind: "min", t: t, r: 0})
	} else {
		g.add(op{kind: "max", t: t, r: 0})
		step = "prev"
		sort.Sort(sort.Reverse(sort.IntSlice(keys)))
	}
	delP := 1 + r.Intn(4)
	for _, k := range keys {
		// register 0 points at the element with key k
		if r.Intn(delP) == 0 {
			if r.Intn(2) == 0 {
				g.add(op{kind: "fge", t: t, k: g.kv(k), r: 1})
			} else {
				g.add(op{kind: "fle", t: t, k: g.kv(k), r: 1})
			}
			if r.Intn(4) != 0 {
				g.add(op{kind: step, r: 0})
				g.add(op{kind: "deli", r: 1})
			} else {
				// delete first, then re-position from a neighbour
				g.add(op{kind: "deli", r: 1})
				if fwd {
					g.add(op{kind: "fge", t: t, k: g.kv(k), r: 0})
				} else {
					g.add(op{kind: "fle", t: t, k: g.kv(k), r: 0})
				}
			}
		} else {
			g.add(op{kind: step, r: 0})
		}
	}
	// register 0 is at the end now: one step back, or one step too far (assertion)
	if r.Intn(2) == 0 {
		g.add(op{kind: step, r: 0})
	} else if fwd {
		g.add(op{kind: "prev", r: 0})
	} else {
		g.add(op{kind: "next", r: 0})
	}
	g.add(op{kind: "len", t: t})
	for _, k := range r.Perm(g.uni) {
		if r.Intn(4) != 0 {
			g.add(op{kind: "delk", t: t, k: g.kv(k)})
		}
	}
	g.add(op{kind: "len", t: t})
	return g
}

func main() {
	c := Setup()
	defer c.Close()
	defer closeSide()
	if c.Replay != "" {
		for _, cs := range c.ReplayCases() {
			f, _ := cs.Field("ops")
			var ops []op
			for _, o := range f.Args() {
				ops = append(ops, parseOp(o))
			}
			nt := 3
			if x, ok := cs.Field("ntrees"); ok {
				nt = x.Args()[0].Int()
			}
			if _, ok := cs.Field("scale"); ok {
				emitScale(c, "replay", nt, ops)
				continue
			}
			flushScale(c) // keep the order of the replay file
			emit(c, "replay", nt, ops)
		}
		flushScale(c)
		return
	}
	// the scale family first (the cases run in parallel; the driver judges them in child processes
	// while it replays the small cases)
	scaleCases(c)
	flushScale(c)
	if c.Tier == "quick" {
		exhaustive(c, 6, 4)
		exhaustive(c, 4, 5)
	} else if c.Tier == "thorough" {
		exhaustive(c, 6, 5)
		exhaustive(c, 3, 7)
	} else {
		exhaustive(c, 6, 4)
	}
	sharedFamilies(c)
	forkFamilies(c)
	for i := c.Count(1500, 12000); i > 0; i-- {
		g := random(c)
		emit(c, fmt.Sprintf("rnd%d", g.ntrees), g.ntrees, g.ops)
	}
	for i := c.Count(500, 4000); i > 0; i-- {
		g := walk(c)
		emit(c, "walk", g.ntrees, g.ops)
	}
}
