(* The in-order entry list of the tree ("elems", Arena.v) evolves like the sorted association list of
   Spec.v: Insert = s_insert, doDelete = s_delete - with node ids, so every entry that is not deleted
   keeps its id - and search-tree order is preserved; lookups answer like the list. *)
From Coq Require Import List ZArith Lia Bool Sorting.Sorted.
Import ListNotations.
From Herc Require Import RBTree.Model RBTree.Spec RBTree.Arena.
Open Scope Z_scope.

Ltac brk :=
  repeat match goal with
  | |- context [match ?t with E => _ | T _ _ _ _ _ _ => _ end] => destruct t
  | |- context [match ?c with Red => _ | Black => _ end] => destruct c
  | |- context [if is_red ?t then _ else _] => destruct (is_red t) eqn:?
  | H : context [match ?t with E => _ | T _ _ _ _ _ _ => _ end] |- _ => destruct t
  | H : context [match ?c with Red => _ | Black => _ end] |- _ => destruct c
  end.

Ltac norm := simpl; repeat rewrite <- app_assoc; simpl; repeat rewrite <- app_assoc; simpl.

Lemma elems_blacken t : elems (blacken t) = elems t.
Proof. destruct t; reflexivity. Qed.

Lemma balL_elems c l i k v r : elems (balL c l i k v r) = elems l ++ (i, k, v) :: elems r.
Proof. unfold balL. brk; norm; rewrite ?elems_blacken; norm; reflexivity. Qed.

Lemma balR_elems c l i k v r : elems (balR c l i k v r) = elems l ++ (i, k, v) :: elems r.
Proof. unfold balR. brk; norm; rewrite ?elems_blacken; norm; reflexivity. Qed.

Lemma fixL2_elems c l i k v s t' d : fixL2 c l i k v s = Some (t', d) ->
  elems t' = elems l ++ (i, k, v) :: elems s.
Proof.
  unfold fixL2. intros H. destruct s as [|[] sl si sk sv sr]; try discriminate.
  destruct (negb (is_red sl) && negb (is_red sr)); [inversion H; subst; norm; reflexivity|].
  destruct (is_red sr); [inversion H; subst; norm; rewrite ?elems_blacken; reflexivity|].
  destruct sl as [|[] a xi xk xv b]; try discriminate. inversion H; subst. norm. reflexivity.
Qed.

Lemma fixL_elems c l i k v s t' d : fixL c l i k v s = Some (t', d) ->
  elems t' = elems l ++ (i, k, v) :: elems s.
Proof.
  unfold fixL. intros H. destruct s as [|[] sl si sk sv sr].
  - apply fixL2_elems in H. exact H.
  - destruct (fixL2 Red l i k v sl) as [[np []]|] eqn:E; try discriminate.
    inversion H; subst. apply fixL2_elems in E. norm. rewrite E. norm. reflexivity.
  - apply fixL2_elems in H. exact H.
Qed.

Lemma fixR2_elems c s i k v r t' d : fixR2 c s i k v r = Some (t', d) ->
  elems t' = elems s ++ (i, k, v) :: elems r.
Proof.
  unfold fixR2. intros H. destruct s as [|[] sl si sk sv sr]; try discriminate.
  destruct (negb (is_red sl) && negb (is_red sr)); [inversion H; subst; norm; reflexivity|].
  destruct (is_red sl); [inversion H; subst; norm; rewrite ?elems_blacken; norm; reflexivity|].
  destruct sr as [|[] a xi xk xv b]; try discriminate. inversion H; subst. norm. reflexivity.
Qed.

Lemma fixR_elems c s i k v r t' d : fixR c s i k v r = Some (t', d) ->
  elems t' = elems s ++ (i, k, v) :: elems r.
Proof.
  unfold fixR. intros H. destruct s as [|[] sl si sk sv sr].
  - apply fixR2_elems in H. exact H.
  - destruct (fixR2 Red sr i k v r) as [[np []]|] eqn:E; try discriminate.
    inversion H; subst. apply fixR2_elems in E. norm. rewrite E. norm. reflexivity.
  - apply fixR2_elems in H. exact H.
Qed.

(* ---------- insertion ---------- *)

Definition all_lt (l : list (Z * Z * Z)) (x : Z) := forall k, In k (keys l) -> k < x.
Definition all_gt (l : list (Z * Z * Z)) (x : Z) := forall k, In k (keys l) -> x < k.

Fixpoint bst (t : tree) : Prop :=
  match t with
  | E => True
  | T _ l _ k _ r => bst l /\ bst r /\ all_lt (elems l) k /\ all_gt (elems r) k
  end.

Lemma s_insert_app_lt ni nk nv a x b : all_lt a (snd (fst x)) -> nk < snd (fst x) ->
  s_insert ni nk nv (a ++ x :: b) = s_insert ni nk nv a ++ x :: b.
Proof.
  destruct x as [[xi xk] xv]. simpl. intros Ha Hx. induction a as [|[[i k] v] a IH]; simpl.
  - destruct (Z.ltb_spec nk xk); auto. lia.
  - destruct (nk <? k); auto. destruct (k <? nk); auto. rewrite IH; auto.
    intros k' Hk'. apply Ha. simpl. auto.
Qed.

Lemma s_insert_app_gt ni nk nv a x b : all_lt a (snd (fst x)) -> snd (fst x) < nk ->
  s_insert ni nk nv (a ++ x :: b) = a ++ x :: s_insert ni nk nv b.
Proof.
  destruct x as [[xi xk] xv]. simpl. intros Ha Hx. induction a as [|[[i k] v] a IH]; simpl.
  - destruct (Z.ltb_spec nk xk); [lia|]. destruct (Z.ltb_spec xk nk); [auto|lia].
  - assert (k < xk) by (apply Ha; simpl; auto).
    destruct (Z.ltb_spec nk k); [lia|]. destruct (Z.ltb_spec k nk); [|lia].
    rewrite IH; auto. intros k' Hk'. apply Ha. simpl. auto.
Qed.

Lemma s_insert_app_eq ni nk nv a x b : all_lt a (snd (fst x)) -> snd (fst x) = nk ->
  s_insert ni nk nv (a ++ x :: b) = a ++ x :: b.
Proof.
  destruct x as [[xi xk] xv]. simpl. intros Ha Hx. subst. induction a as [|[[i k] v] a IH]; simpl.
  - rewrite Z.ltb_irrefl. reflexivity.
  - assert (k < nk) by (apply Ha; simpl; auto).
    destruct (Z.ltb_spec nk k); [lia|]. destruct (Z.ltb_spec k nk); [|lia].
    rewrite IH; auto. intros k' Hk'. apply Ha. simpl. auto.
Qed.

Theorem ins_elems ni nk nv : forall t, bst t -> elems (ins ni nk nv t) = s_insert ni nk nv (elems t).
Proof.
  induction t as [|c l IHl i k v r IHr]; intros Hb; [reflexivity|].
  destruct Hb as (Hl & Hr & Hlt & Hgt). cbn [ins elems].
  destruct (Z.ltb_spec nk k).
  - rewrite balL_elems, IHl by auto. symmetry. apply (s_insert_app_lt ni nk nv (elems l) (i, k, v)); auto.
  - destruct (Z.ltb_spec k nk).
    + rewrite balR_elems, IHr by auto. symmetry. apply (s_insert_app_gt ni nk nv (elems l) (i, k, v)); auto.
    + symmetry. apply (s_insert_app_eq ni nk nv (elems l) (i, k, v)); auto. simpl. lia.
Qed.


(* ---------- deletion ---------- *)

Lemma remove_here_elems c l r : (l = E \/ r = E) -> elems (fst (remove_here c l r)) = elems l ++ elems r.
Proof.
  intros [->| ->]; unfold remove_here; simpl.
  - destruct r; reflexivity.
  - rewrite app_nil_r. reflexivity.
Qed.

Lemma del_max_elems : forall t t' d p, del_max t = Some (t', d, p) -> elems t = elems t' ++ [p].
Proof.
  induction t as [|c l IHl i k v r IHr]; intros t' d p H; [discriminate|].
  destruct r as [|rc rl ri rk rv rr] eqn:Er.
  - simpl in H. inversion H; subst. simpl. reflexivity.
  - rewrite <- Er in *.
    assert (Eq : del_max (T c l i k v r) =
      match del_max r with
      | Some (r', d0, p0) =>
          if d0 then match fixR c l i k v r' with Some (t0, d') => Some (t0, d', p0) | None => None end
          else Some (T c l i k v r', false, p0)
      | None => None
      end) by (subst r; reflexivity).
    rewrite Eq in H. destruct (del_max r) as [[[r' d0] p0]|] eqn:Ed; [|discriminate].
    specialize (IHr r' d0 p0 eq_refl). cbn [elems]. rewrite IHr.
    destruct d0.
    + destruct (fixR c l i k v r') as [[t0 d']|] eqn:Ef; [|discriminate]. inversion H; subst.
      apply fixR_elems in Ef. rewrite Ef. norm. reflexivity.
    + inversion H; subst. norm. reflexivity.
Qed.

Lemma s_delete_notin x a : (forall k, In k (keys a) -> k <> x) -> s_delete x a = a.
Proof.
  induction a as [|[[i k] v] a IH]; simpl; auto. intros H.
  destruct (Z.eqb_spec k x); [exfalso; apply (H k); simpl; auto|]. rewrite IH; auto;
  intros k' Hk'; apply H; simpl; auto.
Qed.

Lemma s_delete_app_lt x a y b : all_gt b (snd (fst y)) -> x < snd (fst y) ->
  s_delete x (a ++ y :: b) = s_delete x a ++ y :: b.
Proof.
  destruct y as [[yi yk] yv]. simpl. intros Hb Hx. induction a as [|[[i k] v] a IH]; simpl.
  - destruct (Z.eqb_spec yk x); [lia|]. rewrite s_delete_notin; auto.
    intros k Hk. specialize (Hb k Hk). lia.
  - destruct (Z.eqb_spec k x); auto. rewrite IH; auto.
Qed.

Lemma s_delete_app_gt x a y b : all_lt a (snd (fst y)) -> snd (fst y) < x ->
  s_delete x (a ++ y :: b) = a ++ y :: s_delete x b.
Proof.
  destruct y as [[yi yk] yv]. simpl. intros Ha Hx. induction a as [|[[i k] v] a IH]; simpl.
  - destruct (Z.eqb_spec yk x); [lia|reflexivity].
  - assert (k < yk) by (apply Ha; simpl; auto).
    destruct (Z.eqb_spec k x); [lia|]. rewrite IH; auto. intros k' Hk'. apply Ha. simpl. auto.
Qed.

Lemma s_delete_app_eq x a y b : all_lt a (snd (fst y)) -> snd (fst y) = x ->
  s_delete x (a ++ y :: b) = a ++ b.
Proof.
  destruct y as [[yi yk] yv]. simpl. intros Ha Hx. subst. induction a as [|[[i k] v] a IH]; simpl.
  - rewrite Z.eqb_refl. reflexivity.
  - assert (k < x) by (apply Ha; simpl; auto).
    destruct (Z.eqb_spec k x); [lia|]. rewrite IH; auto. intros k' Hk'. apply Ha. simpl. auto.
Qed.

Theorem del_elems x : forall t t' d, bst t -> del x t = Some (t', d) -> elems t' = s_delete x (elems t).
Proof.
  induction t as [|c l IHl i k v r IHr]; intros t' d Hb H; [discriminate|].
  destruct Hb as (Hl & Hr & Hlt & Hgt). cbn [del] in H. cbn [elems].
  destruct (Z.ltb_spec x k).
  - destruct (del x l) as [[l' dl]|] eqn:El; [|discriminate].
    specialize (IHl l' dl Hl eq_refl).
    rewrite (s_delete_app_lt x (elems l) (i, k, v)) by auto. rewrite <- IHl.
    destruct dl.
    + apply fixL_elems in H. exact H.
    + inversion H; subst. reflexivity.
  - destruct (Z.ltb_spec k x).
    + destruct (del x r) as [[r' dr]|] eqn:Er; [|discriminate].
      specialize (IHr r' dr Hr eq_refl).
      rewrite (s_delete_app_gt x (elems l) (i, k, v)) by auto. rewrite <- IHr.
      destruct dr.
      * apply fixR_elems in H. exact H.
      * inversion H; subst. reflexivity.
    + assert (k = x) by lia. subst k.
      rewrite (s_delete_app_eq x (elems l) (i, x, v)) by auto.
      destruct l as [|lc ll li lk lv lr] eqn:Eql.
      * inversion H; subst. destruct r; reflexivity.
      * destruct r as [|rc rl ri rk rv rr] eqn:Eqr.
        -- inversion H; subst. simpl. rewrite app_nil_r. reflexivity.
        -- rewrite <- Eql, <- Eqr in *.
           assert (Eq : Some (t', d) =
             match del_max l with
             | Some (l', dl, (pi, pk, pv)) => if dl then fixL c l' pi pk pv r else Some (T c l' pi pk pv r, false)
             | None => None
             end) by (subst l r; rewrite <- H; reflexivity).
           clear H. destruct (del_max l) as [[[l' dl] [[pi pk] pv]]|] eqn:Em; [|discriminate].
           apply del_max_elems in Em. rewrite Em. destruct dl.
           ++ symmetry in Eq. apply fixL_elems in Eq. rewrite Eq. norm. reflexivity.
           ++ inversion Eq; subst. norm. reflexivity.
Qed.


(* ---------- search-tree order = sortedness of the entry list ---------- *)

Fixpoint sorted (l : list (Z * Z * Z)) : Prop :=
  match l with [] => True | e :: r => all_gt r (ekey e) /\ sorted r end.

Lemma keys_app a b : keys (a ++ b) = keys a ++ keys b.
Proof. apply map_app. Qed.

Lemma all_lt_nil x : all_lt [] x.
Proof. intros k []. Qed.
Lemma all_gt_nil x : all_gt [] x.
Proof. intros k []. Qed.
Lemma all_lt_cons e a x : all_lt (e :: a) x <-> ekey e < x /\ all_lt a x.
Proof.
  unfold all_lt. simpl. split.
  - intros H. split; [apply H; auto|]. intros k Hk. apply H; auto.
  - intros [H1 H2] k [<-|Hk]; auto.
Qed.
Lemma all_gt_cons e a x : all_gt (e :: a) x <-> x < ekey e /\ all_gt a x.
Proof.
  unfold all_gt. simpl. split.
  - intros H. split; [apply H; auto|]. intros k Hk. apply H; auto.
  - intros [H1 H2] k [<-|Hk]; auto.
Qed.
Lemma all_lt_app a b x : all_lt (a ++ b) x <-> all_lt a x /\ all_lt b x.
Proof.
  unfold all_lt. rewrite keys_app. split.
  - intros H; split; intros k Hk; apply H; apply in_or_app; auto.
  - intros [H1 H2] k Hk. apply in_app_or in Hk. destruct Hk; auto.
Qed.
Lemma all_gt_app a b x : all_gt (a ++ b) x <-> all_gt a x /\ all_gt b x.
Proof.
  unfold all_gt. rewrite keys_app. split.
  - intros H; split; intros k Hk; apply H; apply in_or_app; auto.
  - intros [H1 H2] k Hk. apply in_app_or in Hk. destruct Hk; auto.
Qed.

Lemma sorted_app a e b :
  sorted (a ++ e :: b) <-> sorted a /\ sorted b /\ all_lt a (ekey e) /\ all_gt b (ekey e).
Proof.
  induction a as [|x a IH]; cbn [app sorted].
  - split.
    + intros [H1 H2]. repeat split; auto. apply all_lt_nil.
    + intros (_ & H2 & _ & H4); auto.
  - rewrite IH, all_gt_app, all_gt_cons, all_lt_cons. split.
    + intros ((G1 & G2 & G3) & S1 & S2 & L & G). repeat split; auto.
    + intros ((G1 & S1) & S2 & (L1 & L2) & G). repeat split; auto.
      intros k Hk. specialize (G k Hk). lia.
Qed.

Lemma bst_sorted t : bst t <-> sorted (elems t).
Proof.
  induction t as [|c l IHl i k v r IHr]; cbn [bst elems]; [simpl; tauto|].
  rewrite sorted_app, IHl, IHr. cbn [ekey fst snd]. tauto.
Qed.

Lemma sortedb_sorted l : sortedb (keys l) = true -> sorted l.
Proof.
  induction l as [|[[i k] v] r IH]; [simpl; auto|].
  destruct r as [|[[i2 k2] v2] r2].
  - intros _. simpl. split; auto. apply all_gt_nil.
  - intros H. change (sortedb (keys ((i, k, v) :: (i2, k2, v2) :: r2)))
      with ((k <? k2) && sortedb (keys ((i2, k2, v2) :: r2))) in H.
    apply andb_prop in H. destruct H as [H1 H2]. specialize (IH H2).
    split; auto. cbn [ekey fst snd]. apply all_gt_cons. cbn [ekey fst snd].
    apply Z.ltb_lt in H1. split; auto.
    destruct IH as [G _]. intros k' Hk'. specialize (G k' Hk'). cbn [ekey fst snd] in G. lia.
Qed.

Lemma s_insert_keys_in ni nk nv l k : In k (keys (s_insert ni nk nv l)) -> k = nk \/ In k (keys l).
Proof.
  induction l as [|[[i k0] v] r IH]; simpl.
  - intros [<-|[]]; auto.
  - destruct (nk <? k0); [simpl; intros [<-|H]; auto|].
    destruct (k0 <? nk); simpl; [|auto].
    intros [<-|H]; auto. destruct (IH H); auto.
Qed.

Lemma s_insert_sorted ni nk nv l : sorted l -> sorted (s_insert ni nk nv l).
Proof.
  induction l as [|[[i k] v] r IH]; cbn [s_insert sorted]; intros H.
  - split; auto. apply all_gt_nil.
  - destruct H as [G S]. cbn [ekey fst snd] in G. destruct (Z.ltb_spec nk k).
    + cbn [sorted ekey fst snd]. split; [|split; auto].
      apply all_gt_cons. cbn [ekey fst snd]. split; auto.
      intros k' Hk'. specialize (G k' Hk'). lia.
    + destruct (Z.ltb_spec k nk); cbn [sorted ekey fst snd]; [|auto].
      split; auto. intros k' Hk'. apply s_insert_keys_in in Hk'. destruct Hk' as [->|Hk']; auto.
Qed.

Lemma s_delete_keys_in x l k : In k (keys (s_delete x l)) -> In k (keys l).
Proof.
  induction l as [|[[i k0] v] r IH]; simpl; auto.
  destruct (k0 =? x); simpl; auto. intros [<-|H]; auto.
Qed.

Lemma s_delete_sorted x l : sorted l -> sorted (s_delete x l).
Proof.
  induction l as [|[[i k] v] r IH]; cbn [s_delete sorted]; auto.
  intros [G S]. destruct (k =? x); auto. cbn [sorted]. split; auto.
  intros k' Hk'. apply G. eapply s_delete_keys_in; eauto.
Qed.

(* ---------- membership ---------- *)

Lemma s_mem_app x a b : s_mem x (a ++ b) = s_mem x a || s_mem x b.
Proof.
  induction a as [|[[i k] v] a IH]; simpl; auto. rewrite IH. apply orb_assoc.
Qed.
Lemma s_mem_false_gt x b k : all_gt b k -> x <= k -> s_mem x b = false.
Proof.
  induction b as [|[[i k0] v] b IH]; simpl; auto. intros H Hx.
  apply all_gt_cons in H. cbn [ekey fst snd] in H. destruct H as [H1 H2].
  rewrite IH by auto. destruct (Z.eqb_spec k0 x); auto. lia.
Qed.
Lemma s_mem_false_lt x a k : all_lt a k -> k <= x -> s_mem x a = false.
Proof.
  induction a as [|[[i k0] v] a IH]; simpl; auto. intros H Hx.
  apply all_lt_cons in H. cbn [ekey fst snd] in H. destruct H as [H1 H2].
  rewrite IH by auto. destruct (Z.eqb_spec k0 x); auto. lia.
Qed.

Lemma mem_elems x : forall t, bst t -> mem x t = s_mem x (elems t).
Proof.
  induction t as [|c l IHl i k v r IHr]; intros Hb; [reflexivity|].
  destruct Hb as (Hl & Hr & Hlt & Hgt). cbn [mem elems]. rewrite s_mem_app. cbn [s_mem].
  destruct (Z.ltb_spec x k).
  - rewrite IHl by auto. rewrite (s_mem_false_gt x (elems r) k) by (auto; lia).
    destruct (Z.eqb_spec k x); [lia|]. rewrite !orb_false_r. reflexivity.
  - destruct (Z.ltb_spec k x).
    + rewrite IHr by auto. rewrite (s_mem_false_lt x (elems l) k) by (auto; lia).
      destruct (Z.eqb_spec k x); [lia|]. reflexivity.
    + destruct (Z.eqb_spec k x); [|lia]. rewrite orb_true_r. reflexivity.
Qed.

Lemma s_insert_present ni nk nv l : sorted l -> s_mem nk l = true -> s_insert ni nk nv l = l.
Proof.
  induction l as [|[[i k] v] r IH]; cbn [s_insert s_mem sorted]; [discriminate|].
  intros [G S] Hm. cbn [ekey fst snd] in G. destruct (Z.ltb_spec nk k).
  - rewrite (s_mem_false_gt nk r k) in Hm by (auto; lia).
    destruct (Z.eqb_spec k nk); [lia|discriminate].
  - destruct (Z.ltb_spec k nk); auto.
    destruct (Z.eqb_spec k nk); [lia|]. rewrite IH; auto.
Qed.

Lemma s_delete_absent x l : s_mem x l = false -> s_delete x l = l.
Proof.
  induction l as [|[[i k] v] r IH]; cbn [s_delete s_mem]; auto.
  intros H. apply orb_false_elim in H. destruct H as [H1 H2]. rewrite H1, IH; auto.
Qed.

(* ---------- the three update theorems at the level of whole operations ---------- *)

Lemma bst_blacken t : bst (blacken t) <-> bst t.
Proof. destruct t; simpl; tauto. Qed.

Theorem insert_elems ni nk nv t : bst t ->
  elems (fst (fst (insert ni nk nv t))) = s_insert ni nk nv (elems t).
Proof.
  intros Hb. unfold insert. destruct (mem nk t) eqn:Hm; cbn [fst].
  - symmetry. apply s_insert_present; [apply bst_sorted; auto|]. rewrite <- mem_elems; auto.
  - rewrite elems_blacken. apply ins_elems; auto.
Qed.

Theorem insert_result ni nk nv t : bst t ->
  snd (fst (insert ni nk nv t)) = negb (s_mem nk (elems t)) /\
  snd (insert ni nk nv t) = (if s_mem nk (elems t) then 0 else ni).
Proof.
  intros Hb. unfold insert. rewrite <- mem_elems by auto. destruct (mem nk t); auto.
Qed.

Theorem insert_bst ni nk nv t : bst t -> bst (fst (fst (insert ni nk nv t))).
Proof.
  intros Hb. apply bst_sorted. rewrite insert_elems by auto. apply s_insert_sorted, bst_sorted; auto.
Qed.

Theorem delete_key_elems x t : bst t ->
  match delete_key x t with
  | DDone t' => s_mem x (elems t) = true /\ elems t' = s_delete x (elems t)
  | DNotFound => s_mem x (elems t) = false /\ s_delete x (elems t) = elems t
  | DUnspec => True
  end.
Proof.
  intros Hb. unfold delete_key. rewrite (mem_elems x t Hb). destruct (s_mem x (elems t)) eqn:Hm.
  - destruct (del x t) as [[t' d]|] eqn:Ed; auto. split; auto.
    pose proof (del_elems x t t' d Hb Ed) as He.
    destruct t as [|c l i k v r]; auto.
    destruct ((x =? k) && (is_E l || is_E r)); rewrite ?elems_blacken; auto.
  - split; auto. apply s_delete_absent; auto.
Qed.

Theorem delete_key_bst x t t' : bst t -> delete_key x t = DDone t' -> bst t'.
Proof.
  intros Hb E. pose proof (delete_key_elems x t Hb) as H. rewrite E in H. destruct H as [_ H].
  apply bst_sorted. rewrite H. apply s_delete_sorted, bst_sorted; auto.
Qed.
