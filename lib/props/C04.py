def _extra(stats, cov):
    return dict(programs=stats.get('full_plans_validated', 0) + stats.get('logs_judged', 0),
                disagreements_checked=stats.get('gc_calls', 0) + stats.get('hb_calls', 0),
                # generator family scale: judged by the extracted fast_c04 (C04_fast_exact)
                large_plans_validated=stats.get('scale_plans_validated', 0),
                large_plan_actions_validated=stats.get('scale_actions_validated', 0),
                large_plans_with_branch_index_ge_65536=stats.get('scale_plans_with_branch_index_ge_65536', 0),
                large_plans_with_hibernation=stats.get('scale_plans_with_hibernation', 0),
                large_runs_judged=stats.get('scale_runs', 0), large_run_calls_judged=stats.get('scale_calls_judged', 0))


CONFIG = dict(
    level='proof',
    streams=[dict(harness='c04', driver='c04', shrink_field='ops'),
             # execution level: the real Pipeline.Run with recording hibernateable items, the call log judged by the
             # extracted oracle of coq/theories/Plan/RunLifecycle.v (C04_run_lifecycle_sound)
             dict(harness='c04run', driver='c04run', shrink_field='commits')],
    rule='stream c04, two kinds of cases. fn*: collectGarbage and insertHibernateBoot(d) called directly on a generated plan (fnwf: random '
         'plans with a sound lifecycle, fndel: the same with deletes, fnarb: arbitrary action lists incl. empty item lists, '
         'negative ids, repeated items; d in 0..8, sometimes 9..38 or negative) and compared with the extracted models GC.v / '
         'Hibernate.v (deletes that follow one action compared as a set), the outputs judged by the extracted lifecycle checker '
         'inside the domain of C04_gc / C04_hib. graph: the stages generatePlan -> collectGarbage -> insertHibernateBoot(d), '
         'd = 0..8, called one by one on a commit graph (compared with the models stage by stage) and the composed '
         'prepareRunPlan(commits, d) on the reversed slice; every full plan validated by c04_ok. Graph generators as in C02: all '
         'DAGs on <=5 commits x all hash orders (one case per graph and distinct generatePlan output), thorough: connected 6-commit DAGs x every '
         '24th order, random histories to 14 / 40 commits; every fabricated commit carries a committer timestamp (none / equal / '
         'growing / falling / random / skewed clocks / ties; field times); kind wide = forks of 7..13 branches and octopus merges of as '
         'many parents (planlib.WideGraph); the fn* plans hold forks of 8..13 branches and octopus merges of everything alive. '
         'scale-<shape>: LARGE histories given by (shape, size, hmode, tmode, gseed; regenerated on replay; shapes comb, diamonds, '
         'star, starmerge, roots, spine, bush, ladder, ffchain as in C02): generatePlan -> collectGarbage -> insertHibernateBoot(d) '
         'for the distances in field dists and prepareRunPlan(commits, fulld); sizes 10^3 in every shape (three distances each: 1, '
         '2..8, 9..68), 10^4 in three, a bush and stars of 65535 / 65536 / 65537 branches (under distances 0, 1, 2) '
         'in the quick tier; thorough adds stars at 2^8 and 2^15 (+-1), > 2^16 in comb / roots / starmerge / diamond combs with several '
         'distances, 10^5 in five shapes, a spine of 10^6 and a star of 3*10^5. Every large plan is judged by the extracted fast_c04 (trie-based, '
         'C04_fast_exact: accepts iff lifecycle_ok, nothing left hibernated, merge participants share their last commit), erasing '
         'hibernate/boot from an insertHibernateBoot output must give its input; the list-based models GC.v / Hibernate.v and c04_ok '
         'are quadratic and are not run at this size. '
         'Non-trivial = a fork or merge and >=4 actions (fn*) / a commit with two '
         'distinct parents (graph); distinct = distinct input fields. '
         'Stream c04run (execution level): the real hercules.NewPipeline(repo).Initialize/Run on a synthetic in-memory repository with '
         'hibernation distance 0..4 and one or two recording leaf items that implement Hibernate/Boot/Dispose and fork by copy with a '
         'fresh instance id per clone - in every second case (field fc) through the public helper hercules.ForkCopyPipelineItem (the ids in the log '
         'are read back from the clones it returned: one object handed out n times shows as one instance created twice), otherwise by '
         'constructing the clones themselves; the complete call log (root, Fork with the clone ids, Consume(commit), Merge(participants), '
         'Hibernate, Boot, Dispose, Finalize) of every deployed item is judged by the extracted oracle run_okb (C04_run_lifecycle_sound); '
         'Run panicking or returning an error is a property failure. Histories: ex1..4 = every parent assignment on <=4 commits '
         '(thorough 5) x distances 0..2, octoplain = root + 3..7 (thorough 9) arms + octopus merge + tail x distances 1..4, octo = '
         'harness/synth.GenOctopusShape (1-3 octopus merges of 3..7 parents per history, arms of different lengths so that the parent '
         'branches have been idle for different times, chains after the merge, 1..3 roots, sometimes a second head or a two-parent merge '
         'inside an arm; a third aimed at parents = distance+3 / +4, the boundary at which ONE boot action covers several branches), lin, '
         'dag = random DAGs to 16 commits with 2-4 parent merges and several roots, hist = synth.GenHist shapes to 24 commits; '
         'octowide = root + 8..14 arms + octopus merge x all four DumpPlan / PrintActions combinations, wide = planlib.WideGraph (forks '
         'of 7..16 branches, octopus merges of as many parents, several per history). In every kind the options vary: opts bit 0 = '
         'Pipeline.DumpPlan, bit 1 = Pipeline.PrintActions (printed text goes to a no-op sink installed through verifapi/c14.SetPlanPrinter), '
         'tmode = commit timestamps growing (0) or planlib.TimesFor modes 1..6. scale-<shape>: the large histories of stream c04 as real '
         'repositories (10^3 branches in every shape; thorough: 10^4 in six shapes, a star and a diamond comb with > 2^16 instances), '
         'distance 0..3, one item; the call log is read as a plan over instance ids (root = emerge, Fork = fork onto the clones, Consume = '
         'commit, Merge, Hibernate, Boot, Finalize = delete) and judged by fast_c04 (the list-based run_okb is quadratic). '
         'Non-trivial (c04run) = the log holds a Hibernate and a Merge call.',
    exhaustive_note='all DAGs on <=5 commits x all hash orders x distances 0..8 (cases de-duplicated by generatePlan output)',
    assumptions=['hibernation distance >= 0 in the theorems (prepareRunPlan calls insertHibernateBoot only for d > 0)',
                 'collectGarbage on branch ids < 0 depends on the unstable sort (an action can be emitted twice): outside the '
                 'domain of C04_gc (pre_ok requires ids >= rootBranchIndex) and not compared',
                 'the plan of generatePlan is validated per plan (pre_okb), as in C02',
                 'large histories (family scale, 10^3 .. 10^6 branches) are judged by fast_c04 = the lifecycle, hibernation and '
                 'same-last-commit clauses exactly (C04_fast_exact); the master-branch clause and "a merge commit has two non-redundant '
                 'parents" need ancestor sets and are checked on small graphs only; collectGarbage / insertHibernateBoot are compared '
                 'with their Gallina models on plans of up to a few hundred actions only',
                 'c04run: the recording items never fail and fork by copy; what is judged is the call log the items receive (the plan Run '
                 'executed is not looked at: prepareRunPlan is not deterministic across calls); deleting a branch from Run\'s map is not a '
                 'call, so a disposed instance is one that receives no later call; the last-consumed-commit clause of a merge speaks about '
                 'what each participant consumed itself'],
    trusted_base=['hand-written Gallina models coq/theories/Plan/GC.v and Hibernate.v of collectGarbage / insertHibernateBoot, '
                  'tied to the code by the replay of every harness case',
                  'the abstract executor coq/theories/Plan/Exec.v as the meaning of live / hibernated / disposed (hand-written '
                  'from Pipeline.Run; the plan-level theorems are about it, the stream c04run judges the real Run independently of it)',
                  'the recording items of harness/cmd/c04run (public hercules API; facts keys "Pipeline.HibernationDistance" / "Pipeline.DumpPlan" / '
                  '"Pipeline.PrintActions" read back from the Pipeline fields; one hook: verifapi/c14.SetPlanPrinter swaps the print sink of '
                  'internal/core for a no-op) and ocaml/c04run/driver.ml (splits the log by deployed item, computes single-headedness; for '
                  'large runs: reads the call log as a plan over instance ids)'],
    level_text='proof for the garbage-collection and hibernation stages (all plans, all distances) over line-by-line Gallina '
               'models tied to the Go functions by replay; the plan generator stage is validated per plan by a proved-sound checker; '
               'the execution of the plan by Pipeline.Run is validated per run by a proved-sound oracle over the call log of recording items',
    level_note='Proved in Coq (no axioms), for all plans and all distances: C04_gc / C04_gc_any_order (collectGarbage model: sound lifecycle, '
               'erasing deletes gives the input, for every outcome of the unstable sort), C04_hib (insertHibernateBoot model: booted before the '
               'next use, never hibernated twice, never disposed while hibernated, nothing left hibernated, erasing gives the input), '
               'C04_checker_sound (the validator run on every full plan of the real planner implies the lifecycle, merge and master-branch '
               'clauses), C04_run_lifecycle_sound / C04_run_booted_before_use (the oracle run on the call log of every real run implies: nothing '
               'is consumed, forked, merged, finalized or hibernated again while hibernated; a Boot lies between a Hibernate and the next use; '
               'instances are created once; Boot only of hibernated instances; merges join distinct instances that consumed the same commit '
               'last; nothing hibernated at Finalize and at the end; with a single head the finalized instance has incorporated every commit) '
               'and C04_run_lifecycle_complete (every log that satisfies the statement is accepted: the oracle is exact). '
               'Modelled, not verified: the two Go functions (Gallina models GC.v / Hibernate.v tied to them by replay, zero '
               'mismatches required) and Pipeline.Run (Exec.v is its hand-written abstraction; its real execution is validated per run by the c04run stream, not '
               'proved: a defect of Run that needs a plan shape the generators do not produce would be missed). Not proved: that generatePlan always emits a '
               'plan satisfying pre_ok / c04_ok - validated per plan (exhaustive for <=5 commits x all hash orders x distances 0..8).',
    technique='machine-checked proof in Coq over Gallina models of collectGarbage/insertHibernateBoot + model/implementation '
              'correspondence replay + Coq-verified lifecycle checker on the plans of the real planner + Coq-verified lifecycle oracle on '
              'the call logs of the real Pipeline.Run',
    extra_coverage=_extra,
    search_seconds=60,
)
