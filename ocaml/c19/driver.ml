(* C19: replay the harness trace through the extracted Gallina model of ticks.go *)
open C19_model
open Conv

(* MISMATCH lines are printed after all PROPFAIL lines: lib/check.py attaches case lines to the first
   2000 findings only, and a property failure must keep its case *)
let deferred : (int * string) list ref = ref []
let mismatch (id : int) (what : string) = incr n_mismatch; deferred := (id, what) :: !deferred

(* decimal strings <-> extracted Z, beyond the range of OCaml's int (nanoseconds since year 1,
   ticks up to 2^63-1) *)
let z_of_string (s : string) : z =
  let neg = String.length s > 0 && s.[0] = '-' in
  let digits = if neg then String.sub s 1 (String.length s - 1) else s in
  if digits = "" then failwith ("number expected: " ^ s);
  String.iter (fun ch -> if ch < '0' || ch > '9' then failwith ("number expected: " ^ s)) digits;
  let n = String.length digits in
  let first = if n mod 9 = 0 then 9 else n mod 9 in
  let acc = ref (z_of_int (int_of_string (String.sub digits 0 first))) in
  let pos = ref first in
  while !pos < n do
    acc := z_pack !acc (z_of_int (int_of_string (String.sub digits !pos 9)));
    pos := !pos + 9
  done;
  if neg then Z.opp !acc else !acc

let rec string_of_z (z : z) : string =
  match z with
  | Zneg _ -> "-" ^ string_of_z (Z.opp z)
  | _ ->
    let (q, r) = z_unpack z in
    (match q with
     | Z0 -> string_of_int (int_of_z r)
     | _ -> string_of_z q ^ Printf.sprintf "%09d" (int_of_z r))

let zs s = z_of_string (atom s)
let show_zs l = "[" ^ String.concat ";" (List.map string_of_z l) ^ "]"

let cfg_of_sx (s : sx) : config =
  let a = List.hd (args s) in
  match tag a with
  | "hours" -> CHours (zs (List.hd (args a)))
  | "default" -> CDefault
  | "direct" -> CDirect (zs (List.hd (args a)))
  | t -> failwith ("unknown cfg " ^ t)

(* operations of the trace; branch numbers and counts stay OCaml ints (10^4 branches as unary nat
   per operation would dominate the large cases) *)
type xop =
  | XC of int * z * commit
  | XFork of int * int
  | XMerge of int list
  | XFloor of z * z
  | XInit of int              (* the item is initialised again; the forks are dropped *)

let nonneg (s : sx) : int =
  let i = int_of_sx s in if i < 0 then failwith "negative branch or count" else i

let xop_of_sx (s : sx) : xop =
  let a i = List.nth (args s) i in
  match tag s with
  | "c" ->
      XC (nonneg (a 0), zs (a 1),
          { c_hash = zs (a 2); c_when = time_of_unix (zs (a 3)) (zs (a 4)); c_parents = nat_of_int (nonneg (a 5)) })
  | "fork" -> XFork (nonneg (a 0), nonneg (a 1))
  | "merge" -> XMerge (List.map nonneg (list_of_sx (a 0)))
  | "floor" -> XFloor (time_of_unix (zs (a 0)) (zs (a 1)), zs (a 2))
  | "init" -> XInit (int_of_sx (a 0))
  | t -> failwith ("unknown op " ^ t)

let op_of_x : xop -> op = function
  | XC (b, i, c) -> OConsume (nat_of_int b, i, c)
  | XFork (b, n) -> OFork (nat_of_int b, nat_of_int n)
  | XMerge bs -> OMerge (List.map nat_of_int bs)
  | XFloor (t, d) -> OFloor (t, d)
  | XInit _ -> failwith "init is not an operation of the model: it starts a new run"

(* for the extracted functions that do not read branch numbers and counts (shape, consumed) *)
let op_flat : xop -> op = function
  | XC (_, i, c) -> OConsume (O, i, c)
  | XFork _ -> OFork (O, O)
  | XMerge _ -> OMerge []
  | XFloor (t, d) -> OFloor (t, d)
  | XInit _ -> failwith "init"

let reg_of_sx (s : sx) : (z * z list) list =
  List.map (fun e -> match e with
    | L [k; l] -> (zs k, List.map zs (list_of_sx l))
    | _ -> failwith "registry entry") (args s)

let clip (s : string) = if String.length s <= 400 then s else String.sub s 0 400 ^ " ..."
let show_reg r =
  let n = List.length r in
  let first = List.filteri (fun i _ -> i < 8) r in
  clip (String.concat " " (List.map (fun (k, l) -> string_of_z k ^ ":" ^ show_zs (List.filteri (fun i _ -> i < 12) l)
                                                 ^ (if List.length l > 12 then Printf.sprintf "(%d hashes)" (List.length l) else "")) first)
        ^ (if n > 8 then Printf.sprintf " ... (%d ticks)" n else ""))
let show_zs_short l =
  let n = List.length l in
  if n <= 24 then show_zs l
  else show_zs (List.filteri (fun i _ -> i < 12) l) ^ "..." ^ show_zs (List.filteri (fun i _ -> i >= n - 6) l) ^ Printf.sprintf "(%d)" n

let sort_reg r = List.sort (fun (a, _) (b, _) -> match Z.compare a b with Lt -> -1 | Eq -> 0 | Gt -> 1) r

let zeq a b = Z.eqb a b
let zlist_eq a b = List.length a = List.length b && List.for_all2 zeq a b
let reg_eq a b = List.length a = List.length b && List.for_all2 (fun (k, l) (k', l') -> zeq k k' && zlist_eq l l') a b

(* ------------------------------------------------------------------ the model with an indexed registry

   consume_branch reads and writes commits[tick] only (TicksProofs.consume_branch_registry), and the
   tick does not depend on the registry.  The large cases therefore keep the model's registry in a hash
   table and hand the EXTRACTED consume_branch_fast (= consume_branch, C19_consume_fast: the scan of
   commits[tick] without Coq's quadratic rev) the one entry it touches; tick0 and the branch records
   are the model's.  Small cases run the plain extracted [step] as well and the two must agree. *)

(* a branch history as a chain of cells shared between a branch and its forks *)
type cell = Nil | Cell of cellr
and cellr = { ev : event; up : cell; mutable judged : bool }
type sm = {
  mutable t0 : z;
  mutable brs : branch array;
  mutable nbr : int;
  sreg : (string, z * z list) Hashtbl.t;
}

let key (k : z) = string_of_z k

let sm_init (cfg : config) : sm =
  let s0 = init_sys cfg in
  { t0 = s0.sh.tick0; brs = Array.make 8 (List.hd s0.brs); nbr = 1; sreg = Hashtbl.create 64 }

let sm_push (m : sm) (br : branch) =
  if m.nbr = Array.length m.brs then begin
    let a = Array.make (2 * m.nbr) br in
    Array.blit m.brs 0 a 0 m.nbr; m.brs <- a
  end;
  m.brs.(m.nbr) <- br; m.nbr <- m.nbr + 1

let sm_step (m : sm) (x : xop) : out =
  match x with
  | XC (b, index, c) ->
      if b >= m.nbr then RBad else begin
        let br = m.brs.(b) in
        let ((sh1, br1), k) = consume_branch_fast { tick0 = m.t0; commits = [] } br index c in
        let kk = key k in
        let ((sh2, br2), k2) =
          (match Hashtbl.find_opt m.sreg kk with
           | None -> ((sh1, br1), k)
           | Some (_, l) -> consume_branch_fast { tick0 = m.t0; commits = [(k, l)] } br index c) in
        if not (zeq k k2) then failwith "internal: the tick depends on the registry";
        m.t0 <- sh2.tick0; m.brs.(b) <- br2;
        Hashtbl.replace m.sreg kk (k, reg_get sh2.commits k);
        RTick k
      end
  | XFork (b, n) ->
      if b >= m.nbr then RBad else begin
        let first = m.nbr in
        for _ = 1 to n do sm_push m m.brs.(b) done;
        RFork (nat_of_int first)
      end
  | XMerge _ -> RUnit
  | XFloor (t, d) -> RTime (floor_time t d)
  | XInit _ -> failwith "init"

let sm_registry (m : sm) : (z * z list) list =
  sort_reg (Hashtbl.fold (fun _ e acc -> e :: acc) m.sreg [])

(* ------------------------------------------------------------------ findings, capped per case and category *)
let caps : (int * string, int) Hashtbl.t = Hashtbl.create 16
let capped (id : int) (cat : string) (f : unit -> unit) =
  let n = (try Hashtbl.find caps (id, cat) with Not_found -> 0) in
  Hashtbl.replace caps (id, cat) (n + 1);
  if n < 4 then f ()

(* ------------------------------------------------------------------ one analysis: the operations between
   two initialisations of the item.  [fin] is the observation at its end (of the init operation that
   follows, or of the end of the case). *)
let analysis (id : int) (kind : string) (cfg : config) (big : bool) (nph : int) (ph : int)
             (xs : (int * sx * xop) list) (obs : sx list) (fin : sx) : unit =
  let where = if nph > 1 then Printf.sprintf "analysis %d of %d: " (ph + 1) nph else "" in
  let mismatch id what = mismatch id (where ^ what) in
  let propfail id what = propfail id (where ^ what) in
  let s0 = init_sys cfg in
  let d = (List.hd s0.brs).tick_size in
  let m = sm_init cfg in
  (* small cases: the plain extracted model and the whole histories judge; every third case also runs
     the indexed model and the segment-wise / indexed oracles of the large cases and the two must agree *)
  let self_check = not big && id mod 3 = 0 in
  let st = ref s0 in                (* the plain extracted model, small cases only *)
  let impl_outs = ref [] in         (* the implementation's outputs in the model's vocabulary *)
  let usable = ref true in          (* false when an observation cannot be turned into an output *)
  (* branch histories and consumed commits, from the implementation's outputs *)
  let lin = ref (Array.make 8 Nil) in
  let nlin = ref 1 in
  let lin_push l =
    if !nlin = Array.length !lin then begin
      let a = Array.make (2 * !nlin) Nil in Array.blit !lin 0 a 0 !nlin; lin := a end;
    !lin.(!nlin) <- l; incr nlin in
  let evs_rev = ref [] in
  let record x io =
    (match x, io with
     | XC (b, _, c), RTick k ->
         evs_rev := (c, k) :: !evs_rev;
         if b < !nlin then !lin.(b) <- Cell { ev = (c, k); up = !lin.(b); judged = false }
     | XFork (b, n), RFork _ -> if b < !nlin then (let l = !lin.(b) in for _ = 1 to n do lin_push l done)
     | _ -> ());
    impl_outs := io :: !impl_outs in
  List.iter2 (fun (i, sop, x) ob ->
    let here = Printf.sprintf "op#%d %s" i (string_of_sx sop) in
    let rs = if big || self_check then sm_step m x else RBad in
    let floor_obs t =
      let a = args ob in
      let gt = time_of_unix (zs (List.nth a 0)) (zs (List.nth a 1)) in
      count "floors";
      (match x with
       | XFloor (t_in, dd) when (match dd with Zpos _ -> true | _ -> false) ->
           (* property: the greatest multiple of d (from the zero time) not after t *)
           if not (floor_ok t_in dd gt) then
             propfail id (here ^ " FloorTime result " ^ string_of_z gt ^ " is not the greatest multiple of d not after t=" ^ string_of_z t_in)
           else if not (zeq gt t) then mismatch id (here ^ " FloorTime impl=" ^ string_of_z gt ^ " model=" ^ string_of_z t)
       | _ -> if not (zeq gt t) then mismatch id (here ^ " FloorTime (d<=0) impl=" ^ string_of_z gt ^ " model=" ^ string_of_z t)) in
    if big then begin
      (* compact observations: the tick / the first clone only; the model is the indexed one *)
      (match rs, ob with
       | RBad, L [A "bad"] -> record x RBad
       | RTick k, A g ->
           let gk = z_of_string g in
           record x (RTick gk);
           if not (zeq gk k) then capped id "tick" (fun () -> mismatch id (here ^ " tick impl=" ^ string_of_z gk ^ " model=" ^ string_of_z k))
       | RFork f, L [A "fork"; g] ->
           record x (RFork f);
           if int_of_nat f <> int_of_sx g then capped id "fork" (fun () -> mismatch id (here ^ " first clone"))
       | RUnit, L [A "u"] -> record x RUnit
       | RTime t, L (A "time" :: _) -> record x (RTime t); floor_obs t
       | _, L [A ("panic" | "error")] ->
           usable := false; record x RBad;
           capped id "failed" (fun () -> propfail id (here ^ " the implementation failed: " ^ string_of_sx ob))
       | _ -> usable := false; record x RBad; capped id "shape" (fun () -> mismatch id (here ^ " observation shape " ^ clip (string_of_sx ob))))
    end else begin
      let (st', r) = step !st (op_of_x x) in
      if self_check && r <> rs then failwith ("internal: the indexed model differs from the extracted step at " ^ here);
      let prevs_model = List.map (fun b -> b.previous_tick) st'.brs in
      let check_prevs p =
        let got = List.map zs (args p) in
        if not (zlist_eq got prevs_model) then
          mismatch id (here ^ " previousTick of the branches: impl=" ^ show_zs got ^ " model=" ^ show_zs prevs_model) in
      (match r, tag ob with
       | RBad, "bad" -> record x RBad
       | RTick k, "tick" ->
           let a = args ob in
           let gk = zs (List.nth a 0) in
           record x (RTick gk);
           if not (zeq gk k) then mismatch id (here ^ " tick impl=" ^ string_of_z gk ^ " model=" ^ string_of_z k);
           check_prevs (List.nth a 1);
           let t0 = (match args (List.nth a 2) with [s; n] -> time_of_unix (zs s) (zs n) | _ -> failwith "t0") in
           if not (zeq t0 st'.sh.tick0) then
             mismatch id (here ^ " tick0 impl=" ^ string_of_z t0 ^ " model=" ^ string_of_z st'.sh.tick0);
           let under = List.map zs (list_of_sx (List.hd (args (List.nth a 3)))) in
           let munder = reg_get st'.sh.commits gk in
           if not (zlist_eq under munder) then
             mismatch id (here ^ " commits[tick] impl=" ^ show_zs under ^ " model=" ^ show_zs munder);
           if int_of_sx (List.nth a 4) <> 1 then mismatch id (here ^ " Consume returned more than the tick")
       | RFork f, "fork" ->
           record x (RFork f);
           if int_of_nat f <> int_of_sx (List.nth (args ob) 0) then mismatch id (here ^ " first clone");
           check_prevs (List.nth (args ob) 1)
       | RUnit, "u" -> record x RUnit; check_prevs (List.hd (args ob))
       | RTime t, "time" -> record x (RTime t); floor_obs t
       | _, ("panic" | "error") ->
           usable := false; record x RBad;
           propfail id (here ^ " the implementation failed: " ^ string_of_sx ob)
       | _ -> usable := false; record x RBad; mismatch id (here ^ " observation shape " ^ string_of_sx ob));
      st := st'
    end) xs obs;
  (* ---------------- the end of the analysis *)
  let mreg = if big then sm_registry m else sort_reg !st.sh.commits in
  if self_check && not (reg_eq (sm_registry m) mreg) then failwith "internal: the indexed registry differs from the extracted model's";
  let (greg, preg_opt, same_map) = (match args fin with
    | dsx :: pub :: same :: reg :: rest ->
        if not (zeq (zs dsx) d) then mismatch id ("TickSize impl=" ^ atom dsx ^ " model=" ^ string_of_z d);
        (* the published fact is what Configure computed (before Initialize replaces a zero size) *)
        let mpub = (match cfg with CDirect _ -> configure CDefault | _ -> configure cfg) in
        if not (zeq (zs pub) mpub) then mismatch id ("published tick size impl=" ^ atom pub ^ " model=" ^ string_of_z mpub);
        let pubreg = (match rest with
          | p :: _ when tag p = "pub" -> (match args p with [A "eq"] -> None | _ -> Some (reg_of_sx p))
          | _ -> None) in
        List.iter (fun f -> match tag f with
          | "prev" ->
              let got = List.map zs (args f) in
              let model = List.init m.nbr (fun i -> m.brs.(i).previous_tick) in
              if not (zlist_eq got model) then
                mismatch id ("previousTick of the branches at the end: impl=" ^ show_zs_short got ^ " model=" ^ show_zs_short model)
          | "t0" ->
              let t0 = (match args f with [s; n] -> time_of_unix (zs s) (zs n) | _ -> failwith "t0") in
              if not (zeq t0 m.t0) then mismatch id ("tick0 at the end impl=" ^ string_of_z t0 ^ " model=" ^ string_of_z m.t0)
          | "after" ->
              (* the state right after the next Initialize: both registries empty, previousTick 0, tick0 the zero time *)
              (match List.map zs (args f) with
               | [a; b; p; s; n] ->
                   if not (zeq a Z0 && zeq b Z0) then
                     mismatch id ("after Initialize the registry has " ^ string_of_z a ^ " ticks, the published one " ^ string_of_z b ^ " (model: emptied in place)");
                   if not (zeq p Z0) then mismatch id ("after Initialize previousTick impl=" ^ string_of_z p ^ " model=0");
                   if not (zeq (time_of_unix s n) Z0) then mismatch id ("after Initialize tick0 impl=" ^ string_of_z (time_of_unix s n) ^ " model=0")
               | _ -> failwith "after")
          | _ -> ()) rest;
        (reg_of_sx reg, pubreg, bool_of_sx same)
    | _ -> failwith "end observation") in
  if not (reg_eq greg mreg) then
    mismatch id ("final registry impl=" ^ show_reg greg ^ " model=" ^ show_reg mreg);
  (match preg_opt with
   | Some p when not (reg_eq p mreg) -> mismatch id ("final PUBLISHED registry impl=" ^ show_reg p ^ " model=" ^ show_reg mreg)
   | _ -> ());
  (* ---------------- property oracles on the implementation's outputs.  The registry that counts is the
     published one (what a downstream item holds); a private map that differs is judged as well. *)
  if !usable then begin
    let outs = List.rev !impl_outs in
    let flat = List.map (fun (_, _, x) -> op_flat x) xs in
    (* the histories in segments: every cell once, with the tick and the time that precede the segment
       (C19_history_in_segments).  Small cases are judged on the whole histories computed by the extracted
       [lineages]; the segments are then only a self-check. *)
    let segments = if not (big || self_check) then [] else List.concat (List.init !nlin (fun b ->
      let rec walk c acc = (match c with
        | Cell r when not r.judged -> r.judged <- true; walk r.up (r.ev :: acc)
        | Cell r -> (Some r.ev, acc)
        | Nil -> (None, acc)) in
      let (before, seg) = walk !lin.(b) [] in
      if seg = [] then [] else [(b, before, seg)])) in
    let (lins, evs) =
      if big then ([], List.rev !evs_rev)
      else begin
        let ops = List.map (fun (_, _, x) -> op_of_x x) xs in
        let lins = lineages ops outs [[]] and evs = consumed ops outs in
        if self_check then begin
          let mine = List.init !nlin (fun b ->
            let rec all c acc = (match c with Cell r -> all r.up (r.ev :: acc) | Nil -> acc) in all !lin.(b) []) in
          if mine <> lins then failwith "internal: branch histories differ from the extracted lineages";
          if List.rev !evs_rev <> evs || consumed flat outs <> evs then failwith "internal: consumed commits differ from the extracted consumed";
          if shape ops outs <> shape flat outs then failwith "internal: shape reads branch numbers"
        end;
        (lins, evs)
      end in
    let whole = List.mapi (fun b l -> (b, None, l)) lins in
    (* a per-history oracle: reported on the segments (large cases) or on the whole histories *)
    let judge what (f : bool -> (int * event option * event list) list -> bool) =
      if big then ignore (f true segments)
      else begin
        let bad = f true whole in
        if self_check && bad <> f false segments then failwith ("internal: segment-wise " ^ what ^ " differs")
      end in
    let by_hash : (string, event) Hashtbl.t = Hashtbl.create 64 in
    let hashes = ref [] in
    List.iter (fun e ->
      let hk = key (fst e).c_hash in
      if not (Hashtbl.mem by_hash hk) then hashes := hk :: !hashes;
      Hashtbl.add by_hash hk e) (List.rev evs);   (* find_all: oldest first *)
    let hashes = !hashes in
    let after = function None -> "" | Some e -> " (the part of the history after commit " ^ string_of_z (fst e).c_hash ^ " with tick " ^ string_of_z (snd e) ^ ")" in
    (* monotone along every branch history: all inputs *)
    let decreasing report parts =
      List.fold_left (fun bad (b, before, l) ->
        let p = (match before with None -> Z0 | Some e -> snd e) in
        if nondecreasing p (ticks l) then bad else begin
          if report then capped id "decrease" (fun () ->
            propfail id (Printf.sprintf "ticks decrease along the history of branch %d: %s%s" b (show_zs_short (ticks l)) (after before)));
          true end) false parts in
    judge "monotonicity" decreasing;
    let regs = (match preg_opt with
      | None -> [("", greg)]
      | Some p -> [(" in the PUBLISHED registry (facts[TicksSinceStart.Commits] captured at Configure time)", p);
                   (" in the item's private registry", greg)]) in
    let indexed = List.map (fun (name, r) ->
      let t : (string, z * z list) Hashtbl.t = Hashtbl.create 64 in
      List.iter (fun (k, l) -> Hashtbl.replace t (key k) (k, l)) r;
      let cnt : (string, int) Hashtbl.t = Hashtbl.create 64 in
      List.iter (fun (_, l) -> List.iter (fun h -> let hk = key h in
        Hashtbl.replace cnt hk (1 + try Hashtbl.find cnt hk with Not_found -> 0)) l) r;
      (name, r, t, cnt)) regs in
    let count_of cnt h = (try Hashtbl.find cnt (key h) with Not_found -> 0) in
    List.iter (fun (name, r, t, cnt) ->
      (* every consumed commit is listed under its tick: all inputs *)
      let listed_i e = (match Hashtbl.find_opt t (key (snd e)) with None -> false | Some kl -> listed [kl] e) in
      let all_listed = ref true in
      List.iter (fun e ->
        if not (listed_i e) then begin
          all_listed := false;
          capped id ("listed" ^ name) (fun () ->
            propfail id ("commit " ^ string_of_z (fst e).c_hash ^ " got tick " ^ string_of_z (snd e) ^ " but is not listed under it" ^ name ^ ": " ^ show_reg r))
        end) evs;
      (* nothing else is listed: whatever is listed under a tick was consumed with that tick in THIS analysis *)
      let only = ref true in
      List.iter (fun (k, l) -> List.iter (fun h ->
        if not (only_consumed [(k, [h])] (Hashtbl.find_all by_hash (key h))) then begin
          only := false;
          capped id ("only" ^ name) (fun () ->
            propfail id ("tick " ^ string_of_z k ^ " lists commit " ^ string_of_z h ^ name ^ ", which this analysis did not consume with that tick"
                         ^ " (a commit of an analysis before the last Initialize, or a wrong tick): " ^ show_reg r))
        end) l) r;
      if not big then begin
        if List.for_all (listed r) evs <> !all_listed then failwith "internal: indexed listed differs";
        if only_consumed r evs <> !only then failwith "internal: indexed only_consumed differs";
        List.iter (fun e -> if int_of_nat (reg_count r (fst e).c_hash) <> count_of cnt (fst e).c_hash then failwith "internal: indexed reg_count differs") evs
      end) indexed;
    if not same_map then
      propfail id "the branches and the registry published in facts[TicksSinceStart.Commits] at Configure time are not one commits registry";
    let positive = (match d with Zpos _ -> true | _ -> false) in
    match shape flat outs with
    | Some c0 when positive && evs <> [] ->
        count "in_domain";
        let t0 = spec_t0 c0.c_when d in
        (* tick = max prev (whole periods elapsed since t0), with unbounded integers, along every
           history.  Where Time.Sub saturates (more than 2^63-1 ns between t0 and the commit) a
           difference is the known finding F17; it is expected only in the -sat streams. *)
        let sat_stream = String.length kind >= 4 && String.sub kind (String.length kind - 4) 4 = "-sat" in
        let formula report parts =
          List.fold_left (fun bad (b, before, l) ->
            let prev = ref (match before with None -> Z0 | Some e -> snd e) in
            List.fold_left2 (fun bad e (ok, inr) ->
              let bad' = bad || not ok in
              if not ok && report then begin
                let t = (fst e).c_when in
                let expected = spec_tick t0 d !prev t in
                if inr then
                  capped id "formula" (fun () ->
                    propfail id (Printf.sprintf "tick formula violated on branch %d: commit %s at t=%s got tick %s, expected max(prev=%s, floor((t - t0)/d)) = %s (t0=%s d=%s)"
                                 b (string_of_z (fst e).c_hash) (string_of_z t) (string_of_z (snd e)) (string_of_z !prev)
                                 (string_of_z expected) (string_of_z t0) (string_of_z d)))
                else
                  Conv.propfail id (Printf.sprintf "[duration-saturation]%s tick %s given on branch %d to commit %s but %s periods have elapsed since the start of tick 0 (t - t0 = %s ns is beyond the +-2^63 ns of time.Duration; t0=%s d=%s prev=%s)%s"
                                 (if sat_stream then "" else "[outside-sat-stream]")
                                 (string_of_z (snd e)) b (string_of_z (fst e).c_hash) (string_of_z expected)
                                 (string_of_z (Z.sub t t0)) (string_of_z t0) (string_of_z d) (string_of_z !prev)
                                 (if nph > 1 then Printf.sprintf " (analysis %d of %d)" (ph + 1) nph else ""))
              end;
              prev := snd e; bad') bad l (chain_verdicts t0 d !prev l)) false parts in
        judge "formula" formula;
        if List.exists (fun e -> not (in_range t0 (fst e).c_when)) evs then count "saturated";
        if List.exists (fun e -> Z.ltb (fst e).c_when t0) evs then count "before_start";
        (* monotone committer times: no raising, the tick depends on the commit alone, listed exactly once *)
        let replays = List.for_all (fun h -> replays_ok (Hashtbl.find_all by_hash h)) hashes in
        if not big && replays_ok evs <> replays then failwith "internal: indexed replays_ok differs";
        let mono parts = List.for_all (fun (_, before, l) ->
          nondecreasing (match before with None -> c0.c_when | Some e -> (fst e).c_when) (times l)) parts in
        let monotone = if big then mono segments else List.for_all (mono_times c0.c_when) lins in
        if self_check && mono segments <> monotone then failwith "internal: segment-wise mono_times differs";
        if monotone && replays then begin
          count "monotone_times";
          let raised report parts =
            List.fold_left (fun bad (b, before, l) ->
              if alone t0 d l then bad else begin
                if report then capped id "alone" (fun () ->
                  propfail id (Printf.sprintf "committer times are monotone but a tick was raised on branch %d: times=%s ticks=%s%s" b
                               (show_zs_short (times l)) (show_zs_short (ticks l)) (after before)));
                true end) false parts in
          judge "alone" raised;
          List.iter (fun (name, r, _, cnt) ->
            List.iter (fun e ->
              let n = count_of cnt (fst e).c_hash in
              if n <> 1 then
                capped id ("once" ^ name) (fun () ->
                  propfail id ("committer times are monotone but commit " ^ string_of_z (fst e).c_hash ^ " is listed "
                               ^ string_of_int n ^ " times" ^ name ^ ": " ^ show_reg r))) evs) indexed
        end else if List.exists (fun e -> List.exists (fun (_, _, _, cnt) -> count_of cnt (fst e).c_hash > 1) indexed) evs then count "listed_more_than_once"
    | _ -> count "outside_domain"
  end

let () =
  iter_cases (fun id c ->
    Hashtbl.reset caps;
    let cfg = cfg_of_sx (field "cfg" c) in
    let kind = atom (List.hd (args (field "kind" c))) in
    let big = (match field_opt "big" c with Some b -> bool_of_sx (List.hd (args b)) | None -> false) in
    let sops = args (field "ops" c) in
    let obs = args (field "obs" c) in
    let nops = List.length sops in
    if List.length obs <> nops + 1 then failwith "ops/obs length";
    (* split into analyses at the init operations *)
    let nph = 1 + List.length (List.filter (fun s -> tag s = "init") sops) in
    if nph > 1 then count "lifecycles";
    if big then count "big";
    (* cfg is how the item was configured for the current analysis *)
    let cfg0 = cfg in
    let rec go cfg ph i cur_ops cur_obs sops obs =
      match sops, obs with
      | [], [fin] -> analysis id kind cfg big nph ph (List.rev cur_ops) (List.rev cur_obs) fin
      | s :: sops', ob :: obs' ->
          (match xop_of_sx s with
           | XInit v ->
               (match tag ob with
                | "init" -> ()
                | _ -> propfail id (Printf.sprintf "op#%d Initialize failed: %s" i (string_of_sx ob)));
               if tag ob = "init" then begin
                 analysis id kind cfg big nph ph (List.rev cur_ops) (List.rev cur_obs) ob;
                 (* 0: Initialize only; 1: Configure with the facts map of the previous Configure, in which the
                    option has been overwritten by the fact of the same name; 2, 3: the option set again *)
                 let cfg' = (match v with
                   | 0 -> cfg
                   | 1 -> reconfigure_same_facts cfg0
                   | 2 | 3 -> cfg0
                   | _ -> failwith "init variant") in
                 go cfg' (ph + 1) (i + 1) [] [] sops' obs'
               end
           | x -> go cfg ph (i + 1) ((i, s, x) :: cur_ops) (ob :: cur_obs) sops' obs')
      | _ -> failwith "ops/obs length" in
    go cfg0 0 0 [] [] sops obs);
  List.iter (fun (id, what) -> Printf.printf "MISMATCH %d %s\n" id what) (List.rev !deferred)
