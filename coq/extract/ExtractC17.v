Require Extraction.
Require Import ExtrOcamlBasic.
From Herc Require Import Base.Conv Results.PB Results.Yaml.
Extraction "c17_model.ml" conv_anchor
  to_sparse of_sparse dense_to_csr map_to_csr csr_to_dense csr_to_maps clamp_matrix
  encode_burndown decode_burndown normalise_burndown image_burndown
  shape_burndown aligned_burndown rectangular_burndown in_range_burndown rect cells_u32
  encode_devs decode_devs shape_devs in_range_devs
  encode_couples decode_couples normalise_couples shape_couples in_range_couples
  print_matrix text_sources text_burndown shape_okb shapes_okb dec_step.
