(* C08: the generic lemmas of Fork/Proofs.v restated over the [Item] record ("for every item"), and the
   facts that are specific to one built-in item. *)
From Coq Require Import ZArith List Bool Lia Arith.
From Herc Require Import Fork.Model Fork.Proofs Fork.Lineage.
Import ListNotations.
Local Open Scope nat_scope.

Notation ibstate it := (bstate (it_priv it) (it_shared it)) (only parsing).
Notation irun it := (run (it_priv it) (it_shared it) (it_op it) (it_out it) (it_step it)) (only parsing).
Notation ifork it := (fork (it_priv it) (it_shared it)) (only parsing).
Notation isolo it := (solo (it_priv it) (it_shared it) (it_op it) (it_out it) (it_step it)) (only parsing).
Notation not_on it j := (fun a => negb (steps_on (it_op it) j a)) (only parsing).

(* what copy j would report: any function of its private state and of the shared state *)
Definition ireport (it : Item) {A} (obs : it_priv it -> it_shared it -> A) (j : nat) (bs : ibstate it) : option A :=
  option_map (fun p => obs p (shd bs)) (nth_error (privs bs) j).

Lemma item_frame : forall (it : Item) (acts : list (act (it_op it))) (bs : ibstate it) (j : nat) (p : it_priv it),
  nth_error (privs bs) j = Some p ->
  forallb (not_on it j) acts = true ->
  nth_error (privs (fst (irun it acts bs))) j = Some p.
Proof. intros it. exact (run_frame _ _ _ _ (it_step it)). Qed.

Lemma item_fork_copies : forall (it : Item) (bs : ibstate it) (i n : nat) (p : it_priv it),
  nth_error (privs bs) i = Some p ->
  shd (ifork it i n bs) = shd bs /\
  length (privs (ifork it i n bs)) = length (privs bs) + n /\
  (forall j, j < length (privs bs) -> nth_error (privs (ifork it i n bs)) j = nth_error (privs bs) j) /\
  (forall k, k < n -> nth_error (privs (ifork it i n bs)) (length (privs bs) + k) = Some p).
Proof. intros it bs i n p. exact (fork_spec _ _ i n bs p). Qed.

Lemma item_shared_only : forall (it : Item) (A : Type) (obs : it_priv it -> it_shared it -> A)
    (acts1 acts2 : list (act (it_op it))) (bs : ibstate it) (j : nat) (p : it_priv it),
  nth_error (privs bs) j = Some p ->
  forallb (not_on it j) acts1 = true ->
  forallb (not_on it j) acts2 = true ->
  (* whatever was done on the other copies, copy j reports from its old private state and the new shared state *)
  ireport it obs j (fst (irun it acts1 bs)) = Some (obs p (shd (fst (irun it acts1 bs)))) /\
  (* hence two histories of the other copies that leave the same shared state are indistinguishable for copy j *)
  (shd (fst (irun it acts1 bs)) = shd (fst (irun it acts2 bs)) ->
   ireport it obs j (fst (irun it acts1 bs)) = ireport it obs j (fst (irun it acts2 bs))).
Proof.
  intros it A obs acts1 acts2 bs j p H H1 H2. split.
  - exact (shared_only_explicit _ _ _ _ (it_step it) A obs acts1 bs j p H H1).
  - exact (shared_only _ _ _ _ (it_step it) A obs acts1 acts2 bs j p H H1 H2).
Qed.

(* An item is "view-determined" when the effect of a step on the private state and its output depend on
   the shared state only through [view], and the operations accepted by [okop] leave [view] alone. *)
Record ViewDet (it : Item) : Type := MkViewDet {
  vd_V : Type;
  vd_view : it_shared it -> vd_V;
  vd_okop : it_op it -> bool;
  vd_det : forall o p s1 s2, vd_view s1 = vd_view s2 ->
     fst (fst (it_step it o p s1)) = fst (fst (it_step it o p s2)) /\ snd (it_step it o p s1) = snd (it_step it o p s2);
  vd_stab : forall o p s, vd_okop o = true -> vd_view (snd (fst (it_step it o p s))) = vd_view s
}.

Definition iact_ok (it : Item) (vd : ViewDet it) (a : act (it_op it)) : bool :=
  match a with AStep _ o => vd_okop it vd o | AFork _ _ => true end.

Lemma item_twin : forall (it : Item) (vd : ViewDet it) (acts : list (act (it_op it))) (bs : ibstate it)
    (j : nat) (p : it_priv it) (s0 : it_shared it),
  nth_error (privs bs) j = Some p ->
  vd_view it vd s0 = vd_view it vd (shd bs) ->
  forallb (iact_ok it vd) acts = true ->
  outs_of (it_op it) (it_out it) j acts (snd (irun it acts bs)) = snd (isolo it (ops_of (it_op it) j acts) p s0) /\
  nth_error (privs (fst (irun it acts bs))) j = Some (fst (fst (isolo it (ops_of (it_op it) j acts) p s0))).
Proof.
  intros it vd acts bs j p s0 H Hv Hok.
  exact (twin _ _ _ _ (it_step it) (vd_V it vd) (vd_view it vd) (vd_okop it vd) (vd_det it vd) (vd_stab it vd)
              acts bs j p s0 H Hv Hok).
Qed.

(* the twin of a copy that was created by forks of forks: its lineage *)
Lemma item_lineage_twin : forall (it : Item) (vd : ViewDet it) (acts : list (act (it_op it))) (bs : ibstate it)
    (s0 : it_shared it) (j r : nat) (ops : list (it_op it)),
  vd_view it vd s0 = vd_view it vd (shd bs) ->
  forallb (iact_ok it vd) acts = true ->
  nth_error (lin_run (it_op it) acts (lin_init (it_op it) (length (privs bs)))) j = Some (r, ops) ->
  exists p0, nth_error (privs bs) r = Some p0 /\
    nth_error (privs (fst (irun it acts bs))) j = Some (fst (fst (isolo it ops p0 s0))) /\
    forall o, snd (step_on (it_priv it) (it_shared it) (it_op it) (it_out it) (it_step it) j o (fst (irun it acts bs)))
              = Some (snd (it_step it o (fst (fst (isolo it ops p0 s0))) (snd (fst (isolo it ops p0 s0))))).
Proof.
  intros it vd acts bs s0 j r ops Hv Hok HL.
  exact (lineage_twin _ _ _ _ (it_step it) (vd_V it vd) (vd_view it vd) (vd_okop it vd) (vd_det it vd) (vd_stab it vd)
                      acts bs s0 j r ops Hv Hok HL).
Qed.

(* ------------------------------------------------------------------------------------------ *)
(* The plumbing items are view-determined. *)

Definition td_viewdet : ViewDet td_item.
Proof.
  refine (MkViewDet td_item unit (fun _ => tt) (fun _ => true) _ _).
  - intros o p [] [] _. split; reflexivity.
  - intros o p s _. reflexivity.
Defined.

Definition bc_viewdet : ViewDet bc_item.
Proof.
  refine (MkViewDet bc_item unit (fun _ => tt) (fun _ => true) _ _).
  - intros o p [] [] _. split; reflexivity.
  - intros o p s _. reflexivity.
Defined.

Definition rb_viewdet : ViewDet rb_item.
Proof.
  refine (MkViewDet rb_item unit (fun _ => tt) (fun _ => true) _ _).
  - intros o p [] [] _. split; reflexivity.
  - intros o p s _. reflexivity.
Defined.

(* TicksSinceStart: everything but the registry is determined by tick0, which only the commit with
   index 0 (the first commit of the whole run) writes. *)
Definition tk_okop (o : commit * Z) : bool := negb (Z.eqb (snd o) 0).

Lemma tk_det : forall size o p s1 s2, ts_tick0 s1 = ts_tick0 s2 ->
  fst (fst (tk_step size o p s1)) = fst (fst (tk_step size o p s2)) /\ snd (tk_step size o p s1) = snd (tk_step size o p s2).
Proof.
  intros size [c ix] p s1 s2 H. unfold tk_step. rewrite H.
  destruct (Z.eqb ix 0); cbn [fst snd]; split; reflexivity.
Qed.

Lemma tk_stab : forall size o p s, tk_okop o = true -> ts_tick0 (snd (fst (tk_step size o p s))) = ts_tick0 s.
Proof.
  intros size [c ix] p s H. unfold tk_okop in H. cbn [snd] in H. apply negb_true_iff in H.
  unfold tk_step. rewrite H. cbn [fst snd ts_tick0]. reflexivity.
Qed.

Definition tk_viewdet (size : Z) : ViewDet (tk_item size) :=
  MkViewDet (tk_item size) Z ts_tick0 tk_okop (tk_det size) (tk_stab size).

(* the chain TreeDiff -> BlobCache, TicksSinceStart of one branch *)
Lemma pl_det : forall size o p s1 s2, ts_tick0 s1 = ts_tick0 s2 ->
  fst (fst (pl_step size o p s1)) = fst (fst (pl_step size o p s2)) /\ snd (pl_step size o p s1) = snd (pl_step size o p s2).
Proof.
  intros size o p s1 s2 H. unfold pl_step.
  destruct (td_step (fst o) (pp_td p) tt) as [[td' u] chs]. destruct chs as [l|]; [|split; reflexivity].
  destruct (bc_step l (pp_bc p) tt) as [[bc' u'] cache].
  destruct (tk_det size o (pp_tk p) s1 s2 H) as [D1 D2].
  destruct (tk_step size o (pp_tk p) s1) as [[k1 t1] x1], (tk_step size o (pp_tk p) s2) as [[k2 t2] x2].
  cbn [fst snd] in *. subst. split; reflexivity.
Qed.

Lemma pl_stab : forall size o p s, tk_okop o = true -> ts_tick0 (snd (fst (pl_step size o p s))) = ts_tick0 s.
Proof.
  intros size o p s H. unfold pl_step.
  destruct (td_step (fst o) (pp_td p) tt) as [[td' u] chs]. destruct chs as [l|]; [|reflexivity].
  destruct (bc_step l (pp_bc p) tt) as [[bc' u'] cache].
  pose proof (tk_stab size o (pp_tk p) s H) as T.
  destruct (tk_step size o (pp_tk p) s) as [[k1 t1] x1]. cbn [fst snd] in *. exact T.
Qed.

Definition pl_viewdet (size : Z) : ViewDet (pl_item size) :=
  MkViewDet (pl_item size) Z ts_tick0 tk_okop (pl_det size) (pl_stab size).

(* the twin theorem spelled out for the built-in plumbing items *)
Definition no_first_commit (a : act (commit * Z)) : bool :=
  match a with AStep _ o => negb (Z.eqb (snd o) 0) | AFork _ _ => true end.

Lemma td_twin : forall (acts : list (act commit)) (bs : bstate td_priv unit) (j : nat) (p : td_priv),
  nth_error (privs bs) j = Some p ->
  outs_of commit (option (list tchange)) j acts (snd (run td_priv unit commit (option (list tchange)) td_step acts bs))
    = snd (solo td_priv unit commit (option (list tchange)) td_step (ops_of commit j acts) p tt) /\
  nth_error (privs (fst (run td_priv unit commit (option (list tchange)) td_step acts bs))) j
    = Some (fst (fst (solo td_priv unit commit (option (list tchange)) td_step (ops_of commit j acts) p tt))).
Proof.
  intros acts bs j p H.
  apply (item_twin td_item td_viewdet acts bs j p tt H eq_refl).
  induction acts as [|[i o|i n] r IH]; cbn; auto.
Qed.

Lemma bc_twin : forall (acts : list (act (list tchange))) (bs : bstate (list Z) unit) (j : nat) (p : list Z),
  nth_error (privs bs) j = Some p ->
  outs_of (list tchange) (list Z) j acts (snd (run (list Z) unit (list tchange) (list Z) bc_step acts bs))
    = snd (solo (list Z) unit (list tchange) (list Z) bc_step (ops_of (list tchange) j acts) p tt) /\
  nth_error (privs (fst (run (list Z) unit (list tchange) (list Z) bc_step acts bs))) j
    = Some (fst (fst (solo (list Z) unit (list tchange) (list Z) bc_step (ops_of (list tchange) j acts) p tt))).
Proof.
  intros acts bs j p H.
  apply (item_twin bc_item bc_viewdet acts bs j p tt H eq_refl).
  induction acts as [|[i o|i n] r IH]; cbn; auto.
Qed.

Lemma rb_twin : forall (acts : list (act rb_op)) (bs : bstate rb_priv unit) (j : nat) (p : rb_priv),
  nth_error (privs bs) j = Some p ->
  outs_of rb_op bool j acts (snd (run rb_priv unit rb_op bool rb_step acts bs))
    = snd (solo rb_priv unit rb_op bool rb_step (ops_of rb_op j acts) p tt) /\
  nth_error (privs (fst (run rb_priv unit rb_op bool rb_step acts bs))) j
    = Some (fst (fst (solo rb_priv unit rb_op bool rb_step (ops_of rb_op j acts) p tt))).
Proof.
  intros acts bs j p H.
  apply (item_twin rb_item rb_viewdet acts bs j p tt H eq_refl).
  induction acts as [|[i o|i n] r IH]; cbn; auto.
Qed.

Lemma tk_twin : forall (size : Z) (acts : list (act (commit * Z))) (bs : bstate Z tk_shared) (j : nat) (p : Z) (s0 : tk_shared),
  nth_error (privs bs) j = Some p ->
  ts_tick0 s0 = ts_tick0 (shd bs) ->
  forallb no_first_commit acts = true ->
  outs_of (commit * Z) Z j acts (snd (run Z tk_shared (commit * Z) Z (tk_step size) acts bs))
    = snd (solo Z tk_shared (commit * Z) Z (tk_step size) (ops_of (commit * Z) j acts) p s0) /\
  nth_error (privs (fst (run Z tk_shared (commit * Z) Z (tk_step size) acts bs))) j
    = Some (fst (fst (solo Z tk_shared (commit * Z) Z (tk_step size) (ops_of (commit * Z) j acts) p s0))).
Proof. intros size. exact (item_twin (tk_item size) (tk_viewdet size)). Qed.

Lemma pl_twin : forall (size : Z) (acts : list (act (commit * Z))) (bs : bstate pl_priv tk_shared) (j : nat) (p : pl_priv) (s0 : tk_shared),
  nth_error (privs bs) j = Some p ->
  ts_tick0 s0 = ts_tick0 (shd bs) ->
  forallb no_first_commit acts = true ->
  outs_of (commit * Z) pl_out j acts (snd (run pl_priv tk_shared (commit * Z) pl_out (pl_step size) acts bs))
    = snd (solo pl_priv tk_shared (commit * Z) pl_out (pl_step size) (ops_of (commit * Z) j acts) p s0) /\
  nth_error (privs (fst (run pl_priv tk_shared (commit * Z) pl_out (pl_step size) acts bs))) j
    = Some (fst (fst (solo pl_priv tk_shared (commit * Z) pl_out (pl_step size) (ops_of (commit * Z) j acts) p s0))).
Proof. intros size. exact (item_twin (pl_item size) (pl_viewdet size)). Qed.

Lemma pl_lineage_twin : forall (size : Z) (acts : list (act (commit * Z))) (bs : bstate pl_priv tk_shared) (s0 : tk_shared)
    (j r : nat) (ops : list (commit * Z)),
  ts_tick0 s0 = ts_tick0 (shd bs) ->
  forallb no_first_commit acts = true ->
  nth_error (lin_run (commit * Z) acts (lin_init (commit * Z) (length (privs bs)))) j = Some (r, ops) ->
  exists p0, nth_error (privs bs) r = Some p0 /\
    nth_error (privs (fst (run pl_priv tk_shared (commit * Z) pl_out (pl_step size) acts bs))) j
      = Some (fst (fst (solo pl_priv tk_shared (commit * Z) pl_out (pl_step size) ops p0 s0))) /\
    forall o, snd (step_on pl_priv tk_shared (commit * Z) pl_out (pl_step size) j o
                     (fst (run pl_priv tk_shared (commit * Z) pl_out (pl_step size) acts bs)))
              = Some (snd (pl_step size o (fst (fst (solo pl_priv tk_shared (commit * Z) pl_out (pl_step size) ops p0 s0)))
                                          (snd (fst (solo pl_priv tk_shared (commit * Z) pl_out (pl_step size) ops p0 s0))))).
Proof. intros size. exact (item_lineage_twin (pl_item size) (pl_viewdet size)). Qed.

(* ------------------------------------------------------------------------------------------ *)
(* BurndownAnalysis: the tracked files of a copy are touched by nobody else (instance of the frame lemma),
   while the shared bookkeeping really is a channel between branches (see the examples in props/C08.v). *)

Lemma bd_files_frame : forall (people track : bool) (acts : list (act bd_op)) (bs : bstate bd_priv bd_shared) (j : nat) (p : bd_priv),
  nth_error (privs bs) j = Some p ->
  forallb (fun a => negb (steps_on bd_op j a)) acts = true ->
  option_map bp_files (nth_error (privs (fst (run bd_priv bd_shared bd_op bd_out (bd_step people track) acts bs))) j) = Some (bp_files p).
Proof.
  intros people track acts bs j p H Hall.
  pose proof (item_frame (bd_item people track) acts bs j p H Hall) as F. cbn in F. rewrite F. reflexivity.
Qed.

(* Items forked with ForkSamePipelineItem: a step on any copy is a step on the one shared state. *)
Lemma sm_all_shared : forall (St Op Rs : Type) (consume : Op -> St -> St * Rs) (i : nat) (o : Op)
    (bs : bstate unit St),
  nth_error (privs bs) i = Some tt ->
  shd (fst (step_on unit St Op Rs (sm_step St Op Rs consume) i o bs)) = fst (consume o (shd bs)) /\
  privs (fst (step_on unit St Op Rs (sm_step St Op Rs consume) i o bs)) = privs bs.
Proof.
  intros St Op Rs consume i o bs H. unfold step_on. rewrite H. unfold sm_step.
  destruct (consume o (shd bs)) as [s' r]. cbn [fst snd shd privs]. split; [reflexivity|].
  revert i H. induction (privs bs) as [|h t IH]; intros [|i] H; cbn in *; try discriminate.
  - now inversion H.
  - f_equal. now apply IH.
Qed.
