(* C18 - CommonAnalysisResult.Merge: earliest begin, latest end, sums; panics exactly on an uninitialised
   receiver end / argument begin (and on a nil per-item map that would have to be written). *)
From Coq Require Import List ZArith Bool Lia.
From Herc Require Import Combine.Model Combine.Spec Combine.Facts.
Import ListNotations.
Open Scope Z_scope.

Theorem common_merge_ok c1 c2 c :
  common_merge c1 c2 = Ok c ->
  c_begin c = Z.min (c_begin c1) (c_begin c2) /\
  c_end c = Z.max (c_end c1) (c_end c2) /\
  c_commits c = c_commits c1 + c_commits c2 /\
  c_runtime c = c_runtime c1 + c_runtime c2 /\
  c_end c1 <> 0 /\ c_begin c2 <> 0.
Proof.
  unfold common_merge. destruct (c_end c1 =? 0) eqn:E1; simpl; [discriminate|].
  destruct (c_begin c2 =? 0) eqn:E2; simpl; [discriminate|].
  intros H. inv_bind H. inversion H; subst; clear H. simpl.
  repeat split; try lia.
  - destruct (c_begin c2 <? c_begin c1) eqn:E; lia.
  - destruct (c_end c2 >? c_end c1) eqn:E; lia.
Qed.

Theorem common_merge_oracle c1 c2 c : common_merge c1 c2 = Ok c -> common_b c1 c2 c = true.
Proof.
  intros H. apply common_merge_ok in H. destruct H as (A & B & C & D & _).
  unfold common_b. rewrite A, B, C, D, !Z.eqb_refl. reflexivity.
Qed.

Theorem common_merge_panics c1 c2 :
  c_end c1 = 0 \/ c_begin c2 = 0 -> common_merge c1 c2 = Panic.
Proof.
  unfold common_merge. intros [H|H]; rewrite H; simpl; [reflexivity|].
  rewrite orb_true_r. reflexivity.
Qed.

Theorem common_merge_defined c1 c2 :
  c_end c1 <> 0 -> c_begin c2 <> 0 ->
  (c_items c1 <> None \/ c_items c2 = None \/ c_items c2 = Some []) ->
  exists c, common_merge c1 c2 = Ok c.
Proof.
  intros H1 H2 H3. unfold common_merge.
  destruct (c_end c1 =? 0) eqn:E1; [lia|]. destruct (c_begin c2 =? 0) eqn:E2; [lia|]. simpl.
  destruct (c_items c2) as [[|k ks]|]; simpl; eauto.
  destruct (c_items c1); simpl; eauto.
  destruct H3 as [H3|[H3|H3]]; congruence.
Qed.
