// Pipeline-level stream of C08 (forked branches are isolated until they are merged).
//
// The REAL Pipeline.Run (NewPipeline / AddItem / DeployItem / Initialize / Run) is executed on synthetic histories with
// 1..4 root commits, forks of arity 2..5 (sometimes nested, sometimes wider), octopus and two-parent merges, with
// hibernation distance 0..3, plan dump / action trace on, and the items
//
//	TicksSinceStart, TreeDiff, BlobCache      the built-in plumbing items, each inside a transparent wrapper
//	probe                                     a harness item forked BY VALUE (hercules.ForkCopyPipelineItem) whose private
//	                                          memory is the list of commits it has consumed
//	BurndownAnalysis (optional, bd = 1)       with IdentityDetector and FileDiff deployed from the registry; hibernation
//	                                          threshold 0 / small / large, in memory or on disk
//
// A wrapper delegates every call to the item it holds, gives every instance that Fork returns a number (creation order)
// and logs the calls.  What Run does is therefore OBSERVED as an operation list over instance numbers -
// (fork i n) (consume i commit index) (merge i j ..) (hib i) (boot i) - exactly the operations of the item-level streams,
// with a snapshot of EVERY instance after EVERY operation.  The driver judges it like an item-level case (sibling
// unchanged, fork copy equals origin, instance = private twin fed with the instance's own history, Boot restores what
// was hibernated) and replays it through the same extracted model.
//
// Which commits a branch is made of is defined by the run plan.  Run prints the plan it executes (DumpPlan /
// PrintActions through the package sink of internal/core, hook verifapi/c14.SetPlanPrinter); the harness interprets
// it (Emerge: empty history, Fork: the history of the forked branch, Commit: append) and records, for every Consume,
// the history of the plan's branch next to what the by-value probe of the consuming branch remembers: they must be
// equal - every branch of the plan is served by instances that consumed exactly the branch-local commit sequence.
// Together with the twin oracle: what a branch reports equals what an unforked instance fed with the branch-local
// sequence reports.
package main

import (
	"fmt"
	"hash/crc32"
	"math/rand"
	"os"
	"path/filepath"
	"runtime"
	"runtime/debug"
	"runtime/pprof"
	"sort"
	"strconv"
	"strings"
	"time"

	git "gopkg.in/src-d/go-git.v4"
	"gopkg.in/src-d/go-git.v4/plumbing"
	"gopkg.in/src-d/go-git.v4/plumbing/filemode"
	"gopkg.in/src-d/go-git.v4/plumbing/object"
	"gopkg.in/src-d/go-git.v4/utils/merkletrie"
	hercules "gopkg.in/src-d/hercules.v10"
	"gopkg.in/src-d/hercules.v10/leaves"
	"gopkg.in/src-d/hercules.v10/verifapi/c08"
	c14 "gopkg.in/src-d/hercules.v10/verifapi/c14"
	. "verifharness/lib"
	pl "verifharness/planlib"
	"verifharness/synth"
)

const (
	factHibernationDistance = "Pipeline.HibernationDistance"
	factDumpPlan            = "Pipeline.DumpPlan"
	factPrintActions        = "Pipeline.PrintActions"
)

const (
	optDumpPlan     = 1
	optPrintActions = 2
)

// ---------------------------------------------------------------------------------------------------------------
// histories (the commit format of the pl stream of harness/cmd/c08)

type plCommit struct {
	id      int
	parents []int
	time    int64
	tree    [][2]int // (path id, blob id), sorted by path id
}

func (cm plCommit) sx() Sx {
	var es []Sx
	for _, e := range cm.tree {
		es = append(es, L(I(e[0]), I(e[1])))
	}
	return T("c", I(cm.id), Ints(cm.parents), I64(cm.time), L(es...))
}

func parsePlCommit(s Sx) plCommit {
	a := s.Args()
	cm := plCommit{id: a[0].Int()}
	for _, p := range a[1].List {
		cm.parents = append(cm.parents, p.Int())
	}
	fmt.Sscan(a[2].Atom, &cm.time)
	for _, e := range a[3].List {
		cm.tree = append(cm.tree, [2]int{e.List[0].Int(), e.List[1].Int()})
	}
	return cm
}

// pathName: the path of file number pid.  Round 4 (R4-1, R4-2, R4-5): the numbers 10..40 are names that differ only in bytes a
// normalisation would collapse, share prefixes, or sit at decimal widths (as in harness/cmd/c08); a bijection, the model
// sees numbers only.
var nastyPaths = map[int]string{10: "P1", 11: "p1 ", 12: "p\xff", 13: "p\xef\xbf\xbd", 14: "\xef\xbb\xbfp1", 15: "p\t1", 16: "p1\r", 17: "d1/P3",
	18: "D1/p3", 19: "p\xc3", 20: "p\u00a01", 21: "p1\u2028", 22: " p1", 23: "p\u30001", 24: "p10", 25: "p11", 26: "p99", 27: "p100", 28: "p101",
	29: "p999", 30: "p1000", 31: "p1001", 32: "p\xc0\xaf1", 33: "p\xed\xa0\x801", 34: "d2/S/p2", 35: "d2/s/P2", 36: "p", 37: "pp1", 38: "p1\r\n",
	39: "d2/s/p2 ", 40: "p1.lnk"}
var nastyPathNo = func() map[string]int {
	m := map[string]int{}
	for i, n := range nastyPaths {
		m[n] = i
	}
	if len(m) != len(nastyPaths) {
		panic("nastyPaths: duplicate")
	}
	return m
}()

func pathName(pid int) string {
	if n, ok := nastyPaths[pid]; ok {
		return n
	}
	switch pid % 3 {
	case 0:
		return fmt.Sprintf("d1/p%d", pid)
	case 1:
		return fmt.Sprintf("p%d", pid)
	}
	return fmt.Sprintf("d2/s/p%d", pid)
}

func unpathName(s string) int {
	if k, ok := nastyPathNo[s]; ok {
		return k
	}
	pid, _ := strconv.Atoi(s[strings.LastIndex(s, "p")+1:])
	return pid
}

// nastyBlobs (R4-1, R4-4; runs without the burndown item only: its input is the real FileDiff): empty, BOM only, white space
// only, invalid UTF-8 next to a real U+FFFD, CR / CRLF, NUL; every content belongs to one blob number.
var nastyBlobs = map[int]string{3: "", 6: "\xef\xbb\xbf", 9: " \n\t \n", 12: "\xff\xfe\n", 15: "a\r\nb\rc\n", 18: "\x00\x01\x00", 21: "\xef\xbf\xbd\n",
	24: "\xff\n", 27: "\xef\xbb\xbfblob 27\n", 30: "\xc3", 33: "BLOB 34\n", 36: "\u00a0\u2028\u3000", 39: "blob 39", 42: "blob 39\n"}
var nastyContent = false

// blobData: a text of 1 + bid%7 lines; consecutive versions of a file share most lines
func blobData(bid int) []byte {
	if d, ok := nastyBlobs[bid]; ok && nastyContent {
		return []byte(d)
	}
	var sb strings.Builder
	fmt.Fprintf(&sb, "blob %d\n", bid)
	for i := 0; i < bid%7; i++ {
		fmt.Fprintf(&sb, "line %d\n", i)
	}
	return []byte(sb.String())
}

// blobMode: the entry kind is a function of the blob number (R4-4; runs without the burndown item)
func blobMode(bid int) filemode.FileMode {
	if nastyContent {
		switch bid % 7 {
		case 2:
			return filemode.Executable
		case 4:
			return filemode.Symlink
		}
	}
	return filemode.Regular
}

// commitWhen: author and committer time differ (the items read the committer's) and carry non-zero zone offsets (R4-3)
var plZones = []int{0, 19800, -28800, 50400, -43200, 20700, 3600}

func commitWhen(id int, t int64) (author, committer time.Time) {
	skew := []int64{0, 3 * 86400, -400 * 86400, 3600, -1}[id%5]
	author = time.Unix(t+skew, 0).In(time.FixedZone("", plZones[id%len(plZones)]))
	committer = time.Unix(t, 0).In(time.FixedZone("", plZones[(id/2+3)%len(plZones)]))
	return
}

const plBase = int64(1262304000) // 2010-01-01 00:00:00 UTC

// ---------------------------------------------------------------------------------------------------------------
// the world of one run: instances, events, observations

const (
	tTK = iota
	tTD
	tBC
	tBD
	tPR
	nTypes
)

var typeNames = [nTypes]string{"tk", "td", "bc", "bd", "pr"}

type evt struct {
	typ    int
	kind   string // fork | consume | merge | hib | boot
	id     int
	clones []int
	others []int
	commit *object.Commit
	index  int
	res    string // ok | err | panic
	out    map[string]interface{}
	mem    []int // probe: what it remembered before this Consume
	saw    Sx    // probe: what it was handed
}

type caseIn struct {
	kind    string
	size    int // tick size in hours
	dist    int
	opts    int
	bd      bool
	hth     int
	hdisk   bool
	people  bool
	commits []plCommit
}

type world struct {
	in       caseIn
	byID     map[int]int
	objs     []*object.Commit
	repo     *git.Repository
	blobID   map[plumbing.Hash]int
	commitID map[plumbing.Hash]int
	treeID   map[plumbing.Hash]int

	insts  [nTypes][]hercules.PipelineItem // the wrapped items / the probes, by instance number
	events []evt

	// the plan as printed by Run
	dump, printed []planLine
	dumpDone      bool
	lin           map[int][]int // plan interpretation: branch index -> the commits of the branch so far
	instOf        map[int]int   // plan interpretation: branch index -> instance number (-1: unknown)
	curStep       int           // the plan step that is being executed (-1 before the first)
	scale         bool          // large case: dead instances are not observed, twins are sampled

	hist     [][]plOpRec // per instance: the commits it (and its ancestors before the fork) consumed successfully
	twins    []*twinT    // per instance: its private twin (nil: not followed)
	first    *plOpRec    // the commit consumed with index 0 (it sets the shared tick0)
	lastP    []string
	lastPR   []string
	lastBD   []string
	ops, obs []Sx
	anomaly  []string
	hibDir   string
}

type planLine struct {
	tag   string
	items []int
	hash  string
}

type plOpRec struct {
	commit int
	index  int
}

func (w *world) cid(deps map[string]interface{}) (*object.Commit, int) {
	cm, _ := deps[hercules.DependencyCommit].(*object.Commit)
	ix, _ := deps[hercules.DependencyIndex].(int)
	return cm, ix
}

func (w *world) register(typ int, it hercules.PipelineItem) int {
	w.insts[typ] = append(w.insts[typ], it)
	return len(w.insts[typ]) - 1
}

// ---------------------------------------------------------------------------------------------------------------
// the transparent wrapper

type wrapItem struct {
	w     *world
	typ   int
	id    int
	inner hercules.PipelineItem
}

func (x *wrapItem) Name() string       { return x.inner.Name() }
func (x *wrapItem) Provides() []string { return x.inner.Provides() }
func (x *wrapItem) Requires() []string { return x.inner.Requires() }
func (x *wrapItem) ListConfigurationOptions() []hercules.ConfigurationOption {
	return x.inner.ListConfigurationOptions()
}
func (x *wrapItem) Configure(facts map[string]interface{}) error { return x.inner.Configure(facts) }
func (x *wrapItem) Initialize(r *git.Repository) error           { return x.inner.Initialize(r) }

func (x *wrapItem) Consume(deps map[string]interface{}) (map[string]interface{}, error) {
	cm, ix := x.w.cid(deps)
	e := evt{typ: x.typ, kind: "consume", id: x.id, commit: cm, index: ix, res: "ok"}
	var out map[string]interface{}
	var err error
	msg, panicked := Catch(func() { out, err = x.inner.Consume(deps) })
	if panicked {
		e.res = "panic"
		x.w.events = append(x.w.events, e)
		panic(msg)
	}
	if err != nil {
		e.res = "err"
	}
	e.out = out
	x.w.events = append(x.w.events, e)
	return out, err
}

func (x *wrapItem) Fork(n int) []hercules.PipelineItem {
	inner := x.inner.Fork(n)
	res := make([]hercules.PipelineItem, len(inner))
	e := evt{typ: x.typ, kind: "fork", id: x.id}
	for i, it := range inner {
		c := &wrapItem{w: x.w, typ: x.typ, inner: it}
		c.id = x.w.register(x.typ, it)
		e.clones = append(e.clones, c.id)
		if x.typ == tBD {
			res[i] = &wrapHib{c}
		} else {
			res[i] = c
		}
	}
	x.w.events = append(x.w.events, e)
	return res
}

func unwrap(it hercules.PipelineItem) *wrapItem {
	switch v := it.(type) {
	case *wrapItem:
		return v
	case *wrapHib:
		return v.wrapItem
	}
	panic("foreign item in a branch")
}

func (x *wrapItem) Merge(branches []hercules.PipelineItem) {
	e := evt{typ: x.typ, kind: "merge", id: x.id}
	inner := make([]hercules.PipelineItem, len(branches))
	for i, b := range branches {
		u := unwrap(b)
		inner[i] = u.inner
		e.others = append(e.others, u.id)
	}
	x.inner.Merge(inner)
	x.w.events = append(x.w.events, e)
}

// wrapHib: the wrapper of an item that can be hibernated (BurndownAnalysis)
type wrapHib struct{ *wrapItem }

func (x *wrapHib) hb(kind string) error {
	// what came before (the Consume / Fork / Merge calls of the previous plan step) is an operation of its own
	x.w.flush()
	e := evt{typ: x.typ, kind: kind, id: x.id, res: "ok"}
	var err error
	msg, panicked := Catch(func() {
		h := x.inner.(interface {
			Hibernate() error
			Boot() error
		})
		if kind == "hib" {
			err = h.Hibernate()
		} else {
			err = h.Boot()
		}
	})
	if panicked {
		e.res = "panic"
		x.w.events = append(x.w.events, e)
		x.w.flush()
		panic(msg)
	}
	if err != nil {
		e.res = "err"
	}
	x.w.events = append(x.w.events, e)
	x.w.flush()
	return err
}

func (x *wrapHib) Hibernate() error { return x.hb("hib") }
func (x *wrapHib) Boot() error      { return x.hb("boot") }

// ---------------------------------------------------------------------------------------------------------------
// the probe: forked by value; its memory is an immutable list of the commits it consumed

type memNode struct {
	commit int
	prev   *memNode
}

type probe struct {
	w   *world
	id  int
	mem *memNode
	n   int
}

const entProbe = "c08run.probe"

func (p *probe) Name() string       { return "C08RunProbe" }
func (p *probe) Provides() []string { return []string{entProbe} }
func (p *probe) Requires() []string {
	return []string{hercules.DependencyTick, hercules.DependencyTreeChanges, hercules.DependencyBlobCache}
}
func (p *probe) ListConfigurationOptions() []hercules.ConfigurationOption { return nil }
func (p *probe) Configure(map[string]interface{}) error                   { return nil }
func (p *probe) Initialize(*git.Repository) error                         { p.mem, p.n = nil, 0; return nil }

func (p *probe) memory() []int {
	l := make([]int, p.n)
	i := p.n - 1
	for m := p.mem; m != nil && i >= 0; m = m.prev {
		l[i] = m.commit
		i--
	}
	return l
}

func (p *probe) Consume(deps map[string]interface{}) (map[string]interface{}, error) {
	cm, ix := p.w.cid(deps)
	e := evt{typ: tPR, kind: "consume", id: p.id, commit: cm, index: ix, res: "ok", mem: p.memory()}
	tick, _ := deps[hercules.DependencyTick].(int)
	changes, _ := deps[hercules.DependencyTreeChanges].(object.Changes)
	cache, _ := deps[hercules.DependencyBlobCache].(map[plumbing.Hash]*hercules.CachedBlob)
	e.saw = T("saw", I(tick), I(len(changes)), I(len(cache)))
	p.w.events = append(p.w.events, e)
	c := -1
	if cm != nil {
		c = p.w.commitID[cm.Hash]
	}
	p.mem = &memNode{commit: c, prev: p.mem}
	p.n++
	return map[string]interface{}{entProbe: p.n}, nil
}

func (p *probe) Fork(n int) []hercules.PipelineItem {
	clones := hercules.ForkCopyPipelineItem(p, n)
	e := evt{typ: tPR, kind: "fork", id: p.id}
	for _, c := range clones {
		q := c.(*probe)
		q.id = p.w.register(tPR, q) // the number is the instance's name, not part of what is copied
		e.clones = append(e.clones, q.id)
	}
	p.w.events = append(p.w.events, e)
	return clones
}

func (p *probe) Merge(branches []hercules.PipelineItem) {
	e := evt{typ: tPR, kind: "merge", id: p.id}
	for _, b := range branches {
		e.others = append(e.others, b.(*probe).id)
	}
	p.w.events = append(p.w.events, e)
}

// ---------------------------------------------------------------------------------------------------------------
// snapshots

func (w *world) pSx(k int) Sx {
	td := w.insts[tTD][k].(*c08.TreeDiff)
	bc := w.insts[tBC][k].(*c08.BlobCache)
	tk := w.insts[tTK][k].(*c08.TicksSinceStart)
	th, has, ch := td.VerifC08Previous()
	pt := -1
	if has {
		pt = w.treeID[th]
	}
	pc := 0
	if ch != plumbing.ZeroHash {
		pc = w.commitID[ch]
	}
	var ks []int
	for _, h := range bc.VerifC08CacheKeys() {
		ks = append(ks, w.blobID[h])
	}
	sort.Ints(ks)
	return T("p", I(pt), I(pc), Ints(ks), I(tk.VerifC08PreviousTick()))
}

func bdSx(a *leaves.BurndownAnalysis) (res Sx) {
	defer func() {
		if r := recover(); r != nil {
			res = T("c", A("broken"))
		}
	}()
	if _, asleep := Catch(func() { a.VerifC08Used() }); asleep {
		if fn := a.VerifC08HibernatedFileName(); fn != "" {
			data, err := os.ReadFile(fn)
			if err != nil {
				return T("hib", A("disk"), A("missing"), I(0))
			}
			return T("hib", A("disk"), U64(uint64(crc32.ChecksumIEEE(data))), I(len(data)))
		}
		h := crc32.NewIEEE()
		n := 0
		for _, b := range a.VerifC08Allocator().VerifHibernatedData() {
			h.Write(b)
			h.Write([]byte{0xff})
			n += len(b)
		}
		return T("hib", A("mem"), U64(uint64(h.Sum32())), I(n))
	}
	tick, prev, ma := a.VerifC08Scalars()
	mf := a.VerifC08MergedFiles()
	var mfk []int
	byID := map[int]string{}
	for k := range mf {
		mfk = append(mfk, unpathName(k))
		byID[unpathName(k)] = k
	}
	sort.Ints(mfk)
	var mfs []Sx
	for _, k := range mfk {
		mfs = append(mfs, L(I(k), B(mf[byID[k]])))
	}
	names := a.VerifC08FileNames()
	sort.Slice(names, func(i, j int) bool { return unpathName(names[i]) < unpathName(names[j]) })
	var fs []Sx
	for _, n := range names {
		arr, _ := a.VerifC08Flatten(n)
		fs = append(fs, L(append([]Sx{I(unpathName(n))}, Ints(arr).List...)...))
	}
	return T("c", I(a.VerifC08Used()), I(tick), I(prev), I(ma), T("mf", mfs...), T("files", fs...))
}

// memDigest: what a probe remembers, as (m <number of commits> <crc of the list> <last commit>)
func memDigest(mem []int) Sx {
	h := crc32.NewIEEE()
	last := 0
	for _, c := range mem {
		fmt.Fprintf(h, "%d,", c)
		last = c
	}
	return T("m", I(len(mem)), U64(uint64(h.Sum32())), I(last))
}

// changed reports (k snapshot) when the snapshot of instance k differs from the last one recorded, nothing otherwise:
// the snapshot lists of this stream are sparse, an instance that is not listed is unchanged (or no longer read)
func changed(last *[]string, k int, s Sx, out *[]Sx) {
	for len(*last) <= k {
		*last = append(*last, "")
	}
	str := s.String()
	if str == (*last)[k] {
		return
	}
	(*last)[k] = str
	*out = append(*out, L(I(k), s))
}

// shKey: tick0 and the size of the registry as instance k sees them (the registry is one map for all instances)
func (w *world) shKey(k int) string {
	tk := w.insts[tTK][k].(*c08.TicksSinceStart)
	t0, _ := tk.VerifC08Tick0()
	nt, nh := tk.VerifC08RegistrySize()
	return fmt.Sprint(t0.Unix(), nt, nh)
}

func (w *world) shOf(k int) Sx {
	tk := w.insts[tTK][k].(*c08.TicksSinceStart)
	t0, _ := tk.VerifC08Tick0()
	reg := tk.VerifC08Commits()
	var ticks []int
	for t := range reg {
		ticks = append(ticks, t)
	}
	sort.Ints(ticks)
	var rs []Sx
	for _, t := range ticks {
		var ids []int
		for _, h := range reg[t] {
			ids = append(ids, w.commitID[h])
		}
		rs = append(rs, L(I(t), Ints(ids)))
	}
	return T("sh", I64(t0.Unix()), L(rs...))
}

// snapshot of every instance of every item
func (w *world) snapshot(touched map[int]bool) []Sx {
	// the instances of branches that the plan has deleted are no longer read ("x"): nobody will ask them again
	watch := func(k int) bool {
		if touched == nil || k <= 1 || touched[k] {
			return true
		}
		for _, i := range w.instOf {
			if i == k {
				return true
			}
		}
		return false
	}
	n := len(w.insts[tTD])
	if len(w.insts[tTK]) < n {
		n = len(w.insts[tTK])
	}
	if len(w.insts[tBC]) < n {
		n = len(w.insts[tBC])
	}
	var cs, prs, bds, diff []Sx
	for k := 0; k < n; k++ {
		if watch(k) {
			changed(&w.lastP, k, w.pSx(k), &cs)
		}
	}
	for k, it := range w.insts[tPR] {
		if watch(k) {
			changed(&w.lastPR, k, memDigest(it.(*probe).memory()), &prs)
		}
	}
	for k, it := range w.insts[tBD] {
		if watch(k) {
			changed(&w.lastBD, k, bdSx(it.(*leaves.BurndownAnalysis)), &bds)
		}
	}
	sh := w.shOf(0)
	shs := w.shKey(0)
	for k := 0; k < n; k++ {
		// every instance involved in the operation must (still) see the registry of the origin; all of them at the end
		if (touched == nil || touched[k]) && w.shKey(k) != shs {
			diff = append(diff, I(k))
		}
	}
	if w.scale && touched != nil && len(w.ops)%64 != 0 {
		sh = T("sh", A("=")) // large cases: the registry is written out every 64 operations
	}
	return []Sx{T("n", I(n), I(len(w.insts[tPR])), I(len(w.insts[tBD]))), T("copies", cs...), T("prs", prs...), T("bds", bds...), sh, T("shdiff", diff...)}
}

// ---------------------------------------------------------------------------------------------------------------
// the private twin: fresh, never forked instances fed with the instance's own history

func (w *world) fresh() (*c08.TreeDiff, *c08.BlobCache, *c08.TicksSinceStart) {
	td, bc, tk := &c08.TreeDiff{}, &c08.BlobCache{}, &c08.TicksSinceStart{}
	facts := map[string]interface{}{hercules.ConfigLogger: nopLogger{}}
	td.Configure(facts)
	bc.Configure(facts)
	tk.Configure(facts)
	tk.TickSize = time.Duration(w.in.size) * time.Hour
	if td.Initialize(w.repo) != nil || bc.Initialize(w.repo) != nil || tk.Initialize(w.repo) != nil {
		panic("initialize")
	}
	td.Configure(facts)
	bc.Configure(facts)
	tk.Configure(facts)
	tk.TickSize = time.Duration(w.in.size) * time.Hour
	return td, bc, tk
}

type outcome struct {
	who     string // "" = ok, else the item that failed: td | bc | tk
	changes object.Changes
	cache   map[plumbing.Hash]*c08.CachedBlob
	tick    int
	panic_  bool
}

func (w *world) outcomeSx(o outcome) Sx {
	if o.panic_ {
		return T("panic")
	}
	if o.who != "" {
		return T("err", A(o.who))
	}
	type chg struct {
		kind          string
		pid, from, to int
	}
	var cl []chg
	for _, ch := range o.changes {
		act, _ := ch.Action()
		switch act {
		case merkletrie.Insert:
			cl = append(cl, chg{"ins", unpathName(ch.To.Name), 0, w.blobID[ch.To.TreeEntry.Hash]})
		case merkletrie.Delete:
			cl = append(cl, chg{"del", unpathName(ch.From.Name), w.blobID[ch.From.TreeEntry.Hash], 0})
		default:
			cl = append(cl, chg{"mod", unpathName(ch.To.Name), w.blobID[ch.From.TreeEntry.Hash], w.blobID[ch.To.TreeEntry.Hash]})
		}
	}
	sort.Slice(cl, func(i, j int) bool { return cl[i].pid < cl[j].pid })
	var cs []Sx
	for _, x := range cl {
		cs = append(cs, T(x.kind, I(x.pid), I(x.from), I(x.to)))
	}
	type kv struct{ id, size int }
	var keys []kv
	for h, b := range o.cache {
		keys = append(keys, kv{w.blobID[h], len(b.Data)})
	}
	sort.Slice(keys, func(i, j int) bool { return keys[i].id < keys[j].id })
	var ks []Sx
	for _, k := range keys {
		ks = append(ks, L(I(k.id), I(k.size)))
	}
	return T("ok", T("changes", cs...), T("cache", ks...), T("tick", I(o.tick)))
}

// consumeOn runs the three items on one commit, as the pipeline does
func (w *world) consumeOn(td *c08.TreeDiff, bc *c08.BlobCache, tk *c08.TicksSinceStart, o plOpRec) (res outcome) {
	cm := w.objs[w.byID[o.commit]]
	_, panicked := Catch(func() {
		out3, err := tk.Consume(map[string]interface{}{hercules.DependencyCommit: cm, hercules.DependencyIndex: o.index})
		if err != nil {
			res.who = "tk"
			return
		}
		res.tick = out3[hercules.DependencyTick].(int)
		out, err := td.Consume(map[string]interface{}{hercules.DependencyCommit: cm, hercules.DependencyIndex: o.index})
		if err != nil {
			res.who = "td"
			return
		}
		res.changes = out[hercules.DependencyTreeChanges].(object.Changes)
		out2, err := bc.Consume(map[string]interface{}{hercules.DependencyCommit: cm, hercules.DependencyIndex: o.index,
			hercules.DependencyTreeChanges: res.changes})
		if err != nil {
			res.who = "bc"
			return
		}
		res.cache = out2[hercules.DependencyBlobCache].(map[plumbing.Hash]*c08.CachedBlob)
	})
	if panicked {
		res.panic_ = true
	}
	return
}

// twinT is a private twin: fresh instances that were never forked.  They are fed with the history of the instance
// they stand for (from scratch when the instance is created by a fork, then in step with it).
type twinT struct {
	td     *c08.TreeDiff
	bc     *c08.BlobCache
	tk     *c08.TicksSinceStart
	primed bool
}

func (w *world) newTwin(hist []plOpRec) *twinT {
	td, bc, tk := w.fresh()
	t := &twinT{td: td, bc: bc, tk: tk}
	for _, h := range hist {
		w.twinConsume(t, h)
	}
	return t
}

func (w *world) twinConsume(t *twinT, o plOpRec) outcome {
	if !t.primed && w.first != nil {
		// tick0 is shared by all instances of a run (the view of C08_twin_ticks): the twin reads the same one
		t.tk.Consume(map[string]interface{}{hercules.DependencyCommit: w.objs[w.byID[w.first.commit]], hercules.DependencyIndex: 0})
		t.primed = true
	}
	return w.consumeOn(t.td, t.bc, t.tk, o)
}

// ---------------------------------------------------------------------------------------------------------------
// from the logged calls to operations

func (w *world) note(format string, args ...interface{}) {
	if len(w.anomaly) < 5 {
		w.anomaly = append(w.anomaly, strings.ReplaceAll(strings.ReplaceAll(fmt.Sprintf(format, args...), " ", "_"), "(", "["))
	}
}

func (w *world) plan() []planLine {
	if w.in.opts&optDumpPlan != 0 {
		return w.dump
	}
	return w.printed
}

func (w *world) commitOfHash(hash string) int {
	for _, o := range w.objs {
		if o.Hash.String() == hash {
			return w.commitID[o.Hash]
		}
	}
	return -1
}

// stepDone: the plan step curStep is over.  Its calls become one operation; then the action is interpreted
// (which commits a branch is made of, which instance serves it).
func (w *world) stepDone() {
	var line *planLine
	if p := w.plan(); w.curStep >= 0 && w.curStep < len(p) {
		line = &p[w.curStep]
	}
	clones := w.flushWith(line)
	if line == nil {
		return
	}
	switch line.tag {
	case "E":
		b := line.items[0]
		w.lin[b] = nil
		switch {
		case b == 1:
			w.instOf[b] = 0
		case len(clones) == 1:
			w.instOf[b] = clones[0]
		default:
			w.instOf[b] = -1
		}
	case "F":
		for j, b := range line.items[1:] {
			w.lin[b] = append([]int{}, w.lin[line.items[0]]...)
			w.instOf[b] = -1
			if j < len(clones) {
				w.instOf[b] = clones[j]
			}
		}
	case "D":
		delete(w.lin, line.items[0])
		delete(w.instOf, line.items[0])
	case "C":
		b := line.items[0]
		w.lin[b] = append(append([]int{}, w.lin[b]...), w.commitOfHash(line.hash))
	}
}

func (w *world) flush() { w.flushWith(nil) }

// flush turns the calls logged since the last boundary into one operation and observes every instance
func (w *world) flushWith(line *planLine) (clones []int) {
	evs := w.events
	w.events = nil
	if len(evs) == 0 {
		return
	}
	kind := evs[0].kind
	// all items of a branch take part in a step with the same instance number
	lead := evs[0]
	for _, e := range evs {
		if e.kind != kind {
			w.note("mixed calls in one step: %s and %s", kind, e.kind)
		}
		if e.id != lead.id {
			w.note("%s: instance %d of %s and instance %d of %s in one step", kind, lead.id, typeNames[lead.typ], e.id, typeNames[e.typ])
		}
		if fmt.Sprint(e.clones) != fmt.Sprint(lead.clones) || fmt.Sprint(e.others) != fmt.Sprint(lead.others) {
			w.note("%s: the items of one branch disagree on the instances involved", kind)
		}
	}
	for len(w.hist) < len(w.insts[tTD]) {
		w.hist = append(w.hist, nil)
		w.twins = append(w.twins, nil)
	}
	if len(w.hist) > 0 && w.twins[0] == nil && len(w.ops) == 0 {
		w.twins[0] = w.newTwin(nil)
		if len(w.twins) > 1 {
			w.twins[1] = w.newTwin(nil)
		}
	}
	touched := map[int]bool{lead.id: true}
	var op Sx
	var fields []Sx
	switch kind {
	case "fork":
		op = T("fork", I(lead.id), I(len(lead.clones)))
		clones = lead.clones
		for _, c := range lead.clones {
			touched[c] = true
			if c < len(w.hist) && lead.id < len(w.hist) {
				w.hist[c] = append([]plOpRec{}, w.hist[lead.id]...)
				// the twin of a new instance: fresh items fed with the history so far (large cases: a sample of
				// the forks, one in max(8, commits/30); the other instances are judged by the frame / lineage
				// oracles and by the model only)
				every := len(w.in.commits) / 30
				if every < 8 {
					every = 8
				}
				if !w.scale || len(w.hist[c]) <= 40 || len(w.ops)%every == 0 {
					w.twins[c] = w.newTwin(w.hist[c])
				}
			}
		}
		fields = append(fields, T("r", T("fork")), T("twin", T("fork")))
	case "merge":
		op = T("merge", append([]Sx{I(lead.id)}, Ints(lead.others).List...)...)
		for _, o := range lead.others {
			touched[o] = true
		}
		fields = append(fields, T("r", T("merge")), T("twin", T("merge")))
	case "hib", "boot":
		op = T(kind, I(lead.id))
		fields = append(fields, T("r", T(lead.res)), T("twin", T("ok")))
	case "consume":
		c := -1
		if lead.commit != nil {
			c = w.commitID[lead.commit.Hash]
		}
		rec := plOpRec{commit: c, index: lead.index}
		op = T("consume", I(lead.id), I(c), I(lead.index))
		var o outcome
		var mem []int
		var saw Sx
		seen := map[int]bool{}
		for _, e := range evs {
			seen[e.typ] = true
			switch e.typ {
			case tTK:
				if e.res != "ok" {
					o.who = "tk"
				} else {
					o.tick, _ = e.out[hercules.DependencyTick].(int)
				}
			case tTD:
				if e.res != "ok" {
					o.who = "td"
				} else {
					o.changes, _ = e.out[hercules.DependencyTreeChanges].(object.Changes)
				}
			case tBC:
				if e.res != "ok" {
					o.who = "bc"
				} else {
					o.cache, _ = e.out[hercules.DependencyBlobCache].(map[plumbing.Hash]*c08.CachedBlob)
				}
			case tBD:
				if e.res != "ok" {
					o.who = "bd"
				}
			case tPR:
				mem, saw = e.mem, e.saw
			}
			if e.res == "panic" {
				o.panic_ = true
			}
		}
		if w.first == nil && lead.index == 0 {
			w.first = &rec
		}
		var hist []plOpRec
		if lead.id < len(w.hist) {
			hist = w.hist[lead.id]
		}
		twin := T("skip")
		if lead.id < len(w.twins) && w.twins[lead.id] != nil {
			twin = w.outcomeSx(w.twinConsume(w.twins[lead.id], rec))
		}
		fields = append(fields, T("r", w.outcomeSx(o)), T("twin", twin))
		if o.who == "" && !o.panic_ && lead.id < len(w.hist) {
			w.hist[lead.id] = append(append([]plOpRec{}, hist...), rec)
		}
		// what the instance has consumed so far (with its ancestors up to each fork), as the wrappers saw it
		var hids []int
		for _, h := range hist {
			hids = append(hids, h.commit)
		}
		if w.scale {
			fields = append(fields, T("hist", memDigest(hids)))
		} else {
			fields = append(fields, T("hist", Ints(hids).List...))
		}
		// the branch of the plan this Consume belongs to, and its history
		if line != nil && line.tag == "C" {
			if lead.commit == nil || line.hash != lead.commit.Hash.String() {
				w.note("the plan says commit %s, the items were given %d", line.hash[:7], c)
			}
			if w.scale {
				fields = append(fields, T("branch", I(line.items[0])), T("lin", memDigest(w.lin[line.items[0]])))
			} else {
				fields = append(fields, T("branch", I(line.items[0])), T("lin", Ints(w.lin[line.items[0]]).List...))
			}
		} else {
			w.note("a Consume outside a Commit action of the plan")
		}
		if seen[tPR] {
			if w.scale {
				fields = append(fields, T("mem", memDigest(mem)), saw)
			} else {
				fields = append(fields, T("mem", Ints(mem).List...), saw)
			}
		}
	}
	w.ops = append(w.ops, op)
	w.obs = append(w.obs, T("o", append(fields, w.snapshot(touched)...)...))
	return
}

type nopLogger struct{}

func (nopLogger) Info(...interface{})              {}
func (nopLogger) Infof(string, ...interface{})     {}
func (nopLogger) Warn(...interface{})              {}
func (nopLogger) Warnf(string, ...interface{})     {}
func (nopLogger) Error(...interface{})             {}
func (nopLogger) Errorf(string, ...interface{})    {}
func (nopLogger) Critical(...interface{})          {}
func (nopLogger) Criticalf(string, ...interface{}) {}

// ---------------------------------------------------------------------------------------------------------------
// one case

var baseDir string
var runCounter int
var curWorld *world

// hangTimeout bounds one run (twenty times as much for the large cases); memLimit bounds the heap
const hangTimeout = 30 * time.Second
const memLimit = 6 << 30

var memExceeded = make(chan struct{})
var hung bool

func init() {
	go func() {
		var ms runtime.MemStats
		for {
			time.Sleep(50 * time.Millisecond)
			runtime.ReadMemStats(&ms)
			if ms.HeapAlloc > memLimit {
				close(memExceeded)
				return
			}
		}
	}()
}

func emit(c *Config, fields []Sx) {
	c.Emit(fields...)
	if hung {
		os.RemoveAll(baseDir)
		c.Close()
		os.Exit(0)
	}
}

func planPrinter(args ...interface{}) {
	w := curWorld
	if w == nil || len(args) < 2 {
		return
	}
	l := planLine{tag: fmt.Sprint(args[0])}
	switch l.tag {
	case "C":
		l.items = []int{args[1].(int)}
		l.hash = fmt.Sprint(args[2])
	case "H", "B":
		l.items = []int{args[1].(int)}
	default:
		l.items = append([]int{}, args[1].([]int)...)
	}
	if w.in.opts&optDumpPlan != 0 && !w.dumpDone {
		w.dump = append(w.dump, l)
	} else {
		w.printed = append(w.printed, l)
	}
}

func runCase(in caseIn) []Sx {
	if in.opts&3 == 0 {
		in.opts |= optPrintActions // the plan must be visible one way or the other
	}
	w := &world{in: in, byID: map[int]int{}, blobID: map[plumbing.Hash]int{}, commitID: map[plumbing.Hash]int{},
		treeID: map[plumbing.Hash]int{}, lin: map[int][]int{}, instOf: map[int]int{}, curStep: -1, scale: in.kind == "run-scale"}
	nastyContent = !in.bd
	specs := make([]synth.CommitSpec, len(in.commits))
	for i, cm := range in.commits {
		if _, dup := w.byID[cm.id]; dup {
			continue
		}
		w.byID[cm.id] = i
		au := "a"
		if in.people {
			au = fmt.Sprintf("dev%d", cm.id%3)
		}
		aw, cw := commitWhen(cm.id, cm.time)
		sp := synth.CommitSpec{AuthorName: au, AuthorEmail: au + "@x", AuthorWhen: aw, CommitterWhen: cw, Message: fmt.Sprintf("c%d", cm.id)}
		for _, p := range cm.parents {
			if j, ok := w.byID[p]; ok && j < i {
				sp.Parents = append(sp.Parents, j)
			}
		}
		for _, e := range cm.tree {
			data := blobData(e[1])
			sp.Files = append(sp.Files, synth.FileSpec{Path: pathName(e[0]), Data: data, Mode: blobMode(e[1])})
			w.blobID[plumbing.ComputeHash(plumbing.BlobObject, data)] = e[1]
		}
		specs[i] = sp
	}
	repo, objs := synth.BuildRepo(specs)
	w.repo, w.objs = repo, objs
	for i, o := range objs {
		// go-git writes a negative time stamp as 0; the decoded commit object is given the intended times (see harness/cmd/c08)
		if aw, cw := commitWhen(in.commits[i].id, in.commits[i].time); aw.Unix() < 0 || cw.Unix() < 0 {
			o.Author.When, o.Committer.When = aw, cw
		}
		w.commitID[o.Hash] = in.commits[i].id
		if _, ok := w.treeID[o.TreeHash]; !ok {
			w.treeID[o.TreeHash] = in.commits[i].id
		}
	}
	pipeline := hercules.NewPipeline(repo)
	add := func(typ int, inner hercules.PipelineItem) *wrapItem {
		x := &wrapItem{w: w, typ: typ, inner: inner}
		x.id = w.register(typ, inner)
		return x
	}
	pipeline.AddItem(add(tTK, &c08.TicksSinceStart{}))
	pipeline.AddItem(add(tTD, &c08.TreeDiff{}))
	pipeline.AddItem(add(tBC, &c08.BlobCache{}))
	pr := &probe{w: w}
	pr.id = w.register(tPR, pr)
	pipeline.AddItem(pr)
	facts := map[string]interface{}{
		hercules.ConfigPipelineCommits: objs,
		factHibernationDistance:        in.dist,
		hercules.ConfigLogger:          nopLogger{},
		hercules.ConfigTickSize:        in.size,
		"FileDiff.Timeout":             600000,
	}
	if in.opts&optDumpPlan != 0 {
		facts[factDumpPlan] = true
	}
	if in.opts&optPrintActions != 0 {
		facts[factPrintActions] = true
	}
	if in.bd {
		pipeline.DeployItem(&wrapHib{add(tBD, &leaves.BurndownAnalysis{})})
		facts[leaves.ConfigBurndownGranularity] = 30
		facts[leaves.ConfigBurndownSampling] = 30
		facts[leaves.ConfigBurndownTrackFiles] = in.people
		facts[leaves.ConfigBurndownTrackPeople] = in.people
		facts[leaves.ConfigBurndownHibernationThreshold] = in.hth
		if in.hdisk {
			runCounter++
			w.hibDir = filepath.Join(baseDir, fmt.Sprintf("r%d", runCounter))
			os.MkdirAll(w.hibDir, 0755)
			facts[leaves.ConfigBurndownHibernationToDisk] = true
			facts[leaves.ConfigBurndownHibernationDirectory] = w.hibDir
		}
	}
	curWorld = w
	pipeline.OnProgress = func(step, total int, text string) {
		w.dumpDone = true
		w.stepDone()
		w.curStep = step - 1
	}
	status := "ok"
	done := make(chan struct{})
	var final []Sx
	go func() {
		defer close(done)
		_, panicked := Catch(func() {
			if err := pipeline.Initialize(facts); err != nil {
				status = "initfail"
				return
			}
			debug.SetGCPercent(400) // Initialize lowers it when the hibernation distance is positive
			if _, err := pipeline.Run(objs); err != nil {
				status = "err"
			}
		})
		if panicked {
			status = "panic"
		}
		_, _ = Catch(func() { w.stepDone() })
		// at the end every instance is read once more
		_, _ = Catch(func() { final = w.snapshot(nil) })
	}()
	// items that share an arena between branches can loop forever or allocate without end: the watchdog gives up,
	// the case is written with what was observed so far and the harness stops
	limit := hangTimeout
	if w.scale {
		limit = 20 * hangTimeout
	}
	timer := time.NewTimer(limit)
	select {
	case <-done:
		timer.Stop()
	case <-timer.C:
		status, hung = "hang", true
	case <-memExceeded:
		status, hung = "hang", true
	}
	curWorld = nil
	if w.hibDir != "" {
		os.RemoveAll(w.hibDir)
	}
	if in.opts&3 == 3 && status == "ok" {
		// the actions printed while running are the dumped plan
		if len(w.printed) != len(w.dump) {
			w.note("plan dump has %d actions, %d were executed", len(w.dump), len(w.printed))
		} else {
			for i := range w.dump {
				if w.dump[i].tag != w.printed[i].tag || fmt.Sprint(w.dump[i].items) != fmt.Sprint(w.printed[i].items) {
					w.note("action %d differs from the dumped plan", i)
					break
				}
			}
		}
	}
	// the instance numbers of the items of one branch agree
	for t := 0; t < nTypes; t++ {
		if (t != tBD || in.bd) && len(w.insts[t]) != len(w.insts[tTD]) {
			w.note("%d instances of %s, %d of td", len(w.insts[t]), typeNames[t], len(w.insts[tTD]))
		}
	}
	var cs, planSx, an []Sx
	kids := map[int]int{}
	roots := 0
	for _, cm := range in.commits {
		cs = append(cs, cm.sx())
		if len(cm.parents) == 0 {
			roots++
		}
		for _, p := range cm.parents {
			kids[p]++
		}
	}
	nt := roots > 1
	for _, k := range kids {
		if k > 1 {
			nt = true
		}
	}
	for _, l := range w.plan() {
		xs := Ints(l.items).List
		if l.tag == "C" {
			xs = append(xs, I(w.commitOfHash(l.hash)))
		}
		planSx = append(planSx, T(l.tag, xs...))
	}
	for _, a := range w.anomaly {
		an = append(an, A(a))
	}
	return []Sx{T("kind", A(in.kind)), T("nt", B(nt)), T("size", I(in.size)), T("dist", I(in.dist)), T("opts", I(in.opts)),
		T("bd", B(in.bd)), T("hth", I(in.hth)), T("hdisk", B(in.hdisk)), T("people", B(in.people)), T("commits", cs...),
		T("obs", T("run", A(status)), T("anomaly", an...), T("plan", planSx...), T("xops", w.ops...), T("xobs", w.obs...), T("final", final...))}
}

// ---------------------------------------------------------------------------------------------------------------
// generators

type histGen struct {
	rng      *rand.Rand
	size     int
	commits  []plCommit
	nextBlob int
	nextPid  int
	fixed    bool // no new files (large cases)
	wild     bool // arbitrary trees (deletions, the same blob under several paths); else every line of development edits its own files
	tmode    int  // round 4 (R4-3): 0 = as before; else a time regime, see nextTime / baseTime
}

const (
	sane1990   = int64(631152000)  // the "suspicious timestamp" constant of TicksSinceStart.Consume
	y2038      = int64(2147483647) // 2^31-1
	y2106      = int64(4294967295) // 2^32-1
	y2020      = int64(1583366400)
	wallFuture = int64(1830000000) // end of 2027: later than the wall clock of the runs (a constant: reproducible streams)
	tmZero     = 1                 // bogus (before 1990) times near the roots, every line of development jumps to its own sane date
	tmPre1970  = 2
	tmEpoch    = 3
	tm1990     = 4
	tm2038     = 5
	tm2106     = 6
	tmFuture   = 7
	tmEqual    = 8
	tmDecr     = 9
	nTmodes    = 10
)

// baseTime: the time of the roots in the regime
func baseTime(rng *rand.Rand, tmode int) int64 {
	around := func(c int64) int64 { return c + []int64{-86401, -86400, -2, -1, 0, 1, 2, 86399, 86400}[rng.Intn(9)] }
	switch tmode {
	case tmZero:
		return []int64{0, 0, 0, 1, -1, 86400, sane1990 - 1, -86400 * 365}[rng.Intn(8)]
	case tmPre1970:
		return -86400*365*4 + rng.Int63n(86400*3)
	case tmEpoch:
		return around(0) - rng.Int63n(3)*86400
	case tm1990:
		return around(sane1990)
	case tm2038:
		return around(y2038)
	case tm2106:
		return around(y2106)
	case tmFuture:
		return wallFuture + []int64{-1, 0, 1, 86400 * 365, 86400 * 3650}[rng.Intn(5)]
	case tmDecr:
		return y2020
	}
	return plBase + int64(rng.Intn(86400*3))
}

// nextTime: the committer time of the next commit of a line of development whose newest time is prev
func (g *histGen) nextTime(prev int64) int64 {
	rng, tick := g.rng, int64(3600*g.size)
	switch g.tmode {
	case tmZero:
		if prev < sane1990 {
			if rng.Intn(100) < 45 {
				return prev + []int64{0, 0, 1, tick, -1}[rng.Intn(5)]
			}
			return []int64{y2020, plBase, sane1990, sane1990 + 1}[rng.Intn(4)] + rng.Int63n(20*tick)
		}
	case tmEqual:
		return prev + []int64{0, 0, 0, 1, -1, tick, tick - 1, tick + 1, -tick}[rng.Intn(9)]
	case tmDecr:
		if rng.Intn(100) < 80 {
			return prev - rng.Int63n(3*tick)
		}
		return prev + rng.Int63n(2*tick)
	}
	dt := rng.Int63n(3 * tick)
	if rng.Intn(100) < 15 {
		dt = -rng.Int63n(2 * tick)
	}
	return prev + dt
}

func (g *histGen) treeOf(id int) map[int]int {
	m := map[int]int{}
	for _, e := range g.commits[id-1].tree {
		m[e[0]] = e[1]
	}
	return m
}

func sortedTree(m map[int]int) [][2]int {
	var res [][2]int
	for k, v := range m {
		res = append(res, [2]int{k, v})
	}
	sort.Slice(res, func(i, j int) bool { return res[i][0] < res[j][0] })
	return res
}

// line is one line of development: its tip and the files it owns
type line struct {
	tip  int
	own  []int
	time int64
}

// add appends a commit on the line: its own files change (a new version / a new file), the rest is inherited
func (g *histGen) add(l *line, parents []int) int {
	rng := g.rng
	m := map[int]int{}
	// a merge takes, file by file, the newest version among its parents (versions grow with the blob number and
	// every file is edited by one line of development only)
	for _, p := range parents {
		for k, v := range g.treeOf(p) {
			if v > m[k] {
				m[k] = v
			}
		}
	}
	if len(parents) <= 1 || rng.Intn(4) == 0 {
		for k := 1 + rng.Intn(2); k > 0; k-- {
			if len(l.own) == 0 || (!g.fixed && len(l.own) < 3 && rng.Intn(4) == 0) {
				g.nextPid++
				l.own = append(l.own, g.nextPid)
			}
			pid := l.own[rng.Intn(len(l.own))]
			g.nextBlob++
			m[pid] = g.nextBlob
		}
		if g.wild {
			switch rng.Intn(4) {
			case 0:
				if len(m) > 1 {
					ks := sortedTree(m)
					delete(m, ks[rng.Intn(len(ks))][0])
				}
			case 1:
				ks := sortedTree(m)
				g.nextPid++
				m[g.nextPid] = ks[rng.Intn(len(ks))][1] // an existing blob under another path
			}
		}
	}
	dt := int64(rng.Intn(3 * 3600 * g.size))
	switch rng.Intn(10) {
	case 0:
		dt = -int64(rng.Intn(2 * 3600 * g.size)) // committer time going backwards
	case 1:
		dt = 0
	}
	for _, p := range parents {
		if t := g.commits[p-1].time; t > l.time {
			l.time = t
		}
	}
	if g.tmode != 0 {
		if len(parents) > 0 { // the regime replaces the default step; a root carries the base time of its line
			l.time = g.nextTime(l.time)
		}
	} else {
		l.time += dt
	}
	id := len(g.commits) + 1
	g.commits = append(g.commits, plCommit{id: id, parents: append([]int{}, parents...), time: l.time, tree: sortedTree(m)})
	l.tip = id
	return id
}

func (g *histGen) chain(l *line, n int) {
	for ; n > 0; n-- {
		var ps []int
		if l.tip != 0 {
			ps = []int{l.tip}
		}
		g.add(l, ps)
	}
}

// grow advances several lines of development in a random interleaving (the numbering is the order of creation)
func (g *histGen) grow(ls []*line, lens []int) {
	left := 0
	for _, n := range lens {
		left += n
	}
	for left > 0 {
		i := g.rng.Intn(len(ls))
		if lens[i] == 0 {
			continue
		}
		lens[i]--
		left--
		g.chain(ls[i], 1)
	}
}

// genRootsForks: nroots unrelated histories (1..4 and sometimes more) that are merged into one trunk, and sections in
// which the trunk is forked arity ways (2..5, sometimes nested, sometimes up to 9), the arms grow side by side
// (1..maxArm commits each: long arms make the other branches sleep when the hibernation distance is small) and are
// merged again (octopus or one after the other); an arm may stay unmerged.
func genRootsForks(rng *rand.Rand, size, nroots, sections, maxArm int, wild bool, tmode int) []plCommit {
	g := &histGen{rng: rng, size: size, wild: wild, tmode: tmode}
	base := plBase + int64(rng.Intn(86400*3))
	if tmode != 0 {
		base = baseTime(rng, tmode)
	}
	var roots []*line
	var lens []int
	for i := 0; i < nroots; i++ {
		off := int64(rng.Intn(86400 * 2))
		if tmode == tmZero || tmode == tmEqual {
			off = 0
		}
		roots = append(roots, &line{time: base + off})
		lens = append(lens, 1+rng.Intn(maxArm))
	}
	// the trunk exists before the others in half of the cases
	if rng.Intn(2) == 0 {
		g.chain(roots[0], lens[0])
		lens[0] = 0
	}
	g.grow(roots, lens)
	trunk := roots[0]
	join := func(others []*line) {
		if len(others) == 0 {
			return
		}
		if rng.Intn(2) == 0 {
			ps := []int{trunk.tip}
			for _, o := range others {
				ps = append(ps, o.tip)
			}
			rng.Shuffle(len(ps), func(i, j int) { ps[i], ps[j] = ps[j], ps[i] })
			g.add(trunk, ps)
		} else {
			for _, o := range others {
				ps := []int{trunk.tip, o.tip}
				if rng.Intn(2) == 0 {
					ps[0], ps[1] = ps[1], ps[0]
				}
				g.add(trunk, ps)
				g.chain(trunk, rng.Intn(2))
			}
		}
	}
	// some roots join right away, the others after a fork section
	var late []*line
	var now []*line
	for _, r := range roots[1:] {
		if rng.Intn(3) == 0 {
			late = append(late, r)
		} else {
			now = append(now, r)
		}
	}
	join(now)
	g.chain(trunk, rng.Intn(3))
	for s := 0; s < sections; s++ {
		arity := 2 + rng.Intn(4)
		if rng.Intn(12) == 0 {
			arity = 6 + rng.Intn(4)
		}
		var arms []*line
		var alens []int
		for a := 0; a < arity; a++ {
			arms = append(arms, &line{tip: trunk.tip, time: trunk.time})
			alens = append(alens, 1+rng.Intn(maxArm))
		}
		g.grow(arms, alens)
		if rng.Intn(3) == 0 {
			// a nested fork inside one arm
			a := arms[rng.Intn(len(arms))]
			sub := []*line{{tip: a.tip, time: a.time}, {tip: a.tip, time: a.time}}
			g.grow(sub, []int{1 + rng.Intn(maxArm), 1 + rng.Intn(maxArm)})
			g.add(a, []int{sub[0].tip, sub[1].tip})
		}
		// the trunk is the first arm from now on
		trunk = arms[0]
		others := arms[1:]
		if len(others) > 1 && rng.Intn(5) == 0 {
			others = others[:len(others)-1] // one arm stays a head
		}
		if s == 0 {
			others = append(others, late...)
			late = nil
		}
		join(others)
		g.chain(trunk, rng.Intn(3))
	}
	join(late)
	return g.commits
}

// fromShape decorates a commit graph (parents[c] < c) with times and trees: every commit that has one parent at most
// continues the line of development of its first parent if it is that parent's first child, else it starts a new one
func fromShape(rng *rand.Rand, size int, parents [][]int, tmode int) []plCommit {
	g := &histGen{rng: rng, size: size, tmode: tmode}
	base := plBase + int64(rng.Intn(86400*3))
	if tmode != 0 {
		base = baseTime(rng, tmode)
	}
	lineOf := map[int]*line{}
	used := map[int]bool{}
	for _, ps := range parents {
		var l *line
		var ids []int
		for _, p := range ps {
			ids = append(ids, p+1)
		}
		if len(ps) > 0 && !used[ps[0]] {
			l = lineOf[ps[0]]
			used[ps[0]] = true
		}
		if l == nil {
			l = &line{time: base}
			if len(ps) > 0 {
				l.time = g.commits[ps[0]].time
			}
		}
		id := g.add(l, ids)
		lineOf[id-1] = l
	}
	return g.commits
}

var timeRegimes = true

func randomCase(rng *rand.Rand) caseIn {
	in := caseIn{kind: "run", size: []int{24, 24, 1, 168}[rng.Intn(4)], dist: rng.Intn(4), opts: 1 + rng.Intn(3)}
	in.bd = rng.Intn(100) < 55
	if in.bd {
		in.hth = []int{0, 0, 0, 3, 6, 10, 16, 24, 1000}[rng.Intn(9)]
		in.hdisk = rng.Intn(100) < 60
		in.people = rng.Intn(2) == 0
		if in.dist == 0 && rng.Intn(3) > 0 {
			in.dist = 1 + rng.Intn(3) // hibernation needs a distance
		}
	}
	nroots := 1 + rng.Intn(4)
	if rng.Intn(20) == 0 {
		nroots = 5 + rng.Intn(2)
	}
	// round 4 (R4-3 x R4-6): four runs in ten live in a time regime (with the burndown item: the contiguous ones only, its
	// ticks have 14 bits), a third of those with a tick size of 5 h / 25 h / 30 days
	tmode := 0
	if timeRegimes && rng.Intn(10) < 4 {
		tmode = 1 + rng.Intn(nTmodes-1)
		if in.bd && tmode == tmZero {
			tmode = tmEpoch
		}
		if rng.Intn(3) == 0 {
			in.size = []int{5, 25, 720}[rng.Intn(3)]
		}
	}
	switch x := rng.Intn(100); {
	case x < 70:
		in.commits = genRootsForks(rng, in.size, nroots, rng.Intn(3), 1+rng.Intn(5), !in.bd && rng.Intn(4) == 0, tmode)
		in.kind = fmt.Sprintf("run-r%d", nroots)
		if tmode != 0 {
			in.kind = fmt.Sprintf("run-t%d-r%d", tmode, nroots)
		}
	case x < 85:
		in.commits = fromShape(rng, in.size, synth.GenOctopusShape(rng, synth.OctoOpts{Roots: 1 + rng.Intn(3), Merges: 1 + rng.Intn(2),
			MinPar: 2, MaxPar: 5, MaxArm: 4, ExtraHead: true, SubMerge: true}), tmode)
		in.kind = "run-octo"
	case x < 93:
		in.commits = fromShape(rng, in.size, pl.WideGraph(rng, 14), tmode)
		in.kind = "run-wide"
	default:
		h := synth.GenHist(rng, synth.GenOpts{MaxCommits: 6 + rng.Intn(12), SingleHead: rng.Intn(2) == 0, SameTick: true, Paths: 1, Authors: 1})
		in.commits = fromShape(rng, in.size, h.Parents, tmode)
		in.kind = "run-gen"
	}
	if tmode != 0 && !strings.HasPrefix(in.kind, "run-t") {
		in.kind += fmt.Sprintf("-t%d", tmode)
	}
	return in
}

// directed small scope: r roots (chains of length a), merged; then a fork of arity k with arms of length a, merged by an
// octopus; every hibernation distance; with and without the burndown on disk
func directed(c *Config) {
	for r := 1; r <= 4; r++ {
		for k := 0; k <= 5; k++ {
			if k == 1 {
				continue
			}
			for a := 1; a <= 3; a++ {
				for d := 0; d <= 3; d++ {
					if !c.Thorough() && (a+d+r+k)%4 != 0 {
						continue
					}
					rng := rand.New(rand.NewSource(int64(r*1000 + k*100 + a*10 + d)))
					g := &histGen{rng: rng, size: 24}
					var roots []*line
					var lens []int
					for i := 0; i < r; i++ {
						roots = append(roots, &line{time: plBase})
						lens = append(lens, a)
					}
					// one root after the other: the trunk is idle while the later roots are analysed
					for i := range roots {
						g.chain(roots[i], lens[i])
					}
					trunk := roots[0]
					for _, o := range roots[1:] {
						g.add(trunk, []int{trunk.tip, o.tip})
					}
					if k >= 2 {
						var arms []*line
						for i := 0; i < k; i++ {
							arms = append(arms, &line{tip: trunk.tip, time: trunk.time})
						}
						for i := range arms {
							g.chain(arms[i], a)
						}
						ps := []int{}
						for _, x := range arms {
							ps = append(ps, x.tip)
						}
						g.add(arms[0], ps)
						g.chain(arms[0], 1)
					}
					in := caseIn{kind: "run-dir", size: 24, dist: d, opts: 1 + (r+k+a+d)%3, commits: g.commits}
					emit(c, runCase(in))
					in.bd, in.hdisk, in.hth, in.people = true, (r+k+a)%3 != 0, []int{0, 0, 8}[(r+a+d)%3], (k+d)%2 == 0
					if in.dist == 0 {
						in.dist = 1
					}
					emit(c, runCase(in))
				}
			}
		}
	}
}

// scale: long histories (the unit is commits / branches): a comb of n/4 forks of arity 2..5 along a trunk of n commits
func scaleCase(rng *rand.Rand, n int, bd bool) caseIn {
	g := &histGen{rng: rng, size: 24}
	g.nextPid, g.fixed = 12, true
	trunk := &line{time: plBase, own: []int{1, 6}}
	g.chain(trunk, 2)
	second := &line{time: plBase, own: []int{11, 12}}
	g.chain(second, 3)
	g.add(trunk, []int{trunk.tip, second.tip})
	for len(g.commits) < n {
		arity := 2 + rng.Intn(4)
		var arms []*line
		var lens []int
		for a := 0; a < arity; a++ {
			// the arms of one section edit different files, the sections follow each other: a pool of ten files
			arms = append(arms, &line{tip: trunk.tip, time: trunk.time, own: []int{a + 1, a + 6}})
			lens = append(lens, 1+rng.Intn(4))
		}
		g.grow(arms, lens)
		ps := []int{}
		for _, x := range arms {
			ps = append(ps, x.tip)
		}
		trunk = arms[0]
		g.add(trunk, ps)
		g.chain(trunk, rng.Intn(3))
	}
	in := caseIn{kind: "run-scale", size: 24, dist: 1 + rng.Intn(3), opts: 2, commits: g.commits, bd: bd}
	if bd {
		in.hdisk, in.hth = true, 0
	}
	return in
}

func parseCase(cs Sx) caseIn {
	in := caseIn{kind: "run"}
	geti := func(name string, def int) int {
		if f, ok := cs.Field(name); ok && len(f.Args()) > 0 {
			return f.Args()[0].Int()
		}
		return def
	}
	if k, ok := cs.Field("kind"); ok {
		in.kind = k.Args()[0].Atom
	}
	in.size, in.dist, in.opts = geti("size", 24), geti("dist", 0), geti("opts", 2)
	in.bd, in.hth, in.hdisk, in.people = geti("bd", 0) != 0, geti("hth", 0), geti("hdisk", 0) != 0, geti("people", 0) != 0
	if f, ok := cs.Field("commits"); ok {
		for _, x := range f.Args() {
			in.commits = append(in.commits, parsePlCommit(x))
		}
	}
	return in
}

func main() {
	c := Setup()
	defer c.Close()
	if dn, err := os.OpenFile(os.DevNull, os.O_WRONLY, 0); err == nil {
		os.Stderr = dn
	}
	debug.SetGCPercent(400)
	if pf := os.Getenv("C08_PROF"); pf != "" {
		f, _ := os.Create(pf)
		pprof.StartCPUProfile(f)
		defer pprof.StopCPUProfile()
	}
	var err error
	baseDir, err = os.MkdirTemp("", "c08run \u00a0\u00e9\xff%d\t-") // R4-1: white space, non-ASCII and invalid UTF-8 in the hibernation directory
	if err != nil {
		panic(err)
	}
	defer os.RemoveAll(baseDir)
	c14.SetPlanPrinter(planPrinter)
	if c.Replay != "" {
		for _, cs := range c.ReplayCases() {
			in := parseCase(cs)
			if len(in.commits) == 0 {
				continue
			}
			emit(c, runCase(in))
		}
		return
	}
	only := os.Getenv("C08RUN_ONLY")
	if only != "scale" {
		directed(c)
		for i := c.Count(400, 9000); i > 0; i-- {
			emit(c, runCase(randomCase(c.Rng)))
		}
	}
	if c.Tier != "search" && only != "noscale" {
		emit(c, runCase(scaleCase(c.Rng, 1000+c.Rng.Intn(20), false)))
		emit(c, runCase(scaleCase(c.Rng, 150+c.Rng.Intn(20), true)))
		if c.Thorough() {
			emit(c, runCase(scaleCase(c.Rng, 10000+c.Rng.Intn(100), false)))
			emit(c, runCase(scaleCase(c.Rng, 2000+c.Rng.Intn(100), true)))
		}
	}
}
