// Linear histories that combine several attribute changes of ONE file inside one commit and across consecutive
// commits (strengthening round 3, class R3-5 "special but legal values").
//
// The attributes of a file of a linear history: its name, its lines, text / binary / empty, present / absent.
// A commit may change any subset of them at once:
//
//	rename x edit (light: RenameAnalysis still pairs the blobs; heavy: it does not) x
//	{keep kind, text -> binary, binary -> text, -> empty, empty -> text}, or delete the path, or (re-)create a path
//	that was deleted before - as text, binary or empty -, also under the name another file gives up in the same commit.
//
// lincombo      : EVERY pair (op1 in commit 1, op2 in commit 2) of such compound operations on one file that starts as
//
//	text, binary or empty (root commit), next to a bystander text file, followed by one or two probing
//	commits (delete it, flip it, edit it, re-create it) which expose state left behind by the pair.
//
// lincombo-rnd  : random histories of 4..14 commits over up to five names with the same compound operations on several
//
//	files per commit, including name swaps and a new file on the name a renamed / deleted file had.
//
// The oracle is the linear clause of C01 (row sums = text lines alive at the sample, no negative cell, no error).
package main

import (
	"fmt"
	"math/rand"
	"sort"

	. "verifharness/lib"
	"verifharness/synth"
)

type lcFile struct {
	lines  []string
	binary bool // a NUL byte is placed at nul (0 = in front, 1 = in the middle, 2 = behind the last line)
	nul    int
	noEOL  bool
}

func (f *lcFile) clone() *lcFile {
	g := *f
	g.lines = append([]string{}, f.lines...)
	return &g
}

func (f *lcFile) render() []byte {
	var b []byte
	mid := len(f.lines) / 2
	for i, l := range f.lines {
		if f.binary && f.nul == 1 && i == mid {
			b = append(b, 0)
		}
		b = append(b, l...)
	}
	if f.noEOL && len(b) > 0 && b[len(b)-1] == '\n' {
		b = b[:len(b)-1]
	}
	if f.binary {
		switch {
		case f.nul == 0 || len(b) >= 7900:
			b = append([]byte{0}, b...)
		case f.nul == 2 || len(f.lines) == 0:
			b = append(b, 0)
		}
	}
	return b
}

// lines of about 20 bytes from a small vocabulary: repeated lines, blobs above RenameAnalysisMinimumSize (32 bytes)
func lcLine(rng *rand.Rand) string { return fmt.Sprintf("line %02d of the text\n", rng.Intn(9)) }

func lcNewText(rng *rand.Rand, n int) *lcFile {
	f := &lcFile{}
	for i := 0; i < n; i++ {
		f.lines = append(f.lines, lcLine(rng))
	}
	return f
}

// light edit: one line of the file inserted, removed or replaced (at least 80 % of the bytes stay: a renamed file is
// still paired); heavy edit: every line replaced by lines of another vocabulary
func (f *lcFile) edit(rng *rand.Rand, heavy bool) {
	if heavy {
		n := 1 + rng.Intn(6)
		f.lines = nil
		for i := 0; i < n; i++ {
			f.lines = append(f.lines, fmt.Sprintf("other %02d\n", rng.Intn(50)))
		}
		return
	}
	switch k := rng.Intn(3); {
	case k == 0 || len(f.lines) == 0:
		pos := rng.Intn(len(f.lines) + 1)
		f.lines = append(f.lines[:pos], append([]string{lcLine(rng)}, f.lines[pos:]...)...)
	case k == 1:
		pos := rng.Intn(len(f.lines))
		f.lines = append(f.lines[:pos], f.lines[pos+1:]...)
	default:
		f.lines[rng.Intn(len(f.lines))] = lcLine(rng)
	}
}

// compound operation on one file
type lcOp struct {
	del    bool
	create int // 1 text, 2 binary, 3 empty (only when the file is absent)
	rename bool
	edit   int // 0 none, 1 light, 2 heavy
	kind   int // 0 keep, 1 flip text <-> binary, 2 make empty, 3 empty -> text
}

func (o lcOp) String() string {
	return fmt.Sprintf("del%v-cr%d-ren%v-ed%d-k%d", o.del, o.create, o.rename, o.edit, o.kind)
}

// every compound operation that applies to a file in the given state (f == nil: absent)
func lcOpsFor(f *lcFile) []lcOp {
	if f == nil {
		return []lcOp{{}, {create: 1}, {create: 2}, {create: 3}}
	}
	empty := !f.binary && len(f.lines) == 0
	var ops []lcOp
	ops = append(ops, lcOp{del: true})
	for _, ren := range []bool{false, true} {
		for ed := 0; ed <= 2; ed++ {
			if empty && ed != 0 {
				continue
			}
			kinds := []int{0, 1, 2}
			if empty {
				kinds = []int{0, 1, 3}
			}
			for _, k := range kinds {
				if !ren && ed == 0 && k == 0 {
					continue // nothing happens
				}
				ops = append(ops, lcOp{rename: ren, edit: ed, kind: k})
			}
		}
	}
	return ops
}

// apply returns the new state and the new name ("" = the path is gone)
func lcApply(rng *rand.Rand, f *lcFile, name string, o lcOp, fresh func() string) (*lcFile, string) {
	if f == nil {
		switch o.create {
		case 1:
			return lcNewText(rng, 3+rng.Intn(10)), name
		case 2:
			g := lcNewText(rng, 3+rng.Intn(10))
			g.binary, g.nul = true, rng.Intn(3)
			return g, name
		case 3:
			return &lcFile{}, name
		}
		return nil, name
	}
	if o.del {
		return nil, name
	}
	g := f.clone()
	if o.edit > 0 {
		g.edit(rng, o.edit == 2)
	}
	switch o.kind {
	case 1:
		g.binary = !g.binary
		g.nul = rng.Intn(3)
	case 2:
		g.lines, g.binary = nil, false
	case 3:
		g = lcNewText(rng, 3+rng.Intn(6))
	}
	if rng.Intn(8) == 0 {
		g.noEOL = !g.noEOL
	}
	if o.rename {
		name = fresh()
	}
	return g, name
}

func lcSnapshot(files map[string]*lcFile, tick int) synth.LinearStep {
	snap := map[string][]byte{}
	for k, f := range files {
		snap[k] = f.render()
	}
	return synth.LinearStep{Tick: tick, Files: snap}
}

// lcPairs enumerates (initial state, op1, op2) and draws the probing commits.
func lcPairs(rng *rand.Rand, each func(lin []synth.LinearStep)) {
	for init := 0; init < 3; init++ {
		mk := func() *lcFile {
			switch init {
			case 0:
				return lcNewText(rng, 12)
			case 1:
				f := lcNewText(rng, 12)
				f.binary, f.nul = true, rng.Intn(3)
				return f
			}
			return &lcFile{}
		}
		for _, o1 := range lcOpsFor(mk()) {
			// the state after op1 decides which op2 apply: dry run on a copy of the generator state is not needed, the
			// SHAPE of the state (absent / empty / other) is what lcOpsFor looks at
			f1, _ := lcApply(rand.New(rand.NewSource(1)), mk(), "a", o1, func() string { return "b" })
			for _, o2 := range lcOpsFor(f1) {
				n := 0
				fresh := func() string { n++; return fmt.Sprintf("a%d", n) }
				files := map[string]*lcFile{"h": lcNewText(rng, 3)}
				name := "a"
				f := mk()
				files[name] = f
				tick := 0
				lin := []synth.LinearStep{lcSnapshot(files, tick)}
				step := func(o lcOp) {
					nf, nn := lcApply(rng, f, name, o, fresh)
					delete(files, name)
					f, name = nf, nn
					if f != nil {
						files[name] = f
					}
					if rng.Intn(2) == 0 {
						files["h"].edit(rng, false)
					}
					if rng.Intn(3) > 0 {
						tick += rng.Intn(3)
					}
					lin = append(lin, lcSnapshot(files, tick))
				}
				step(o1)
				step(o2)
				for k := 1 + rng.Intn(2); k > 0; k-- {
					ops := lcOpsFor(f)
					step(ops[rng.Intn(len(ops))])
				}
				each(lin)
			}
		}
	}
}

// lcRandom: several files, several compound operations per commit, names handed over inside one commit.
func lcRandom(rng *rand.Rand) []synth.LinearStep {
	names := []string{"a", "b", "c", "d", "e"}
	files := map[string]*lcFile{}
	n := 4 + rng.Intn(11)
	tick := 0
	var lin []synth.LinearStep
	for c := 0; c < n; c++ {
		// names given up in this commit can be taken by a rename or a creation of the same commit
		next := map[string]*lcFile{}
		for k, f := range files {
			next[k] = f
		}
		var present []string
		for k := range files {
			present = append(present, k)
		}
		sort.Strings(present)
		rng.Shuffle(len(present), func(i, j int) { present[i], present[j] = present[j], present[i] })
		k := 1 + rng.Intn(3)
		if c == 0 {
			k = 3
		}
		var vacated []string
		free := func() string {
			if len(vacated) > 0 && rng.Intn(2) == 0 {
				return vacated[rng.Intn(len(vacated))]
			}
			return names[rng.Intn(len(names))]
		}
		for ; k > 0; k-- {
			if len(present) > 0 && rng.Intn(4) > 0 {
				nm := present[0]
				present = present[1:]
				f := next[nm]
				if f != files[nm] {
					continue // the name was already re-used in this commit
				}
				ops := lcOpsFor(f)
				o := ops[rng.Intn(len(ops))]
				target := ""
				nf, nn := lcApply(rng, f, nm, o, func() string { target = free(); return target })
				if nn != nm {
					if g, taken := next[nn]; taken && g != nil {
						if rng.Intn(2) == 0 && files[nn] == g {
							// a swap: the other file takes this name
							next[nm], next[nn] = g, nf
							continue
						}
						nn = nm // the target is occupied: no rename after all
					}
				}
				delete(next, nm)
				if nf == nil || nn != nm {
					vacated = append(vacated, nm)
				}
				if nf != nil {
					next[nn] = nf
				}
			} else {
				nm := free()
				if _, taken := next[nm]; taken {
					continue
				}
				nf, _ := lcApply(rng, nil, nm, lcOp{create: 1 + rng.Intn(3)}, nil)
				if len(present) > 0 && rng.Intn(4) == 0 {
					// a copy of a file that exists: two changes of one commit meet in one blob hash (R3-3)
					if src := files[present[rng.Intn(len(present))]]; src != nil {
						nf = src.clone()
					}
				}
				next[nm] = nf
			}
		}
		if c > 1 && c < n-1 && rng.Intn(12) == 0 {
			next = map[string]*lcFile{} // every file removed: an empty tree, used again by the next commits
		}
		files = next
		if c > 0 && rng.Intn(3) > 0 {
			tick += rng.Intn(3)
		}
		lin = append(lin, lcSnapshot(files, tick))
	}
	return lin
}

func linComboFamily(c *Config) {
	rng := c.Rng
	reps := c.Count(1, 6)
	for r := 0; r < reps; r++ {
		lcPairs(rng, func(lin []synth.LinearStep) {
			in := &input{kind: "lincombo", lin: lin, keep: allIdx(len(lin))}
			params(rng, in, false)
			emit(c, in)
		})
	}
	for i := c.Count(300, 6000); i > 0; i-- {
		lin := lcRandom(rng)
		in := &input{kind: "lincombo-rnd", lin: lin, keep: allIdx(len(lin))}
		params(rng, in, false)
		emit(c, in)
	}
}
