Require Extraction.
Require Import ExtrOcamlBasic.
From Herc Require Import Base.Conv FileMerge.Model.
Extraction "c07_model.ml" conv_anchor flatten lines_merge file_merge rebuild analysis_merge collect_keys pack
  mark tick spec_lines spec_report_count wf_nodes_b no_mark_b lookup fork.
